/-
  Helper lemmas for `RV/Props/WakeupThms.lean`: list facts about the handler model; what one quiet step of the
  executor / of the release manager looks like (building on the step lemmas of RolloutThms / ReconcileThms).
-/
import RV.Model.Wakeup
import RV.Oracle.Wakeup
import RV.Props.ReconcileThms
namespace RV.Lemmas.Wakeup
open RV.Wakeup RV.Oracle.Wakeup

theorem annosEq_iff (a b : Option (List (String × String))) : annosEq a b = true ↔ a = b := by
  cases a <;> cases b <;> simp [annosEq]

theorem key_beq_self (k : Key) : (k == k) = true := by simp

/-- what `getRolloutForWorkload` returns is one of the `owners` -/
theorem getRollout_mem_owners (rs : List Obj) (ns name : String) (g : GVK) (r : Obj)
    (h : getRolloutForWorkload rs ns name g = some r) : r ∈ owners rs ns name g := by
  unfold getRolloutForWorkload at h
  have hm := List.mem_of_find?_eq_some h
  have hp := List.find?_some h
  rw [List.mem_filter] at hm
  unfold owners
  rw [List.mem_filter]
  exact ⟨hm.1, by simp [hm.2, hp]⟩

/-- `getRolloutForWorkload` finds nothing only when there is no owner -/
theorem getRollout_none_owners (rs : List Obj) (ns name : String) (g : GVK)
    (h : getRolloutForWorkload rs ns name g = none) : owners rs ns name g = [] := by
  unfold getRolloutForWorkload at h
  rw [List.find?_eq_none] at h
  unfold owners
  rw [List.filter_eq_nil_iff]
  intro r hr hc
  simp only [Bool.and_eq_true] at hc
  exact h r (by rw [List.mem_filter]; exact ⟨hr, hc.1⟩) hc.2

theorem owners_eq_filter_filter (xs : List Obj) (ns name : String) (g : GVK) :
    owners xs ns name g = (xs.filter (fun b => b.ns == ns)).filter (fun b => refMatches b.ref g name) := by
  unfold owners
  rw [List.filter_filter]
  congr 1
  funext b
  exact Bool.and_comm _ _

/-- what the `List` fall-back of `getBatchRelease` returns is one of the `owners` -/
theorem lastMatch_mem_owners (brs : List Obj) (ns name : String) (g : GVK) (b : Obj)
    (h : lastMatch brs ns name g = some b) : b ∈ owners brs ns name g := by
  unfold lastMatch at h
  rw [owners_eq_filter_filter]
  exact List.mem_of_getLast? h

theorem lastMatch_none_owners (brs : List Obj) (ns name : String) (g : GVK)
    (h : lastMatch brs ns name g = none) : owners brs ns name g = [] := by
  unfold lastMatch at h
  rw [owners_eq_filter_filter]
  exact List.getLast?_eq_none_iff.mp h

theorem owner_ns (xs : List Obj) (ns name : String) (g : GVK) (r : Obj) (h : r ∈ owners xs ns name g) :
    r.ns = ns ∧ refMatches r.ref g name = true ∧ r ∈ xs := by
  unfold owners at h
  rw [List.mem_filter] at h
  simp only [Bool.and_eq_true, beq_iff_eq] at h
  exact ⟨h.2.1, h.2.2, h.1⟩


/-! ### the executor -/
section executor
open RV.Executor

theorem initialized_of_phase (s : Status) (h : s.phase ≠ .empty) : initializedStatus s = s := by
  unfold initializedStatus; rw [if_neg h]

theorem syncInfo_ptc (br : BR) (ns : Status) (wl : Option Workload) (h : (syncInfo br ns wl).1 = .podTemplateChanged) :
    ∃ w, (syncInfo br ns wl).2 = some w ∧ w.updateRevision ≠ ns.updateRevision := by
  unfold syncInfo at h ⊢
  split at h
  · cases h
  · rename_i hd
    rw [if_neg hd]
    split at h
    · cases h
    · rename_i w
      split at h
      · cases h
      · rename_i h1
        rw [if_neg h1]
        split at h
        · cases h
        · rename_i h2
          rw [if_neg h2]
          split at h
          · cases h
          · rename_i h3
            rw [if_neg h3]
            split at h
            · cases h
            · rename_i h4
              rw [if_neg h4]
              split at h
              · rename_i h5
                rw [if_pos h5]
                exact ⟨w, rfl, h5.2⟩
              · cases h

/-- the sync step asked to stop and left the status as it was: the release rests in a waiting class
    (or is Completed, in deletion, and still carries its finalizer) -/
theorem sync_stop_quiet (br : BR) (wl : Option Workload)
    (hstop : (syncDecide br (initializedStatus br.status) (syncInfo br (initializedStatus br.status) wl).1
                (syncInfo br (initializedStatus br.status) wl).2).2 = true)
    (hsame : (syncStatus br (initializedStatus br.status) wl).status = br.status) :
    (brAwaits br wl).isSome = true ∨ (br.status.phase = .completed ∧ br.deleting = true ∧ br.hasFinalizer = true) := by
  unfold brAwaits
  simp only
  by_cases hc : br.status.phase = .completed
  · rw [if_pos hc]
    by_cases hd : br.deleting = true ∧ br.hasFinalizer = true
    · exact Or.inr ⟨hc, hd.1, hd.2⟩
    · left; rw [if_neg hd]; rfl
  · left
    rw [if_neg hc]
    unfold syncDecide at hstop
    simp only at hstop
    rw [if_neg hc] at hstop
    split at hstop
    · cases hstop
    · split at hstop
      · cases hstop
      · split at hstop
        · cases hstop
        · split at hstop
          · cases hstop
          · split at hstop
            · split at hstop <;> cases hstop
            · split at hstop
              · -- pod template changed while progressing: the executor stops on every round (class `superseded`)
                rename_i hptc
                rw [if_pos hptc]; rfl
              · split at hstop
                · rename_i hnptc hsr
                  rw [if_neg hnptc, if_pos hsr]; rfl
                · split at hstop
                  · rename_i hnptc hnsr hrb
                    rw [if_neg hnptc, if_neg hnsr, if_pos hrb]; rfl
                  · cases hstop


theorem normState_cases (ns : Status) :
    (normState ns).batchState = .upgrading ∨ (normState ns).batchState = .verifying ∨ (normState ns).batchState = .ready := by
  unfold normState
  split
  · left; rfl
  · rename_i h
    cases hb : ns.batchState <;> simp_all

/-- an execution that neither requeues nor fails: the batch is Ready and partitioned (status untouched), or the plan was
    finalised (phase Completed written) -/
theorem execute_quiet (br1 : BR) (st ns' : Status) (wl wl' : Option Workload) (hnc : st.phase ≠ .completed)
    (h : execute br1 st wl = .val (ns', wl', false, false)) :
    (ns' = st ∧ wl' = wl ∧ st.phase = .progressing ∧ st.batchState = .ready ∧ isPartitioned br1 = true) ∨
    (ns'.phase = .completed) := by
  unfold execute at h
  simp only at h
  split at h
  · unfold execPreparing at h
    simp only at h
    split at h
    · injection h with h; injection h with _ h; injection h with _ h; injection h with h _; cases h
    · injection h with h; injection h with _ h; injection h with _ h; injection h with _ h; cases h
  · rename_i hph
    unfold execProgressing at h
    simp only at h
    have hnp : normPhase st = st := by
      unfold normPhase at hph ⊢
      split
      · rename_i he; rw [if_pos he] at hph; simp at hph
      · rfl
    split at h
    · split at h
      · cases h
      · injection h with h; injection h with _ h; injection h with _ h; injection h with h _; cases h
      · injection h with h; injection h with _ h; injection h with _ h; injection h with _ h; cases h
    · split at h
      · cases h
      · injection h with h; injection h with _ h; injection h with _ h; injection h with h _; cases h
      · injection h with h; injection h with _ h; injection h with _ h; injection h with _ h; cases h
    · rename_i hready
      split at h
      · cases h
      · injection h with h; injection h with _ h; injection h with _ h; injection h with _ h; cases h
      · split at h
        · injection h with h; injection h with _ h; injection h with _ h; injection h with h _; cases h
        · rename_i hpart
          left
          injection h with h
          injection h with h1 h
          injection h with h2 h
          have hns : normState st = st := by
            rw [hnp] at hready
            unfold normState at hready ⊢
            split
            · rename_i he; rw [if_pos he] at hready; simp at hready
            · rfl
          rw [hnp, hns] at h1 hready
          rw [hnp] at hph
          exact ⟨h1.symm, h2.symm, hph, hready, by simpa using hpart⟩
    · rename_i h1 h2 h3
      rcases normState_cases (normPhase st) with hh | hh | hh
      · exact absurd hh h1
      · exact absurd hh h2
      · exact absurd hh h3
  · unfold execFinalizing at h
    simp only at h
    split at h
    · right
      injection h with h
      injection h with h1 h
      rw [← h1]
    · injection h with h; injection h with _ h; injection h with _ h; injection h with _ h; cases h
  · rename_i h1 h2 h3
    exfalso
    unfold normPhase at h1 h2 h3
    split at h1
    · exact h1 rfl
    · rename_i hne
      simp only [not_or] at hne
      cases hp : st.phase <;> simp_all


end executor

/-! ### the release manager -/
section rollout
open RV.Arith RV.Traffic RV.RolloutSM RV.Props.Rollout RV.Props.Reconcile

/-- a retry-style call that ends the round without error and without requeue was let through -/
theorem afterRetry_quiet (r : Option (Ctx × Bool × Bool)) (k : Ctx → RunOut) (c' : Ctx)
    (h : afterRetryCall r k = .ok c' false) (hrq : c'.requeue = false) :
    ∃ c1, r = some (c1, false, false) ∧ k c1 = .ok c' false := by
  unfold afterRetryCall at h
  split at h
  · cases h
  · rename_i c1 rt e
    split at h
    · simp only [RunOut.ok.injEq] at h; exact absurd h.2 (by simp)
    · rename_i he
      split at h
      · simp only [RunOut.ok.injEq] at h
        obtain ⟨hc, _⟩ := h
        subst hc
        simp at hrq
      · rename_i hr
        refine ⟨c1, ?_, h⟩
        simp only [Bool.not_eq_true] at he hr
        rw [he, hr]

theorem upgradeStep_state (ro : Rollout) (step : Step) (c c' : Ctx) (err : Bool) (h : upgradeStep ro step c = .ok c' err) :
    c'.sub.state = c.sub.state ∨ c'.sub.state = .trafficRouting ∨ c'.sub.state = .metricsAnalysis := by
  obtain ⟨_, _, _, _, h5⟩ := upgradeStep_spec ro step c c' err h
  rcases h5 with h5 | ⟨h5, _⟩
  · exact Or.inl h5
  · exact Or.inr h5

/-- `BeforeStepUpgrade` never rests: it ends in an error, a requeue, or another sub-state -/
theorem initStep_quiet (ro : Rollout) (step : Step) (c c' : Ctx) (h : initStep ro step c = .ok c' false)
    (hrq : c'.requeue = false) : c'.sub.state ≠ .init := by
  have enter : ∀ c1 : Ctx, upgradeStep ro step { c1 with sub := { c1.sub with state := .upgrade, lastUpdate := .fresh } } = .ok c' false →
      c'.sub.state ≠ .init := by
    intro c1 hu
    rcases upgradeStep_state _ _ _ _ _ hu with hh | hh | hh <;> rw [hh] <;> simp
  unfold initStep at h
  dsimp only at h
  split at h
  · split at h
    · simp only [RunOut.ok.injEq] at h
      obtain ⟨hc, _⟩ := h
      subst hc
      simp
    · obtain ⟨c1, _, hk⟩ := afterRetry_quiet _ _ _ h hrq
      obtain ⟨c2, _, hk2⟩ := afterRetry_quiet _ _ _ hk hrq
      exact enter c2 hk2
  · obtain ⟨c1, _, hk⟩ := afterRetry_quiet _ _ _ h hrq
    exact enter c1 hk

/-- **one sub-state action that changes nothing and asks for nothing** happens only in `StepUpgrade` (waiting for the
    BatchRelease) and in `StepPaused` of a manual pause (waiting for the approval) — or in the states `Completed` / unknown,
    which `runCanary` does not act on -/
theorem stateStep_quiet (ro : Rollout) (step : Step) (c c' : Ctx) (h : stateStep ro step c = .ok c' false)
    (hrq0 : c.requeue = false) (hrq : c'.requeue = false) (hst : c'.sub.state = c.sub.state) (hcur : c'.sub.curIdx = c.sub.curIdx) :
    c.sub.state = .upgrade ∨ (c.sub.state = .paused ∧ step.pause = .manual) ∨ c.sub.state = .completed ∨ c.sub.state = .other := by
  unfold stateStep at h
  cases hs : c.sub.state <;> simp only [hs] at h
  case init =>
    exfalso
    have := initStep_quiet ro step c c' h hrq
    rw [hst, hs] at this
    exact this rfl
  case upgrade => exact Or.inl rfl
  case trafficRouting =>
    exfalso
    split at h
    · cases h
    · split at h
      · simp only [RunOut.ok.injEq] at h; exact absurd h.2 (by simp)
      · split at h
        · simp only [RunOut.ok.injEq] at h; obtain ⟨hc, _⟩ := h; subst hc; simp at hrq
        · simp only [RunOut.ok.injEq] at h; obtain ⟨hc, _⟩ := h; subst hc; simp at hrq
  case metricsAnalysis =>
    exfalso
    simp only [RunOut.ok.injEq] at h; obtain ⟨hc, _⟩ := h; subst hc
    rw [hs] at hst; simp at hst
  case paused =>
    split at h
    · cases h
    · exfalso
      simp only [RunOut.ok.injEq] at h; obtain ⟨hc, _⟩ := h; subst hc
      rw [hs] at hst; simp at hst
    · rename_i rq hp
      simp only [RunOut.ok.injEq] at h; obtain ⟨hc, _⟩ := h; subst hc
      simp only [Bool.or_eq_false_iff] at hrq
      obtain ⟨_, hrq⟩ := hrq
      subst hrq
      right; left
      refine ⟨rfl, ?_⟩
      unfold doCanaryPaused at hp
      split at hp
      · cases hp
      · cases hpp : step.pause <;> simp only [hpp] at hp
        · rfl
        · cases hl : c.sub.lastUpdate <;> simp only [hl] at hp <;> cases hp
        · cases hl : c.sub.lastUpdate <;> simp only [hl] at hp <;> cases hp
  case ready =>
    exfalso
    split at h
    · simp only [RunOut.ok.injEq] at h; obtain ⟨hc, _⟩ := h; subst hc
      simp only at hcur; omega
    · simp only [RunOut.ok.injEq] at h; obtain ⟨hc, _⟩ := h; subst hc
      rw [hs] at hst; simp at hst
  case completed => exact Or.inr (Or.inr (Or.inl rfl))
  case other => exact Or.inr (Or.inr (Or.inr rfl))


theorem nextBatchIndex_ne (n x : Int) (hx : 0 < x) : nextBatchIndex n x ≠ x := by
  unfold nextBatchIndex; split <;> omega

/-- **one round of the release manager that changes neither the sub-state, nor the step, nor (up to the in-memory correction)
    the next step, and neither fails nor asks to be called again** — only in `StepUpgrade`, in a manual pause, or in the states
    it does not act on -/
theorem runCanary_quiet (c0 c : Ctx) (h : runCanary c0 = .ok c false) (hrq0 : c0.requeue = false) (hrq : c.requeue = false)
    (hst : c.sub.state = c0.sub.state) (hcur : c.sub.curIdx = c0.sub.curIdx)
    (hnext : c.sub.nextIdx = c0.sub.nextIdx ∨ c0.sub.nextIdx = nextBatchIndex c0.ro.steps.length c0.sub.curIdx) :
    c0.sub.state = .upgrade ∨
    (c0.sub.state = .paused ∧ ∃ st, c0.ro.steps[(c0.sub.curIdx - 1).toNat]? = some st ∧ st.pause = .manual) ∨
    c0.sub.state = .completed ∨ c0.sub.state = .other := by
  obtain ⟨y1, y2, y3, y4, _⟩ := syncStep_sub c0
  have yrq : (syncStep c0).requeue = c0.requeue := by
    unfold syncStep; dsimp only
    cases c0.br with
    | none => dsimp only
    | some b => dsimp only; split <;> rfl
  unfold runCanary at h
  dsimp only at h
  split at h
  · cases h
  · -- jumped: the step index becomes the requested one, the next index its successor
    rename_i s2 hj
    exfalso
    simp only [RunOut.ok.injEq] at h
    obtain ⟨hc, _⟩ := h
    subst hc
    dsimp only at hst hcur hnext
    unfold doCanaryJump at hj
    dsimp only at hj
    split at hj
    · cases hj
    · split at hj
      · rename_i hreq
        split at hj
        · cases hj
        · simp only [Option.some.injEq, Prod.mk.injEq, and_true] at hj
          subst hj
          dsimp only at hcur hnext
          rw [y1, y2] at hreq
          rw [y2] at hcur hnext
          rcases hnext with hn | hn
          · exact nextBatchIndex_ne _ _ hreq.2 hn
          · exact hreq.1 hn
      · simp only [Option.some.injEq, Prod.mk.injEq] at hj
        exact absurd hj.2 (by simp)
  · rename_i s2 hj
    have hs2 : s2 = (syncStep c0).sub := by
      unfold doCanaryJump at hj
      dsimp only at hj
      split at hj
      · cases hj
      · split at hj
        · split at hj
          · cases hj
          · simp only [Option.some.injEq, Prod.mk.injEq] at hj; exact absurd hj.2 (by simp)
        · simp only [Option.some.injEq, Prod.mk.injEq] at hj; exact hj.1.symm
    subst hs2
    split at h
    · cases h
    · rename_i step hstep
      split at h
      · cases h
      · rename_i c3 d e hpre
        have hc3 : c3.sub.curIdx = c0.sub.curIdx ∧ c3.sub.state = c0.sub.state ∧ c3.requeue = false := by
          unfold preStep at hpre
          split at hpre
          · obtain ⟨a, b, _, _, _, _, _⟩ := callTM_sub _ _ _ _ _ _ hpre
            refine ⟨a.trans y1, b.trans y3, ?_⟩
            unfold callTM at hpre
            split at hpre
            · cases hpre
            · simp only [Option.some.injEq, Prod.mk.injEq] at hpre
              obtain ⟨hc, _, _⟩ := hpre
              subst hc
              dsimp only
              rw [yrq, hrq0]
          · simp only [Option.some.injEq, Prod.mk.injEq] at hpre
            obtain ⟨hc, _, _⟩ := hpre
            subst hc
            exact ⟨y1, y3, by dsimp only; rw [yrq, hrq0]⟩
        split at h
        · simp only [RunOut.ok.injEq] at h; exact absurd h.2 (by simp)
        · split at h
          · simp only [RunOut.ok.injEq] at h; obtain ⟨hc, _⟩ := h; subst hc; simp at hrq
          · have hq := stateStep_quiet c0.ro step c3 c h hc3.2.2 hrq (hst.trans hc3.2.1.symm) (hcur.trans hc3.1.symm)
            rw [hc3.2.1] at hq
            rcases hq with hq | ⟨hq, hm⟩ | hq | hq
            · exact Or.inl hq
            · right; left
              refine ⟨hq, step, ?_, hm⟩
              rw [← y1]; exact hstep
            · exact Or.inr (Or.inr (Or.inl hq))
            · exact Or.inr (Or.inr (Or.inr hq))


/-- what an unchanged (up to the in-memory next-index correction) Rollout object means field by field -/
theorem normRo_fields (a b : Rollout) (h : normRo a = normRo b) :
    a.reason = b.reason ∧ a.phase = b.phase ∧ a.term = b.term ∧ a.steps = b.steps ∧ a.hasFinalizer = b.hasFinalizer ∧
    a.sub.map (normSub a.steps.length) = b.sub.map (normSub b.steps.length) := by
  unfold normRo at h
  have e1 := congrArg Rollout.reason h
  have e2 := congrArg Rollout.phase h
  have e3 := congrArg Rollout.term h
  have e4 := congrArg Rollout.steps h
  have e5 := congrArg Rollout.hasFinalizer h
  have e6 := congrArg Rollout.sub h
  exact ⟨e1, e2, e3, e4, e5, e6⟩

theorem normSub_fields (n : Int) (a b : Sub) (h : normSub n a = normSub n b) :
    a.state = b.state ∧ a.curIdx = b.curIdx ∧ a.hash = b.hash ∧ a.canaryRev = b.canaryRev ∧
    (a.nextIdx = b.nextIdx ∨ b.nextIdx ≤ 0 ∨ b.nextIdx > n ∨ b.nextIdx = nextBatchIndex n a.curIdx) := by
  have hst : (normSub n a).state = a.state ∧ (normSub n a).curIdx = a.curIdx ∧ (normSub n a).hash = a.hash ∧ (normSub n a).canaryRev = a.canaryRev := by
    unfold normSub; split <;> exact ⟨rfl, rfl, rfl, rfl⟩
  have hst' : (normSub n b).state = b.state ∧ (normSub n b).curIdx = b.curIdx ∧ (normSub n b).hash = b.hash ∧ (normSub n b).canaryRev = b.canaryRev := by
    unfold normSub; split <;> exact ⟨rfl, rfl, rfl, rfl⟩
  refine ⟨?_, ?_, ?_, ?_, ?_⟩
  · rw [← hst.1, h, hst'.1]
  · rw [← hst.2.1, h, hst'.2.1]
  · rw [← hst.2.2.1, h, hst'.2.2.1]
  · rw [← hst.2.2.2, h, hst'.2.2.2]
  · have hn := congrArg Sub.nextIdx h
    unfold normSub at hn
    by_cases hb : b.nextIdx ≤ 0 ∨ b.nextIdx > n
    · rcases hb with hb | hb
      · exact Or.inr (Or.inl hb)
      · exact Or.inr (Or.inr (Or.inl hb))
    · rw [if_neg hb] at hn
      split at hn
      · right; right; right; exact hn.symm
      · left; exact hn

theorem doCanaryJump_hash (ro : Rollout) (s s' : Sub) (j : Bool) (h : doCanaryJump ro s = some (s', j)) : s'.hash = s.hash := by
  unfold doCanaryJump at h
  dsimp only at h
  split at h
  · cases h
  · split at h
    · split at h
      · cases h
      · simp only [Option.some.injEq, Prod.mk.injEq] at h; rw [← h.1]
    · simp only [Option.some.injEq, Prod.mk.injEq] at h; rw [← h.1]

/-- **the in-rolling dispatch, when it changes nothing and asks for nothing** -/
theorem inRolling_quiet (w : World) (ns : Rollout) (s os : Sub) (wl : WL) (r0 : StepResult)
    (hos : w.ro.sub = some os) (hsame : Same w.ro ns) (hs : ns.sub = some s) (hcore : subCore s = subCore os)
    (hreason : w.ro.reason = .inRolling)
    (h : inRolling w w.ro ns s wl = .val r0) (herr : r0.err = false) (hrq : r0.requeue = false)
    (hro : normRo r0.w.ro = normRo w.ro) :
    (w.ro.style = .blueGreen ∧ continuousRelease os wl = true) ∨
    (rollingNormally w.ro os wl = true ∧ (os.state = .upgrade ∨
      (os.state = .paused ∧ ∃ st, w.ro.steps[(os.curIdx - 1).toNat]? = some st ∧ st.pause = .manual) ∨ os.state = .other)) := by
  obtain ⟨f1, f2, f3, f4, f5, f6⟩ := normRo_fields _ _ hro
  simp only [subCore, Prod.mk.injEq] at hcore
  obtain ⟨k1, k2, k3, k4, k5, k6, k7⟩ := hcore
  have hsteps : ns.steps = w.ro.steps := hsame.1
  rw [hos] at f6
  unfold inRolling at h
  dsimp only at h
  rw [hos] at h
  dsimp only at h
  split at h
  · -- rollback: Cancelling
    exfalso
    simp only [Out.val.injEq] at h; subst h
    dsimp only at f1; rw [hreason] at f1; cases f1
  · rename_i hA
    split at h
    · exfalso
      simp only [Out.val.injEq] at h; subst h
      dsimp only at f1; rw [hreason] at f1; cases f1
    · rename_i hB
      split at h
      · -- rollback in batches: the canary revision changes
        rename_i hrb
        exfalso
        simp only [Out.val.injEq] at h; subst h
        dsimp only at f6 f4
        simp only [Option.map_some, Option.some.injEq] at f6
        rw [f4] at f6
        have := (normSub_fields _ _ _ f6).2.2.2.1
        exact hrb.2.1 this
      · rename_i hC
        split at h
        · -- continuous release
          rename_i hcont
          split at h
          · rename_i hbg
            left
            refine ⟨by rw [← hsame.2.2.1]; exact hbg, ?_⟩
            unfold continuousRelease
            simp only [Bool.and_eq_true, bne_iff_ne, ne_eq, Bool.not_eq_true']
            exact ⟨⟨hcont.1, hcont.2.1⟩, by simpa using hcont.2.2⟩
          · exfalso
            split at h
            · cases h
            · split at h
              · simp only [Out.val.injEq] at h; subst h; cases herr
              · split at h
                · simp only [Out.val.injEq] at h; subst h
                  unfold ofCtx at f6; dsimp only at f6
                  simp at f6
                · simp only [Out.val.injEq] at h; subst h; cases hrq
        · rename_i hD
          have hnorm : rollingNormally w.ro os wl = true := by
            unfold rollingNormally continuousRelease
            have hp : w.ro.paused = false := by
              have := hsame.2.2.2.1
              rw [← this]; simpa using hB
            have hnr : ¬ (wl.inRollback = true ∧ wl.canaryRev ≠ os.canaryRev) := by
              intro hh
              by_cases hib : ¬ ns.hasTraffic = true ∧ ns.realPartition = true ∧ ns.rollbackInBatch = true
              · exact hC ⟨hh.1, hh.2, hib⟩
              · exact hA ⟨hh.1, hh.2, hib⟩
            simp only [hp, Bool.not_false, Bool.true_and, Bool.and_eq_true, Bool.not_eq_true', Bool.and_eq_false_iff,
              bne_eq_false_iff_eq, Bool.not_eq_false', bne_iff_ne, ne_eq]
            constructor
            · by_cases h1 : os.canaryRev = ""
              · exact Or.inl (Or.inl h1)
              · by_cases h2 : wl.canaryRev = os.canaryRev
                · exact Or.inl (Or.inr h2)
                · right
                  by_cases h3 : wl.inRollback = true
                  · exact h3
                  · exact absurd ⟨h1, h2, h3⟩ hD
            · by_cases h3 : wl.inRollback = true
              · right
                by_cases h2 : wl.canaryRev = os.canaryRev
                · exact h2
                · exact absurd ⟨h3, h2⟩ hnr
              · left; simpa using h3
          split at h
          · -- plan changed: the hash is brought up to date
            rename_i hpc
            exfalso
            split at h
            · cases h
            · split at h
              · simp only [Out.val.injEq] at h; subst h
                dsimp only at f6 f4
                simp only [Option.map_some, Option.some.injEq] at f6
                rw [f4] at f6
                have := (normSub_fields _ _ _ f6).2.2.1
                exact hpc.2 this.symm
              · split at h
                · cases h
                · rename_i s2 j hj
                  simp only [Out.val.injEq] at h; subst h
                  dsimp only at f6 f4
                  simp only [Option.map_some, Option.some.injEq] at f6
                  rw [f4] at f6
                  have := (normSub_fields _ _ _ f6).2.2.1
                  rw [doCanaryJump_hash _ _ _ _ hj] at this
                  exact hpc.2 this.symm
          · split at h
            · -- Completed: reason Finalising
              exfalso
              simp only [Out.val.injEq] at h; subst h
              dsimp only at f1; rw [hreason] at f1; cases f1
            · rename_i hncomp
              split at h
              · cases h
              · rename_i c e hrun
                simp only [Out.val.injEq] at h; subst h
                dsimp only at herr hrq
                subst herr
                unfold ofCtx at f6 f4
                dsimp only at f6 f4
                simp only [Option.map_some, Option.some.injEq] at f6
                rw [f4] at f6
                obtain ⟨g1, g2, _, _, g5⟩ := normSub_fields _ _ _ f6
                have hq := runCanary_quiet _ c hrun rfl hrq
                  (by unfold toCtx; dsimp only; rw [g1]; split <;> simp [k3])
                  (by unfold toCtx; dsimp only; rw [g2]; split <;> simp [k1])
                  (by
                    unfold toCtx; dsimp only
                    rw [hsteps]
                    split
                    · right; rfl
                    · rename_i hleg
                      rw [k2] at hleg ⊢
                      rcases g5 with g5 | g5 | g5 | g5
                      · left; exact g5
                      · exact absurd (Or.inl g5) hleg
                      · exact absurd (Or.inr g5) hleg
                      · right; rw [k1, ← g2]; exact g5)
                unfold toCtx at hq
                dsimp only at hq
                have e1 : (if s.nextIdx ≤ 0 ∨ s.nextIdx > ↑ns.steps.length then { s with nextIdx := nextBatchIndex (↑ns.steps.length) s.curIdx } else s).state = os.state := by
                  split <;> simp [k3]
                have e2 : (if s.nextIdx ≤ 0 ∨ s.nextIdx > ↑ns.steps.length then { s with nextIdx := nextBatchIndex (↑ns.steps.length) s.curIdx } else s).curIdx = os.curIdx := by
                  split <;> simp [k1]
                rw [e1, e2, hsteps] at hq
                rcases hq with hq | hq | hq | hq
                · exact Or.inr ⟨hnorm, Or.inl hq⟩
                · exact Or.inr ⟨hnorm, Or.inr (Or.inl hq)⟩
                · exfalso; apply hncomp; rw [k3]; exact hq
                · exact Or.inr ⟨hnorm, Or.inr (Or.inr hq)⟩


/-! the status calculation outside a release -/

/-- the phase the status calculation leaves, for a live rollout whose workload can be read -/
theorem cs_phase_some (ro ns : Rollout) (w : WL) (h : calculateStatus ro (some w) = some ns) (hd : ro.deleting = false) :
    ns.phase = (csPhase ro (csObserve (csInitial (csDisable ro)) w) w).phase := by
  unfold calculateStatus at h
  rw [if_neg (by simp [hd])] at h
  dsimp only at h
  split at h
  · cases h
  · injection h with h; rw [← h]

theorem cs_phase_none (ro ns : Rollout) (h : calculateStatus ro none = some ns) (hd : ro.deleting = false) :
    ns.phase = if ¬ ro.disabled then .initial else (csInitial (csDisable ro)).phase := by
  unfold calculateStatus at h
  rw [if_neg (by simp [hd])] at h
  dsimp only at h
  split at h
  · injection h with h; rw [← h]; rename_i hh; rw [if_pos hh]
  · injection h with h; rw [← h]; rename_i hh; rw [if_neg hh]

theorem cs_phase_deleting (ro ns : Rollout) (wl : Option WL) (h : calculateStatus ro wl = some ns) (hd : ro.deleting = true) :
    ns.phase = .terminating := by
  unfold calculateStatus at h
  rw [if_pos hd] at h
  injection h with h
  rw [← h]
  split
  · rfl
  · rename_i hh; simpa using hh

/-- the phase after `csDisable`, `csInitial` and the per-phase switch, as a function of the three things it depends on -/
def phaseAfter (p : Phase) (disabled inProg : Bool) : Phase :=
  let p0 := if disabled ∧ p ≠ .disabled ∧ p ≠ .disabling then (if p = .progressing then Phase.disabling else .disabled) else p
  let p1 := if p0 = .empty then Phase.initial else p0
  match p1 with
  | .initial => .healthy
  | .healthy => if inProg then .progressing else .healthy
  | .disabled => if ¬ disabled then .healthy else .disabled
  | q => q

theorem csDisable_phase_eq (ro : Rollout) :
    (csDisable ro).phase = if ro.disabled ∧ ro.phase ≠ .disabled ∧ ro.phase ≠ .disabling then (if ro.phase = .progressing then Phase.disabling else .disabled) else ro.phase := by
  unfold csDisable
  split
  · split <;> rfl
  · rfl

theorem csInitial_phase_eq (ro : Rollout) : (csInitial ro).phase = if ro.phase = .empty then Phase.initial else ro.phase := by
  unfold csInitial; split <;> rfl

theorem csPhase_phase_eq (ro ns : Rollout) (w : WL) :
    (csPhase ro ns w).phase = (match ns.phase with
      | .initial => Phase.healthy
      | .healthy => if w.inProgressAnno then .progressing else .healthy
      | .disabled => if ¬ ro.disabled then .healthy else .disabled
      | q => q) := by
  unfold csPhase
  split
  · rename_i hh; simp only [hh]
  · rename_i hh; simp only [hh]; split
    · rfl
    · split <;> simp [hh]
  · rename_i hh; simp only [hh]; split <;> simp [hh]
  · rename_i h1 h2 h3
    cases hp : ns.phase <;> simp_all

theorem cs_phase_some' (ro ns : Rollout) (w : WL) (h : calculateStatus ro (some w) = some ns) (hd : ro.deleting = false) :
    ns.phase = phaseAfter ro.phase ro.disabled w.inProgressAnno := by
  rw [cs_phase_some ro ns w h hd, csPhase_phase_eq, (csObserve_same _ w).2.2, csInitial_phase_eq, csDisable_phase_eq]
  unfold phaseAfter
  simp only [Bool.not_eq_true]

/-- phases other than Progressing / Terminating / Disabling: an unchanged phase means the rollout is waiting -/
theorem cs_rest (ro ns : Rollout) (wl : Option WL) (h : calculateStatus ro wl = some ns) (hp : ns.phase = ro.phase) :
    (ro.phase = .initial → wl = none) ∧
    (ro.phase = .healthy → ∃ w, wl = some w ∧ w.inProgressAnno = false) ∧
    (ro.phase = .disabled → ro.disabled = true) ∧
    (ro.phase ≠ .empty) := by
  cases hd : ro.deleting
  · cases wl with
    | none =>
      have := cs_phase_none ro ns h hd
      rw [hp, csInitial_phase_eq, csDisable_phase_eq] at this
      refine ⟨fun _ => rfl, ?_, ?_, ?_⟩
      · intro hh; rw [hh] at this; exfalso; revert this; cases ro.disabled <;> simp
      · intro hh; rw [hh] at this; revert this; cases ro.disabled <;> simp
      · intro hh; rw [hh] at this; revert this; cases ro.disabled <;> simp
    | some w =>
      have := cs_phase_some' ro ns w h hd
      rw [hp] at this
      refine ⟨?_, ?_, ?_, ?_⟩
      · intro hh; exfalso; rw [hh] at this; revert this
        cases ro.disabled <;> cases w.inProgressAnno <;> simp [phaseAfter]
      · intro hh; refine ⟨w, rfl, ?_⟩; rw [hh] at this; revert this
        cases ro.disabled <;> cases w.inProgressAnno <;> simp [phaseAfter]
      · intro hh; rw [hh] at this; revert this
        cases ro.disabled <;> cases w.inProgressAnno <;> simp [phaseAfter]
      · intro hh; rw [hh] at this; revert this
        cases ro.disabled <;> cases w.inProgressAnno <;> simp [phaseAfter]
  · have := cs_phase_deleting ro ns wl h hd
    rw [hp] at this
    refine ⟨?_, ?_, ?_, ?_⟩ <;> intro hh <;> rw [hh] at this <;> cases this


theorem cs_progressing_nowl (ro ns : Rollout) (h : calculateStatus ro none = some ns) (hp : ro.phase = .progressing) :
    ns.phase ≠ .progressing := by
  cases hd : ro.deleting
  · rw [cs_phase_none ro ns h hd, csInitial_phase_eq, csDisable_phase_eq, hp]
    cases ro.disabled <;> simp
  · rw [cs_phase_deleting ro ns none h hd]; simp

theorem cs_inconsistent (ro ns : Rollout) (wl : WL) (h : calculateStatus ro (some wl) = some ns) (hc : ¬ wl.consistent = true) :
    ns.phase = .terminating := by
  cases hd : ro.deleting
  · unfold calculateStatus at h
    rw [if_neg (by simp [hd])] at h
    dsimp only at h
    rw [if_pos hc] at h
    cases h
  · exact cs_phase_deleting ro ns _ h hd


end rollout

end RV.Lemmas.Wakeup
