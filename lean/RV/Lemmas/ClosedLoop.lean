/-
  The forward-rollout invariant `fwdInv` of the closed loop is inductive: one lemma per label.
-/
import RV.Lemmas.ClosedLoopRoll
import RV.Lemmas.ClosedLoopFin
import RV.Lemmas.ClosedLoopExec
namespace RV.Lemmas.ClosedLoop
open RV.Arith RV.Traffic RV.RolloutSM RV.ClosedLoop RV.Oracle.ClosedLoop RV.Oracle.Batch RV.Props.Reconcile

/-! ### taking the invariant apart -/

theorem fwdInv_iff (s : CS) :
    fwdInv s = true ↔ roOK s = true ∧ ∃ w, s.wl = some w ∧ wlOK w = true ∧ planMono w.replicas (planOf s.ro) = true ∧
      brOKo s.br = true ∧ phaseInv s w = true := by
  unfold fwdInv
  cases hw : s.wl with
  | none => simp
  | some w => simp [Bool.and_eq_true, and_assoc]

theorem roOK_iff (s : CS) : roOK s = true ↔ s.gone = false ∧ RoGood s.ro := by
  unfold roOK
  constructor
  · intro h
    simp only [Bool.and_eq_true, Bool.not_eq_true', beq_iff_eq, List.isEmpty_eq_false_iff] at h
    obtain ⟨⟨⟨⟨⟨⟨⟨h1, h2⟩, h3⟩, h4⟩, h5⟩, h6⟩, h7⟩, h8⟩ := h
    exact ⟨h1, ⟨h2, h3, h4, h5, h6, h7, h8⟩⟩
  · rintro ⟨h1, ⟨h2, h3, h4, h5, h6, h7, h8⟩⟩
    simp [h1, h2, h3, h4, h5, h6, h7, h8]

/-! ### landing -/

theorem cs_eta (s : CS) : ({ gone := s.gone, ro := s.ro, wl := s.wl, br := s.br, net := s.net, mem := s.mem } : CS) = s := by
  cases s; rfl

theorem updatedBr_id (c : CBr) : updatedBr c (roBr c) = some c := by
  unfold updatedBr specChanged roBr
  simp

theorem landBR_id (br : Option CBr) (wl : Option CWl) : landBR br (br.map roBr) wl = (br, wl) := by
  cases br with
  | none => rfl
  | some c => simp only [Option.map_some, landBR, updatedBr_id]

theorem anno_id (w : CWl) : ({ w with inProgressAnno := (roWl w).inProgressAnno } : CWl) = w := by
  cases w; rfl

theorem annoLand_id (wl : Option CWl) : annoLand wl (wl.map roWl) = wl := by
  cases wl with
  | none => rfl
  | some w => simp only [Option.map_some, annoLand, anno_id]

/-- a reconcile that wrote nothing but the Rollout's status lands as a change of `ro` only -/
theorem landRo_status (s : CS) (r : StepResult) (hwl : r.w.wl = (roWorld s).wl) (hbr : r.w.br = (roWorld s).br)
    (hnet : r.w.net = s.net) (hmem : r.w.mem = s.mem) :
    landRo s r = { s with gone := r.roGone, ro := r.w.ro } := by
  unfold landRo
  rw [hwl, hbr, hnet, hmem]
  unfold roWorld; dsimp only
  rw [annoLand_id, landBR_id]

/-! ### the easy reconciles: unreadable workload, Healthy, Initializing, Completed -/

theorem world_eta (w : World) : ({ ro := w.ro, wl := w.wl, br := w.br, net := w.net, mem := w.mem } : World) = w := by cases w; rfl

/-- a workload whose status lags behind its spec: the reconcile waits and writes nothing -/
theorem reconcile_wait (w : World) (wl : WL) (hg : RoGood w.ro) (hwl : w.wl = some wl) (hc : wl.consistent = false) :
    reconcile w = .val { w := w, roGone := false, requeue := true, err := false, writes := [] } := by
  rw [reconcile_eq_core_of_alive w hg.notDeleting hg.enabled]
  unfold reconcileCore
  simp only [hf_good w.ro hg, hwl]
  unfold calculateStatus
  simp [hg.notDeleting, hc]
  rw [← hwl]

/-- the status calculation of a good rollout over a readable workload -/
theorem cs_good' (ro : Rollout) (wl : WL) (hg : RoGood ro) (hc : wl.consistent = true) (hne : ro.phase ≠ .empty) :
    calculateStatus ro (some wl) = some (csPhase ro (csObserve ro wl) wl) := by
  unfold calculateStatus
  have h1 : csDisable ro = ro := by unfold csDisable; simp [hg.enabled]
  have h2 : csInitial ro = ro := by unfold csInitial; simp [hne]
  simp [hg.notDeleting, hc, h1, h2]

/-- Healthy: only the status calculation runs -/
theorem reconcile_healthy (w : World) (wl : WL) (hg : RoGood w.ro) (hwl : w.wl = some wl) (hc : wl.consistent = true)
    (hph : w.ro.phase = .healthy) :
    reconcile w = .val { w := { w with ro := csPhase w.ro (csObserve w.ro wl) wl }, roGone := false, requeue := false, err := false, writes := [] } := by
  rw [reconcile_eq_core_of_alive w hg.notDeleting hg.enabled]
  unfold reconcileCore
  simp only [hf_good w.ro hg, hwl, cs_good' w.ro wl hg hc (by rw [hph]; decide), hph]

/-- Completed: back to Healthy -/
theorem reconcile_completed (w : World) (wl : WL) (hg : RoGood w.ro) (hwl : w.wl = some wl) (hc : wl.consistent = true)
    (hph : w.ro.phase = .progressing) (hr : w.ro.reason = .completed) :
    reconcile w = .val { w := { w with ro := { csObserve w.ro wl with phase := .healthy } }, roGone := false, requeue := false, err := false, writes := [] } := by
  rw [reconcile_eq_core_of_alive w hg.notDeleting hg.enabled]
  unfold reconcileCore
  dsimp only
  rw [hf_good w.ro hg]
  dsimp only
  rw [hwl, cs_good w.ro wl hg hph hc]
  dsimp only
  rw [hph]
  dsimp only
  rw [if_neg (by simp [hc]), hr]

/-- the sub-status `Initializing` writes -/
def initSub (ro : Rollout) (wl : WL) : Sub :=
  { curIdx := 1, nextIdx := nextBatchIndex ro.steps.length 1, state := .init, finStep := .empty,
    canaryRev := wl.canaryRev, stableRev := wl.stableRev, podHash := "", hash := .same,
    observedRolloutID := getRolloutID wl, observedGen := wl.generation, lastUpdate := .fresh }

/-- Initializing: wait for the stable Service / Ingress, wait out the grace period, then start rolling at step 1 -/
theorem reconcile_initializing (w : World) (wl : WL) (hg : RoGood w.ro) (hwl : w.wl = some wl) (hc : wl.consistent = true)
    (hph : w.ro.phase = .progressing) (hr : w.ro.reason = .initializing) :
    reconcile w = .val { w := w, roGone := false, requeue := false, err := true, writes := [] } ∨
    reconcile w = .val { w := { w with ro := { csObserve w.ro wl with sub := some (initSub w.ro wl) } }, roGone := false, requeue := true, err := false, writes := [] } ∨
    reconcile w = .val { w := { w with ro := { csObserve w.ro wl with sub := some (initSub w.ro wl), reason := .inRolling } }, roGone := false, requeue := false, err := false, writes := [] } := by
  have hst : (csObserve w.ro wl).steps = w.ro.steps := (csObserve_same w.ro wl).1.1
  have hne : (csObserve w.ro wl).steps.isEmpty = false := by rw [hst]; simpa using hg.steps
  rw [reconcile_eq_core_of_alive w hg.notDeleting hg.enabled]
  unfold reconcileCore
  dsimp only
  rw [hf_good w.ro hg]
  dsimp only
  rw [hwl, cs_good w.ro wl hg hph hc]
  dsimp only
  rw [hph]
  dsimp only
  rw [if_neg (by simp [hc]), hr]
  dsimp only
  rw [if_neg (by rw [hne]; simp)]
  unfold initSub
  rw [hst]
  split
  · left; rw [← hwl]
  · split
    · right; left; rfl
    · right; right; rfl

/-! ### evaluating the phase-dependent part -/

theorem phaseInv_healthy (s : CS) (w : CWl) (h : s.ro.phase = .healthy) :
    phaseInv s w = (s.br.isNone && (!w.inProgressAnno || held w)) := by
  unfold phaseInv; rw [h]

theorem phaseInv_init (s : CS) (w : CWl) (hp : s.ro.phase = .progressing) (hr : s.ro.reason = .initializing) :
    phaseInv s w = (s.br.isNone && held w) := by
  unfold phaseInv; rw [hp, hr]

theorem phaseInv_rolling (s : CS) (w : CWl) (sub : Sub) (hp : s.ro.phase = .progressing) (hr : s.ro.reason = .inRolling)
    (hs : s.ro.sub = some sub) :
    phaseInv s w = (subOK s.ro sub w && linkOKo s.ro sub s.br && withinCur s.ro sub w) := by
  unfold phaseInv; rw [hp, hr]; dsimp only; rw [hs]

theorem phaseInv_fin (s : CS) (w : CWl) (sub : Sub) (hp : s.ro.phase = .progressing) (hr : s.ro.reason = .finalising)
    (hs : s.ro.sub = some sub) :
    phaseInv s w = (RV.Oracle.Cluster.cursorOk (taskList s.ro.style .success) sub.finStep &&
       RV.Oracle.Cluster.finInv .success s.ro sub.finStep (s.br.map roBr) s.net) := by
  unfold phaseInv; rw [hp, hr]; dsimp only; rw [hs]

theorem phaseInv_completed (s : CS) (w : CWl) (hp : s.ro.phase = .progressing) (hr : s.ro.reason = .completed) :
    phaseInv s w = (s.br.isNone && !w.inProgressAnno) := by
  unfold phaseInv; rw [hp, hr]

theorem fwdInv_mk (s' : CS) (w' : CWl) (hgone : s'.gone = false) (hg : RoGood s'.ro) (hw : s'.wl = some w')
    (hwok : wlOK w' = true) (hmono : planMono w'.replicas (planOf s'.ro) = true) (hbr : brOKo s'.br = true)
    (hpi : phaseInv s' w' = true) : fwdInv s' = true :=
  (fwdInv_iff s').2 ⟨(roOK_iff s').2 ⟨hgone, hg⟩, w', hw, hwok, hmono, hbr, hpi⟩

theorem stepRo_eq (s : CS) (hgone : s.gone = false) (r : StepResult) (hr : reconcile (roWorld s) = .val r) :
    stepRo s = some (landRo s r) := by
  unfold stepRo; rw [hgone]; simp only [Bool.false_eq_true, if_false, hr]

theorem planOf_same {a b : Rollout} (h : Same a b) : planOf b = planOf a := by
  unfold planOf; rw [h.1]

/-- the status calculation keeps the user's configuration and the finalizer -/
theorem cs_specKept (ro ns : Rollout) (wl : Option WL) (h : calculateStatus ro wl = some ns) : SpecKept ro ns :=
  ⟨(cs_frame ro ns wl h).1, (cs_fin ro ns wl h).1⟩

end RV.Lemmas.ClosedLoop
