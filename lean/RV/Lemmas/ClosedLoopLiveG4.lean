/-
  Progress of the closed loop, round-boundary classes 10, 11, 12: one fair round from a state of the class leads to a state of the
  invariant with a strictly smaller measure.
-/
import RV.Lemmas.ClosedLoopLiveBase
namespace RV.Lemmas.ClosedLoop
open RV.Arith RV.Traffic RV.RolloutSM RV.ClosedLoop RV.Oracle.ClosedLoop

/-! ### the Rollout reconcile in `StepUpgrade` without traffic routing -/

/-- the pod-template hash filled in by `syncStep` -/
def lG4_fill (s : Sub) (h : String) : Sub := if s.podHash = "" then { s with podHash := h } else s

theorem lG4_syncStep (c : Ctx) (b : BR) (hbr : c.br = some b) (hid : c.sub.observedRolloutID = b.rolloutID) :
    syncStep c = { c with sub := lG4_fill c.sub c.wl.podTemplateHash } := by
  obtain ⟨ro, sub, wl, br, net, mem, rq, ws, seen⟩ := c
  dsimp only at hbr hid
  subst hbr
  unfold syncStep lG4_fill
  dsimp only
  rw [if_neg (by simp [hid])]

theorem lG4_fill_facts (s : Sub) (h : String) :
    (lG4_fill s h).curIdx = s.curIdx ∧ (lG4_fill s h).nextIdx = s.nextIdx ∧ (lG4_fill s h).state = s.state ∧
    (lG4_fill s h).lastUpdate = s.lastUpdate ∧ (lG4_fill s h).finStep = s.finStep ∧ (lG4_fill s h).stableRev = s.stableRev := by
  unfold lG4_fill; split <;> exact ⟨rfl, rfl, rfl, rfl, rfl, rfl⟩

theorem lG4_jump (ro : Rollout) (s : Sub) (hlo : 1 ≤ s.curIdx) (hhi : s.curIdx ≤ ro.steps.length)
    (hnext : s.nextIdx = nextBatchIndex ro.steps.length s.curIdx) : doCanaryJump ro s = some (s, false) := by
  unfold doCanaryJump
  dsimp only
  rw [if_neg (by omega), if_neg (by simp [hnext])]

theorem lG4_ftr (t : TCtx) (n : Net) (m : Mem) (h : t.hasRef = false) :
    finalisingTrafficRouting t n m = ⟨true, false, n, m, false, []⟩ := by
  unfold finalisingTrafficRouting
  rw [if_pos (by simp [h])]

theorem lG4_runCanary_upgrade (c0 : Ctx) (b : BR) (step : Step)
    (hbr : c0.br = some b) (hid : c0.sub.observedRolloutID = b.rolloutID)
    (hlo : 1 ≤ c0.sub.curIdx) (hhi : c0.sub.curIdx ≤ c0.ro.steps.length)
    (hnext : c0.sub.nextIdx = nextBatchIndex c0.ro.steps.length c0.sub.curIdx)
    (hstep : c0.ro.steps[(c0.sub.curIdx - 1).toNat]? = some step) (hw : step.weight = none)
    (htr : c0.ro.hasTraffic = false) (hst : c0.sub.state = .upgrade) :
    runCanary c0 = upgradeStep c0.ro step { c0 with sub := lG4_fill c0.sub c0.wl.podTemplateHash, writes := c0.writes ++ [] } := by
  obtain ⟨f1, f2, f3, f4, f5, f6⟩ := lG4_fill_facts c0.sub c0.wl.podTemplateHash
  unfold runCanary
  dsimp only
  rw [lG4_syncStep c0 b hbr hid]
  dsimp only
  rw [lG4_jump c0.ro _ (by rw [f1]; exact hlo) (by rw [f1]; exact hhi) (by rw [f1, f2]; exact hnext)]
  dsimp only
  rw [f1, hstep]
  dsimp only
  have hpre : preStep step { c0 with sub := lG4_fill c0.sub c0.wl.podTemplateHash } =
      some ({ c0 with sub := lG4_fill c0.sub c0.wl.podTemplateHash, writes := c0.writes ++ [] }, true, false) := by
    unfold preStep stepHasTraffic
    rw [if_pos (by simp [hw])]
    unfold callTM
    dsimp only
    rw [trCtx_eq c0.ro _ step (by rw [f1]; exact hlo) (by rw [f1]; exact hhi) (by rw [f1]; exact hstep)]
    dsimp only
    rw [lG4_ftr _ _ _ htr]
    dsimp only
    rw [if_neg (by simp)]
  rw [hpre]
  dsimp only
  rw [if_neg (by simp), if_neg (by simp)]
  unfold stateStep
  dsimp only
  rw [f3, hst]

theorem lG4_rbr (ro : Rollout) (b : BR) (id : String) (k : Int) (rb : Bool)
    (heq : brSpecEq b (desiredBR ro id (k - 1) rb) = true) : runBatchRelease ro (some b) id k rb = (true, some b, []) := by
  unfold runBatchRelease
  dsimp only
  rw [if_pos heq]

theorem lG4_dcu_wait (ro : Rollout) (s : Sub) (wl : WL) (b : BR)
    (heq : brSpecEq b (desiredBR ro (getRolloutID wl) (s.curIdx - 1) wl.inRollback) = true) (hnr : b.batchReady = false) :
    doCanaryUpgrade ro s wl (some b) = (false, some b, []) := by
  unfold doCanaryUpgrade
  rw [lG4_rbr ro b _ _ _ heq]
  dsimp only
  rw [if_neg (by simp)]
  split
  · rfl
  · rw [if_pos (Or.inl (by simp [hnr]))]

theorem lG4_dcu_done (ro : Rollout) (s : Sub) (wl : WL) (b : BR)
    (heq : brSpecEq b (desiredBR ro (getRolloutID wl) (s.curIdx - 1) wl.inRollback) = true) (h1 : b.hashSame = true)
    (h2 : b.genObserved = true) (h3 : b.batchReady = true) (h4 : ¬ b.currentBatch + 1 < s.curIdx) :
    doCanaryUpgrade ro s wl (some b) = (true, some b, []) := by
  unfold doCanaryUpgrade
  rw [lG4_rbr ro b _ _ _ heq]
  dsimp only
  rw [if_neg (by simp), if_neg (by simp [h1, h2]), if_neg (by simp [h3, h4])]

theorem lG4_upgrade_wait (ro : Rollout) (step : Step) (c : Ctx) (b : BR) (hbr : c.br = some b)
    (heq : brSpecEq b (desiredBR ro (getRolloutID c.wl) (c.sub.curIdx - 1) c.wl.inRollback) = true) (hnr : b.batchReady = false) :
    upgradeStep ro step c = .ok { c with br := some b, writes := c.writes ++ [] } false := by
  unfold upgradeStep
  dsimp only
  rw [hbr, lG4_dcu_wait ro c.sub c.wl b heq hnr]
  dsimp only
  rw [if_neg (by simp)]

/-- the sub-state `StepUpgrade` moves on to -/
def lG4_next (ro : Rollout) (step : Step) (R : Int) : StepState :=
  if ro.style = .canary ∧ scaledV step.replicas R true ≥ R ∧ ro.realPartition then StepState.metricsAnalysis else StepState.trafficRouting

theorem lG4_upgrade_done (ro : Rollout) (step : Step) (c : Ctx) (b : BR) (hbr : c.br = some b)
    (heq : brSpecEq b (desiredBR ro (getRolloutID c.wl) (c.sub.curIdx - 1) c.wl.inRollback) = true) (h1 : b.hashSame = true)
    (h2 : b.genObserved = true) (h3 : b.batchReady = true) (h4 : ¬ b.currentBatch + 1 < c.sub.curIdx) :
    upgradeStep ro step c = .ok { c with
      sub := { c.sub with state := lG4_next ro step c.wl.replicas, podHash := c.wl.podTemplateHash, lastUpdate := .fresh },
      br := some b, writes := c.writes ++ [] } false := by
  unfold upgradeStep
  dsimp only
  rw [hbr, lG4_dcu_done ro c.sub c.wl b heq h1 h2 h3 h4]
  dsimp only
  rw [if_pos rfl]
  rfl

theorem lG4_runCanary_wait (c0 : Ctx) (b : BR) (step : Step)
    (hbr : c0.br = some b) (hid : c0.sub.observedRolloutID = b.rolloutID)
    (hlo : 1 ≤ c0.sub.curIdx) (hhi : c0.sub.curIdx ≤ c0.ro.steps.length)
    (hnext : c0.sub.nextIdx = nextBatchIndex c0.ro.steps.length c0.sub.curIdx)
    (hstep : c0.ro.steps[(c0.sub.curIdx - 1).toNat]? = some step) (hw : step.weight = none)
    (htr : c0.ro.hasTraffic = false) (hst : c0.sub.state = .upgrade)
    (heq : brSpecEq b (desiredBR c0.ro (getRolloutID c0.wl) (c0.sub.curIdx - 1) c0.wl.inRollback) = true)
    (hnr : b.batchReady = false) :
    runCanary c0 = .ok { c0 with sub := lG4_fill c0.sub c0.wl.podTemplateHash, writes := c0.writes ++ [] ++ [], br := some b } false := by
  rw [lG4_runCanary_upgrade c0 b step hbr hid hlo hhi hnext hstep hw htr hst]
  rw [lG4_upgrade_wait c0.ro step { c0 with sub := lG4_fill c0.sub c0.wl.podTemplateHash, writes := c0.writes ++ [] } b hbr
    (by rw [← (lG4_fill_facts c0.sub c0.wl.podTemplateHash).1] at heq; exact heq) hnr]

theorem lG4_runCanary_done (c0 : Ctx) (b : BR) (step : Step)
    (hbr : c0.br = some b) (hid : c0.sub.observedRolloutID = b.rolloutID)
    (hlo : 1 ≤ c0.sub.curIdx) (hhi : c0.sub.curIdx ≤ c0.ro.steps.length)
    (hnext : c0.sub.nextIdx = nextBatchIndex c0.ro.steps.length c0.sub.curIdx)
    (hstep : c0.ro.steps[(c0.sub.curIdx - 1).toNat]? = some step) (hw : step.weight = none)
    (htr : c0.ro.hasTraffic = false) (hst : c0.sub.state = .upgrade)
    (heq : brSpecEq b (desiredBR c0.ro (getRolloutID c0.wl) (c0.sub.curIdx - 1) c0.wl.inRollback) = true)
    (h1 : b.hashSame = true) (h2 : b.genObserved = true) (h3 : b.batchReady = true) (h4 : ¬ b.currentBatch + 1 < c0.sub.curIdx) :
    runCanary c0 = .ok { c0 with sub := { lG4_fill c0.sub c0.wl.podTemplateHash with state := lG4_next c0.ro step c0.wl.replicas, podHash := c0.wl.podTemplateHash, lastUpdate := .fresh }, writes := c0.writes ++ [] ++ [], br := some b } false := by
  rw [lG4_runCanary_upgrade c0 b step hbr hid hlo hhi hnext hstep hw htr hst]
  rw [lG4_upgrade_done c0.ro step { c0 with sub := lG4_fill c0.sub c0.wl.podTemplateHash, writes := c0.writes ++ [] } b hbr
    (by rw [← (lG4_fill_facts c0.sub c0.wl.podTemplateHash).1] at heq; exact heq) h1 h2 h3
    (by rw [← (lG4_fill_facts c0.sub c0.wl.podTemplateHash).1] at h4; exact h4)]

/-- the sub-status after the status calculation and `syncStep` -/
def lG4_subA (w : CWl) (sub : Sub) : Sub :=
  lG4_fill { sub with observedRolloutID := w.updateRevision, observedGen := w.generation } w.updateRevision

theorem lG4_gone_eta (s : CS) (ro : Rollout) (hgone : s.gone = false) :
    ({ s with gone := false, ro := ro } : CS) = { s with ro := ro } := by
  cases s; simp only at hgone; subst hgone; rfl

theorem lG4_stepRo (s : CS) (w : CWl) (sub : Sub) (b : CBr) (step : Step)
    (hgone : s.gone = false) (hg : RoGood s.ro) (hw : s.wl = some w) (hwok : wlOK w = true)
    (hph : s.ro.phase = .progressing) (hre : s.ro.reason = .inRolling) (hs : s.ro.sub = some sub)
    (hsg : SubGood s.ro sub w.updateRevision) (hst : sub.state = .upgrade) (hb : s.br = some b)
    (hcons : w.generation = w.observedGeneration) (htr : s.ro.hasTraffic = false)
    (hstep : s.ro.steps[(sub.curIdx - 1).toNat]? = some step) (hwt : step.weight = none)
    (hrev : w.updateRevision ≠ "") (hid : b.rolloutID = w.updateRevision)
    (heq : brSpecEq (roBr b) (desiredBR s.ro w.updateRevision (sub.curIdx - 1) false) = true) :
    ((roBr b).batchReady = false → stepRo s = some { s with ro := { s.ro with sub := some (lG4_subA w sub) } }) ∧
    ((roBr b).hashSame = true → (roBr b).genObserved = true → (roBr b).batchReady = true → ¬ (roBr b).currentBatch + 1 < sub.curIdx →
      stepRo s = some { s with ro := { s.ro with sub := some { lG4_subA w sub with
        state := lG4_next s.ro step w.replicas, podHash := w.updateRevision, lastUpdate := .fresh } } }) := by
  have hwl := world_wl s w hw
  have hc : (roWl w).consistent = true := by simp [roWl, hcons]
  have hnr := noRollback w hwok
  have hgid : getRolloutID (roWl w) = w.updateRevision := by
    unfold getRolloutID; rw [hnr]; rfl
  have hcs : csObserve s.ro (roWl w) =
      { s.ro with sub := some { sub with observedRolloutID := w.updateRevision, observedGen := w.generation } } := by
    unfold csObserve
    rw [hs]
    dsimp only
    rw [if_pos ⟨by rw [hsg.rev]; exact hrev, hsg.rev⟩, hgid]
    rfl
  have hrec := reconcile_roll (roWorld s) (roWl w) { sub with observedRolloutID := w.updateRevision, observedGen := w.generation }
    hg hph hre hwl hc (by show (csObserve s.ro (roWl w)).sub = _; rw [hcs])
  rw [inRolling_roll (roWorld s) _ _ sub (roWl w) hs hnr
    (by show (csObserve s.ro (roWl w)).paused = false; rw [hcs]; exact hg.unpaused) hsg.rev.symm hsg.hash] at hrec
  rw [if_neg (by show ¬ sub.state = .completed; rw [hst]; simp)] at hrec
  have hst' : (csObserve (roWorld s).ro (roWl w)).steps = s.ro.steps := by
    show (csObserve s.ro (roWl w)).steps = _; rw [hcs]
  have hN : (if ({ sub with observedRolloutID := w.updateRevision, observedGen := w.generation } : Sub).nextIdx ≤ 0 ∨
        ({ sub with observedRolloutID := w.updateRevision, observedGen := w.generation } : Sub).nextIdx >
          ((csObserve (roWorld s).ro (roWl w)).steps.length : Int) then
        { ({ sub with observedRolloutID := w.updateRevision, observedGen := w.generation } : Sub) with
          nextIdx := nextBatchIndex ((csObserve (roWorld s).ro (roWl w)).steps.length : Int)
            ({ sub with observedRolloutID := w.updateRevision, observedGen := w.generation } : Sub).curIdx }
      else ({ sub with observedRolloutID := w.updateRevision, observedGen := w.generation } : Sub)) =
      { sub with observedRolloutID := w.updateRevision, observedGen := w.generation } := by
    split
    · show ({ sub with observedRolloutID := w.updateRevision, observedGen := w.generation, nextIdx := nextBatchIndex ((csObserve (roWorld s).ro (roWl w)).steps.length : Int) sub.curIdx } : Sub) = _
      rw [hst', ← hsg.next]
    · rfl
  rw [hN] at hrec
  have hhi' : sub.curIdx ≤ ((csObserve (roWorld s).ro (roWl w)).steps.length : Int) := by rw [hst']; exact hsg.hi
  have hnext' : sub.nextIdx = nextBatchIndex ((csObserve (roWorld s).ro (roWl w)).steps.length : Int) sub.curIdx := by
    rw [hst']; exact hsg.next
  have hstep' : (csObserve (roWorld s).ro (roWl w)).steps[(sub.curIdx - 1).toNat]? = some step := by rw [hst']; exact hstep
  have htr' : (csObserve (roWorld s).ro (roWl w)).hasTraffic = false := by
    show (csObserve s.ro (roWl w)).hasTraffic = false; rw [hcs]; exact htr
  have hbr' : (roWorld s).br = some (roBr b) := by show s.br.map roBr = _; rw [hb]; rfl
  have hland : ∀ (c : Ctx) (rq : Bool) (ws : List String), c.wl = roWl w → c.br = some (roBr b) → c.net = s.net → c.mem = s.mem →
      landRo s { w := ofCtx (roWorld s) c (csObserve (roWorld s).ro (roWl w)), roGone := false, requeue := rq, err := false, writes := ws } =
      { s with ro := { s.ro with sub := some c.sub } } := by
    intro c rq ws h1 h2 h3 h4
    rw [landRo_status s _ (by show some c.wl = s.wl.map roWl; rw [hw, h1]; rfl)
      (by show c.br = s.br.map roBr; rw [hb, h2]; rfl) h3 h4]
    dsimp only [ofCtx]
    rw [lG4_gone_eta s _ hgone]
    show ({ s with ro := { csObserve s.ro (roWl w) with sub := some c.sub } } : CS) = _
    rw [hcs]
  have heq' : brSpecEq (roBr b) (desiredBR (csObserve (roWorld s).ro (roWl w)) (getRolloutID (roWl w)) (sub.curIdx - 1) (roWl w).inRollback) = true := by
    rw [hgid, hnr]
    have : desiredBR (csObserve (roWorld s).ro (roWl w)) w.updateRevision (sub.curIdx - 1) false =
        desiredBR s.ro w.updateRevision (sub.curIdx - 1) false := by
      show desiredBR (csObserve s.ro (roWl w)) _ _ _ = _
      rw [hcs]; rfl
    rw [this]; exact heq
  constructor
  · intro hnrdy
    rw [lG4_runCanary_wait (toCtx { roWorld s with ro := csObserve (roWorld s).ro (roWl w) }
      { sub with observedRolloutID := w.updateRevision, observedGen := w.generation } (roWl w)) (roBr b) step
      hbr' hid.symm hsg.lo hhi' hnext' hstep' hwt htr' hst heq' hnrdy] at hrec
    dsimp only at hrec
    rw [if_neg (by simp)] at hrec
    rw [stepRo_eq s hgone _ hrec]
    exact congrArg some (hland _ _ _ rfl rfl rfl rfl)
  · intro h1 h2 h3 h4
    rw [lG4_runCanary_done (toCtx { roWorld s with ro := csObserve (roWorld s).ro (roWl w) }
      { sub with observedRolloutID := w.updateRevision, observedGen := w.generation } (roWl w)) (roBr b) step
      hbr' hid.symm hsg.lo hhi' hnext' hstep' hwt htr' hst heq' h1 h2 h3 h4] at hrec
    dsimp only at hrec
    rw [if_neg (by simp)] at hrec
    rw [stepRo_eq s hgone _ hrec]
    refine congrArg some ((hland _ _ _ rfl rfl rfl rfl).trans ?_)
    have e : lG4_next (csObserve (roWorld s).ro (roWl w)) step (roWl w).replicas = lG4_next s.ro step w.replicas := by
      show lG4_next (csObserve s.ro (roWl w)) step w.replicas = _
      rw [hcs]; rfl
    dsimp only [toCtx]
    rw [e]
    rfl

/-! ### the BatchRelease reconcile of a steady progressing release -/

theorem lG4_syncInfo (eb : Executor.BR) (ns : Executor.Status) (ew : Executor.Workload) (hd : eb.deleting = false)
    (hgen : ew.observedGeneration ≥ ew.generation) (hrep : ns.observedReplicas = ew.replicas)
    (hur : ns.updateRevision = ew.updateRevision) : Executor.syncInfo eb ns (some ew) = (.normal, some ew) := by
  unfold Executor.syncInfo
  rw [if_neg (by simp [hd])]
  dsimp only
  rw [if_neg (by simp [hgen])]
  split
  · rfl
  · rw [if_neg (by simp [hrep]), if_neg (by rw [hur]; intro h; exact h.2.2.2 h.2.2.1), if_neg (by simp [hur])]

theorem lG4_syncDecide (eb : Executor.BR) (ns : Executor.Status) (info : Option Executor.Workload) (p : Int)
    (hph : eb.status.phase = .progressing) (hd : eb.deleting = false) (hp : eb.partition = some p)
    (hh : eb.status.hash = .same) (hcb : eb.status.currentBatch < eb.batches.length) (hra : eb.rollbackAnno = false) :
    Executor.syncDecide eb ns .normal info = (ns, false) := by
  have h1 : Executor.isPlanFinalizing eb = false := by simp [Executor.isPlanFinalizing, hd, hph, hp]
  have h2 : Executor.isPlanChanged eb = false := by simp [Executor.isPlanChanged, hh]
  have h3 : Executor.isPlanUnhealthy eb = false := by
    simp only [Executor.isPlanUnhealthy, Bool.and_eq_false_imp, decide_eq_true_eq]; intro h; omega
  unfold Executor.syncDecide
  dsimp only
  rw [if_neg (by rw [hph]; simp), h1, h2, h3]
  simp [hra]

theorem lG4_syncStatus (eb : Executor.BR) (ew : Executor.Workload) (p : Int)
    (hph : eb.status.phase = .progressing) (hd : eb.deleting = false) (hp : eb.partition = some p)
    (hh : eb.status.hash = .same) (hcb : eb.status.currentBatch < eb.batches.length) (hra : eb.rollbackAnno = false)
    (hgen : ew.observedGeneration ≥ ew.generation) (hrep : eb.status.observedReplicas = ew.replicas)
    (hur : eb.status.updateRevision = ew.updateRevision) :
    Executor.syncStatus (Executor.withFinalizer eb) (Executor.initializedStatus eb.status) (some ew) =
      { status := Executor.refreshStatus eb.status (some ew),
        stop := decide (Executor.refreshStatus eb.status (some ew) ≠ eb.status) } := by
  rw [RV.Executor.initialized_id _ (by rw [hph]; simp)]
  unfold Executor.syncStatus
  dsimp only
  rw [lG4_syncInfo (Executor.withFinalizer eb) eb.status ew hd hgen hrep hur]
  dsimp only
  rw [lG4_syncDecide (Executor.withFinalizer eb) eb.status (some ew) p hph hd hp hh hcb hra]
  simp
  rfl

theorem lG4_refresh_id (st : Executor.Status) (ew : Executor.Workload) (h1 : st.updated = ew.updated)
    (h2 : st.updatedReady = ew.updatedReady) (h3 : st.hash = .same) (h4 : st.rolloutIDSame = true) :
    Executor.refreshStatus st (some ew) = st := by
  cases st
  simp only at h1 h2 h3 h4
  subst h1 h2 h3 h4
  rfl

/-- the hypotheses under which the sync step of the executor sees a normal, healthy, progressing release -/
structure lG4_Steady (eb : Executor.BR) (ew : Executor.Workload) : Prop where
  ph : eb.status.phase = .progressing
  del : eb.deleting = false
  part : ∃ p, eb.partition = some p
  hash : eb.status.hash = .same
  cb : eb.status.currentBatch < eb.batches.length
  ra : eb.rollbackAnno = false
  gen : ew.observedGeneration ≥ ew.generation
  rep : eb.status.observedReplicas = ew.replicas
  ur : eb.status.updateRevision = ew.updateRevision

theorem lG4_body (eb : Executor.BR) (ew : Executor.Workload) (h : lG4_Steady eb ew) :
    Executor.reconcile eb (some ew) =
      if decide (Executor.refreshStatus eb.status (some ew) ≠ eb.status) = true then
        .val { br := some { Executor.withFinalizer eb with status := Executor.refreshStatus eb.status (some ew) }, wl := some ew,
               requeue := decide (Executor.refreshStatus eb.status (some ew) ≠ (Executor.withFinalizer eb).status), err := false }
      else
        match Executor.execute (Executor.withFinalizer eb) (Executor.refreshStatus eb.status (some ew)) (some ew) with
        | .panic => .panic
        | .val (ns', wl', rq, er) => .val { br := some { Executor.withFinalizer eb with status := ns' }, wl := wl', requeue := rq, err := er } := by
  obtain ⟨p, hp⟩ := h.part
  unfold Executor.reconcile
  rw [if_neg (by simp [h.del])]
  unfold Executor.reconcileBody
  dsimp only
  rw [show (Executor.withFinalizer eb).status = eb.status from rfl,
    lG4_syncStatus eb ew p h.ph h.del hp h.hash h.cb h.ra h.gen h.rep h.ur]
  rfl

theorem lG4_exec_stop (eb : Executor.BR) (ew : Executor.Workload) (h : lG4_Steady eb ew)
    (hne : Executor.refreshStatus eb.status (some ew) ≠ eb.status) :
    Executor.reconcile eb (some ew) =
      .val { br := some { Executor.withFinalizer eb with status := Executor.refreshStatus eb.status (some ew) }, wl := some ew,
             requeue := decide (Executor.refreshStatus eb.status (some ew) ≠ (Executor.withFinalizer eb).status), err := false } := by
  rw [lG4_body eb ew h, if_pos (by simp [hne])]

theorem lG4_exec_verify (eb : Executor.BR) (ew : Executor.Workload) (h : lG4_Steady eb ew)
    (hid : Executor.refreshStatus eb.status (some ew) = eb.status) (hbs : eb.status.batchState = .verifying)
    (hr : RV.Oracle.Executor.batchReadyNow eb (some ew) = true) :
    Executor.reconcile eb (some ew) =
      .val { br := some { Executor.withFinalizer eb with status := { eb.status with batchState := .ready, hasReadyTime := true } },
             wl := some ew, requeue := true, err := false } := by
  rw [lG4_body eb ew h, if_neg (by simp [hid]), hid]
  have hex : Executor.execute (Executor.withFinalizer eb) eb.status (some ew) =
      .val ({ eb.status with batchState := .ready, hasReadyTime := true }, some ew, true, false) := by
    unfold Executor.execute
    dsimp only
    rw [RV.Executor.normPhase_of_progressing _ h.ph]
    simp only [h.ph]
    unfold Executor.execProgressing
    dsimp only
    have hn : Executor.normState eb.status = eb.status := by unfold Executor.normState; simp [hbs]
    rw [hn]
    simp only [hbs]
    rw [RV.Props.Executor.ensureReady_of_ready eb eb.status (some ew) hr]
    dsimp only
    rw [h.ph]
  rw [hex]

theorem lG4_exec_ready (eb : Executor.BR) (ew : Executor.Workload) (h : lG4_Steady eb ew)
    (hid : Executor.refreshStatus eb.status (some ew) = eb.status) (hbs : eb.status.batchState = .ready)
    (hr : RV.Oracle.Executor.batchReadyNow eb (some ew) = true) (hpart : Executor.isPartitioned eb = true) :
    Executor.reconcile eb (some ew) =
      .val { br := some { Executor.withFinalizer eb with status := eb.status }, wl := some ew, requeue := false, err := false } := by
  rw [lG4_body eb ew h, if_neg (by simp [hid]), hid]
  have hex : Executor.execute (Executor.withFinalizer eb) eb.status (some ew) = .val (eb.status, some ew, false, false) := by
    unfold Executor.execute
    dsimp only
    rw [RV.Executor.normPhase_of_progressing _ h.ph]
    simp only [h.ph]
    unfold Executor.execProgressing
    dsimp only
    have hn : Executor.normState eb.status = eb.status := by unfold Executor.normState; simp [hbs]
    rw [hn]
    simp only [hbs]
    rw [RV.Props.Executor.ensureReady_of_ready eb eb.status (some ew) hr]
    have hpart' : Executor.isPartitioned (Executor.withFinalizer eb) = true := hpart
    simp only [hpart', not_true_eq_false, if_false]
  rw [hex]

/-! ### the CloneSet at the round boundary, and the readiness verdict -/

theorem lG4_env_fix (w : CWl) (k : IntOrPct) (h : envWl w = w) (hp : w.paused = false) (hk : w.partition = some k)
    (hk0 : 0 ≤ scaledV k w.replicas true) (hR : 0 ≤ w.replicas) :
    w.observedGeneration = w.generation ∧ w.updatedReady = w.updated ∧
      w.replicas - (if scaledV k w.replicas true > w.replicas then w.replicas else scaledV k w.replicas true) ≤ w.updated := by
  have h1 : (envWl w).observedGeneration = w.observedGeneration := by rw [h]
  have h2 : (envWl w).updated = w.updated := by rw [h]
  have h3 : (envWl w).updatedReady = w.updatedReady := by rw [h]
  unfold envWl at h1 h2 h3
  dsimp only at h1 h2 h3
  rw [hp, hk] at h2 h3
  by_cases hne : w.updateRevision = w.currentRevision
  · rw [if_neg (by simp [hne])] at h1 h2 h3
    dsimp only at h1 h2 h3
    refine ⟨h1.symm, by omega, ?_⟩
    split <;> omega
  · rw [if_pos hne] at h1 h2 h3
    dsimp only at h1 h2 h3
    simp only [Bool.false_eq_true, if_false] at h2 h3
    refine ⟨h1.symm, by omega, ?_⟩
    generalize (if scaledV k w.replicas true > w.replicas then w.replicas else scaledV k w.replicas true) = A at h2 h3 ⊢
    generalize w.replicas - A = B at h2 h3 ⊢
    split at h2 <;> omega

theorem lG4_ready_now (b : CBr) (w : CWl) (k e : IntOrPct) (hR : 0 < w.replicas) (_hpart : w.partition = some k)
    (hentry : (if b.st.currentBatch < 0 then none else b.batches[b.st.currentBatch.toNat]?) = some e)
    (hlow : scaledV k w.replicas true ≤ scaledV (RV.BatchCtx.desKnob .cloneSet w.replicas e none) w.replicas true)
    (hk0 : 0 ≤ scaledV k w.replicas true) (hsr : stepReady w.replicas e = true) (hnn : b.st.noNeedUpdate = none)
    (hft : b.failureThreshold = none)
    (hupd : w.replicas - (if scaledV k w.replicas true > w.replicas then w.replicas else scaledV k w.replicas true) ≤ w.updated)
    (hrdy : w.updatedReady = w.updated) : RV.Oracle.Executor.batchReadyNow (exBr b) (some (exWl w)) = true := by
  unfold stepReady at hsr
  simp only [Bool.and_eq_true, decide_eq_true_eq] at hsr
  obtain ⟨s1, s2⟩ := hsr
  unfold exposure keptStable at s1 s2
  unfold RV.Oracle.Executor.batchReadyNow
  dsimp only
  rw [if_neg (by show ¬ w.replicas = 0; omega)]
  have hentry' : (if (exBr b).status.currentBatch < 0 then none
      else (exBr b).batches[(exBr b).status.currentBatch.toNat]?) = some e := hentry
  unfold RV.BatchCtx.calcCtx RV.Executor.obsOf
  dsimp only
  rw [hentry']
  dsimp only [exBr, exWl, stOf]
  unfold RV.BatchCtx.isBatchReady
  dsimp only
  rw [hnn, hft]
  unfold allowedUnavailable
  dsimp only
  generalize RV.BatchCtx.desiredOf .cloneSet w.replicas e none = d at s1 s2 ⊢
  generalize scaledV (RV.BatchCtx.desKnob .cloneSet w.replicas e none) w.replicas true = kd at s1 s2 hlow ⊢
  generalize scaledV k w.replicas true = kk at hlow hk0 hupd ⊢
  have hu : d ≤ w.updated := by split at hupd <;> omega
  have hpos : 0 < d → 0 < w.updated := by intro h; have := s2 h; split at hupd <;> omega
  rw [if_neg (by omega), if_neg (by omega), if_neg (by intro hh; have := hpos hh.1; omega)]
  rfl

/-! ### taking the classes apart -/

macro "lG4_kill " h:ident : tactic => `(tactic| ((repeat' (split at $h:ident)) <;> omega))

/-- what the classes 10, 11, 12 share -/
structure lG4_Up (s : CS) (w : CWl) (sub : Sub) (b : CBr) : Prop where
  wl : s.wl = some w
  ph : s.ro.phase = .progressing
  re : s.ro.reason = .inRolling
  hsub : s.ro.sub = some sub
  st : sub.state = .upgrade
  br : s.br = some b
  part : b.partition = some (sub.curIdx - 1)
  init : brInit b w = true
  cb : b.st.currentBatch = sub.curIdx - 1

theorem lG4_cls_up (s : CS) (n : Nat) (hc : cls s = n) (hn : n = 10 ∨ n = 11 ∨ n = 12) :
    ∃ w sub b, lG4_Up s w sub b ∧
      ((n = 10 ∧ brSyncLag b w = true ∧ b.st.batchState = .verifying ∧ partLow b w = true) ∨
       (n = 11 ∧ brSync b w = true ∧ b.st.batchState = .verifying ∧ partLow b w = true) ∨
       (n = 12 ∧ brSync b w = true ∧ b.st.batchState = .ready ∧ b.st.hasReadyTime = true ∧
          RV.Oracle.Executor.batchReadyNow (exBr b) (some (exWl w)) = true)) := by
  unfold cls at hc
  cases hw : s.wl with
  | none => rw [hw] at hc; dsimp only at hc; omega
  | some w =>
    rw [hw] at hc
    dsimp only at hc
    split at hc
    · lG4_kill hc
    · lG4_kill hc
    · rename_i hph hre
      split at hc
      · omega
      · rename_i sub hsub
        split at hc
        · lG4_kill hc
        · rename_i hst
          split at hc
          · lG4_kill hc
          · rename_i b hb
            split at hc
            · lG4_kill hc
            · split at hc
              · rename_i hp1
                have hpart : b.partition = some (sub.curIdx - 1) := by simpa using hp1
                split at hc
                · rename_i h10
                  simp only [Bool.and_eq_true, beq_iff_eq] at h10
                  obtain ⟨⟨⟨⟨a1, a2⟩, a3⟩, a4⟩, a5⟩ := h10
                  exact ⟨w, sub, b, ⟨hw, hph, hre, hsub, hst, hb, hpart, a2, a3⟩, Or.inl ⟨hc.symm, a1, a4, a5⟩⟩
                · split at hc
                  · omega
                  · rename_i hsync
                    have hsync' : brSync b w = true := by simpa using hsync
                    split at hc
                    · lG4_kill hc
                    · split at hc
                      · omega
                      · rename_i hin
                        simp only [Bool.or_eq_true, Bool.not_eq_true', bne_iff_ne, ne_eq, not_or, Bool.not_eq_false,
                          Decidable.not_not] at hin
                        obtain ⟨a2, a3⟩ := hin
                        split at hc
                        · omega
                        · omega
                        · rename_i hbs
                          split at hc
                          · rename_i hpl
                            exact ⟨w, sub, b, ⟨hw, hph, hre, hsub, hst, hb, hpart, a2, a3⟩, Or.inr (Or.inl ⟨hc.symm, hsync', hbs, hpl⟩)⟩
                          · omega
                        · rename_i hbs
                          split at hc
                          · rename_i h12
                            simp only [Bool.and_eq_true] at h12
                            exact ⟨w, sub, b, ⟨hw, hph, hre, hsub, hst, hb, hpart, a2, a3⟩,
                              Or.inr (Or.inr ⟨hc.symm, hsync', hbs, h12.1, h12.2⟩)⟩
                          · omega
                        · omega
              · omega
        all_goals lG4_kill hc
    · lG4_kill hc
    · lG4_kill hc
    · omega

/-! ### the rest of the round -/

theorem lG4_ageAge_idem (a : Age) : ageAge (ageAge a) = ageAge a := by cases a <;> rfl
theorem lG4_ageExp_idem (a : Exp) : ageExp (ageExp a) = ageExp a := by cases a <;> rfl

theorem lG4_tick_idem (x : CS) : tick (tick x) = tick x := by
  obtain ⟨gone, ro, wl, br, net, mem⟩ := x
  cases gone
  · simp only [tick, Bool.false_eq_true, if_false, Option.map_map, lG4_ageAge_idem, lG4_ageExp_idem]
    congr 2
    cases ro.sub <;> simp [lG4_ageAge_idem]
  · simp only [tick, if_true, lG4_ageExp_idem]

/-- the last three labels on a state whose rollout does not wait for an approval -/
theorem lG4_tail_shape (x : CS) (sub : Sub) (hg : x.gone = false) (hs : x.ro.sub = some sub) (hnp : sub.state ≠ .paused) :
    roundTail x = { x with wl := x.wl.map envWl, ro := { x.ro with sub := some { sub with lastUpdate := ageAge sub.lastUpdate }, condAge := ageAge x.ro.condAge }, mem := { patchService := ageExp x.mem.patchService, restoreService := ageExp x.mem.restoreService, restoreGateway := ageExp x.mem.restoreGateway, removeCanaryService := ageExp x.mem.removeCanaryService, updateRoute := ageExp x.mem.updateRoute } } := by
  have ha : approve { x with wl := x.wl.map envWl } = { x with wl := x.wl.map envWl } := by
    unfold approve
    dsimp only
    rw [if_neg (by simp [hg]), hs]
    dsimp only
    rw [if_neg hnp]
  unfold roundTail
  rw [ha]
  unfold tick
  dsimp only
  rw [if_neg (by simp [hg]), hs]
  rfl

theorem lG4_atBoundary_tail (x : CS) (w : CWl) (hw : (roundTail x).wl = some w) (henv : envWl w = w) :
    atBoundary (roundTail x) = true := by
  unfold atBoundary
  rw [hw]
  dsimp only
  rw [henv]
  have : tick (roundTail x) = roundTail x := by unfold roundTail; exact lG4_tick_idem _
  rw [this]
  simp

theorem lG4_liveCfg_congr (s t : CS) (w : CWl) (hs : s.wl = some w) (ht : t.wl = some w) (h1 : t.ro.steps = s.ro.steps)
    (h2 : t.ro.hasTraffic = s.ro.hasTraffic) : liveCfg t = liveCfg s := by
  unfold liveCfg planOf
  rw [hs, ht, h1, h2]

/-! ### the class facts as propositions -/

/-- what `brSync` and `brSyncLag` share -/
structure lG4_Core (b : CBr) (w : CWl) : Prop where
  gen : b.generation = b.observedGeneration
  fin : b.hasFinalizer = true
  del : b.deleting = false
  oid : b.observedRolloutID = b.rolloutID
  rid : b.rolloutID = w.updateRevision
  so : b.specOther = true
  ft : b.failureThreshold = none
  hash : b.st.hash = .same

theorem lG4_sync_iff (b : CBr) (w : CWl) :
    brSync b w = true ↔ (b.st.updated = w.updated ∧ b.st.updatedReady = w.updatedReady) ∧ lG4_Core b w := by
  unfold brSync
  simp only [Bool.and_eq_true, beq_iff_eq, Bool.not_eq_true', Option.isNone_iff_eq_none]
  constructor
  · rintro ⟨⟨⟨⟨⟨⟨⟨⟨⟨a1, a2⟩, a3⟩, a4⟩, a5⟩, a6⟩, a7⟩, a8⟩, a9⟩, a10⟩
    exact ⟨⟨a1, a2⟩, ⟨a3, a4, a5, a6, a7, a8, a9, a10⟩⟩
  · rintro ⟨⟨a1, a2⟩, ⟨a3, a4, a5, a6, a7, a8, a9, a10⟩⟩
    exact ⟨⟨⟨⟨⟨⟨⟨⟨⟨a1, a2⟩, a3⟩, a4⟩, a5⟩, a6⟩, a7⟩, a8⟩, a9⟩, a10⟩

theorem lG4_lag_iff (b : CBr) (w : CWl) :
    brSyncLag b w = true ↔ (b.st.updated ≠ w.updated ∨ b.st.updatedReady ≠ w.updatedReady) ∧ lG4_Core b w := by
  unfold brSyncLag
  simp only [Bool.and_eq_true, Bool.or_eq_true, bne_iff_ne, ne_eq, beq_iff_eq, Bool.not_eq_true', Option.isNone_iff_eq_none]
  constructor
  · rintro ⟨⟨⟨⟨⟨⟨⟨⟨a1, a3⟩, a4⟩, a5⟩, a6⟩, a7⟩, a8⟩, a9⟩, a10⟩
    exact ⟨a1, ⟨a3, a4, a5, a6, a7, a8, a9, a10⟩⟩
  · rintro ⟨a1, ⟨a3, a4, a5, a6, a7, a8, a9, a10⟩⟩
    exact ⟨⟨⟨⟨⟨⟨⟨⟨a1, a3⟩, a4⟩, a5⟩, a6⟩, a7⟩, a8⟩, a9⟩, a10⟩

theorem lG4_init_iff (b : CBr) (w : CWl) :
    brInit b w = true ↔ b.st.updateRevision = "wl-" ++ w.updateRevision ∧ b.st.observedReplicas = w.replicas ∧ w.owner = .this ∧
      b.st.phase = .progressing := by
  unfold brInit
  simp only [Bool.and_eq_true, beq_iff_eq, and_assoc]

/-! ### evaluating `cls` and `mu` on a state in `StepUpgrade` -/

theorem lG4_cls_eval_up (t : CS) (w : CWl) (sub : Sub) (b : CBr) (h : lG4_Up t w sub b) (hsync : brSync b w = true) :
    cls t = (match b.st.batchState with
      | .empty | .upgrading => 9
      | .verifying => if partLow b w then 11 else 0
      | .ready => if b.st.hasReadyTime && RV.Oracle.Executor.batchReadyNow (exBr b) (some (exWl w)) then 12 else 0
      | .other => 0) := by
  have e2 : (b.partition == some (sub.curIdx - 2)) = false := by
    rw [h.part]; simp only [beq_eq_false_iff_ne, ne_eq, Option.some.injEq]; omega
  have e1 : (b.partition == some (sub.curIdx - 1)) = true := by rw [h.part]; simp
  have hlag : brSyncLag b w = false := by
    cases hl : brSyncLag b w with
    | false => rfl
    | true =>
      exfalso
      obtain ⟨hne, _⟩ := (lG4_lag_iff b w).1 hl
      obtain ⟨⟨a1, a2⟩, _⟩ := (lG4_sync_iff b w).1 hsync
      rcases hne with hne | hne
      · exact hne a1
      · exact hne a2
  have hprep : (b.st.phase == Executor.Phase.preparing) = false := by
    rw [((lG4_init_iff b w).1 h.init).2.2.2]; rfl
  unfold cls
  rw [h.wl]
  dsimp only
  rw [h.ph, h.re]
  dsimp only
  rw [h.hsub]
  dsimp only
  rw [h.st]
  dsimp only
  rw [h.br]
  dsimp only
  rw [e2, e1, hlag, hsync, hprep, h.init, h.cb]
  simp
  cases b.st.batchState <;> first | rfl | simp

theorem lG4_cls_eval_post (t : CS) (w : CWl) (sub : Sub) (b : CBr) (hw : t.wl = some w) (hph : t.ro.phase = .progressing)
    (hre : t.ro.reason = .inRolling) (hsub : t.ro.sub = some sub) (hbr : t.br = some b)
    (hst : sub.state = .trafficRouting ∨ sub.state = .metricsAnalysis)
    (hall : (brSync b w && brInit b w && b.st.batchState == .ready && b.st.hasReadyTime &&
      b.partition == some (sub.curIdx - 1) && b.st.currentBatch == sub.curIdx - 1 &&
      RV.Oracle.Executor.batchReadyNow (exBr b) (some (exWl w))) = true) :
    cls t = 13 ∨ cls t = 14 := by
  unfold cls
  rw [hw]
  dsimp only
  rw [hph, hre]
  dsimp only
  rw [hsub]
  dsimp only
  rcases hst with hst | hst
  · left; rw [hst]; dsimp only; rw [hbr]; dsimp only; rw [if_pos hall]
  · right; rw [hst]; dsimp only; rw [hbr]; dsimp only; rw [if_pos hall]

theorem lG4_mu_up (t : CS) (w : CWl) (sub : Sub) (b : CBr) (h : lG4_Up t w sub b) (hh : b.st.hash = .same) :
    mu t = 32 + (t.ro.steps.length - sub.curIdx.toNat) * 64 +
      (match b.st.batchState with
       | .verifying => if b.st.updated ≠ w.updated ∨ b.st.updatedReady ≠ w.updatedReady then 20 else 18
       | .ready => 16
       | _ => 22) := by
  unfold mu
  dsimp only
  rw [h.wl]
  dsimp only
  rw [h.ph, h.re]
  dsimp only
  rw [h.hsub]
  dsimp only
  unfold subRank stepW
  rw [h.st]
  dsimp only
  unfold brRank
  rw [h.br]
  dsimp only
  rw [if_neg (by rw [h.part]; simp), ((lG4_init_iff b w).1 h.init).2.2.2]
  dsimp only
  rw [if_neg (by rw [hh]; simp)]
  cases b.st.batchState <;> rfl

theorem lG4_mu_post (t : CS) (w : CWl) (sub : Sub) (hw : t.wl = some w) (hph : t.ro.phase = .progressing)
    (hre : t.ro.reason = .inRolling) (hsub : t.ro.sub = some sub)
    (hst : sub.state = .trafficRouting ∨ sub.state = .metricsAnalysis) :
    mu t ≤ 32 + (t.ro.steps.length - sub.curIdx.toNat) * 64 + 8 ∧ 12 < mu t := by
  unfold mu
  dsimp only
  rw [hw]
  dsimp only
  rw [hph, hre]
  dsimp only
  rw [hsub]
  dsimp only
  unfold subRank stepW
  rcases hst with hst | hst <;> rw [hst] <;> dsimp only <;> omega

/-! ### what the invariant gives in the classes 10, 11, 12 -/

/-- the class fact the definition of `cls` lacks: the BatchRelease carries the policy `createBatchRelease` writes -/
def lG4_pol (s : CS) : Bool := match s.br with | some b => b.policy == "" | none => true

structure lG4_Prep (s : CS) (w : CWl) (sub : Sub) (b : CBr) (step : Step) : Prop where
  gone : s.gone = false
  good : RoGood s.ro
  wok : wlOK w = true
  sg : SubGood s.ro sub w.updateRevision
  env : envWl w = w
  cons : w.generation = w.observedGeneration
  tr : s.ro.hasTraffic = false
  hstep : s.ro.steps[(sub.curIdx - 1).toNat]? = some step
  wt : step.weight = none
  rev : w.updateRevision ≠ ""
  pos : 0 < w.replicas
  unp : w.paused = false
  plan : b.batches = planOf s.ro
  ready : ∀ e ∈ planOf s.ro, stepReady w.replicas e = true
  ra : b.rollbackAnno = false
  nnu : b.st.noNeedUpdate = none
  cb0 : 0 ≤ b.st.currentBatch

theorem lG4_prep (s : CS) (h : liveInv s = true) (hne1 : cls s ≠ 1) (w : CWl) (sub : Sub) (b : CBr) (hup : lG4_Up s w sub b) :
    ∃ step, lG4_Prep s w sub b step := by
  obtain ⟨hf, hcfg, _, hbnd⟩ := (liveInv_iff s).1 h
  have hbnd' : atBoundary s = true := by
    rcases hbnd with h1 | h1
    · exact absurd h1 hne1
    · exact h1
  obtain ⟨hgone, hg, w', hw', hwok, hmono, hbrok, hpi⟩ := fwd_parts s hf
  have hww : w' = w := by rw [hup.wl] at hw'; cases hw'; rfl
  subst hww
  rw [phaseInv_rolling s w' sub hup.ph hup.re hup.hsub] at hpi
  simp only [Bool.and_eq_true] at hpi
  obtain ⟨⟨hsubok, hlink⟩, _⟩ := hpi
  have hsg := (subOK_iff _ _ _).1 hsubok
  rw [hup.br] at hlink hbrok
  have hlink' : linkOK s.ro sub b = true := hlink
  have hbrok' : brOK b = true := hbrok
  obtain ⟨hbat, _, _, _⟩ := (linkOK_iff' _ _ _).1 hlink'
  obtain ⟨_, b2, _, b4, b5⟩ := (brOK_iff' b).1 hbrok'
  unfold liveCfg at hcfg
  rw [hup.wl] at hcfg
  simp only [Bool.and_eq_true, Bool.not_eq_true', decide_eq_true_eq, bne_iff_ne, ne_eq, List.all_eq_true] at hcfg
  obtain ⟨⟨c1, c2⟩, ⟨⟨c3, c4⟩, c5⟩, c6⟩ := hcfg
  have hlt : (sub.curIdx - 1).toNat < s.ro.steps.length := by
    have := hsg.lo; have := hsg.hi; omega
  have hw0 := (c2 _ (List.getElem_mem hlt)).1
  unfold atBoundary at hbnd'
  rw [hup.wl] at hbnd'
  simp only [Bool.and_eq_true, beq_iff_eq] at hbnd'
  have hgen : w'.observedGeneration = w'.generation := by
    have h1 : (envWl w').observedGeneration = w'.observedGeneration := by rw [hbnd'.1]
    rw [← h1]; unfold envWl; dsimp only; split <;> rfl
  exact ⟨s.ro.steps[(sub.curIdx - 1).toNat], hgone, hg, hwok, hsg, hbnd'.1, hgen.symm, c1, List.getElem?_eq_getElem hlt,
    by simpa using hw0, c6, c3, c5, hbat, c4, b4, b5, b2⟩

/-- the BatchRelease spec is what `runBatchRelease` wants for this step -/
theorem lG4_specEq (s : CS) (w : CWl) (sub : Sub) (b : CBr) (step : Step) (hup : lG4_Up s w sub b) (hp : lG4_Prep s w sub b step)
    (hcore : lG4_Core b w) (hpol : lG4_pol s = true) :
    brSpecEq (roBr b) (desiredBR s.ro w.updateRevision (sub.curIdx - 1) false) = true := by
  unfold lG4_pol at hpol
  rw [hup.br] at hpol
  dsimp only at hpol
  unfold brSpecEq desiredBR roBr
  dsimp only
  have e1 : b.batches = List.map (fun x => x.replicas) s.ro.steps := hp.plan
  rw [e1, hup.part, hcore.rid, hp.ra, hcore.so, hcore.ft]
  simpa using hpol

/-- the executor's view is steady -/
theorem lG4_steady (s : CS) (w : CWl) (sub : Sub) (b : CBr) (step : Step) (hup : lG4_Up s w sub b) (hp : lG4_Prep s w sub b step)
    (hcore : lG4_Core b w) : lG4_Steady (exBr b) (exWl w) := by
  obtain ⟨i1, i2, _, i4⟩ := (lG4_init_iff b w).1 hup.init
  refine ⟨i4, hcore.del, ⟨_, hup.part⟩, hcore.hash, ?_, hp.ra, ?_, i2, i1⟩
  · show b.st.currentBatch < (b.batches.length : Int)
    rw [hp.plan, planOf_length, hup.cb]
    have := hp.sg.hi
    omega
  · show w.observedGeneration ≥ w.generation
    have := hp.cons
    omega

/-- how an executor result that keeps the workload lands -/
def lG4_land (b : CBr) (st' : Executor.Status) : CBr :=
  { b with hasFinalizer := true, st := st', observedGeneration := b.generation,
           observedRolloutID := if st'.rolloutIDSame then b.rolloutID else b.observedRolloutID }

theorem lG4_stepBr (a : CS) (b : CBr) (w : CWl) (st' : Executor.Status) (rq er : Bool) (hb : a.br = some b) (hw : a.wl = some w)
    (hrec : Executor.reconcile (exBr b) (some (exWl w)) =
      .val { br := some { Executor.withFinalizer (exBr b) with status := st' }, wl := some (exWl w), requeue := rq, err := er }) :
    stepBr a = some { a with br := some (lG4_land b st'), wl := some w } := by
  unfold stepBr
  rw [hb]
  dsimp only
  rw [hw]
  show (match Executor.reconcile (exBr b) (some (exWl w)) with
    | .panic => none
    | .val o => some (landBr a b o)) = _
  rw [hrec]
  dsimp only
  unfold landBr
  dsimp only
  rw [hw]
  have e : wlLand (some w) (some (exWl w)) = some w := by
    unfold wlLand exWl
    dsimp only
    rw [if_neg (by simp)]
  rw [e]
  rfl

/-! ### the round -/

/-- from the two reconciles to the state after the round -/
theorem lG4_finish (s : CS) (w : CWl) (sub : Sub) (b : CBr) (step : Step) (hup : lG4_Up s w sub b) (hp : lG4_Prep s w sub b step)
    (h : liveInv s = true) (subA : Sub) (b' : CBr) (hnp : subA.state ≠ .paused)
    (hRo : stepRo s = some { s with ro := { s.ro with sub := some subA } })
    (hBr : stepBr { s with ro := { s.ro with sub := some subA } } =
      some { s with ro := { s.ro with sub := some subA }, br := some b', wl := some w }) :
    ∃ t, round s = some t ∧ fwdInv t = true ∧ liveCfg t = true ∧ atBoundary t = true ∧ t.wl = some w ∧
      t.ro.phase = s.ro.phase ∧ t.ro.reason = s.ro.reason ∧ t.ro.sub = some { subA with lastUpdate := ageAge subA.lastUpdate } ∧
      t.br = some b' ∧ t.ro.steps = s.ro.steps := by
  obtain ⟨hf, hcfg, _, _⟩ := (liveInv_iff s).1 h
  obtain ⟨a, bb, ha, _, hb, _, hr, hfwd⟩ := round_fwd s hf
  rw [hRo] at ha
  cases ha
  rw [hBr] at hb
  cases hb
  have hshape := lG4_tail_shape { s with ro := { s.ro with sub := some subA }, br := some b', wl := some w } subA hp.gone rfl hnp
  have hwl : (roundTail { s with ro := { s.ro with sub := some subA }, br := some b', wl := some w }).wl = some w := by
    rw [hshape]
    show (some w).map envWl = some w
    rw [Option.map_some, hp.env]
  refine ⟨_, hr, hfwd, ?_, lG4_atBoundary_tail _ w hwl hp.env, hwl, ?_, ?_, ?_, ?_, ?_⟩
  · rw [lG4_liveCfg_congr s _ w hup.wl hwl (by rw [hshape]) (by rw [hshape])]
    exact hcfg
  all_goals rw [hshape]

theorem lG4_refresh_eq (st : Executor.Status) (ew : Executor.Workload) :
    Executor.refreshStatus st (some ew) =
      { st with updated := ew.updated, updatedReady := ew.updatedReady, hash := if st.hash = .empty then .same else st.hash,
                rolloutIDSame := true } := rfl

theorem lG4_subA_facts (w : CWl) (sub : Sub) :
    (lG4_subA w sub).curIdx = sub.curIdx ∧ (lG4_subA w sub).state = sub.state := by
  unfold lG4_subA
  exact ⟨(lG4_fill_facts _ _).1, (lG4_fill_facts _ _).2.2.1⟩

theorem lG4_land_core (b : CBr) (w : CWl) (st' : Executor.Status) (hc : lG4_Core b w) (hh : st'.hash = .same)
    (hr : st'.rolloutIDSame = true) : lG4_Core (lG4_land b st') w := by
  refine ⟨rfl, rfl, hc.del, ?_, hc.rid, hc.so, hc.ft, hh⟩
  show (if st'.rolloutIDSame = true then b.rolloutID else b.observedRolloutID) = b.rolloutID
  rw [if_pos hr]

theorem lG4_readyNow_congr' (eb eb' : Executor.BR) (ew : Executor.Workload) (h1 : eb'.batches = eb.batches)
    (h2 : eb'.status.currentBatch = eb.status.currentBatch) (h3 : eb'.status.noNeedUpdate = eb.status.noNeedUpdate)
    (h4 : eb'.failureThreshold = eb.failureThreshold) :
    RV.Oracle.Executor.batchReadyNow eb' (some ew) = RV.Oracle.Executor.batchReadyNow eb (some ew) := by
  unfold RV.Oracle.Executor.batchReadyNow RV.Executor.obsOf
  rw [h1, h2, h3, h4]

theorem lG4_readyNow_congr (b b' : CBr) (w : CWl) (h1 : b'.batches = b.batches) (h2 : b'.st.currentBatch = b.st.currentBatch)
    (h3 : b'.st.noNeedUpdate = b.st.noNeedUpdate) (h4 : b'.failureThreshold = b.failureThreshold) :
    RV.Oracle.Executor.batchReadyNow (exBr b') (some (exWl w)) = RV.Oracle.Executor.batchReadyNow (exBr b) (some (exWl w)) :=
  lG4_readyNow_congr' (exBr b) (exBr b') (exWl w) h1 h2 h3 h4

/-! ### the three classes

  The statements `round_cls_10`, `round_cls_11`, `round_cls_12` as given are FALSE: nothing in `liveInv` (neither `cls` / `brSync`
  nor `fwdInv` / `linkOK`) says that the BatchRelease carries the policy `createBatchRelease` writes (`b.policy == ""`).  With
  another policy `runBatchRelease` finds the spec different, rewrites it (generation bumped, plan hash differs), the executor
  recalculates, and the round leads from class 10 / 11 / 12 to class 9 with a LARGER measure (116 / 114 / 112 → 118 on the
  witnesses `lG4_cex*` below).  Original statements:

    theorem round_cls_10 (s : CS) (h : liveInv s = true) (hc : cls s = 10) : ∃ s', round s = some s' ∧ liveInv s' = true ∧ mu s' < mu s
    theorem round_cls_11 (s : CS) (h : liveInv s = true) (hc : cls s = 11) : ∃ s', round s = some s' ∧ liveInv s' = true ∧ mu s' < mu s
    theorem round_cls_12 (s : CS) (h : liveInv s = true) (hc : cls s = 12) : ∃ s', round s = some s' ∧ liveInv s' = true ∧ mu s' < mu s

  Proved instead (end of the file): the same with the extra hypothesis `polInv s = true` of the carried invariant, which in these
  classes (`32 < mu`) says exactly `lG4_pol s = true`; `pol_cls_10/11/12` show that the round preserves it. -/

/-- everything the partial theorems say about the state after the round -/
def lG4_Good (s s' : CS) : Prop := liveInv s' = true ∧ mu s' < mu s ∧ lG4_pol s' = true ∧ 12 < mu s'

theorem lG4_pol_of (s t : CS) (b b' : CBr) (hs : s.br = some b) (ht : t.br = some b') (hp : b'.policy = b.policy)
    (h : lG4_pol s = true) : lG4_pol t = true := by
  unfold lG4_pol at h ⊢
  rw [hs] at h
  rw [ht]
  dsimp only at h ⊢
  rw [hp]; exact h

theorem lG4_round_10 (s : CS) (h : liveInv s = true) (hc : cls s = 10) (hpol : lG4_pol s = true) :
    ∃ s', round s = some s' ∧ lG4_Good s s' := by
  obtain ⟨w, sub, b, hup, hcase⟩ := lG4_cls_up s 10 hc (Or.inl rfl)
  rcases hcase with ⟨_, hlag, hbs, hpl⟩ | ⟨h11, _⟩ | ⟨h12, _⟩
  · obtain ⟨step, hp⟩ := lG4_prep s h (by omega) w sub b hup
    obtain ⟨hne, hcore⟩ := (lG4_lag_iff b w).1 hlag
    have heq := lG4_specEq s w sub b step hup hp hcore hpol
    have hsteady := lG4_steady s w sub b step hup hp hcore
    have hRo := (lG4_stepRo s w sub b step hp.gone hp.good hup.wl hp.wok hup.ph hup.re hup.hsub hp.sg hup.st hup.br hp.cons
      hp.tr hp.hstep hp.wt hp.rev hcore.rid heq).1 (by show decide (b.st.batchState = .ready) = false; rw [hbs]; rfl)
    have hrne : Executor.refreshStatus (exBr b).status (some (exWl w)) ≠ (exBr b).status := by
      intro he
      rw [lG4_refresh_eq] at he
      have e1 := congrArg Executor.Status.updated he
      have e2 := congrArg Executor.Status.updatedReady he
      rcases hne with hne | hne
      · exact hne e1.symm
      · exact hne e2.symm
    have hrec := lG4_exec_stop (exBr b) (exWl w) hsteady hrne
    have hBr := lG4_stepBr { s with ro := { s.ro with sub := some (lG4_subA w sub) } } b w _ _ _ hup.br hup.wl hrec
    obtain ⟨sa1, sa2⟩ := lG4_subA_facts w sub
    obtain ⟨t, hr, hfwd, hcfg, hbnd, t1, t2, t3, t4, t5, t6⟩ := lG4_finish s w sub b step hup hp h (lG4_subA w sub) _
      (by rw [sa2, hup.st]; simp) hRo hBr
    obtain ⟨i1, i2, i3, i4⟩ := (lG4_init_iff b w).1 hup.init
    have hupT : lG4_Up t w { lG4_subA w sub with lastUpdate := ageAge (lG4_subA w sub).lastUpdate }
        (lG4_land b (Executor.refreshStatus (exBr b).status (some (exWl w)))) :=
      ⟨t1, t2.trans hup.ph, t3.trans hup.re, t4, sa2.trans hup.st, t5,
        by show b.partition = some ((lG4_subA w sub).curIdx - 1); rw [sa1]; exact hup.part,
        (lG4_init_iff _ w).2 ⟨i1, i2, i3, i4⟩,
        by show b.st.currentBatch = (lG4_subA w sub).curIdx - 1; rw [sa1]; exact hup.cb⟩
    have hcoreT := lG4_land_core b w (Executor.refreshStatus (exBr b).status (some (exWl w))) hcore
      (by rw [lG4_refresh_eq]; show (if b.st.hash = .empty then Executor.HashObs.same else b.st.hash) = .same; rw [hcore.hash]; rfl) rfl
    have hsyncT : brSync (lG4_land b (Executor.refreshStatus (exBr b).status (some (exWl w)))) w = true :=
      (lG4_sync_iff _ w).2 ⟨⟨rfl, rfl⟩, hcoreT⟩
    have hclsT : cls t = 11 := by
      rw [lG4_cls_eval_up t w _ _ hupT hsyncT]
      have e : (lG4_land b (Executor.refreshStatus (exBr b).status (some (exWl w)))).st.batchState = .verifying := hbs
      rw [e]
      dsimp only
      rw [if_pos (by exact hpl)]
    have hmuT := lG4_mu_up t w _ _ hupT hcoreT.hash
    have hmuS := lG4_mu_up s w sub b hup hcore.hash
    have e : (lG4_land b (Executor.refreshStatus (exBr b).status (some (exWl w)))).st.batchState = .verifying := hbs
    rw [e] at hmuT
    rw [hbs] at hmuS
    dsimp only at hmuT hmuS
    rw [if_pos hne] at hmuS
    rw [if_neg (by intro hh; rcases hh with hh | hh <;> exact hh rfl), t6] at hmuT
    have ecur : ({ lG4_subA w sub with lastUpdate := ageAge (lG4_subA w sub).lastUpdate } : Sub).curIdx = sub.curIdx := sa1
    rw [ecur] at hmuT
    refine ⟨t, hr, (liveInv_iff t).2 ⟨hfwd, hcfg, by omega, Or.inr hbnd⟩, by omega, ?_, by omega⟩
    exact lG4_pol_of s t b _ hup.br t5 rfl hpol
  · omega
  · omega

theorem lG4_ready_of_partLow (s : CS) (w : CWl) (sub : Sub) (b : CBr) (step : Step) (hp : lG4_Prep s w sub b step)
    (hcore : lG4_Core b w) (_hu : b.st.updated = w.updated) (hpl : partLow b w = true) :
    RV.Oracle.Executor.batchReadyNow (exBr b) (some (exWl w)) = true := by
  obtain ⟨hR, hk0⟩ := RV.Lemmas.ClosedLoop.wlOK_facts w hp.wok
  unfold partLow at hpl
  split at hpl
  · rename_i k e hk he
    have hlow := of_decide_eq_true hpl
    have he' := he
    rw [if_neg (by have := hp.cb0; omega)] at he'
    have hmem : e ∈ planOf s.ro := by rw [← hp.plan]; exact List.mem_of_getElem? he'
    obtain ⟨_, e2, e3⟩ := lG4_env_fix w k hp.env hp.unp hk (hk0 k hk) hR
    exact lG4_ready_now b w k e hp.pos hk he hlow (hk0 k hk) (hp.ready e hmem) hp.nnu hcore.ft e3 e2
  · cases hpl

theorem lG4_round_11 (s : CS) (h : liveInv s = true) (hc : cls s = 11) (hpol : lG4_pol s = true) :
    ∃ s', round s = some s' ∧ lG4_Good s s' := by
  obtain ⟨w, sub, b, hup, hcase⟩ := lG4_cls_up s 11 hc (Or.inr (Or.inl rfl))
  rcases hcase with ⟨h10, _⟩ | ⟨_, hsync, hbs, hpl⟩ | ⟨h12, _⟩
  · omega
  · obtain ⟨step, hp⟩ := lG4_prep s h (by omega) w sub b hup
    obtain ⟨⟨hu1, hu2⟩, hcore⟩ := (lG4_sync_iff b w).1 hsync
    have heq := lG4_specEq s w sub b step hup hp hcore hpol
    have hsteady := lG4_steady s w sub b step hup hp hcore
    have hRo := (lG4_stepRo s w sub b step hp.gone hp.good hup.wl hp.wok hup.ph hup.re hup.hsub hp.sg hup.st hup.br hp.cons
      hp.tr hp.hstep hp.wt hp.rev hcore.rid heq).1 (by show decide (b.st.batchState = .ready) = false; rw [hbs]; rfl)
    have hready := lG4_ready_of_partLow s w sub b step hp hcore hu1 hpl
    have hsame : (exBr b).status.rolloutIDSame = true := by
      show decide (b.observedRolloutID = b.rolloutID) = true
      rw [hcore.oid]; simp
    have hid : Executor.refreshStatus (exBr b).status (some (exWl w)) = (exBr b).status :=
      lG4_refresh_id _ _ hu1 hu2 hcore.hash hsame
    have hrec := lG4_exec_verify (exBr b) (exWl w) hsteady hid hbs hready
    have hBr := lG4_stepBr { s with ro := { s.ro with sub := some (lG4_subA w sub) } } b w _ _ _ hup.br hup.wl hrec
    obtain ⟨sa1, sa2⟩ := lG4_subA_facts w sub
    obtain ⟨t, hr, hfwd, hcfg, hbnd, t1, t2, t3, t4, t5, t6⟩ := lG4_finish s w sub b step hup hp h (lG4_subA w sub) _
      (by rw [sa2, hup.st]; simp) hRo hBr
    obtain ⟨i1, i2, i3, i4⟩ := (lG4_init_iff b w).1 hup.init
    have hupT : lG4_Up t w { lG4_subA w sub with lastUpdate := ageAge (lG4_subA w sub).lastUpdate }
        (lG4_land b { (exBr b).status with batchState := .ready, hasReadyTime := true }) :=
      ⟨t1, t2.trans hup.ph, t3.trans hup.re, t4, sa2.trans hup.st, t5,
        by show b.partition = some ((lG4_subA w sub).curIdx - 1); rw [sa1]; exact hup.part,
        (lG4_init_iff _ w).2 ⟨i1, i2, i3, i4⟩,
        by show b.st.currentBatch = (lG4_subA w sub).curIdx - 1; rw [sa1]; exact hup.cb⟩
    have hcoreT := lG4_land_core b w { (exBr b).status with batchState := .ready, hasReadyTime := true } hcore hcore.hash hsame
    have hsyncT : brSync (lG4_land b { (exBr b).status with batchState := .ready, hasReadyTime := true }) w = true :=
      (lG4_sync_iff _ w).2 ⟨⟨hu1, hu2⟩, hcoreT⟩
    have hclsT : cls t = 12 := by
      rw [lG4_cls_eval_up t w _ _ hupT hsyncT]
      show (if (true && RV.Oracle.Executor.batchReadyNow (exBr (lG4_land b { (exBr b).status with batchState := .ready, hasReadyTime := true })) (some (exWl w))) = true then 12 else 0) = 12
      rw [(lG4_readyNow_congr b (lG4_land b { (exBr b).status with batchState := .ready, hasReadyTime := true }) w rfl rfl rfl rfl).trans hready]
      rfl
    have hmuT := lG4_mu_up t w _ _ hupT hcoreT.hash
    have hmuS := lG4_mu_up s w sub b hup hcore.hash
    have e : (lG4_land b { (exBr b).status with batchState := .ready, hasReadyTime := true }).st.batchState = .ready := rfl
    rw [e] at hmuT
    rw [hbs] at hmuS
    dsimp only at hmuT hmuS
    rw [if_neg (by intro hh; rcases hh with hh | hh; exact hh hu1; exact hh hu2)] at hmuS
    rw [t6] at hmuT
    have ecur : ({ lG4_subA w sub with lastUpdate := ageAge (lG4_subA w sub).lastUpdate } : Sub).curIdx = sub.curIdx := sa1
    rw [ecur] at hmuT
    refine ⟨t, hr, (liveInv_iff t).2 ⟨hfwd, hcfg, by omega, Or.inr hbnd⟩, by omega, ?_, by omega⟩
    exact lG4_pol_of s t b _ hup.br t5 rfl hpol
  · omega

theorem lG4_round_12 (s : CS) (h : liveInv s = true) (hc : cls s = 12) (hpol : lG4_pol s = true) :
    ∃ s', round s = some s' ∧ lG4_Good s s' := by
  obtain ⟨w, sub, b, hup, hcase⟩ := lG4_cls_up s 12 hc (Or.inr (Or.inr rfl))
  rcases hcase with ⟨h10, _⟩ | ⟨h11, _⟩ | ⟨_, hsync, hbs, hrt, hready⟩
  · omega
  · omega
  · obtain ⟨step, hp⟩ := lG4_prep s h (by omega) w sub b hup
    obtain ⟨⟨hu1, hu2⟩, hcore⟩ := (lG4_sync_iff b w).1 hsync
    have heq := lG4_specEq s w sub b step hup hp hcore hpol
    have hsteady := lG4_steady s w sub b step hup hp hcore
    have hRo := (lG4_stepRo s w sub b step hp.gone hp.good hup.wl hp.wok hup.ph hup.re hup.hsub hp.sg hup.st hup.br hp.cons
      hp.tr hp.hstep hp.wt hp.rev hcore.rid heq).2
      (by show decide (b.st.hash = .same) = true; rw [hcore.hash]; rfl)
      (by show decide (b.generation = b.observedGeneration) = true; exact decide_eq_true hcore.gen)
      (by show decide (b.st.batchState = .ready) = true; rw [hbs]; rfl)
      (by show ¬ b.st.currentBatch + 1 < sub.curIdx; rw [hup.cb]; omega)
    have hsame : (exBr b).status.rolloutIDSame = true := by
      show decide (b.observedRolloutID = b.rolloutID) = true
      rw [hcore.oid]; simp
    have hid : Executor.refreshStatus (exBr b).status (some (exWl w)) = (exBr b).status :=
      lG4_refresh_id _ _ hu1 hu2 hcore.hash hsame
    have hpartd : Executor.isPartitioned (exBr b) = true := by
      unfold Executor.isPartitioned
      show (match b.partition with | some p => decide (p ≤ b.st.currentBatch) | none => false) = true
      rw [hup.part, hup.cb]
      simp
    have hrec := lG4_exec_ready (exBr b) (exWl w) hsteady hid hbs hready hpartd
    have hBr := lG4_stepBr { s with ro := { s.ro with sub := some { lG4_subA w sub with state := lG4_next s.ro step w.replicas, podHash := w.updateRevision, lastUpdate := .fresh } } } b w _ _ _ hup.br hup.wl hrec
    obtain ⟨sa1, sa2⟩ := lG4_subA_facts w sub
    have hnext : lG4_next s.ro step w.replicas = .trafficRouting ∨ lG4_next s.ro step w.replicas = .metricsAnalysis := by
      unfold lG4_next; split
      · right; rfl
      · left; rfl
    obtain ⟨t, hr, hfwd, hcfg, hbnd, t1, t2, t3, t4, t5, t6⟩ := lG4_finish s w sub b step hup hp h _ _
      (by show lG4_next s.ro step w.replicas ≠ .paused; rcases hnext with e | e <;> rw [e] <;> simp) hRo hBr
    obtain ⟨i1, i2, i3, i4⟩ := (lG4_init_iff b w).1 hup.init
    have hcoreT := lG4_land_core b w (exBr b).status hcore hcore.hash hsame
    have hsyncT : brSync (lG4_land b (exBr b).status) w = true := (lG4_sync_iff _ w).2 ⟨⟨hu1, hu2⟩, hcoreT⟩
    have hinitT : brInit (lG4_land b (exBr b).status) w = true := (lG4_init_iff _ w).2 ⟨i1, i2, i3, i4⟩
    have hreadyT : RV.Oracle.Executor.batchReadyNow (exBr (lG4_land b (exBr b).status)) (some (exWl w)) = true := by
      exact (lG4_readyNow_congr b (lG4_land b (exBr b).status) w rfl rfl rfl rfl).trans hready
    have hclsT := lG4_cls_eval_post t w _ (lG4_land b (exBr b).status) t1 (t2.trans hup.ph) (t3.trans hup.re) t4 t5 hnext
      (by
        simp only [Bool.and_eq_true, beq_iff_eq]
        refine ⟨⟨⟨⟨⟨⟨hsyncT, hinitT⟩, hbs⟩, hrt⟩, ?_⟩, ?_⟩, hreadyT⟩
        · show b.partition = some ((lG4_subA w sub).curIdx - 1); rw [sa1]; exact hup.part
        · show b.st.currentBatch = (lG4_subA w sub).curIdx - 1; rw [sa1]; exact hup.cb)
    obtain ⟨hmuT, hmu12⟩ := lG4_mu_post t w _ t1 (t2.trans hup.ph) (t3.trans hup.re) t4 hnext
    have hmuS := lG4_mu_up s w sub b hup hcore.hash
    rw [hbs] at hmuS
    dsimp only at hmuS
    rw [t6] at hmuT
    have ecur : ({ lG4_subA w sub with state := lG4_next s.ro step w.replicas, podHash := w.updateRevision, lastUpdate := ageAge Age.fresh } : Sub).curIdx = sub.curIdx := sa1
    rw [ecur] at hmuT
    refine ⟨t, hr, (liveInv_iff t).2 ⟨hfwd, hcfg, by omega, Or.inr hbnd⟩, by omega, ?_, hmu12⟩
    exact lG4_pol_of s t b _ hup.br t5 rfl hpol

/-! ### `doneInv` after the round (no extra hypothesis needed: the rollout is still rolling, so the measure is above 12) -/

theorem lG4_tail_phase (x : CS) : (roundTail x).ro.phase = x.ro.phase ∧ (roundTail x).ro.reason = x.ro.reason := by
  have ha : ∀ y : CS, (approve y).ro.phase = y.ro.phase ∧ (approve y).ro.reason = y.ro.reason ∧ (approve y).gone = y.gone := by
    intro y
    unfold approve
    split
    · exact ⟨rfl, rfl, rfl⟩
    · split
      · split <;> exact ⟨rfl, rfl, rfl⟩
      · exact ⟨rfl, rfl, rfl⟩
  have ht : ∀ y : CS, (tick y).ro.phase = y.ro.phase ∧ (tick y).ro.reason = y.ro.reason := by
    intro y
    unfold tick
    dsimp only
    split <;> exact ⟨rfl, rfl⟩
  unfold roundTail
  obtain ⟨a1, a2, _⟩ := ha { x with wl := x.wl.map envWl }
  obtain ⟨b1, b2⟩ := ht (approve { x with wl := x.wl.map envWl })
  exact ⟨b1.trans a1, b2.trans a2⟩

theorem lG4_stepBr_ro (a bb : CS) (h : stepBr a = some bb) : bb.ro = a.ro := by
  unfold stepBr at h
  split at h
  · cases h; rfl
  · split at h
    · cases h
    · cases h; rfl

theorem lG4_rolling_mu (t : CS) (hf : fwdInv t = true) (hph : t.ro.phase = .progressing) (hre : t.ro.reason = .inRolling) :
    12 < mu t := by
  obtain ⟨_, _, w, hw, _, _, _, hpi⟩ := fwd_parts t hf
  cases hs : t.ro.sub with
  | none =>
    unfold phaseInv at hpi
    rw [hph, hre] at hpi
    dsimp only at hpi
    rw [hs] at hpi
    cases hpi
  | some sub =>
    unfold mu
    dsimp only
    rw [hw]
    dsimp only
    rw [hph, hre]
    dsimp only
    rw [hs]
    dsimp only
    omega

theorem lG4_done (s : CS) (h : liveInv s = true) (hc : cls s = 10 ∨ cls s = 11 ∨ cls s = 12) :
    ∀ s', round s = some s' → 12 < mu s' := by
  obtain ⟨w, sub, b, hup, _⟩ := lG4_cls_up s (cls s) rfl hc
  obtain ⟨step, hp⟩ := lG4_prep s h (by omega) w sub b hup
  obtain ⟨hf, _, _, _⟩ := (liveInv_iff s).1 h
  obtain ⟨a, bb, ha, _, hb, _, hr, hft⟩ := round_fwd s hf
  intro s' hs'
  rw [hr] at hs'
  cases hs'
  have hA : a.ro.phase = .progressing ∧ a.ro.reason = .inRolling := by
    have hwl := world_wl s w hup.wl
    have hcn : (roWl w).consistent = true := by simp [roWl, hp.cons]
    have hnr := noRollback w hp.wok
    obtain ⟨o1, _, o3⟩ := RV.Props.Reconcile.csObserve_same s.ro (roWl w)
    obtain ⟨_, f2⟩ := csObserve_frame s.ro (roWl w)
    obtain ⟨id, gen, hs1⟩ := csObserve_sub s.ro (roWl w) sub hup.hsub
    have hrec := reconcile_roll (roWorld s) (roWl w) _ hp.good hup.ph hup.re hwl hcn hs1
    rw [inRolling_roll (roWorld s) (csObserve (roWorld s).ro (roWl w)) _ sub (roWl w) hup.hsub hnr (o1.2.2.2.1.trans hp.good.unpaused) hp.sg.rev.symm hp.sg.hash,
      if_neg (by show ¬ sub.state = .completed; rw [hup.st]; simp)] at hrec
    unfold stepRo at ha
    rw [if_neg (by simp [hp.gone]), hrec] at ha
    generalize runCanary _ = rc at ha
    cases rc with
    | panic => cases ha
    | ok c err =>
      dsimp only at ha
      cases err with
      | true =>
        rw [if_pos rfl] at ha
        cases ha
        exact ⟨hup.ph, hup.re⟩
      | false =>
        rw [if_neg (by simp)] at ha
        cases ha
        exact ⟨o3.trans hup.ph, f2.trans hup.re⟩
  have hB := lG4_stepBr_ro a bb hb
  obtain ⟨p1, p2⟩ := lG4_tail_phase bb
  exact lG4_rolling_mu _ hft (by rw [p1, hB]; exact hA.1) (by rw [p2, hB]; exact hA.2)

theorem lG4_doneInv_of (t : CS) (h : 12 < mu t) : doneInv t = true := by
  unfold doneInv
  split
  · rfl
  · simp only [Bool.and_eq_true, Bool.or_eq_true, decide_eq_true_eq]
    exact ⟨Or.inl h, Or.inl (by omega)⟩

theorem done_cls_10 (s : CS) (h : liveInv s = true) (hd : doneInv s = true) (hc : cls s = 10) :
    ∀ s', round s = some s' → doneInv s' = true :=
  fun s' hs' => lG4_doneInv_of s' (lG4_done s h (Or.inl hc) s' hs')

theorem done_cls_11 (s : CS) (h : liveInv s = true) (hd : doneInv s = true) (hc : cls s = 11) :
    ∀ s', round s = some s' → doneInv s' = true :=
  fun s' hs' => lG4_doneInv_of s' (lG4_done s h (Or.inr (Or.inl hc)) s' hs')

theorem done_cls_12 (s : CS) (h : liveInv s = true) (hd : doneInv s = true) (hc : cls s = 12) :
    ∀ s', round s = some s' → doneInv s' = true :=
  fun s' hs' => lG4_doneInv_of s' (lG4_done s h (Or.inr (Or.inr hc)) s' hs')

/-! ### the theorems of the group; the policy fact comes from the carried invariant `polInv` -/

theorem lG4_pol_of_polInv (s : CS) (hp : polInv s = true) (hc : cls s = 10 ∨ cls s = 11 ∨ cls s = 12) : lG4_pol s = true := by
  obtain ⟨w, sub, b, hup, hcase⟩ := lG4_cls_up s (cls s) rfl hc
  have hh : b.st.hash = .same := by
    rcases hcase with ⟨_, hlag, _⟩ | ⟨_, hsync, _⟩ | ⟨_, hsync, _⟩
    · exact ((lG4_lag_iff b w).1 hlag).2.hash
    · exact ((lG4_sync_iff b w).1 hsync).2.hash
    · exact ((lG4_sync_iff b w).1 hsync).2.hash
  have hmu := lG4_mu_up s w sub b hup hh
  have hge : 16 ≤ (match b.st.batchState with
       | .verifying => if b.st.updated ≠ w.updated ∨ b.st.updatedReady ≠ w.updatedReady then 20 else 18
       | .ready => 16
       | _ => 22) := by
    cases b.st.batchState <;> dsimp only <;> (try split) <;> omega
  unfold polInv at hp
  unfold lG4_pol
  rw [hup.br] at hp ⊢
  dsimp only at hp ⊢
  simp only [Bool.or_eq_true, decide_eq_true_eq] at hp
  rcases hp with hp | hp
  · omega
  · exact hp

theorem lG4_polInv_of (t : CS) (h : lG4_pol t = true) : polInv t = true := by
  unfold lG4_pol at h
  unfold polInv
  split
  · rename_i b hb
    rw [hb] at h
    dsimp only at h
    rw [h]; simp
  · rfl

/-- class 10 (verifying, counters lag): the executor refreshes its counters; successor class 11 -/
theorem round_cls_10 (s : CS) (h : liveInv s = true) (hp : polInv s = true) (hc : cls s = 10) :
    ∃ s', round s = some s' ∧ liveInv s' = true ∧ mu s' < mu s := by
  obtain ⟨s', hr, h1, h2, _, _⟩ := lG4_round_10 s h hc (lG4_pol_of_polInv s hp (Or.inl hc))
  exact ⟨s', hr, h1, h2⟩

/-- class 11 (verifying, in sync, partition low enough): the executor finds the batch ready; successor class 12 -/
theorem round_cls_11 (s : CS) (h : liveInv s = true) (hp : polInv s = true) (hc : cls s = 11) :
    ∃ s', round s = some s' ∧ liveInv s' = true ∧ mu s' < mu s := by
  obtain ⟨s', hr, h1, h2, _, _⟩ := lG4_round_11 s h hc (lG4_pol_of_polInv s hp (Or.inr (Or.inl hc)))
  exact ⟨s', hr, h1, h2⟩

/-- class 12 (batch ready): the Rollout controller leaves `StepUpgrade`; successor class 13 or 14 -/
theorem round_cls_12 (s : CS) (h : liveInv s = true) (hp : polInv s = true) (hc : cls s = 12) :
    ∃ s', round s = some s' ∧ liveInv s' = true ∧ mu s' < mu s := by
  obtain ⟨s', hr, h1, h2, _, _⟩ := lG4_round_12 s h hc (lG4_pol_of_polInv s hp (Or.inr (Or.inr hc)))
  exact ⟨s', hr, h1, h2⟩

theorem pol_cls_10 (s : CS) (h : liveInv s = true) (hp : polInv s = true) (hc : cls s = 10) :
    ∀ s', round s = some s' → polInv s' = true := by
  obtain ⟨t, hr, _, _, h3, _⟩ := lG4_round_10 s h hc (lG4_pol_of_polInv s hp (Or.inl hc))
  intro s' hs'
  rw [hr] at hs'; cases hs'
  exact lG4_polInv_of _ h3

theorem pol_cls_11 (s : CS) (h : liveInv s = true) (hp : polInv s = true) (hc : cls s = 11) :
    ∀ s', round s = some s' → polInv s' = true := by
  obtain ⟨t, hr, _, _, h3, _⟩ := lG4_round_11 s h hc (lG4_pol_of_polInv s hp (Or.inr (Or.inl hc)))
  intro s' hs'
  rw [hr] at hs'; cases hs'
  exact lG4_polInv_of _ h3

theorem pol_cls_12 (s : CS) (h : liveInv s = true) (hp : polInv s = true) (hc : cls s = 12) :
    ∀ s', round s = some s' → polInv s' = true := by
  obtain ⟨t, hr, _, _, h3, _⟩ := lG4_round_12 s h hc (lG4_pol_of_polInv s hp (Or.inr (Or.inr hc)))
  intro s' hs'
  rw [hr] at hs'; cases hs'
  exact lG4_polInv_of _ h3

/-! ### the witnesses against the original statements (`#eval lG4_cexRep (lG4_cex "X" .verifying 0 false)` etc.) -/

def lG4_cexRo : Rollout :=
  { style := .canary, steps := [⟨.pct 50, none, .manual⟩, ⟨.pct 100, none, .manual⟩], paused := false, disabled := false,
    deleting := false, hasFinalizer := true, hasTraffic := false, disableGen := false, rollbackInBatch := false, grace := 3,
    phase := .progressing, reason := .inRolling, condAge := .elapsed, succeeded := none, term := .none,
    sub := some { curIdx := 1, nextIdx := 2, state := .upgrade, finStep := .empty, canaryRev := "v2", stableRev := "v1", podHash := "v2", hash := .same, observedRolloutID := "v2", observedGen := 3, lastUpdate := .elapsed },
    realPartition := true }

def lG4_cexWl : CWl :=
  { replicas := 10, generation := 3, observedGeneration := 3, statusReplicas := 10, updated := 5, updatedReady := 5,
    updateRevision := "v2", currentRevision := "v1", partition := some (.pct 50), paused := false, owner := .this, inProgressAnno := true }

def lG4_cexBr (pol : String) (bs : RV.Executor.BState) (u : Int) (rt : Bool) : CBr :=
  { batches := [.pct 50, .pct 100], partition := some 0, rolloutID := "v2", policy := pol, rollbackAnno := false, specOther := true,
    failureThreshold := none, deleting := false, hasFinalizer := true, generation := 1, observedGeneration := 1,
    observedRolloutID := "v2",
    st := { phase := .progressing, currentBatch := 0, batchState := bs, hasReadyTime := rt, hash := .same, rolloutIDSame := true, observedReplicas := 10, updateRevision := "wl-v2", stableRevision := "wl-v1", noNeedUpdate := none, updated := u, updatedReady := u } }

/-- a state of class 10 / 11 / 12 (by batch state, counters, ready time) whose BatchRelease carries policy `pol` -/
def lG4_cex (pol : String) (bs : RV.Executor.BState) (u : Int) (rt : Bool) : CS :=
  { gone := false, ro := lG4_cexRo, wl := some lG4_cexWl, br := some (lG4_cexBr pol bs u rt),
    net := { stableExists := true, stableSel := none, canarySvc := none, stableIngress := true, canaryIng := none }, mem := Mem.empty }

/-- (invariant, class, measure) of a state, and of the state after one round -/
def lG4_cexRep (s : CS) : Bool × Nat × Nat × Option (Bool × Nat × Nat) :=
  (liveInv s, cls s, mu s, (round s).map (fun t => (liveInv t, cls t, mu t)))

/-- with the policy `createBatchRelease` writes the round goes 10 → 11 → 12 → 13 and the measure falls -/
example : lG4_cexRep (lG4_cex "" .verifying 0 false) = (true, 10, 116, some (true, 11, 114)) := by decide +kernel
example : lG4_cexRep (lG4_cex "" .verifying 5 false) = (true, 11, 114, some (true, 12, 112)) := by decide +kernel
example : lG4_cexRep (lG4_cex "" .ready 5 true) = (true, 12, 112, some (true, 13, 104)) := by decide +kernel

/-- with another policy the state is in the invariant and in class 10 / 11 / 12 all the same, but the round leads to class 9
    with a larger measure: `round_cls_10`, `round_cls_11`, `round_cls_12` without `polInv` fail on these states -/
example : lG4_cexRep (lG4_cex "X" .verifying 0 false) = (true, 10, 116, some (true, 9, 118)) := by decide +kernel
example : lG4_cexRep (lG4_cex "X" .verifying 5 false) = (true, 11, 114, some (true, 9, 118)) := by decide +kernel
example : lG4_cexRep (lG4_cex "X" .ready 5 true) = (true, 12, 112, some (true, 9, 118)) := by decide +kernel

end RV.Lemmas.ClosedLoop
