/-
  The step gates of a rolling rollout over one Rollout reconcile (`rolling_gate`), and the ghost-history invariant
  `gateInv` over one transition of the closed loop (`gate_step`).
-/
import RV.Lemmas.ClosedLoop
import RV.Lemmas.ClosedLoopArith
import RV.Lemmas.ClosedLoopLabels
namespace RV.Lemmas.ClosedLoop
open RV.Arith RV.Traffic RV.RolloutSM RV.ClosedLoop RV.Oracle.ClosedLoop RV.Oracle.RolloutSM RV.Props.Reconcile

/-- **C02.i over one whole reconcile of a rolling rollout** — with the hypotheses of `rolling_step`: if the rollout is
    still rolling afterwards then either the step index moved (only from `StepReady`, by one, into `BeforeStepUpgrade`),
    or it stayed and every gate that is passed was observed open on the world this reconcile read:
    pods ready ⇐ the BatchRelease reported the step ready; past routing ⇐ `DoTrafficRouting` reported done, or the
    full-replica bypass together with the BatchRelease report; past the pause ⇐ the pause was satisfied. -/
theorem rolling_gate (w : World) (wl : WL) (s : Sub)
    (hg : RoGood w.ro) (hph : w.ro.phase = .progressing) (hr : w.ro.reason = .inRolling)
    (hwl : w.wl = some wl) (hc : wl.consistent = true) (hnr : wl.inRollback = false)
    (hs : w.ro.sub = some s) (hsub : SubGood w.ro s wl.canaryRev)
    (r : StepResult) (hrec : reconcile w = .val r) (hin : r.w.ro.reason = .inRolling) (s' : Sub) (hs' : r.w.ro.sub = some s') :
    (s'.curIdx ≠ s.curIdx ∧ s.state = .ready ∧ s'.curIdx = s.curIdx + 1 ∧ s'.state = .init) ∨
    (s'.curIdx = s.curIdx ∧
     (podsReady s'.state = true → podsReady s.state = true ∨ (preUpgrade s.state = true ∧ upgradeDoneObs w s = true)) ∧
     (postRouting s'.state = true → postRouting s.state = true ∨ (s.state = .trafficRouting ∧ obsRoutedW w s = true) ∨
        (preUpgrade s.state = true ∧ upgradeDoneObs w s = true ∧ bypassW w s = true)) ∧
     (postPause s'.state = true → postPause s.state = true ∨ (s.state = .paused ∧ obsPauseW w s = true))) := by
  sorry

/-- **C02.ii** — the ghost invariant is inductive along the legal labels, and the step index advances by a reconcile
    only after all three observations of the step it leaves -/
theorem gate_step (g : Ghost) (s s' : CS) (l : Label) (hinv : fwdInv s = true) (hg : gateInv g s = true)
    (hl : legal s l = true) (hs : step s l = some s') :
    gateInv (gstep g s l s') s' = true ∧ advanceOK g s l s' = true := by
  sorry

end RV.Lemmas.ClosedLoop
