/-
  The step gates of a rolling rollout over one Rollout reconcile (`rolling_gate`), and the ghost-history invariant
  `gateInv` over one transition of the closed loop (`gate_step`).
-/
import RV.Lemmas.ClosedLoop
import RV.Lemmas.ClosedLoopArith
import RV.Lemmas.ClosedLoopLabels
namespace RV.Lemmas.ClosedLoop
open RV.Arith RV.Traffic RV.RolloutSM RV.ClosedLoop RV.Oracle.ClosedLoop RV.Oracle.RolloutSM RV.Props.Reconcile

open RV.Props.Rollout

/-! ### frames that remember the last-update time -/

/-- the sub-status is unchanged, or only its last-update time was refreshed -/
def SubLU (a b : Sub) : Prop := b = a ∨ b = { a with lastUpdate := .fresh }

theorem SubLU.refl (a : Sub) : SubLU a a := Or.inl rfl

theorem SubLU.trans {a b c : Sub} (h1 : SubLU a b) (h2 : SubLU b c) : SubLU a c := by
  rcases h1 with h1 | h1 <;> rcases h2 with h2 | h2 <;> subst h1 <;> subst h2
  · exact Or.inl rfl
  · exact Or.inr rfl
  · exact Or.inr rfl
  · exact Or.inr rfl

theorem SubLU.facts {a b : Sub} (h : SubLU a b) :
    b.curIdx = a.curIdx ∧ b.state = a.state ∧ b.stableRev = a.stableRev ∧ b.podHash = a.podHash ∧ b.nextIdx = a.nextIdx ∧
    (b.lastUpdate = a.lastUpdate ∨ b.lastUpdate = .fresh) := by
  rcases h with h | h <;> subst h
  · exact ⟨rfl, rfl, rfl, rfl, rfl, Or.inl rfl⟩
  · exact ⟨rfl, rfl, rfl, rfl, rfl, Or.inr rfl⟩

/-- a Manager call leaves rollout, workload, BatchRelease and the revision-key flag alone; of the sub-status it may
    only refresh the last-update time -/
structure KeepLU (c c' : Ctx) : Prop where
  ro : c'.ro = c.ro
  wl : c'.wl = c.wl
  br : c'.br = c.br
  seen : c'.wlSeen = c.wlSeen
  sub : SubLU c.sub c'.sub

theorem KeepLU.refl (c : Ctx) : KeepLU c c := ⟨rfl, rfl, rfl, rfl, SubLU.refl _⟩

theorem callTM_keepLU (f : TCtx → Net → Mem → TOut) (c c' : Ctx) (cb d e : Bool) (h : callTM f c cb = some (c', d, e)) :
    KeepLU c c' := by
  unfold callTM at h
  split at h
  · cases h
  · simp only [Option.some.injEq, Prod.mk.injEq] at h
    obtain ⟨hc, _, _⟩ := h
    subst hc
    split
    · exact ⟨rfl, rfl, rfl, rfl, Or.inr rfl⟩
    · exact ⟨rfl, rfl, rfl, rfl, Or.inl rfl⟩

/-- what a Manager call reports is what the Manager answers on the context's own view -/
theorem callTM_obs (f : TCtx → Net → Mem → TOut) (c c' : Ctx) (cb d e : Bool) (h : callTM f c cb = some (c', d, e)) :
    ∃ t, trCtx c.ro c.sub = some t ∧ (f { t with hasRevKey := c.wlSeen } c.net c.mem).done = d ∧
      (f { t with hasRevKey := c.wlSeen } c.net c.mem).err = e := by
  unfold callTM at h
  split at h
  · cases h
  · rename_i t ht
    simp only [Option.some.injEq, Prod.mk.injEq] at h
    obtain ⟨_, hd, he⟩ := h
    exact ⟨t, ht, hd, he⟩

theorem preStep_keepLU (step : Step) (c2 c3 : Ctx) (d e : Bool) (h : preStep step c2 = some (c3, d, e)) :
    KeepLU c2 c3 ∧ (stepHasTraffic step = true → c3 = c2) := by
  unfold preStep at h
  split at h
  · rename_i hnt
    exact ⟨callTM_keepLU _ _ _ _ _ _ h, fun ht => absurd ht hnt⟩
  · cases h; exact ⟨KeepLU.refl _, fun _ => rfl⟩

/-- `syncStep` on everything but the BatchRelease and the writes -/
theorem syncStep_eq (c : Ctx) :
    (syncStep c).sub = (if c.sub.podHash = "" then { c.sub with podHash := c.wl.podTemplateHash } else c.sub) ∧
    (syncStep c).net = c.net ∧ (syncStep c).mem = c.mem ∧ (syncStep c).wlSeen = c.wlSeen := by
  obtain ⟨ro, sub, wl, br, net, mem, rq, ws, seen⟩ := c
  unfold syncStep
  dsimp only
  cases br with
  | none => exact ⟨rfl, rfl, rfl, rfl⟩
  | some b =>
    dsimp only
    split <;> exact ⟨rfl, rfl, rfl, rfl⟩

/-! ### what the Manager context reads -/

theorem trCtx_eq (ro : Rollout) (s : Sub) (step : Step) (hlo : 1 ≤ s.curIdx) (hhi : s.curIdx ≤ ro.steps.length)
    (hstep : ro.steps[(s.curIdx - 1).toNat]? = some step) :
    trCtx ro s = some { hasRef := ro.hasTraffic, grace := ro.grace, weight := step.weight, disableGen := ro.disableGen,
                        stableRev := s.stableRev, canaryRev := s.podHash, lastUpdate := s.lastUpdate } := by
  unfold trCtx
  cases hst : ro.steps with
  | nil => rw [hst] at hhi; simp at hhi; omega
  | cons s0 rest =>
    rw [hst] at hhi hstep
    dsimp only
    rw [if_neg (by omega), hstep]
    rfl

theorem trCtx_congr (ro ro' : Rollout) (a b : Sub) (h1 : ro'.steps = ro.steps) (h2 : ro'.hasTraffic = ro.hasTraffic)
    (h3 : ro'.grace = ro.grace) (h4 : ro'.disableGen = ro.disableGen) (k1 : b.curIdx = a.curIdx)
    (k2 : b.stableRev = a.stableRev) (k3 : b.podHash = a.podHash) (k4 : b.lastUpdate = a.lastUpdate) :
    trCtx ro' b = trCtx ro a := by
  unfold trCtx
  rw [h1, h2, h3, h4, k1, k2, k3, k4]

theorem doTrafficRouting_noweight (t : TCtx) (n : Net) (m : Mem) (h : t.weight = none) :
    (doTrafficRouting t n m).done = true ∧ (doTrafficRouting t n m).err = false := by
  unfold doTrafficRouting
  split
  · exact ⟨rfl, rfl⟩
  · rw [h]; exact ⟨rfl, rfl⟩

/-- a satisfied pause stays satisfied on a sub-status with the same step index whose last-update time is the same
    or older than "fresh": a refreshed time stamp never satisfies a pause -/
theorem doCanaryPaused_true (ro ro' : Rollout) (a b : Sub) (step : Step) (rq : Bool)
    (h : doCanaryPaused ro a step = some (true, rq)) (hst : ro'.style = ro.style) (hlen : ro'.steps = ro.steps)
    (hcur : b.curIdx = a.curIdx) (hlu : a.lastUpdate = b.lastUpdate ∨ a.lastUpdate = .fresh) :
    ∃ rq', doCanaryPaused ro' b step = some (true, rq') := by
  unfold doCanaryPaused at h ⊢
  rw [hst, hlen, hcur]
  split
  · exact ⟨_, rfl⟩
  · rename_i hn
    rw [if_neg hn] at h
    cases hp : step.pause <;> rw [hp] at h <;> dsimp only at h ⊢
    · cases h
    · rcases hlu with hlu | hlu
      · rw [← hlu]
        cases hl : a.lastUpdate <;> rw [hl] at h <;> dsimp only at h ⊢
        · cases h
        · cases h
        · exact ⟨_, rfl⟩
      · rw [hlu] at h; cases h
    · cases hl : a.lastUpdate <;> rw [hl] at h <;> dsimp only at h <;> cases h

/-! ### the gates of one sub-state action -/

/-- what `StepUpgrade` leaves: the same sub-state, or — with the BatchRelease reporting the pods ready — traffic routing,
    or metrics analysis on the full-replica bypass -/
def UpRes (ro : Rollout) (step : Step) (c : Ctx) (st st' : StepState) : Prop :=
  st' = st ∨
  (UpgradeDone ro c ∧ (st' = .trafficRouting ∨
    (st' = .metricsAnalysis ∧ scaledV step.replicas c.wl.replicas true ≥ c.wl.replicas)))

theorem upgradeStep_gate (ro : Rollout) (step : Step) (c c' : Ctx) (err : Bool) (h : upgradeStep ro step c = .ok c' err) :
    UpRes ro step c c.sub.state c'.sub.state := by
  unfold upgradeStep at h
  dsimp only at h
  split at h
  · rename_i hd
    simp only [RunOut.ok.injEq] at h
    obtain ⟨hc, _⟩ := h
    subst hc
    refine Or.inr ⟨hd, ?_⟩
    dsimp only
    split
    · rename_i hb; exact Or.inr ⟨rfl, hb.2.1⟩
    · exact Or.inl rfl
  · simp only [RunOut.ok.injEq] at h
    obtain ⟨hc, _⟩ := h
    subst hc
    exact Or.inl rfl

/-- `BeforeStepUpgrade`: stays, moves to `StepUpgrade`, or goes through `StepUpgrade` in the same round -/
theorem initStep_gate (ro : Rollout) (step : Step) (c c' : Ctx) (err : Bool) (hst : c.sub.state = .init)
    (h : initStep ro step c = .ok c' err) :
    c'.sub.state = .init ∨ UpRes ro step c .upgrade c'.sub.state := by
  have hk : ∀ c1 : Ctx, c1.sub.curIdx = c.sub.curIdx → c1.wl = c.wl → c1.br = c.br →
      upgradeStep ro step { c1 with sub := { c1.sub with state := .upgrade, lastUpdate := .fresh } } = .ok c' err →
      c'.sub.state = .init ∨ UpRes ro step c .upgrade c'.sub.state := by
    intro c1 h1 h3 h4 hu
    right
    rcases upgradeStep_gate ro step _ c' err hu with u | ⟨hd, u⟩
    · exact Or.inl u
    · refine Or.inr ⟨?_, ?_⟩
      · unfold UpgradeDone at hd ⊢
        rw [← doCanaryUpgrade_congr ro c.sub { c1.sub with state := .upgrade, lastUpdate := .fresh } c.wl c.br (by exact h1)]
        rw [← h3, ← h4]; exact hd
      · rw [← h3]; exact u
  have hstop : ∀ c1 : Ctx, c1.sub.state = c.sub.state → (c' = c1 ∨ c' = { c1 with requeue := true }) →
      c'.sub.state = .init ∨ UpRes ro step c .upgrade c'.sub.state := by
    intro c1 h2 hc
    left
    rcases hc with hc | hc <;> rw [hc] <;> exact h2.trans hst
  have hcall : ∀ (c0 c1 : Ctx) (p : Prop) [Decidable p] (f : TCtx → Net → Mem → TOut) (rt e : Bool),
      (if p then callTM f c0 else some (c0, false, false)) = some (c1, rt, e) →
      c1.sub.curIdx = c0.sub.curIdx ∧ c1.sub.state = c0.sub.state ∧ c1.wl = c0.wl ∧ c1.br = c0.br := by
    intro c0 c1 p _ f rt e hr
    split at hr
    · obtain ⟨a, b, _, _, d, e', _⟩ := callTM_sub _ _ _ _ _ _ hr; exact ⟨a, b, d, e'⟩
    · simp only [Option.some.injEq, Prod.mk.injEq] at hr; rw [← hr.1]; exact ⟨rfl, rfl, rfl, rfl⟩
  unfold initStep at h
  dsimp only at h
  split at h
  · split at h
    · simp only [RunOut.ok.injEq] at h
      obtain ⟨hc, _⟩ := h; subst hc
      exact Or.inr (Or.inl rfl)
    · obtain ⟨c1, rt, e, hr1, hcase⟩ := afterRetryCall_spec _ _ c' err h
      obtain ⟨a1, a2, a3, a4⟩ := hcall c c1 _ _ rt e hr1
      rcases hcase with ⟨hc, _⟩ | ⟨hc, _⟩ | ⟨_, _, hcont⟩
      · exact hstop c1 a2 (Or.inl hc)
      · exact hstop c1 a2 (Or.inr hc)
      · obtain ⟨c2, rt2, e2, hr2, hcase2⟩ := afterRetryCall_spec _ _ c' err hcont
        obtain ⟨b1, b2, b3, b4⟩ := hcall c1 c2 _ _ rt2 e2 hr2
        rcases hcase2 with ⟨hc, _⟩ | ⟨hc, _⟩ | ⟨_, _, hcont2⟩
        · exact hstop c2 (b2.trans a2) (Or.inl hc)
        · exact hstop c2 (b2.trans a2) (Or.inr hc)
        · exact hk c2 (b1.trans a1) (b3.trans a3) (b4.trans a4) hcont2
  · obtain ⟨c1, rt, e, hr1, hcase⟩ := afterRetryCall_spec _ _ c' err h
    obtain ⟨a1, a2, a3, a4⟩ := hcall c c1 _ _ rt e hr1
    rcases hcase with ⟨hc, _⟩ | ⟨hc, _⟩ | ⟨_, _, hcont⟩
    · exact hstop c1 a2 (Or.inl hc)
    · exact hstop c1 a2 (Or.inr hc)
    · exact hk c1 a1 a3 a4 hcont

/-- the three gates across one sub-state action, with what was observed on the context the action ran on -/
structure Gate (ro : Rollout) (step : Step) (c c' : Ctx) : Prop where
  pods : podsReady c'.sub.state = true → podsReady c.sub.state = true ∨ (preUpgrade c.sub.state = true ∧ UpgradeDone ro c)
  routed : postRouting c'.sub.state = true → postRouting c.sub.state = true ∨
    (c.sub.state = .trafficRouting ∧ ∃ t, trCtx c.ro c.sub = some t ∧
      (doTrafficRouting { t with hasRevKey := c.wlSeen } c.net c.mem).done = true ∧
      (doTrafficRouting { t with hasRevKey := c.wlSeen } c.net c.mem).err = false) ∨
    (preUpgrade c.sub.state = true ∧ UpgradeDone ro c ∧ scaledV step.replicas c.wl.replicas true ≥ c.wl.replicas)
  pause : postPause c'.sub.state = true → postPause c.sub.state = true ∨
    (c.sub.state = .paused ∧ ∃ rq, doCanaryPaused ro c.sub step = some (true, rq))

theorem Gate.same (ro : Rollout) (step : Step) (c c' : Ctx) (h : c'.sub.state = c.sub.state) : Gate ro step c c' :=
  ⟨fun hp => Or.inl (by rw [← h]; exact hp), fun hp => Or.inl (by rw [← h]; exact hp), fun hp => Or.inl (by rw [← h]; exact hp)⟩

theorem Gate.ofUp (ro : Rollout) (step : Step) (c c' : Ctx) (hpre : preUpgrade c.sub.state = true)
    (h : c'.sub.state = .init ∨ UpRes ro step c .upgrade c'.sub.state) : Gate ro step c c' := by
  rcases h with h | h | ⟨hd, h | ⟨h, hb⟩⟩
  · refine ⟨fun hp => ?_, fun hp => ?_, fun hp => ?_⟩ <;> rw [h] at hp <;> exact absurd hp (by decide)
  · refine ⟨fun hp => ?_, fun hp => ?_, fun hp => ?_⟩ <;> rw [h] at hp <;> exact absurd hp (by decide)
  · refine ⟨fun _ => Or.inr ⟨hpre, hd⟩, fun hp => ?_, fun hp => ?_⟩ <;> rw [h] at hp <;> exact absurd hp (by decide)
  · refine ⟨fun _ => Or.inr ⟨hpre, hd⟩, fun _ => Or.inr (Or.inr ⟨hpre, hd, hb⟩), fun hp => ?_⟩
    rw [h] at hp; exact absurd hp (by decide)

theorem stateStep_gate (ro : Rollout) (step : Step) (c c' : Ctx) (err : Bool) (h : stateStep ro step c = .ok c' err) :
    Gate ro step c c' := by
  unfold stateStep at h
  cases hst : c.sub.state <;> simp only [hst] at h
  case init => exact Gate.ofUp ro step c c' (by rw [hst]; decide) (initStep_gate ro step c c' err hst h)
  case upgrade =>
    refine Gate.ofUp ro step c c' (by rw [hst]; decide) (Or.inr ?_)
    have := upgradeStep_gate ro step c c' err h
    rw [hst] at this; exact this
  case trafficRouting =>
    split at h
    · cases h
    · rename_i c4 done e hcall
      obtain ⟨_, b, _, _, _, _, _⟩ := callTM_sub _ _ _ _ _ _ hcall
      obtain ⟨t, ht, hd, he⟩ := callTM_obs _ _ _ _ _ _ hcall
      split at h
      · simp only [RunOut.ok.injEq] at h; obtain ⟨hc, _⟩ := h; subst hc
        exact Gate.same _ _ _ _ b
      · rename_i hne
        split at h
        · rename_i hdone
          simp only [RunOut.ok.injEq] at h; obtain ⟨hc, _⟩ := h; subst hc
          refine ⟨fun _ => Or.inl (by rw [hst]; decide), fun _ => Or.inr (Or.inl ⟨hst, t, ht, ?_, ?_⟩), fun hp => ?_⟩
          · rw [hd]; exact hdone
          · rw [he]; simpa using hne
          · exact absurd hp (by dsimp only; decide)
        · simp only [RunOut.ok.injEq] at h; obtain ⟨hc, _⟩ := h; subst hc
          exact Gate.same _ _ _ _ b
  case metricsAnalysis =>
    simp only [RunOut.ok.injEq] at h; obtain ⟨hc, _⟩ := h; subst hc
    refine ⟨fun _ => Or.inl (by rw [hst]; decide), fun _ => Or.inl (by rw [hst]; decide), fun hp => absurd hp (by dsimp only; decide)⟩
  case paused =>
    split at h
    · cases h
    · rename_i rq hp
      simp only [RunOut.ok.injEq] at h; obtain ⟨hc, _⟩ := h; subst hc
      exact ⟨fun _ => Or.inl (by rw [hst]; decide), fun _ => Or.inl (by rw [hst]; decide), fun _ => Or.inr ⟨hst, rq, hp⟩⟩
    · simp only [RunOut.ok.injEq] at h; obtain ⟨hc, _⟩ := h; subst hc
      exact Gate.same _ _ _ _ rfl
  case ready =>
    split at h
    · simp only [RunOut.ok.injEq] at h; obtain ⟨hc, _⟩ := h; subst hc
      refine ⟨fun hp => absurd hp (by dsimp only; decide), fun hp => absurd hp (by dsimp only; decide), fun hp => absurd hp (by dsimp only; decide)⟩
    · simp only [RunOut.ok.injEq] at h; obtain ⟨hc, _⟩ := h; subst hc
      exact ⟨fun _ => Or.inl (by rw [hst]; decide), fun _ => Or.inl (by rw [hst]; decide), fun _ => Or.inl (by rw [hst]; decide)⟩
  case completed =>
    simp only [RunOut.ok.injEq] at h; obtain ⟨hc, _⟩ := h; subst hc
    exact Gate.same _ _ _ _ rfl
  case other =>
    simp only [RunOut.ok.injEq] at h; obtain ⟨hc, _⟩ := h; subst hc
    exact Gate.same _ _ _ _ rfl

/-! ### the gates of one round of the release manager -/

/-- `DoTrafficRouting` reports done on the context as the round starts (after the pod-template hash is filled) -/
def ObsRt (c : Ctx) : Prop :=
  ∃ t, trCtx c.ro (if c.sub.podHash = "" then { c.sub with podHash := c.wl.podTemplateHash } else c.sub) = some t ∧
    (doTrafficRouting { t with hasRevKey := c.wlSeen } c.net c.mem).done = true ∧
    (doTrafficRouting { t with hasRevKey := c.wlSeen } c.net c.mem).err = false

/-- the three gates across one round of the release manager, with the observations on the context the round started from -/
structure RunGate (c0 c' : Ctx) (step : Step) : Prop where
  pods : podsReady c'.sub.state = true → podsReady c0.sub.state = true ∨
    (preUpgrade c0.sub.state = true ∧ (doCanaryUpgrade c0.ro c0.sub c0.wl c0.br).1 = true)
  routed : postRouting c'.sub.state = true → postRouting c0.sub.state = true ∨
    (c0.sub.state = .trafficRouting ∧ ObsRt c0) ∨
    (preUpgrade c0.sub.state = true ∧ (doCanaryUpgrade c0.ro c0.sub c0.wl c0.br).1 = true ∧
      scaledV step.replicas c0.wl.replicas true ≥ c0.wl.replicas)
  pause : postPause c'.sub.state = true → postPause c0.sub.state = true ∨
    (c0.sub.state = .paused ∧ ∃ rq, doCanaryPaused c0.ro c0.sub step = some (true, rq))

theorem RunGate.same (c0 c' : Ctx) (step : Step) (h : c'.sub.state = c0.sub.state) : RunGate c0 c' step :=
  ⟨fun hp => Or.inl (by rw [← h]; exact hp), fun hp => Or.inl (by rw [← h]; exact hp), fun hp => Or.inl (by rw [← h]; exact hp)⟩

/-- **one round of the release manager on a rolling rollout** (no jump request): the step index moves only from
    `StepReady`, by one, into `BeforeStepUpgrade`; otherwise every gate passed was observed open on the starting context -/
theorem runCanary_gate (c0 c' : Ctx) (err : Bool) (rev : String) (h : runCanary c0 = .ok c' err)
    (hg : SubGood c0.ro c0.sub rev) :
    ∃ step, c0.ro.steps[(c0.sub.curIdx - 1).toNat]? = some step ∧
      ((c0.sub.state = .ready ∧ c'.sub.curIdx = c0.sub.curIdx + 1 ∧ c'.sub.state = .init) ∨
       (c'.sub.curIdx = c0.sub.curIdx ∧ RunGate c0 c' step)) := by
  obtain ⟨y1, y2, y3, y4, y5⟩ := syncStep_sub c0
  obtain ⟨z1, z2, z3, z4⟩ := syncStep_eq c0
  have zlu : (syncStep c0).sub.lastUpdate = c0.sub.lastUpdate := by rw [z1]; split <;> rfl
  unfold runCanary at h
  dsimp only at h
  split at h
  · cases h
  · rename_i s2 hj
    exfalso
    obtain ⟨_, hjs⟩ := jump_spec _ _ _ _ hj
    obtain ⟨j1, _⟩ := hjs rfl
    apply j1
    rw [y2, y1]; exact hg.next
  · rename_i s2 hj
    obtain ⟨hsame, _⟩ := jump_spec _ _ _ _ hj
    have hs2 : s2 = (syncStep c0).sub := hsame rfl
    subst hs2
    split at h
    · cases h
    · rename_i step hstep
      have hstep0 : c0.ro.steps[(c0.sub.curIdx - 1).toNat]? = some step := by rw [← y1]; exact hstep
      refine ⟨step, hstep0, ?_⟩
      split at h
      · cases h
      · rename_i c3 done e hpre
        obtain ⟨hk, hid⟩ := preStep_keepLU _ _ _ _ _ hpre
        obtain ⟨k1, k2, k3, k4, k5, k6⟩ := hk.sub.facts
        have cur3 : c3.sub.curIdx = c0.sub.curIdx := k1.trans y1
        have st3 : c3.sub.state = c0.sub.state := k2.trans y3
        have wl3 : c3.wl = c0.wl := hk.wl.trans y5
        have ro3 : c3.ro = c0.ro := hk.ro.trans y4
        have br3 : c3.br = (syncStep c0).br := hk.br
        have lu3 : c3.sub.lastUpdate = c0.sub.lastUpdate ∨ c3.sub.lastUpdate = .fresh := by
          rcases k6 with k6 | k6
          · exact Or.inl (k6.trans zlu)
          · exact Or.inr k6
        split at h
        · cases h
          exact Or.inr ⟨cur3, RunGate.same _ _ _ st3⟩
        · split at h
          · cases h
            exact Or.inr ⟨cur3, RunGate.same _ _ _ st3⟩
          · have sp := stateStep_spec _ _ _ _ _ h
            have gt := stateStep_gate _ _ _ _ _ h
            rcases sp.cursor with hc | ⟨r1, r2, r3, _, _⟩
            · right
              refine ⟨hc.trans cur3, ?_⟩
              have hup : UpgradeDone c0.ro c3 → (doCanaryUpgrade c0.ro c0.sub c0.wl c0.br).1 = true := by
                intro hd
                unfold UpgradeDone at hd
                rw [doCanaryUpgrade_congr c0.ro c0.sub c3.sub c3.wl c3.br cur3, wl3, br3] at hd
                have hb := upgrade_done_unsynced c0 c0.sub hd
                rw [hb] at hd
                exact hd
              refine ⟨fun hp => ?_, fun hp => ?_, fun hp => ?_⟩
              · rcases gt.pods hp with g1 | ⟨g1, g2⟩
                · exact Or.inl (by rw [← st3]; exact g1)
                · exact Or.inr ⟨by rw [← st3]; exact g1, hup g2⟩
              · rcases gt.routed hp with g1 | ⟨g1, t, ht, hd, he⟩ | ⟨g1, g2, g3⟩
                · exact Or.inl (by rw [← st3]; exact g1)
                · refine Or.inr (Or.inl ⟨by rw [← st3]; exact g1, ?_⟩)
                  cases htr : stepHasTraffic step with
                  | true =>
                    have e3 := hid htr
                    subst e3
                    refine ⟨t, ?_, ?_, ?_⟩
                    · rw [← z1, ← y4]; exact ht
                    · rw [← z2, ← z3, ← z4]; exact hd
                    · rw [← z2, ← z3, ← z4]; exact he
                  | false =>
                    have hw : step.weight = none := by
                      unfold stepHasTraffic at htr
                      cases hw : step.weight with
                      | none => rfl
                      | some x => rw [hw] at htr; cases htr
                    have hcur1 : (if c0.sub.podHash = "" then { c0.sub with podHash := c0.wl.podTemplateHash } else c0.sub).curIdx
                        = c0.sub.curIdx := by split <;> rfl
                    refine ⟨_, trCtx_eq c0.ro _ step (by rw [hcur1]; exact hg.lo) (by rw [hcur1]; exact hg.hi)
                      (by rw [hcur1]; exact hstep0), ?_⟩
                    exact doTrafficRouting_noweight _ _ _ hw
                · exact Or.inr (Or.inr ⟨by rw [← st3]; exact g1, hup g2, by rw [← wl3]; exact g3⟩)
              · rcases gt.pause hp with g1 | ⟨g1, rq, g2⟩
                · exact Or.inl (by rw [← st3]; exact g1)
                · exact Or.inr ⟨by rw [← st3]; exact g1,
                    doCanaryPaused_true c0.ro c0.ro c3.sub c0.sub step rq g2 rfl rfl cur3.symm lu3⟩
            · left
              exact ⟨by rw [← st3]; exact r1, by rw [r2, cur3], r3⟩

/-! ### the whole reconcile -/

/-- the status calculation refreshes nothing but the observed rollout-id and generation -/
theorem csObserve_sub (ro : Rollout) (wl : WL) (s : Sub) (hs : ro.sub = some s) :
    ∃ id gen, (csObserve ro wl).sub = some { s with observedRolloutID := id, observedGen := gen } := by
  unfold csObserve
  rw [hs]
  dsimp only
  split
  · exact ⟨_, _, rfl⟩
  · exact ⟨s.observedRolloutID, s.observedGen, hs⟩

/-- **C02.i over one whole reconcile of a rolling rollout** — with the hypotheses of `rolling_step`: if the rollout is
    still rolling afterwards then either the step index moved (only from `StepReady`, by one, into `BeforeStepUpgrade`),
    or it stayed and every gate that is passed was observed open on the world this reconcile read:
    pods ready ⇐ the BatchRelease reported the step ready; past routing ⇐ `DoTrafficRouting` reported done, or the
    full-replica bypass together with the BatchRelease report; past the pause ⇐ the pause was satisfied. -/
theorem rolling_gate (w : World) (wl : WL) (s : Sub)
    (hg : RoGood w.ro) (hph : w.ro.phase = .progressing) (hr : w.ro.reason = .inRolling)
    (hwl : w.wl = some wl) (hc : wl.consistent = true) (hnr : wl.inRollback = false)
    (hs : w.ro.sub = some s) (hsub : SubGood w.ro s wl.canaryRev)
    (r : StepResult) (hrec : reconcile w = .val r) (hin : r.w.ro.reason = .inRolling) (s' : Sub) (hs' : r.w.ro.sub = some s') :
    (s'.curIdx ≠ s.curIdx ∧ s.state = .ready ∧ s'.curIdx = s.curIdx + 1 ∧ s'.state = .init) ∨
    (s'.curIdx = s.curIdx ∧
     (podsReady s'.state = true → podsReady s.state = true ∨ (preUpgrade s.state = true ∧ upgradeDoneObs w s = true)) ∧
     (postRouting s'.state = true → postRouting s.state = true ∨ (s.state = .trafficRouting ∧ obsRoutedW w s = true) ∨
        (preUpgrade s.state = true ∧ upgradeDoneObs w s = true ∧ bypassW w s = true)) ∧
     (postPause s'.state = true → postPause s.state = true ∨ (s.state = .paused ∧ obsPauseW w s = true))) := by
  obtain ⟨o1, _, o3⟩ := csObserve_same w.ro wl
  obtain ⟨f1, f2⟩ := csObserve_frame w.ro wl
  obtain ⟨id, gen, hs1⟩ := csObserve_sub w.ro wl s hs
  have hpaused : (csObserve w.ro wl).paused = false := o1.2.2.2.1.trans hg.unpaused
  rw [reconcile_roll w wl _ hg hph hr hwl hc hs1,
    inRolling_roll w (csObserve w.ro wl) _ s wl hs hnr hpaused hsub.rev.symm hsub.hash] at hrec
  generalize csObserve w.ro wl = ns at o1 f1 f2 hs1 hpaused hrec
  have hsteps : ns.steps = w.ro.steps := o1.1
  by_cases hst : s.state = .completed
  · rw [if_pos hst] at hrec
    dsimp only at hrec
    rw [if_neg (by simp)] at hrec
    cases hrec
    cases hin
  · rw [if_neg hst] at hrec
    have hN : (if ({ s with observedRolloutID := id, observedGen := gen } : Sub).nextIdx ≤ 0 ∨
          ({ s with observedRolloutID := id, observedGen := gen } : Sub).nextIdx > (ns.steps.length : Int) then
          { ({ s with observedRolloutID := id, observedGen := gen } : Sub) with
            nextIdx := nextBatchIndex (ns.steps.length : Int) ({ s with observedRolloutID := id, observedGen := gen } : Sub).curIdx }
        else ({ s with observedRolloutID := id, observedGen := gen } : Sub)) =
        { s with observedRolloutID := id, observedGen := gen } := by
      split
      · show ({ s with observedRolloutID := id, observedGen := gen, nextIdx := nextBatchIndex (ns.steps.length : Int) s.curIdx } : Sub) = _
        rw [hsteps, ← hsub.next]
      · rfl
    rw [hN] at hrec
    have hgN : SubGood ns { s with observedRolloutID := id, observedGen := gen } wl.canaryRev :=
      ⟨hsub.lo, by rw [hsteps]; exact hsub.hi, by rw [hsteps]; exact hsub.next, hsub.lu, hsub.hash, hsub.rev, hsub.fin⟩
    cases hrc : runCanary (toCtx { w with ro := ns } { s with observedRolloutID := id, observedGen := gen } wl) with
    | panic => rw [hrc] at hrec; cases hrec
    | ok c err =>
      rw [hrc] at hrec
      dsimp only at hrec
      cases err with
      | true =>
        rw [if_pos rfl] at hrec
        cases hrec
        have e : s' = s := by
          have : some s' = some s := hs'.symm.trans hs
          cases this; rfl
        subst e
        exact Or.inr ⟨rfl, fun h => Or.inl h, fun h => Or.inl h, fun h => Or.inl h⟩
      | false =>
        rw [if_neg (by simp)] at hrec
        cases hrec
        have e : s' = c.sub := by
          have : some c.sub = some s' := hs'
          cases this; rfl
        subst e
        obtain ⟨step, hstep, hcase⟩ := runCanary_gate _ c false wl.canaryRev hrc hgN
        have hstepW : w.ro.steps[(s.curIdx - 1).toNat]? = some step := by rw [← hsteps]; exact hstep
        rcases hcase with ⟨r1, r2, r3⟩ | ⟨hcur, gt⟩
        · left
          have r2' : c.sub.curIdx = s.curIdx + 1 := r2
          exact ⟨by omega, r1, r2', r3⟩
        · right
          have hupW : (doCanaryUpgrade ns { s with observedRolloutID := id, observedGen := gen } wl w.br).1 = true →
              upgradeDoneObs w s = true := by
            intro hd
            unfold upgradeDoneObs
            rw [hwl]
            dsimp only
            rw [doCanaryUpgrade_ro w.ro ns _ wl w.br o1.1 o1.2.2.2.2.1,
              doCanaryUpgrade_congr w.ro s { s with observedRolloutID := id, observedGen := gen } wl w.br rfl] at hd
            exact hd
          refine ⟨hcur, fun hp => ?_, fun hp => ?_, fun hp => ?_⟩
          · rcases gt.pods hp with g1 | ⟨g1, g2⟩
            · exact Or.inl g1
            · exact Or.inr ⟨g1, hupW g2⟩
          · rcases gt.routed hp with g1 | ⟨g1, t, ht, hd, he⟩ | ⟨g1, g2, g3⟩
            · exact Or.inl g1
            · refine Or.inr (Or.inl ⟨g1, ?_⟩)
              unfold obsRoutedW
              rw [hwl]
              dsimp only
              have htr : trCtx w.ro (if s.podHash = "" then { s with podHash := wl.podTemplateHash } else s) = some t := by
                have ht' : trCtx ns (if s.podHash = "" then
                      ({ s with observedRolloutID := id, observedGen := gen, podHash := wl.podTemplateHash } : Sub)
                    else { s with observedRolloutID := id, observedGen := gen }) = some t := ht
                rw [← ht']
                symm
                by_cases hp0 : s.podHash = ""
                · rw [if_pos hp0, if_pos hp0]
                  exact trCtx_congr w.ro ns _ _ o1.1 o1.2.1 o1.2.2.2.2.2.2.1 o1.2.2.2.2.2.1 rfl rfl rfl rfl
                · rw [if_neg hp0, if_neg hp0]
                  exact trCtx_congr w.ro ns _ _ o1.1 o1.2.1 o1.2.2.2.2.2.2.1 o1.2.2.2.2.2.1 rfl rfl rfl rfl
              rw [htr]
              dsimp only
              have hd' : (doTrafficRouting { t with hasRevKey := true } w.net w.mem).done = true := hd
              have he' : (doTrafficRouting { t with hasRevKey := true } w.net w.mem).err = false := he
              rw [hd', he']
              rfl
            · refine Or.inr (Or.inr ⟨g1, hupW g2, ?_⟩)
              unfold bypassW
              rw [hstepW, hwl]
              dsimp only
              exact decide_eq_true g3
          · rcases gt.pause hp with g1 | ⟨g1, rq, g2⟩
            · exact Or.inl g1
            · refine Or.inr ⟨g1, ?_⟩
              obtain ⟨rq', hq⟩ := doCanaryPaused_true ns w.ro _ s step rq g2 o1.2.2.1.symm hsteps.symm rfl (Or.inl rfl)
              unfold obsPauseW
              rw [hstepW]
              dsimp only
              rw [hq]

/-! ### the ghost history: computing `rollingSub`, `gateInv`, `gstep`, `advanceOK` -/

theorem bimp_iff (a b : Bool) : (!a || b) = true ↔ (a = true → b = true) := by cases a <;> cases b <;> simp

theorem rollingSub_some_iff (s : CS) (sub : Sub) :
    rollingSub s = some sub ↔ s.gone = false ∧ s.ro.phase = .progressing ∧ s.ro.reason = .inRolling ∧ s.ro.sub = some sub := by
  unfold rollingSub
  by_cases h : (!s.gone && s.ro.phase == .progressing && s.ro.reason == .inRolling) = true
  · rw [if_pos h]
    simp only [Bool.and_eq_true, Bool.not_eq_true', beq_iff_eq] at h
    constructor
    · intro hs; exact ⟨h.1.1, h.1.2, h.2, hs⟩
    · intro hs; exact hs.2.2.2
  · rw [if_neg h]
    constructor
    · intro hs; cases hs
    · intro hs; exfalso; apply h; simp [hs.1, hs.2.1, hs.2.2.1]

theorem rollingSub_congr (s s' : CS) (h1 : s'.gone = s.gone) (h2 : s'.ro = s.ro) : rollingSub s' = rollingSub s := by
  unfold rollingSub; rw [h1, h2]

theorem rollingSub_none (s : CS) (h : s.gone = true ∨ s.ro.phase ≠ .progressing ∨ s.ro.reason ≠ .inRolling) :
    rollingSub s = none := by
  cases hrs : rollingSub s with
  | none => rfl
  | some sub =>
    obtain ⟨a, b, c, _⟩ := (rollingSub_some_iff s sub).1 hrs
    rcases h with h | h | h
    · rw [a] at h; cases h
    · exact absurd b h
    · exact absurd c h

/-- `gateInv` on a rolling state, as propositions -/
structure GateOK (g : Ghost) (sub : Sub) : Prop where
  idx : g.idx = sub.curIdx
  up : podsReady sub.state = true → g.upgraded = true
  rt : postRouting sub.state = true → g.routed = true
  pz : postPause sub.state = true → g.pauseOK = true
  o1 : g.routed = true → g.upgraded = true
  o2 : g.pauseOK = true → g.routed = true

theorem gateInv_some (g : Ghost) (s : CS) (sub : Sub) (h : rollingSub s = some sub) : gateInv g s = true ↔ GateOK g sub := by
  unfold gateInv
  rw [h]
  dsimp only
  simp only [Bool.and_eq_true, bimp_iff, beq_iff_eq]
  constructor
  · rintro ⟨⟨⟨⟨⟨h1, h2⟩, h3⟩, h4⟩, h5⟩, h6⟩
    exact ⟨h1, h2, h3, h4, h5, h6⟩
  · intro k
    exact ⟨⟨⟨⟨⟨k.idx, k.up⟩, k.rt⟩, k.pz⟩, k.o1⟩, k.o2⟩

theorem gateInv_none (g : Ghost) (s : CS) (h : rollingSub s = none) : gateInv g s = true := by
  unfold gateInv; rw [h]

theorem gstep_start (g : Ghost) (s s' : CS) (l : Label) (sub' : Sub) (h' : rollingSub s' = some sub') (h : rollingSub s = none) :
    gstep g s l s' = Ghost.fresh sub'.curIdx := by
  unfold gstep; rw [h', h]

theorem gstep_move (g : Ghost) (s s' : CS) (l : Label) (sub sub' : Sub) (h' : rollingSub s' = some sub')
    (h : rollingSub s = some sub) (hne : sub'.curIdx ≠ sub.curIdx) : gstep g s l s' = Ghost.fresh sub'.curIdx := by
  unfold gstep; rw [h', h]; dsimp only; rw [if_pos hne]

theorem gstep_ro (g : Ghost) (s s' : CS) (sub sub' : Sub) (h' : rollingSub s' = some sub')
    (h : rollingSub s = some sub) (he : sub'.curIdx = sub.curIdx) :
    gstep g s .ro s' =
      { g with upgraded := g.upgraded || (preUpgrade sub.state && obsUpgraded s sub),
               routed := g.routed || (sub.state == .trafficRouting && obsRouted s sub) ||
                 ((preUpgrade sub.state && obsUpgraded s sub) && bypassStep s sub),
               pauseOK := g.pauseOK || (sub.state == .paused && obsPause s sub) } := by
  unfold gstep; rw [h', h]; dsimp only; rw [if_neg (by intro hc; exact hc he)]

theorem gstep_approve (g : Ghost) (s s' : CS) (sub sub' : Sub) (h' : rollingSub s' = some sub')
    (h : rollingSub s = some sub) (he : sub'.curIdx = sub.curIdx) :
    gstep g s .approve s' = { g with pauseOK := g.pauseOK || sub.state == .paused } := by
  unfold gstep; rw [h', h]; dsimp only; rw [if_neg (by intro hc; exact hc he)]

theorem gstep_other (g : Ghost) (s s' : CS) (l : Label) (sub sub' : Sub) (h' : rollingSub s' = some sub')
    (h : rollingSub s = some sub) (he : sub'.curIdx = sub.curIdx) (h1 : l ≠ .ro) (h2 : l ≠ .approve) :
    gstep g s l s' = g := by
  unfold gstep; rw [h', h]; dsimp only; rw [if_neg (by intro hc; exact hc he)]
  cases l <;> first | rfl | exact absurd rfl h1 | exact absurd rfl h2

theorem advanceOK_none (g : Ghost) (s s' : CS) (l : Label) (h : rollingSub s = none) : advanceOK g s l s' = true := by
  unfold advanceOK; rw [h]

theorem advanceOK_none' (g : Ghost) (s s' : CS) (l : Label) (h : rollingSub s' = none) : advanceOK g s l s' = true := by
  unfold advanceOK; rw [h]; cases rollingSub s <;> rfl

theorem advanceOK_same (g : Ghost) (s s' : CS) (l : Label) (sub sub' : Sub) (h' : rollingSub s' = some sub')
    (h : rollingSub s = some sub) (he : sub'.curIdx = sub.curIdx) : advanceOK g s l s' = true := by
  unfold advanceOK; rw [h, h']; dsimp only; rw [if_neg (by intro hc; exact hc.1 he)]

theorem advanceOK_move (g : Ghost) (s s' : CS) (l : Label) (sub sub' : Sub) (h' : rollingSub s' = some sub')
    (h : rollingSub s = some sub) (h1 : g.upgraded = true) (h2 : g.routed = true) (h3 : g.pauseOK = true)
    (hc : sub'.curIdx = sub.curIdx + 1) : advanceOK g s l s' = true := by
  unfold advanceOK; rw [h, h']; dsimp only
  split
  · rw [h1, h2, h3]; simp [hc]
  · rfl

/-! ### the ghost invariant along the labels -/

theorem gate_none (g : Ghost) (s s' : CS) (l : Label) (h : rollingSub s' = none) :
    gateInv (gstep g s l s') s' = true ∧ advanceOK g s l s' = true :=
  ⟨gateInv_none _ _ h, advanceOK_none' _ _ _ _ h⟩

theorem gate_fresh (s' : CS) (sub' : Sub) (h' : rollingSub s' = some sub') (hst : sub'.state = .init) :
    gateInv (Ghost.fresh sub'.curIdx) s' = true := by
  refine (gateInv_some _ s' sub' h').2 ⟨rfl, fun hp => ?_, fun hp => ?_, fun hp => ?_, fun hp => ?_, fun hp => ?_⟩
  · rw [hst] at hp; exact absurd hp (by decide)
  · rw [hst] at hp; exact absurd hp (by decide)
  · rw [hst] at hp; exact absurd hp (by decide)
  · exact absurd hp (by simp [Ghost.fresh])
  · exact absurd hp (by simp [Ghost.fresh])

/-- a label other than `ro` / `approve` that keeps the step index and the sub-state of a rolling rollout -/
theorem gate_same (g : Ghost) (s s' : CS) (l : Label) (h1 : l ≠ .ro) (h2 : l ≠ .approve)
    (hsame : (rollingSub s = none ∧ rollingSub s' = none) ∨
      ∃ sub sub', rollingSub s = some sub ∧ rollingSub s' = some sub' ∧ sub'.curIdx = sub.curIdx ∧ sub'.state = sub.state)
    (hg : gateInv g s = true) : gateInv (gstep g s l s') s' = true ∧ advanceOK g s l s' = true := by
  rcases hsame with ⟨_, h'⟩ | ⟨sub, sub', h, h', he, hst⟩
  · exact gate_none g s s' l h'
  · have ok := (gateInv_some g s sub h).1 hg
    rw [gstep_other g s s' l sub sub' h' h he h1 h2]
    refine ⟨(gateInv_some g s' sub' h').2 ⟨ok.idx.trans he.symm, ?_, ?_, ?_, ok.o1, ok.o2⟩, advanceOK_same g s s' l sub sub' h' h he⟩
    · rw [hst]; exact ok.up
    · rw [hst]; exact ok.rt
    · rw [hst]; exact ok.pz

theorem gate_eq (g : Ghost) (s s' : CS) (l : Label) (h1 : l ≠ .ro) (h2 : l ≠ .approve) (h : rollingSub s' = rollingSub s)
    (hg : gateInv g s = true) : gateInv (gstep g s l s') s' = true ∧ advanceOK g s l s' = true := by
  refine gate_same g s s' l h1 h2 ?_ hg
  cases hrs : rollingSub s with
  | none => exact Or.inl ⟨rfl, by rw [h, hrs]⟩
  | some sub => exact Or.inr ⟨sub, sub, rfl, by rw [h, hrs], rfl, rfl⟩

/-- a reconcile that keeps the step index: the flags are the old ones or the observations of this reconcile -/
theorem gate_ro_keep (g : Ghost) (s s' : CS) (sub sub' : Sub) (hg : gateInv g s = true) (h : rollingSub s = some sub)
    (h' : rollingSub s' = some sub') (he : sub'.curIdx = sub.curIdx)
    (hp : podsReady sub'.state = true → podsReady sub.state = true ∨ (preUpgrade sub.state = true ∧ obsUpgraded s sub = true))
    (hr : postRouting sub'.state = true → postRouting sub.state = true ∨ (sub.state = .trafficRouting ∧ obsRouted s sub = true) ∨
      (preUpgrade sub.state = true ∧ obsUpgraded s sub = true ∧ bypassStep s sub = true))
    (hz : postPause sub'.state = true → postPause sub.state = true ∨ (sub.state = .paused ∧ obsPause s sub = true)) :
    gateInv (gstep g s .ro s') s' = true ∧ advanceOK g s .ro s' = true := by
  have ok := (gateInv_some g s sub h).1 hg
  rw [gstep_ro g s s' sub sub' h' h he]
  refine ⟨(gateInv_some _ s' sub' h').2 ⟨ok.idx.trans he.symm, fun k => ?_, fun k => ?_, fun k => ?_, fun k => ?_, fun k => ?_⟩,
    advanceOK_same g s s' .ro sub sub' h' h he⟩
  · dsimp only
    rcases hp k with a | ⟨a, b⟩
    · rw [ok.up a]; rfl
    · rw [a, b]; simp
  · dsimp only
    rcases hr k with a | ⟨a, b⟩ | ⟨a, b, c⟩
    · rw [ok.rt a]; rfl
    · rw [a, b]; simp
    · rw [a, b, c]; simp
  · dsimp only
    rcases hz k with a | ⟨a, b⟩
    · rw [ok.pz a]; rfl
    · rw [a, b]; simp
  · dsimp only at k ⊢
    simp only [Bool.or_eq_true, Bool.and_eq_true, beq_iff_eq] at k ⊢
    rcases k with (k | ⟨k, _⟩) | ⟨k, _⟩
    · exact Or.inl (ok.o1 k)
    · exact Or.inl (ok.up (by rw [k]; decide))
    · exact Or.inr k
  · dsimp only at k ⊢
    simp only [Bool.or_eq_true, Bool.and_eq_true, beq_iff_eq] at k ⊢
    rcases k with k | ⟨k, _⟩
    · exact Or.inl (Or.inl (ok.o2 k))
    · exact Or.inl (Or.inl (ok.rt (by rw [k]; decide)))

theorem gate_ro_stay (g : Ghost) (s s' : CS) (hg : gateInv g s = true) (h : rollingSub s' = rollingSub s) :
    gateInv (gstep g s .ro s') s' = true ∧ advanceOK g s .ro s' = true := by
  cases hrs : rollingSub s with
  | none => exact gate_none g s s' .ro (by rw [h, hrs])
  | some sub =>
    exact gate_ro_keep g s s' sub sub hg hrs (by rw [h, hrs]) rfl (fun k => Or.inl k) (fun k => Or.inl k) (fun k => Or.inl k)

/-- a reconcile that moves the step index: only from `StepReady`, where all three observations have been made -/
theorem gate_ro_move (g : Ghost) (s s' : CS) (l : Label) (sub sub' : Sub) (hg : gateInv g s = true) (h : rollingSub s = some sub)
    (h' : rollingSub s' = some sub') (hne : sub'.curIdx ≠ sub.curIdx) (hready : sub.state = .ready)
    (hc : sub'.curIdx = sub.curIdx + 1) (hinit : sub'.state = .init) :
    gateInv (gstep g s l s') s' = true ∧ advanceOK g s l s' = true := by
  have ok := (gateInv_some g s sub h).1 hg
  rw [gstep_move g s s' l sub sub' h' h hne]
  exact ⟨gate_fresh s' sub' h' hinit,
    advanceOK_move g s s' l sub sub' h' h (ok.up (by rw [hready]; decide)) (ok.rt (by rw [hready]; decide))
      (ok.pz (by rw [hready]; decide)) hc⟩

/-! ### approval and the clock -/

theorem approve_rolling (s : CS) (hgone : s.gone = false) :
    (rollingSub s = none ∧ rollingSub (approve s) = none) ∨
    ∃ sub, rollingSub s = some sub ∧
      rollingSub (approve s) = some (if sub.state = .paused then { sub with state := .ready } else sub) := by
  cases hrs : rollingSub s with
  | none =>
    left
    refine ⟨rfl, ?_⟩
    cases hrs' : rollingSub (approve s) with
    | none => rfl
    | some x =>
      exfalso
      obtain ⟨a, b, c, d⟩ := (rollingSub_some_iff _ x).1 hrs'
      unfold approve at a b c d
      rw [if_neg (by simp [hgone])] at a b c d
      cases hsub : s.ro.sub with
      | none => rw [hsub] at d; dsimp only at d; rw [hsub] at d; cases d
      | some sub0 =>
        rw [hsub] at b c
        dsimp only at b c
        have : rollingSub s = some sub0 := by
          refine (rollingSub_some_iff s sub0).2 ⟨hgone, ?_, ?_, hsub⟩
          · split at b <;> exact b
          · split at c <;> exact c
        rw [hrs] at this; cases this
  | some sub =>
    right
    refine ⟨sub, rfl, ?_⟩
    obtain ⟨a, b, c, d⟩ := (rollingSub_some_iff s sub).1 hrs
    unfold approve
    rw [if_neg (by simp [hgone]), d]
    dsimp only
    split
    · exact (rollingSub_some_iff _ _).2 ⟨hgone, b, c, rfl⟩
    · exact hrs

theorem gate_approve (g : Ghost) (s : CS) (hgone : s.gone = false) (hg : gateInv g s = true) :
    gateInv (gstep g s .approve (approve s)) (approve s) = true ∧ advanceOK g s .approve (approve s) = true := by
  rcases approve_rolling s hgone with ⟨_, h'⟩ | ⟨sub, h, h'⟩
  · exact gate_none g s _ _ h'
  · have ok := (gateInv_some g s sub h).1 hg
    have he : (if sub.state = .paused then { sub with state := .ready } else sub : Sub).curIdx = sub.curIdx := by
      split <;> rfl
    rw [gstep_approve g s _ sub _ h' h he]
    refine ⟨(gateInv_some _ _ _ h').2 ⟨ok.idx.trans he.symm, ?_, ?_, ?_, ok.o1, ?_⟩, advanceOK_same g s _ _ sub _ h' h he⟩
    · intro k
      split at k
      · rename_i hp; exact ok.up (by rw [hp]; decide)
      · exact ok.up k
    · intro k
      split at k
      · rename_i hp; exact ok.rt (by rw [hp]; decide)
      · exact ok.rt k
    · intro k
      dsimp only
      split at k
      · rename_i hp; rw [hp]; simp
      · rw [ok.pz k]; rfl
    · intro k
      dsimp only at k
      simp only [Bool.or_eq_true, beq_iff_eq] at k
      rcases k with k | k
      · exact ok.o2 k
      · exact ok.rt (by rw [k]; decide)

theorem tick_rolling (s : CS) (hgone : s.gone = false) :
    (rollingSub s = none ∧ rollingSub (tick s) = none) ∨
    ∃ sub, rollingSub s = some sub ∧ rollingSub (tick s) = some { sub with lastUpdate := ageAge sub.lastUpdate } := by
  have e1 : (tick s).gone = s.gone := rfl
  have e2 : (tick s).ro = { s.ro with sub := s.ro.sub.map (fun sub => { sub with lastUpdate := ageAge sub.lastUpdate }),
                                      condAge := ageAge s.ro.condAge } := by
    unfold tick; dsimp only; rw [if_neg (by simp [hgone])]
  cases hrs : rollingSub s with
  | none =>
    left
    refine ⟨rfl, ?_⟩
    cases hrs' : rollingSub (tick s) with
    | none => rfl
    | some x =>
      exfalso
      obtain ⟨a, b, c, d⟩ := (rollingSub_some_iff _ x).1 hrs'
      rw [e2] at b c d
      dsimp only at b c d
      cases hsub : s.ro.sub with
      | none => rw [hsub] at d; cases d
      | some sub0 =>
        have : rollingSub s = some sub0 := (rollingSub_some_iff s sub0).2 ⟨hgone, b, c, hsub⟩
        rw [hrs] at this; cases this
  | some sub =>
    right
    refine ⟨sub, rfl, ?_⟩
    obtain ⟨a, b, c, d⟩ := (rollingSub_some_iff s sub).1 hrs
    refine (rollingSub_some_iff _ _).2 ⟨hgone, ?_, ?_, ?_⟩
    · rw [e2]; exact b
    · rw [e2]; exact c
    · rw [e2]; dsimp only; rw [d]; rfl

/-! ### one Rollout reconcile -/

theorem wlOK_noRollback (w : CWl) (h : wlOK w = true) : (roWl w).inRollback = false := by
  unfold wlOK at h
  simp only [Bool.and_eq_true, Bool.or_eq_true, beq_iff_eq, bne_iff_ne, decide_eq_true_eq] at h
  obtain ⟨⟨⟨⟨h1, _⟩, _⟩, h4⟩, _⟩ := h
  show (w.inProgressAnno && decide (w.currentRevision = w.updateRevision) && decide (w.updated ≠ w.statusReplicas)) = false
  by_cases he : w.currentRevision = w.updateRevision
  · rcases h4 with h4 | h4
    · exact absurd he.symm h4
    · simp [h4, h1]
  · simp [he]

theorem subOK_good (ro : Rollout) (sub : Sub) (w : CWl) (h : subOK ro sub w = true) : SubGood ro sub w.updateRevision := by
  unfold subOK at h
  simp only [Bool.and_eq_true, decide_eq_true_eq, bne_iff_ne, beq_iff_eq, ne_eq] at h
  obtain ⟨⟨⟨⟨⟨⟨h1, h2⟩, h3⟩, h4⟩, h5⟩, h6⟩, h7⟩ := h
  exact ⟨h1, h2, h3, h4, h5, h6, h7⟩

/-- from Healthy the status calculation stays Healthy or starts `Initializing` -/
theorem csPhase_healthy_out (ro o : Rollout) (wl : WL) (h : o.phase = .healthy) :
    (csPhase ro o wl).phase = .healthy ∨ (csPhase ro o wl).reason = .initializing := by
  unfold csPhase
  rw [h]
  dsimp only
  split
  · right; rfl
  · left; split <;> first | rfl | exact h

/-- **label `ro`** — one Rollout reconcile from a state of the forward invariant -/
theorem gate_ro (g : Ghost) (s : CS) (r : StepResult) (hinv : fwdInv s = true) (hg : gateInv g s = true)
    (hrec : reconcile (roWorld s) = .val r) :
    gateInv (gstep g s .ro (landRo s r)) (landRo s r) = true ∧ advanceOK g s .ro (landRo s r) = true := by
  obtain ⟨hro, w, hw, hwok, _, _, hpi⟩ := (fwdInv_iff s).1 hinv
  obtain ⟨hgone, hgood⟩ := (roOK_iff s).1 hro
  have hgood' : RoGood (roWorld s).ro := hgood
  have hwl : (roWorld s).wl = some (roWl w) := by
    show s.wl.map roWl = _
    rw [hw]; rfl
  have hgoneL : (landRo s r).gone = r.roGone := rfl
  have hroL : (landRo s r).ro = r.w.ro := rfl
  cases hc : (roWl w).consistent with
  | false =>
    rw [reconcile_wait (roWorld s) (roWl w) hgood' hwl hc] at hrec
    cases hrec
    exact gate_ro_stay g s _ hg (rollingSub_congr s _ hgone.symm rfl)
  | true =>
    have hpi' := hpi
    unfold phaseInv at hpi'
    split at hpi'
    · -- Healthy
      rename_i hph
      rw [reconcile_healthy (roWorld s) (roWl w) hgood' hwl hc hph] at hrec
      cases hrec
      refine gate_none g s _ .ro (rollingSub_none _ (Or.inr ?_))
      have ho : (csObserve s.ro (roWl w)).phase = .healthy := (csObserve_same s.ro (roWl w)).2.2.trans hph
      rcases csPhase_healthy_out s.ro (csObserve s.ro (roWl w)) (roWl w) ho with k | k
      · left; intro hc'; exact absurd (k.symm.trans hc') (by decide)
      · right; intro hc'; exact absurd (k.symm.trans hc') (by decide)
    · -- Initializing
      rename_i hph hr
      have hnone : rollingSub s = none := rollingSub_none s (Or.inr (Or.inr (by rw [hr]; decide)))
      rcases reconcile_initializing (roWorld s) (roWl w) hgood' hwl hc hph hr with k | k | k
      · rw [k] at hrec; cases hrec
        refine gate_none g s _ .ro (Eq.trans ?_ hnone)
        exact rollingSub_congr s _ hgone.symm rfl
      · rw [k] at hrec; cases hrec
        refine gate_none g s _ .ro (rollingSub_none _ (Or.inr (Or.inr ?_)))
        show (csObserve s.ro (roWl w)).reason ≠ .inRolling
        rw [(csObserve_frame s.ro (roWl w)).2, hr]; decide
      · rw [k] at hrec; cases hrec
        have h' : rollingSub (landRo s
            { w := { roWorld s with ro := { csObserve (roWorld s).ro (roWl w) with sub := some (initSub (roWorld s).ro (roWl w)), reason := .inRolling } },
              roGone := false, requeue := false, err := false, writes := [] }) = some (initSub (roWorld s).ro (roWl w)) :=
          (rollingSub_some_iff _ _).2 ⟨rfl, (csObserve_same s.ro (roWl w)).2.2.trans hph, rfl, rfl⟩
        rw [gstep_start g s _ .ro _ h' hnone]
        exact ⟨gate_fresh _ _ h' rfl, advanceOK_none g s _ .ro hnone⟩
    · -- InRolling
      rename_i hph hr
      cases hsub : s.ro.sub with
      | none => rw [hsub] at hpi'; cases hpi'
      | some sub =>
        rw [hsub] at hpi'
        simp only [Bool.and_eq_true] at hpi'
        have hsg : SubGood (roWorld s).ro sub (roWl w).canaryRev := subOK_good s.ro sub w hpi'.1.1
        have hnr := wlOK_noRollback w hwok
        have hrs : rollingSub s = some sub := (rollingSub_some_iff s sub).2 ⟨hgone, hph, hr, hsub⟩
        obtain ⟨r0, hrec0, hrg, _, hrph, _, hout⟩ :=
          rolling_step (roWorld s) (roWl w) sub hgood' hph hr hwl hc hnr hsub hsg
        have e : r0 = r := by
          rw [hrec0] at hrec; cases hrec; rfl
        subst e
        rcases hout with ⟨hrr, _⟩ | ⟨hrr, ⟨s', hs', _⟩, _⟩
        · refine gate_none g s _ .ro (rollingSub_none _ (Or.inr (Or.inr ?_)))
          rw [hroL, hrr]; decide
        · have h' : rollingSub (landRo s r0) = some s' := (rollingSub_some_iff _ _).2 ⟨hrg, hrph, hrr, hs'⟩
          rcases rolling_gate (roWorld s) (roWl w) sub hgood' hph hr hwl hc hnr hsub hsg r0 hrec0 hrr s' hs' with
            ⟨k1, k2, k3, k4⟩ | ⟨k1, k2, k3, k4⟩
          · exact gate_ro_move g s _ .ro sub s' hg hrs h' k1 k2 k3 k4
          · exact gate_ro_keep g s _ sub s' hg hrs h' k1 k2 k3 k4
    · -- Finalising
      rename_i hph hr
      cases hsub : s.ro.sub with
      | none => rw [hsub] at hpi'; cases hpi'
      | some sub =>
        rw [hsub] at hpi'
        simp only [Bool.and_eq_true] at hpi'
        obtain ⟨r0, hrec0, _, _, _, _, _, hout⟩ :=
          finalising_step (roWorld s) (roWl w) sub hgood' hph hr hwl hc hsub hpi'.1 hpi'.2
        have e : r0 = r := by
          rw [hrec0] at hrec; cases hrec; rfl
        subst e
        refine gate_none g s _ .ro (rollingSub_none _ (Or.inr (Or.inr ?_)))
        rw [hroL]
        rcases hout with ⟨hrr, _⟩ | ⟨hrr, _⟩ <;> rw [hrr] <;> decide
    · -- Completed
      rename_i hph hr
      rw [reconcile_completed (roWorld s) (roWl w) hgood' hwl hc hph hr] at hrec
      cases hrec
      refine gate_none g s _ .ro (rollingSub_none _ (Or.inr (Or.inl ?_)))
      show Phase.healthy ≠ .progressing
      decide
    · cases hpi'

/-- **C02.ii** — the ghost invariant is inductive along the legal labels, and the step index advances by a reconcile
    only after all three observations of the step it leaves -/
theorem gate_step (g : Ghost) (s s' : CS) (l : Label) (hinv : fwdInv s = true) (hg : gateInv g s = true)
    (hl : legal s l = true) (hs : step s l = some s') :
    gateInv (gstep g s l s') s' = true ∧ advanceOK g s l s' = true := by
  obtain ⟨hro, _⟩ := (fwdInv_iff s).1 hinv
  obtain ⟨hgone, _⟩ := (roOK_iff s).1 hro
  cases l with
  | ro =>
    have hs0 : stepRo s = some s' := hs
    unfold stepRo at hs0
    rw [if_neg (by simp [hgone])] at hs0
    split at hs0
    · cases hs0
    · rename_i r hrec
      cases hs0
      exact gate_ro g s r hinv hg hrec
  | br =>
    have hs0 : stepBr s = some s' := hs
    unfold stepBr at hs0
    split at hs0
    · cases hs0
      exact gate_eq g s s .br (by decide) (by decide) rfl hg
    · split at hs0
      · cases hs0
      · cases hs0
        exact gate_eq g s _ .br (by decide) (by decide) (rollingSub_congr s _ rfl rfl) hg
  | env =>
    have hs0 : some { s with wl := s.wl.map envWl } = some s' := hs
    cases hs0
    exact gate_eq g s _ .env (by decide) (by decide) (rollingSub_congr s _ rfl rfl) hg
  | release rev =>
    have hs0 : some { s with wl := s.wl.map (releaseWl rev) } = some s' := hs
    cases hs0
    exact gate_eq g s _ (.release rev) (by intro h; cases h) (by intro h; cases h) (rollingSub_congr s _ rfl rfl) hg
  | approve =>
    have hs0 : some (approve s) = some s' := hs
    cases hs0
    exact gate_approve g s hgone hg
  | tick =>
    have hs0 : some (tick s) = some s' := hs
    cases hs0
    refine gate_same g s _ .tick (by decide) (by decide) ?_ hg
    rcases tick_rolling s hgone with k | ⟨sub, k1, k2⟩
    · exact Or.inl k
    · exact Or.inr ⟨sub, _, k1, k2, rfl, rfl⟩
  | crash =>
    have hs0 : some (crash s) = some s' := hs
    cases hs0
    exact gate_eq g s _ .crash (by decide) (by decide) (rollingSub_congr s _ rfl rfl) hg
  | delete => cases hl

end RV.Lemmas.ClosedLoop
