import RV.Model.Ingress
import RV.Oracle.C14
/-!
Helper lemmas for C14 (core Lean only).

Proof device: every annotation script is a straight-line sequence of primitive map
operations (`Op`): the preamble is a fixed list, the match loop appends `set`s.  The value
a script leaves under key `k` is `effect ops k (value before)`, computed key by key.
A key whose first touching op is a `set`/`del` gets a value that does not depend on the
input map ("reset"); history independence follows when every key a script may write is
reset by its preamble, and the remaining keys are transformed by a fixed idempotent op.
-/
namespace RV.Ingress

/-! ## annotation maps -/

theorem lookup_adel (a : AnnMap) (k k' : String) :
    lookup (adel k a) k' = if k' = k then none else lookup a k' := by
  induction a with
  | nil => simp [adel, lookup]
  | cons p rest ih =>
    obtain ⟨k0, v0⟩ := p
    simp only [adel, List.filter_cons] at ih ⊢
    by_cases h0 : k0 = k
    · subst h0
      simp only [bne_self_eq_false, Bool.false_eq_true, if_false]
      rw [ih]
      by_cases h1 : k' = k0
      · simp [h1]
      · have : ¬ (k0 = k') := fun h => h1 h.symm
        simp [h1, lookup, this]
    · have hb : (k0 != k) = true := by simp [h0]
      simp only [hb, if_true, lookup]
      by_cases h2 : k0 = k'
      · subst h2
        simp [h0]
      · simp only [beq_iff_eq, h2, if_false]
        exact ih

theorem lookup_aset (a : AnnMap) (k v k' : String) :
    lookup (aset k v a) k' = if k' = k then some v else lookup a k' := by
  simp only [aset, lookup, beq_iff_eq]
  by_cases h : k = k'
  · subst h; simp
  · have : ¬ k' = k := fun h' => h h'.symm
    simp [h, this, lookup_adel]

theorem Eqv.refl (a : AnnMap) : Eqv a a := fun _ => rfl
theorem Eqv.symm {a b : AnnMap} (h : Eqv a b) : Eqv b a := fun k => (h k).symm
theorem Eqv.trans {a b c : AnnMap} (h1 : Eqv a b) (h2 : Eqv b c) : Eqv a c :=
  fun k => (h1 k).trans (h2 k)

theorem lookup_none_of_not_mem (a : AnnMap) (k : String) (h : k ∉ akeys a) : lookup a k = none := by
  induction a with
  | nil => rfl
  | cons p rest ih =>
    obtain ⟨k0, v0⟩ := p
    simp only [akeys, List.map_cons, List.mem_cons, not_or] at h
    have h0 : ¬ k0 = k := fun e => h.1 e.symm
    simp only [lookup, beq_iff_eq, h0, if_false]
    exact ih h.2

theorem eqvB_iff (a b : AnnMap) : eqvB a b = true ↔ Eqv a b := by
  constructor
  · intro h k
    simp only [eqvB, List.all_eq_true, List.mem_append, beq_iff_eq] at h
    by_cases hk : k ∈ akeys a ∨ k ∈ akeys b
    · exact h k hk
    · simp only [not_or] at hk
      rw [lookup_none_of_not_mem a k hk.1, lookup_none_of_not_mem b k hk.2]
  · intro h
    simp only [eqvB, List.all_eq_true, beq_iff_eq]
    intro k _
    exact h k

theorem eqv_nil {a : AnnMap} (h : Eqv a []) : a = [] := by
  cases a with
  | nil => rfl
  | cons p rest =>
    obtain ⟨k0, v0⟩ := p
    have := h k0
    simp [lookup] at this

theorem isEmpty_congr {a b : AnnMap} (h : Eqv a b) : a.isEmpty = b.isEmpty := by
  cases b with
  | nil => rw [eqv_nil h]
  | cons q rest =>
    cases a with
    | nil => have := eqv_nil h.symm; simp at this
    | cons p r => rfl

/-! ## primitive operations -/

inductive Op where
  | set (k v : String)
  | del (k : String)
  /-- `if t[k] then t[k] = v end` -/
  | fix (k v : String)
  deriving Repr, DecidableEq

def Op.key : Op → String
  | .set k _ => k
  | .del k => k
  | .fix k _ => k

def Op.isConst : Op → Bool
  | .set _ _ => true
  | .del _ => true
  | .fix _ _ => false

/-- what the op does to the value stored under its own key -/
def Op.act : Op → Option String → Option String
  | .set _ v, _ => some v
  | .del _, _ => none
  | .fix _ v, x => match x with | some _ => some v | none => none

def Op.run : Op → AnnMap → AnnMap
  | .set k v, a => aset k v a
  | .del k, a => adel k a
  | .fix k v, a => if (lookup a k).isSome then aset k v a else a

def runOps (ops : List Op) (a : AnnMap) : AnnMap := ops.foldl (fun a o => o.run a) a

def effect (ops : List Op) (k : String) (x : Option String) : Option String :=
  ops.foldl (fun x o => if o.key = k then o.act x else x) x

theorem lookup_run (o : Op) (a : AnnMap) (k : String) :
    lookup (o.run a) k = if o.key = k then o.act (lookup a k) else lookup a k := by
  cases o with
  | set k0 v =>
    simp only [Op.run, Op.key, Op.act, lookup_aset]
    by_cases h : k = k0
    · subst h; simp
    · have : ¬ k0 = k := fun e => h e.symm
      simp [h, this]
  | del k0 =>
    simp only [Op.run, Op.key, Op.act, lookup_adel]
    by_cases h : k = k0
    · subst h; simp
    · have : ¬ k0 = k := fun e => h e.symm
      simp [h, this]
  | fix k0 v =>
    simp only [Op.run, Op.key, Op.act]
    by_cases h : k0 = k
    · subst h
      cases hl : lookup a k0 with
      | none => simp [hl]
      | some w => simp [lookup_aset]
    · have h' : ¬ k = k0 := fun e => h e.symm
      simp only [h, if_false]
      split
      · simp [lookup_aset, h']
      · rfl

theorem runOps_nil (a : AnnMap) : runOps [] a = a := rfl
theorem runOps_cons (o : Op) (ops : List Op) (a : AnnMap) : runOps (o :: ops) a = runOps ops (o.run a) := rfl
theorem runOps_append (xs ys : List Op) (a : AnnMap) : runOps (xs ++ ys) a = runOps ys (runOps xs a) := by
  simp [runOps, List.foldl_append]

theorem effect_nil (k : String) (x : Option String) : effect [] k x = x := rfl
theorem effect_cons (o : Op) (ops : List Op) (k : String) (x : Option String) :
    effect (o :: ops) k x = effect ops k (if o.key = k then o.act x else x) := rfl
theorem effect_append (xs ys : List Op) (k : String) (x : Option String) :
    effect (xs ++ ys) k x = effect ys k (effect xs k x) := by
  simp [effect, List.foldl_append]

theorem lookup_runOps (ops : List Op) (a : AnnMap) (k : String) :
    lookup (runOps ops a) k = effect ops k (lookup a k) := by
  induction ops generalizing a with
  | nil => rfl
  | cons o ops ih => rw [runOps_cons, ih, lookup_run, effect_cons]

/-- some op of the list overwrites key `k` unconditionally -/
def resets (ops : List Op) (k : String) : Bool := ops.any (fun o => o.key == k && o.isConst)

theorem resets_append (xs ys : List Op) (k : String) : resets (xs ++ ys) k = (resets xs k || resets ys k) := by
  simp [resets, List.any_append]

theorem effect_const (ops : List Op) (k : String) (h : resets ops k = true) (x y : Option String) :
    effect ops k x = effect ops k y := by
  induction ops generalizing x y with
  | nil => simp [resets] at h
  | cons o ops ih =>
    simp only [effect_cons]
    by_cases hk : o.key = k
    · simp only [hk, if_true]
      by_cases hc : o.isConst = true
      · have : o.act x = o.act y := by
          cases o <;> simp_all [Op.act, Op.isConst]
        rw [this]
      · apply ih
        simp only [resets, List.any_cons, Bool.or_eq_true, Bool.and_eq_true, beq_iff_eq] at h
        rcases h with h | h
        · exact absurd h.2 hc
        · exact h
    · simp only [hk, if_false]
      apply ih
      simp only [resets, List.any_cons, Bool.or_eq_true, Bool.and_eq_true, beq_iff_eq] at h
      rcases h with h | h
      · exact absurd h.1 hk
      · exact h

theorem effect_skip (ops : List Op) (k : String) (h : ∀ o ∈ ops, o.key ≠ k) (x : Option String) :
    effect ops k x = x := by
  induction ops generalizing x with
  | nil => rfl
  | cons o ops ih =>
    rw [effect_cons]
    have h0 : ¬ o.key = k := h o (List.mem_cons_self ..)
    simp only [h0, if_false]
    exact ih (fun o' ho' => h o' (List.mem_cons_of_mem _ ho')) x

/-- all ops write inside `owned` -/
def within (owned : List String) (ops : List Op) : Prop := ∀ o ∈ ops, o.key ∈ owned

theorem within_append {owned : List String} {xs ys : List Op} (hx : within owned xs) (hy : within owned ys) :
    within owned (xs ++ ys) := by
  intro o ho
  rcases List.mem_append.mp ho with h | h
  · exact hx o h
  · exact hy o h

theorem within_flatMap {α} {owned : List String} (f : α → List Op) (l : List α)
    (h : ∀ x, within owned (f x)) : within owned (l.flatMap f) := by
  intro o ho
  rcases List.mem_flatMap.mp ho with ⟨x, _, hx⟩
  exact h x o hx

theorem effect_within {owned : List String} {ops : List Op} (h : within owned ops) {k : String}
    (hk : k ∉ owned) (x : Option String) : effect ops k x = x :=
  effect_skip ops k (fun o ho e => hk (e ▸ h o ho)) x

/-! ## loops as op sequences -/

theorem foldl_runOps {α} (f : AnnMap → α → AnnMap) (g : α → List Op)
    (h : ∀ a x, f a x = runOps (g x) a) (l : List α) (a : AnnMap) :
    l.foldl f a = runOps (l.flatMap g) a := by
  induction l generalizing a with
  | nil => rfl
  | cons x l ih => rw [List.foldl_cons, ih, h, List.flatMap_cons, runOps_append]

theorem foldlM_runOps {α} (f : AnnMap → α → Option AnnMap) (g : α → List Op) (ok : α → Bool)
    (h : ∀ a x, f a x = if ok x then some (runOps (g x) a) else none) (l : List α) (a : AnnMap) :
    l.foldlM f a = if l.all ok then some (runOps (l.flatMap g) a) else none := by
  induction l generalizing a with
  | nil => rfl
  | cons x l ih =>
    rw [List.foldlM_cons, h]
    by_cases hx : ok x = true
    · simp only [hx, if_true, List.all_cons, Bool.true_and, List.flatMap_cons, runOps_append]
      exact ih _
    · simp [hx]

/-! ## the four scripts as op sequences -/

/-- split every `if` of both sides; equal branches are `rfl`, mixed branches contradictory -/
macro "script_cases" : tactic =>
  `(tactic| ((repeat' split) <;> first | rfl | contradiction))

def weightOps (key : String) (s : LuaStep) : List Op :=
  if s.weight != "-1" then [.set key s.weight] else []

def nginxHeaderOps (h : HeaderMatch) : List Op :=
  if h.name == "canary-by-cookie" then [.set "nginx.ingress.kubernetes.io/canary-by-cookie" h.value]
  else [.set "nginx.ingress.kubernetes.io/canary-by-header" h.name,
        if h.kind == some "RegularExpression"
        then .set "nginx.ingress.kubernetes.io/canary-by-header-pattern" h.value
        else .set "nginx.ingress.kubernetes.io/canary-by-header-value" h.value]

def nginxMatchOps (m : HttpMatch) : List Op :=
  match m.headers with
  | [] => []
  | h :: _ => nginxHeaderOps h

def albHeaderOps (h : HeaderMatch) : List Op :=
  if h.name == "canary-by-cookie" then [.set "alb.ingress.kubernetes.io/canary-by-cookie" h.value]
  else [.set "alb.ingress.kubernetes.io/canary-by-header" h.name,
        if h.kind == some "RegularExpression"
        then .set "alb.ingress.kubernetes.io/canary-by-header-pattern" h.value
        else .set "alb.ingress.kubernetes.io/canary-by-header-value" h.value]

def albMatchOps (m : HttpMatch) : List Op :=
  match m.headers with
  | [] => []
  | h :: _ => albHeaderOps h

def mseQueryOps (m : HttpMatch) : List Op :=
  match m.queryParams with
  | [] => []
  | q :: _ => [.set "nginx.ingress.kubernetes.io/canary-by-query" q.name,
               if q.kind == some "RegularExpression"
               then .set "nginx.ingress.kubernetes.io/canary-by-query-pattern" q.value
               else .set "nginx.ingress.kubernetes.io/canary-by-query-value" q.value]

theorem nginxMatch_eq (a : AnnMap) (m : HttpMatch) : nginxMatch a m = runOps (nginxMatchOps m) a := by
  unfold nginxMatch nginxMatchOps nginxHeaderOps
  cases m.headers with
  | nil => rfl
  | cons h t =>
    simp only []
    script_cases

theorem higressMatch_eq (a : AnnMap) (m : HttpMatch) :
    higressMatch a m = if hasHeaders m then some (runOps (nginxMatchOps m) a) else none := by
  unfold higressMatch nginxMatchOps nginxHeaderOps hasHeaders
  cases m.headers with
  | nil => rfl
  | cons h t =>
    simp only [List.isEmpty_cons, Bool.not_false, if_true]
    script_cases

theorem albMatch_eq (a : AnnMap) (m : HttpMatch) :
    albMatch a m = if hasHeaders m then some (runOps (albMatchOps m) a) else none := by
  unfold albMatch albMatchOps albHeaderOps hasHeaders
  cases m.headers with
  | nil => rfl
  | cons h t =>
    simp only [List.isEmpty_cons, Bool.not_false, if_true]
    script_cases

theorem mseMatch_eq (a : AnnMap) (m : HttpMatch) :
    mseMatch a m = runOps (nginxMatchOps m ++ mseQueryOps m) a := by
  have h1 : mseHeaderPart a m = runOps (nginxMatchOps m) a := by
    unfold mseHeaderPart nginxMatchOps nginxHeaderOps
    cases m.headers with
    | nil => rfl
    | cons h t =>
      simp only []
      script_cases
  have h2 : ∀ b, mseQueryPart b m = runOps (mseQueryOps m) b := by
    intro b
    unfold mseQueryPart mseQueryOps
    cases m.queryParams with
    | nil => rfl
    | cons q t =>
      simp only []
      script_cases
  rw [mseMatch, h1, h2, runOps_append]

/-! ### nginx.lua -/

def nginxOwned : List String :=
  ["nginx.ingress.kubernetes.io/canary", "nginx.ingress.kubernetes.io/canary-by-cookie",
   "nginx.ingress.kubernetes.io/canary-by-header", "nginx.ingress.kubernetes.io/canary-by-header-pattern",
   "nginx.ingress.kubernetes.io/canary-by-header-value", "nginx.ingress.kubernetes.io/canary-weight"]

def nginxPre : List Op :=
  [.set "nginx.ingress.kubernetes.io/canary" "true",
   .del "nginx.ingress.kubernetes.io/canary-by-cookie",
   .del "nginx.ingress.kubernetes.io/canary-by-header",
   .del "nginx.ingress.kubernetes.io/canary-by-header-pattern",
   .del "nginx.ingress.kubernetes.io/canary-by-header-value",
   .del "nginx.ingress.kubernetes.io/canary-weight"]

def matchesOps (g : HttpMatch → List Op) (s : LuaStep) : List Op :=
  match s.mts with
  | none => []
  | some ms => ms.flatMap g

def nginxOps (s : LuaStep) : List Op :=
  nginxPre ++ (weightOps "nginx.ingress.kubernetes.io/canary-weight" s ++ matchesOps nginxMatchOps s)

theorem nginxLua_eq (a : AnnMap) (s : LuaStep) : nginxLua a s = some (runOps (nginxOps s) a) := by
  unfold nginxLua nginxOps matchesOps weightOps
  simp only [runOps_append]
  cases s.mts with
  | none => simp only []; script_cases
  | some ms =>
    simp only [foldl_runOps nginxMatch nginxMatchOps nginxMatch_eq]
    script_cases

theorem higressLua_eq (a : AnnMap) (s : LuaStep) :
    higressLua a s = if allHaveHeaders s then some (runOps (nginxOps s) a) else none := by
  unfold higressLua nginxOps matchesOps weightOps allHaveHeaders
  simp only [runOps_append]
  cases s.mts with
  | none => simp only [if_true]; script_cases
  | some ms =>
    simp only [foldlM_runOps higressMatch nginxMatchOps hasHeaders higressMatch_eq]
    script_cases

/-! ### aliyun-alb.lua -/

def albOwned : List String :=
  ["alb.ingress.kubernetes.io/canary", "alb.ingress.kubernetes.io/canary-by-cookie",
   "alb.ingress.kubernetes.io/canary-by-header", "alb.ingress.kubernetes.io/canary-by-header-pattern",
   "alb.ingress.kubernetes.io/canary-by-header-value", "alb.ingress.kubernetes.io/canary-weight",
   "alb.ingress.kubernetes.io/order"]

def albPre : List Op :=
  [.set "alb.ingress.kubernetes.io/canary" "true",
   .del "alb.ingress.kubernetes.io/canary-by-cookie",
   .del "alb.ingress.kubernetes.io/canary-by-header",
   .del "alb.ingress.kubernetes.io/canary-by-header-pattern",
   .del "alb.ingress.kubernetes.io/canary-by-header-value",
   .del "alb.ingress.kubernetes.io/canary-weight",
   .set "alb.ingress.kubernetes.io/order" "1"]

def albOps (s : LuaStep) : List Op :=
  albPre ++ (weightOps "alb.ingress.kubernetes.io/canary-weight" s ++ matchesOps albMatchOps s)

theorem albLua_eq (a : AnnMap) (s : LuaStep) :
    albLua a s = if allHaveHeaders s then some (runOps (albOps s) a) else none := by
  unfold albLua albOps matchesOps weightOps allHaveHeaders
  simp only [runOps_append]
  cases s.mts with
  | none => simp only [if_true]; script_cases
  | some ms =>
    simp only [foldlM_runOps albMatch albMatchOps hasHeaders albMatch_eq]
    script_cases

/-! ### mse.lua -/

def mseOwned : List String :=
  ["nginx.ingress.kubernetes.io/canary", "nginx.ingress.kubernetes.io/canary-by-cookie",
   "nginx.ingress.kubernetes.io/canary-by-header", "nginx.ingress.kubernetes.io/canary-by-header-pattern",
   "nginx.ingress.kubernetes.io/canary-by-header-value",
   "nginx.ingress.kubernetes.io/canary-by-query", "nginx.ingress.kubernetes.io/canary-by-query-pattern",
   "nginx.ingress.kubernetes.io/canary-by-query-value",
   "mse.ingress.kubernetes.io/canary-by-query", "mse.ingress.kubernetes.io/canary-by-query-pattern",
   "mse.ingress.kubernetes.io/canary-by-query-value",
   "mse.ingress.kubernetes.io/request-header-control-update",
   "nginx.ingress.kubernetes.io/canary-weight"]

def msePre : List Op :=
  [.set "nginx.ingress.kubernetes.io/canary" "true",
   .del "nginx.ingress.kubernetes.io/canary-by-cookie",
   .del "nginx.ingress.kubernetes.io/canary-by-header",
   .del "nginx.ingress.kubernetes.io/canary-by-header-pattern",
   .del "nginx.ingress.kubernetes.io/canary-by-header-value",
   .del "nginx.ingress.kubernetes.io/canary-by-query",
   .del "nginx.ingress.kubernetes.io/canary-by-query-pattern",
   .del "nginx.ingress.kubernetes.io/canary-by-query-value",
   .del "mse.ingress.kubernetes.io/canary-by-query",
   .del "mse.ingress.kubernetes.io/canary-by-query-pattern",
   .del "mse.ingress.kubernetes.io/canary-by-query-value",
   .del "mse.ingress.kubernetes.io/request-header-control-update",
   .del "nginx.ingress.kubernetes.io/canary-weight"]

/-- the one op of mse.lua outside the keys it owns: `service-subset`, if present, becomes "gray" -/
def msePassive : List Op := [.fix "mse.ingress.kubernetes.io/service-subset" "gray"]

def mseRhmOps (s : LuaStep) : List Op :=
  match s.rhm with
  | none => []
  | some set => [.set "mse.ingress.kubernetes.io/request-header-control-update" (mseHeaderControl set)]

def mseMatchOps (m : HttpMatch) : List Op := nginxMatchOps m ++ mseQueryOps m

def mseOps (s : LuaStep) : List Op :=
  msePre ++ (weightOps "nginx.ingress.kubernetes.io/canary-weight" s ++ (msePassive ++
    (mseRhmOps s ++ matchesOps mseMatchOps s)))

theorem mseLua_eq (a : AnnMap) (s : LuaStep) :
    mseLua a s = if rhmOk s && !a.isEmpty then some (runOps (mseOps s) a) else none := by
  unfold mseLua mseOps matchesOps weightOps mseRhmOps msePassive msePre rhmOk
  by_cases ha : a.isEmpty = true
  · simp [ha]
  · have hm : ∀ ms b, List.foldl mseMatch b ms = runOps (ms.flatMap mseMatchOps) b :=
      fun ms b => foldl_runOps mseMatch mseMatchOps mseMatch_eq ms b
    simp only [ha, Bool.false_eq_true, if_false, Bool.not_false, Bool.and_true, runOps_append,
      runOps_cons, runOps_nil, Op.run, hm]
    rcases s.rhm with _ | ⟨_ | ⟨h, hs⟩⟩
    · cases s.mts <;> by_cases hw : (s.weight != "-1") = true <;>
        simp only [hw, if_true, if_false, Bool.false_eq_true, runOps_cons, runOps_nil, Op.run]
    · simp
    · cases s.mts <;> by_cases hw : (s.weight != "-1") = true <;>
        simp only [hw, if_true, if_false, Bool.false_eq_true, runOps_cons, runOps_nil, Op.run]

/-! ## what is needed of a script, and what follows -/

structure Spec (cls : Class) where
  ops : LuaStep → List Op
  /-- the keys the class owns: every run of the script overwrites them -/
  owned : List String
  /-- what the script does to all other keys (independent of the step) -/
  passive : List Op
  run_eq : ∀ a s, script cls a s =
    if supported cls s && annOk cls a then some (runOps (ops s) a) else none
  owned_reset : ∀ s k, k ∈ owned → resets (ops s) k = true
  other : ∀ s k x, k ∉ owned → effect (ops s) k x = effect passive k x
  passive_idem : ∀ k x, effect passive k (effect passive k x) = effect passive k x

theorem annOk_congr (cls : Class) {a b : AnnMap} (h : Eqv a b) : annOk cls a = annOk cls b := by
  cases cls <;> simp [annOk, isEmpty_congr h]

theorem Spec.some_iff {cls : Class} (sp : Spec cls) (a : AnnMap) (s : LuaStep) (b : AnnMap) :
    script cls a s = some b ↔ (supported cls s = true ∧ annOk cls a = true) ∧ b = runOps (sp.ops s) a := by
  rw [sp.run_eq]
  by_cases h : (supported cls s && annOk cls a) = true
  · simp only [h, if_true, Option.some.injEq]
    simp only [Bool.and_eq_true] at h
    constructor
    · intro e; exact ⟨h, e.symm⟩
    · intro e; exact e.2.symm
  · simp only [h]
    simp only [Bool.and_eq_true] at h
    constructor
    · intro e; cases e
    · intro e; exact absurd e.1 h

/-- history independence of one script -/
theorem Spec.hist {cls : Class} (sp : Spec cls) {a b c : AnnMap} {s1 s2 : LuaStep}
    (h1 : script cls a s1 = some b) (h2 : script cls b s2 = some c) :
    ∃ d, script cls a s2 = some d ∧ Eqv c d := by
  obtain ⟨⟨_, ha⟩, hb⟩ := (sp.some_iff a s1 b).mp h1
  obtain ⟨⟨hs2, _⟩, hc⟩ := (sp.some_iff b s2 c).mp h2
  refine ⟨runOps (sp.ops s2) a, (sp.some_iff a s2 _).mpr ⟨⟨hs2, ha⟩, rfl⟩, ?_⟩
  intro k
  rw [hc, hb, lookup_runOps, lookup_runOps, lookup_runOps]
  by_cases hk : k ∈ sp.owned
  · exact effect_const _ k (sp.owned_reset s2 k hk) _ _
  · rw [sp.other s2 k _ hk, sp.other s1 k _ hk, sp.other s2 k _ hk, sp.passive_idem]

/-- scripts respect map equality -/
theorem Spec.congr {cls : Class} (sp : Spec cls) {a a' b : AnnMap} {s : LuaStep}
    (he : Eqv a a') (h : script cls a s = some b) :
    ∃ b', script cls a' s = some b' ∧ Eqv b b' := by
  obtain ⟨⟨hs, ha⟩, hb⟩ := (sp.some_iff a s b).mp h
  refine ⟨runOps (sp.ops s) a', (sp.some_iff a' s _).mpr ⟨⟨hs, (annOk_congr cls he) ▸ ha⟩, rfl⟩, ?_⟩
  intro k
  rw [hb, lookup_runOps, lookup_runOps, he k]

/-! ### the four instances -/

theorem within_weightOps {owned : List String} {key : String} (h : key ∈ owned) (s : LuaStep) :
    within owned (weightOps key s) := by
  intro o ho
  unfold weightOps at ho
  split at ho
  · simp only [List.mem_singleton] at ho; subst ho; exact h
  · simp at ho

theorem within_matchesOps {owned : List String} (g : HttpMatch → List Op)
    (h : ∀ m, within owned (g m)) (s : LuaStep) : within owned (matchesOps g s) := by
  unfold matchesOps
  cases s.mts with
  | none => intro o ho; simp at ho
  | some ms => exact within_flatMap g ms h

theorem within_mono {o1 o2 : List String} {ops : List Op} (hsub : ∀ k ∈ o1, k ∈ o2)
    (h : within o1 ops) : within o2 ops := fun o ho => hsub _ (h o ho)

theorem within_nginxMatchOps (m : HttpMatch) : within nginxOwned (nginxMatchOps m) := by
  intro o ho
  unfold nginxMatchOps nginxHeaderOps at ho
  cases hh : m.headers with
  | nil => simp [hh] at ho
  | cons h t =>
    simp only [hh] at ho
    split at ho
    · simp only [List.mem_singleton] at ho; subst ho; simp [Op.key, nginxOwned]
    · simp only [List.mem_cons, List.not_mem_nil, or_false] at ho
      rcases ho with ho | ho
      · subst ho; simp [Op.key, nginxOwned]
      · split at ho <;> (subst ho; simp [Op.key, nginxOwned])

theorem within_albMatchOps (m : HttpMatch) : within albOwned (albMatchOps m) := by
  intro o ho
  unfold albMatchOps albHeaderOps at ho
  cases hh : m.headers with
  | nil => simp [hh] at ho
  | cons h t =>
    simp only [hh] at ho
    split at ho
    · simp only [List.mem_singleton] at ho; subst ho; simp [Op.key, albOwned]
    · simp only [List.mem_cons, List.not_mem_nil, or_false] at ho
      rcases ho with ho | ho
      · subst ho; simp [Op.key, albOwned]
      · split at ho <;> (subst ho; simp [Op.key, albOwned])

theorem within_mseQueryOps (m : HttpMatch) : within mseOwned (mseQueryOps m) := by
  intro o ho
  unfold mseQueryOps at ho
  cases hh : m.queryParams with
  | nil => simp [hh] at ho
  | cons q t =>
    simp only [hh, List.mem_cons, List.not_mem_nil, or_false] at ho
    rcases ho with ho | ho
    · subst ho; simp [Op.key, mseOwned]
    · split at ho <;> (subst ho; simp [Op.key, mseOwned])

theorem nginxOwned_sub_mse : ∀ k ∈ nginxOwned, k ∈ mseOwned := by decide

theorem within_nginxPre : within nginxOwned nginxPre := by unfold within; decide
theorem within_albPre : within albOwned albPre := by unfold within; decide
theorem within_msePre : within mseOwned msePre := by unfold within; decide

theorem within_nginxOps (s : LuaStep) : within nginxOwned (nginxOps s) :=
  within_append within_nginxPre (within_append (within_weightOps (by decide) s)
    (within_matchesOps _ within_nginxMatchOps s))

theorem within_albOps (s : LuaStep) : within albOwned (albOps s) :=
  within_append within_albPre (within_append (within_weightOps (by decide) s)
    (within_matchesOps _ within_albMatchOps s))

theorem reset_of_pre (pre rest : List Op) (owned : List String)
    (h : ∀ k ∈ owned, resets pre k = true) (k : String) (hk : k ∈ owned) :
    resets (pre ++ rest) k = true := by
  rw [resets_append, h k hk, Bool.true_or]

def nginxSpec : Spec .nginx where
  ops := nginxOps
  owned := nginxOwned
  passive := []
  run_eq a s := by simp [script, supported, annOk, nginxLua_eq]
  owned_reset s k hk := reset_of_pre nginxPre _ nginxOwned (by decide) k hk
  other s k x hk := by rw [effect_within (within_nginxOps s) hk, effect_nil]
  passive_idem k x := rfl

def higressSpec : Spec .higress where
  ops := nginxOps
  owned := nginxOwned
  passive := []
  run_eq a s := by simp [script, supported, annOk, higressLua_eq]
  owned_reset s k hk := reset_of_pre nginxPre _ nginxOwned (by decide) k hk
  other s k x hk := by rw [effect_within (within_nginxOps s) hk, effect_nil]
  passive_idem k x := rfl

def albSpec : Spec .alb where
  ops := albOps
  owned := albOwned
  passive := []
  run_eq a s := by simp [script, supported, annOk, albLua_eq]
  owned_reset s k hk := reset_of_pre albPre _ albOwned (by decide) k hk
  other s k x hk := by rw [effect_within (within_albOps s) hk, effect_nil]
  passive_idem k x := rfl

theorem within_mseRhmOps (s : LuaStep) : within mseOwned (mseRhmOps s) := by
  intro o ho
  unfold mseRhmOps at ho
  cases hr : s.rhm with
  | none => simp [hr] at ho
  | some set => simp only [hr, List.mem_singleton] at ho; subst ho; simp [Op.key, mseOwned]

theorem within_mseMatchOps (m : HttpMatch) : within mseOwned (mseMatchOps m) :=
  within_append (within_mono nginxOwned_sub_mse (within_nginxMatchOps m)) (within_mseQueryOps m)

def mseSpec : Spec .mse where
  ops := mseOps
  owned := mseOwned
  passive := msePassive
  run_eq a s := by simp [script, supported, annOk, mseLua_eq]
  owned_reset s k hk := reset_of_pre msePre _ mseOwned (by decide) k hk
  other s k x hk := by
    unfold mseOps
    rw [effect_append, effect_within within_msePre hk, effect_append,
      effect_within (within_weightOps (by decide) s) hk, effect_append, effect_append,
      effect_within (within_mseRhmOps s) hk,
      effect_within (within_matchesOps _ within_mseMatchOps s) hk]
  passive_idem k x := by
    simp only [msePassive, effect_cons, effect_nil, Op.key, Op.act]
    by_cases h : "mse.ingress.kubernetes.io/service-subset" = k
    · simp only [h, if_true]; cases x <;> rfl
    · simp only [h, ↓reduceIte]

def specOf : (cls : Class) → Spec cls
  | .nginx => nginxSpec
  | .alb => albSpec
  | .higress => higressSpec
  | .mse => mseSpec

/-! ## `buildCanaryIngress` -/

open RV.Oracle.C14

theorem retarget_eq (cfg : Cfg) (p : Path) (svc : SvcBackend) (h : p.backend.service = some svc) :
    retarget cfg p svc = retargetPath cfg p := by
  simp [retarget, retargetPath, h]

theorem pathLoop_spec (cfg : Cfg) (ps : List Path) (has : Bool) (out : List Path) :
    pathLoop cfg ps (has, out) =
      .ok (has || ps.any (pointsAtStable cfg), out ++ (ps.filter (pointsAtStable cfg)).map (retargetPath cfg)) := by
  induction ps generalizing has out with
  | nil => simp [pathLoop]
  | cons p ps ih =>
    unfold pathLoop
    cases hs : p.backend.service with
    | none =>
      have hp : pointsAtStable cfg p = false := by simp [pointsAtStable, hs]
      simp only [ih, List.any_cons, hp, Bool.false_or, List.filter_cons, Bool.false_eq_true, if_false]
    | some svc =>
      by_cases hn : (svc.name == cfg.stableSvc) = true
      · have hp : pointsAtStable cfg p = true := by simp [pointsAtStable, hs, hn]
        simp only [hn, if_true, ih, List.any_cons, hp, Bool.true_or, Bool.or_true, List.filter_cons,
          List.map_cons, retarget_eq cfg p svc hs, List.append_assoc, List.singleton_append]
      · have hp : pointsAtStable cfg p = false := by simp [pointsAtStable, hs, hn]
        simp only [hn, if_false, ih, List.any_cons, hp, Bool.false_or, List.filter_cons,
          Bool.false_eq_true]

theorem any_eq_not_isEmpty {α β} (l : List α) (q : α → Bool) (f : α → β) :
    l.any q = !((l.filter q).map f).isEmpty := by
  induction l with
  | nil => rfl
  | cons x l ih =>
    by_cases hx : q x = true
    · simp [hx]
    · simp [hx, ih]

theorem ruleLoop_spec (cfg : Cfg) (rs : List Rule) (out : List Rule) :
    ruleLoop cfg rs out = .ok (out ++ expectedRules cfg rs) := by
  induction rs generalizing out with
  | nil => simp [ruleLoop, expectedRules]
  | cons r rs ih =>
    unfold ruleLoop
    cases hh : r.http with
    | none => simp only [ih, expectedRules, List.filterMap_cons, hh]
    | some paths =>
      simp only [pathLoop_spec, Bool.false_or, List.nil_append]
      rw [any_eq_not_isEmpty paths (pointsAtStable cfg) (retargetPath cfg)]
      by_cases he : ((paths.filter (pointsAtStable cfg)).map (retargetPath cfg)).isEmpty = true
      · simp only [he, Bool.not_true, Bool.false_eq_true, if_false, ih, expectedRules,
          List.filterMap_cons, hh, if_true]
      · simp only [he, Bool.not_false, if_true, ih, expectedRules, List.filterMap_cons, hh,
          if_false, Bool.false_eq_true, List.append_assoc, List.singleton_append]

theorem build_spec (cfg : Cfg) (st : Ingress) :
    buildCanaryIngress cfg st =
      .ok { ann := st.ann, labels := st.labels, className := st.className, tls := st.tls,
            defaultBackend := false, rules := expectedRules cfg st.rules } := by
  simp [buildCanaryIngress, ruleLoop_spec]

/-! ## merge patch of the annotations -/

def patchOp (kv : String × Option String) : Op :=
  match kv.2 with
  | some v => .set kv.1 v
  | none => .del kv.1

theorem applyPatch_eq (a : AnnMap) (p : List (String × Option String)) :
    applyPatch a p = runOps (p.map patchOp) a := by
  induction p generalizing a with
  | nil => rfl
  | cons kv p ih =>
    simp only [applyPatch, List.foldl_cons, List.map_cons, runOps_cons] at ih ⊢
    rw [ih]
    congr 1
    obtain ⟨k, ov⟩ := kv
    cases ov <;> rfl

theorem effect_patch_keys (ks : List String) (val : String → Option String) (k : String)
    (x : Option String) :
    effect (ks.map (fun k' => patchOp (k', val k'))) k x = if k ∈ ks then val k else x := by
  induction ks generalizing x with
  | nil => simp [effect_nil]
  | cons k0 ks ih =>
    simp only [List.map_cons, effect_cons, ih, List.mem_cons]
    have hkey : (patchOp (k0, val k0)).key = k0 := by
      simp only [patchOp]; cases val k0 <;> rfl
    have hact : ∀ y, (patchOp (k0, val k0)).act y = val k0 := by
      intro y; simp only [patchOp]; cases h : val k0 <;> simp [Op.act]
    by_cases h0 : k0 = k
    · subst h0; simp [hkey, hact]
    · have h0' : ¬ k = k0 := fun e => h0 e.symm
      simp [hkey, h0, h0']

theorem mem_akeys_of_lookup {a : AnnMap} {k : String} (h : lookup a k ≠ none) : k ∈ akeys a := by
  apply Classical.byContradiction
  intro hn
  exact h (lookup_none_of_not_mem a k hn)

theorem lookup_ne_none_of_mem {a : AnnMap} {k : String} (h : k ∈ akeys a) : lookup a k ≠ none := by
  induction a with
  | nil => simp [akeys] at h
  | cons p rest ih =>
    obtain ⟨k0, v0⟩ := p
    simp only [akeys, List.map_cons, List.mem_cons] at h
    simp only [lookup, beq_iff_eq]
    by_cases h0 : k0 = k
    · simp [h0]
    · simp only [h0, if_false]
      rcases h with h | h
      · exact absurd h.symm h0
      · exact ih h

/-- applying the merge patch `old → new` to `old` gives `new` -/
theorem applyPatch_mergePatch (old new : AnnMap) : Eqv (applyPatch old (mergePatch old new)) new := by
  intro k
  rw [applyPatch_eq, lookup_runOps, mergePatch, List.map_append, effect_append]
  simp only [List.map_map]
  have e1 : ∀ (ks : List String),
      (List.map (patchOp ∘ fun k => (k, lookup new k)) ks) = ks.map (fun k' => patchOp (k', lookup new k')) := by
    intro ks; rfl
  have e2 : ∀ (ks : List String),
      (List.map (patchOp ∘ fun k => (k, (none : Option String))) ks)
        = ks.map (fun k' => patchOp (k', (fun _ => none) k')) := by
    intro ks; rfl
  rw [e1, e2, effect_patch_keys, effect_patch_keys]
  simp only [List.mem_filter, bne_iff_ne, ne_eq, Option.isNone_iff_eq_none]
  by_cases hn : lookup new k = none
  · -- key absent from `new`
    have h1 : ¬ (k ∈ akeys new ∧ ¬ lookup old k = lookup new k) :=
      fun h => lookup_ne_none_of_mem h.1 hn
    simp only [hn, and_true]
    by_cases ho : k ∈ akeys old
    · simp [ho]
    · simp [ho, lookup_none_of_not_mem old k ho]
  · have hk : k ∈ akeys new := mem_akeys_of_lookup hn
    have h2 : ¬ (k ∈ akeys old ∧ lookup new k = none) := fun h => hn h.2
    simp only [h2, if_false, hk, true_and]
    by_cases he : lookup old k = lookup new k
    · simp [he]
    · simp [he]

/-! ## sequences of script runs -/

/-- the script applied for a list of steps, one after the other (`none` as soon as one fails) -/
def runSteps (cls : Class) (a : AnnMap) (ss : List LuaStep) : Option AnnMap :=
  ss.foldlM (script cls) a

theorem runSteps_nil (cls : Class) (a : AnnMap) : runSteps cls a [] = some a := rfl

theorem runSteps_cons (cls : Class) (a : AnnMap) (s : LuaStep) (ss : List LuaStep) :
    runSteps cls a (s :: ss) = (script cls a s).bind (fun b => runSteps cls b ss) := by
  simp only [runSteps, List.foldlM_cons]; rfl

theorem runSteps_snoc (cls : Class) (a : AnnMap) (ss : List LuaStep) (s : LuaStep) :
    runSteps cls a (ss ++ [s]) = (runSteps cls a ss).bind (fun b => script cls b s) := by
  induction ss generalizing a with
  | nil =>
    simp only [List.nil_append, runSteps_cons, runSteps_nil, Option.bind_some]
    cases script cls a s <;> rfl
  | cons s0 ss ih =>
    simp only [List.cons_append, runSteps_cons]
    cases script cls a s0 with
    | none => rfl
    | some b => simp only [Option.bind_some]; exact ih b

/-- history independence for any number of earlier steps (at least one) -/
theorem runSteps_hist (cls : Class) (a c : AnnMap) (s0 : LuaStep) (ss : List LuaStep) (s : LuaStep)
    (h : runSteps cls a ((s0 :: ss) ++ [s]) = some c) :
    ∃ d, script cls a s = some d ∧ Eqv c d := by
  induction ss generalizing a s0 c with
  | nil =>
    simp only [List.cons_append, List.nil_append, runSteps_cons, runSteps_nil] at h
    cases h1 : script cls a s0 with
    | none => simp [h1] at h
    | some b =>
      simp only [h1, Option.bind_some] at h
      cases h2 : script cls b s with
      | none => simp [h2] at h
      | some c' =>
        simp only [h2, Option.bind_some, Option.some.injEq] at h
        subst h
        exact (specOf cls).hist h1 h2
  | cons s1 ss ih =>
    -- a —s0→ b —s1→ b1 —ss,s→ c ; by IH from b: c ≈ script b s; then one more application of `hist`
    rw [List.cons_append, runSteps_cons] at h
    cases h1 : script cls a s0 with
    | none => simp [h1] at h
    | some b =>
      simp only [h1, Option.bind_some] at h
      obtain ⟨d, hd, hcd⟩ := ih b c s1 h
      obtain ⟨d', hd', hdd'⟩ := (specOf cls).hist h1 hd
      exact ⟨d', hd', hcd.trans hdd'⟩

/-! ## `EnsureRoutes` / `Finalise` -/

theorem executeLua_eq (cls : Class) (a : AnnMap) (s : Strategy) :
    executeLua cls a (s.traffic.map weightOf) s.mts s.rhm = script cls a (luaStepOf s) := by
  cases h : s.traffic <;> simp [executeLua, luaStepOf, h]

theorem executeLua_init (cls : Class) (a : AnnMap) :
    executeLua cls a (some 0) none none = script cls a initStep := rfl

/-- the annotations a canary Ingress created from `stableAnn` can carry: those of creation, or
    those of some step entered right after creation -/
def Derived (cls : Class) (stableAnn x : AnnMap) : Prop :=
  ∃ a0, script cls stableAnn initStep = some a0 ∧
    (Eqv x a0 ∨ ∃ s d, script cls a0 s = some d ∧ Eqv x d)

/-- running the script on derived annotations gives what entering the step first gives -/
theorem derived_step {cls : Class} {stableAnn x new : AnnMap} {ls : LuaStep}
    (hd : Derived cls stableAnn x) (h : script cls x ls = some new) :
    ∃ d, freshAnn cls stableAnn ls = some d ∧ Eqv new d := by
  obtain ⟨a0, h0, hx⟩ := hd
  simp only [freshAnn, h0]
  rcases hx with hx | ⟨s, d0, hs, hx⟩
  · exact (specOf cls).congr hx h
  · obtain ⟨n', hn', hnn'⟩ := (specOf cls).congr hx h
    obtain ⟨d, hd, hn'd⟩ := (specOf cls).hist hs hn'
    exact ⟨d, hd, hnn'.trans hn'd⟩

theorem derived_of_step {cls : Class} {stableAnn x new y : AnnMap} {ls : LuaStep}
    (hd : Derived cls stableAnn x) (h : script cls x ls = some new) (hy : Eqv y new) :
    Derived cls stableAnn y := by
  obtain ⟨d, hf, hnd⟩ := derived_step hd h
  obtain ⟨a0, h0, _⟩ := hd
  simp only [freshAnn, h0] at hf
  exact ⟨a0, h0, Or.inr ⟨ls, d, hf, hy.trans hnd⟩⟩

/-- what holds of the store along every run that starts without a canary Ingress -/
structure Inv (cfg : Cfg) (st : Ingress) (w : World) : Prop where
  stable : w.stable = some st
  derived : ∀ c, w.canary = some c → Derived cfg.cls st.ann c.ing.ann
  rules : ∀ c, w.canary = some c → c.ing.rules = expectedRules cfg st.rules
  wf : ∀ c, w.canary = some c → c.deleting = true → c.fin = true

theorem inv_init (cfg : Cfg) (st : Ingress) : Inv cfg st { stable := some st, canary := none } :=
  ⟨rfl, fun _ h => (by cases h), fun _ h => (by cases h), fun _ h => (by cases h)⟩

/-- the canary Ingress `EnsureRoutes` creates -/
def createdCanary (cfg : Cfg) (st : Ingress) (a0 : AnnMap) : CanaryObj :=
  { ing := { ann := a0, labels := st.labels, className := st.className, tls := st.tls,
             defaultBackend := false, rules := expectedRules cfg st.rules },
    deleting := false, fin := false }

theorem ensure_cases (cfg : Cfg) (w : World) (s : Strategy) :
    -- no canary, weight 0: nothing to do
    (w.canary = none ∧ s.traffic.map weightOf = some 0 ∧ ensureRoutes cfg w s = .ret w true .ok [])
    -- no canary, no stable Ingress
    ∨ (w.canary = none ∧ w.stable = none ∧ ensureRoutes cfg w s = .ret w false .notFound [])
    -- no canary: the creation script fails
    ∨ (∃ st, w.canary = none ∧ w.stable = some st ∧ script cfg.cls st.ann initStep = none ∧
        ensureRoutes cfg w s = .ret w false .err [])
    -- no canary: created
    ∨ (∃ st a0, w.canary = none ∧ w.stable = some st ∧ script cfg.cls st.ann initStep = some a0 ∧
        ensureRoutes cfg w s =
          .ret { w with canary := some (createdCanary cfg st a0) } false .ok [.create cfg.canaryName])
    -- canary exists: the script fails
    ∨ (∃ c, w.canary = some c ∧ script cfg.cls c.ing.ann (luaStepOf s) = none ∧
        ensureRoutes cfg w s = .ret w false .err [])
    -- canary exists: already as the step wants it
    ∨ (∃ c new, w.canary = some c ∧ script cfg.cls c.ing.ann (luaStepOf s) = some new ∧
        Eqv c.ing.ann new ∧ ensureRoutes cfg w s = .ret w true .ok [])
    -- canary exists: patched
    ∨ (∃ c new ann', w.canary = some c ∧ script cfg.cls c.ing.ann (luaStepOf s) = some new ∧
        Eqv ann' new ∧
        ensureRoutes cfg w s = .ret { w with canary := some { c with ing := { c.ing with ann := ann' } } }
          false .ok [.patch cfg.canaryName]) := by
  unfold ensureRoutes
  cases hc : w.canary with
  | none =>
    simp only []
    by_cases hw : (s.traffic.map weightOf == some 0) = true
    · left
      exact ⟨trivial, by simpa using hw, by simp only [hw, if_true]⟩
    · cases hs : w.stable with
      | none => right; left; exact ⟨trivial, rfl, by simp only [hw, Bool.false_eq_true, if_false]⟩
      | some st =>
        cases h0 : script cfg.cls st.ann initStep with
        | none =>
          right; right; left
          exact ⟨st, trivial, rfl, h0, by
            simp only [hw, Bool.false_eq_true, if_false, build_spec, executeLua_init, h0]⟩
        | some a0 =>
          right; right; right; left
          exact ⟨st, a0, trivial, rfl, h0, by
            simp only [hw, Bool.false_eq_true, if_false, build_spec, executeLua_init, h0, createdCanary]⟩
  | some c =>
    simp only [executeLua_eq]
    cases hn : script cfg.cls c.ing.ann (luaStepOf s) with
    | none => right; right; right; right; left; exact ⟨c, rfl, hn, rfl⟩
    | some new =>
      by_cases he : eqvB c.ing.ann new = true
      · right; right; right; right; right; left
        exact ⟨c, new, rfl, hn, (eqvB_iff _ _).mp he, by simp only [he, if_true]⟩
      · right; right; right; right; right; right
        exact ⟨c, new, applyPatch c.ing.ann (mergePatch c.ing.ann new), rfl, hn,
          applyPatch_mergePatch _ _, by simp only [he, Bool.false_eq_true, if_false]⟩

theorem writesOk_create (cfg : Cfg) : writesOk cfg [.create cfg.canaryName] = true := by
  simp [writesOk, Write.target]
theorem writesOk_patch (cfg : Cfg) : writesOk cfg [.patch cfg.canaryName] = true := by
  simp [writesOk, Write.target]
theorem writesOk_delete (cfg : Cfg) : writesOk cfg [.delete cfg.canaryName] = true := by
  simp [writesOk, Write.target]

/-- `EnsureRoutes` never panics, never touches the stable Ingress, writes only the canary Ingress -/
theorem ensure_frame (cfg : Cfg) (w : World) (s : Strategy) :
    ∃ w' done e ws, ensureRoutes cfg w s = .ret w' done e ws ∧ w'.stable = w.stable ∧
      writesOk cfg ws = true := by
  rcases ensure_cases cfg w s with ⟨_, _, h⟩ | ⟨_, _, h⟩ | ⟨_, _, _, _, h⟩ | ⟨_, _, _, _, _, h⟩ |
    ⟨_, _, _, h⟩ | ⟨_, _, _, _, _, h⟩ | ⟨_, _, _, _, _, _, h⟩
  · exact ⟨_, _, _, _, h, rfl, rfl⟩
  · exact ⟨_, _, _, _, h, rfl, rfl⟩
  · exact ⟨_, _, _, _, h, rfl, rfl⟩
  · exact ⟨_, _, _, _, h, rfl, writesOk_create cfg⟩
  · exact ⟨_, _, _, _, h, rfl, rfl⟩
  · exact ⟨_, _, _, _, h, rfl, rfl⟩
  · exact ⟨_, _, _, _, h, rfl, writesOk_patch cfg⟩

theorem finalise_frame (cfg : Cfg) (w : World) :
    ∃ w' done ws, finalise cfg w = .ret w' done .ok ws ∧ w'.stable = w.stable ∧
      writesOk cfg ws = true := by
  unfold finalise
  cases w.canary with
  | none => exact ⟨_, _, _, rfl, rfl, rfl⟩
  | some c =>
    by_cases hd : c.deleting = true
    · simp only [hd, if_true]; exact ⟨_, _, _, rfl, rfl, rfl⟩
    · simp only [hd, Bool.false_eq_true, if_false]; exact ⟨_, _, _, rfl, rfl, writesOk_delete cfg⟩

theorem stepCall_frame (cfg : Cfg) (w : World) (call : Call) :
    ∃ w' done e ws, stepCall cfg w call = .ret w' done e ws ∧ w'.stable = w.stable ∧
      writesOk cfg ws = true := by
  cases call with
  | ensure s => exact ensure_frame cfg w s
  | finalise =>
    obtain ⟨w', d, ws, h, h1, h2⟩ := finalise_frame cfg w
    exact ⟨w', d, .ok, ws, h, h1, h2⟩
  | addFinalizer => exact ⟨_, _, _, _, rfl, rfl, rfl⟩

/-- the invariant is kept by `EnsureRoutes` -/
theorem inv_ensure {cfg : Cfg} {st : Ingress} {w w' : World} {s : Strategy} {done : Bool} {e : Err}
    {ws : List Write} (hi : Inv cfg st w) (h : ensureRoutes cfg w s = .ret w' done e ws) :
    Inv cfg st w' := by
  rcases ensure_cases cfg w s with ⟨_, _, h'⟩ | ⟨_, _, h'⟩ | ⟨_, _, _, _, h'⟩ | ⟨st', a0, hc, hs, h0, h'⟩ |
    ⟨_, _, _, h'⟩ | ⟨_, _, _, _, _, h'⟩ | ⟨c, new, ann', hc, hn, hv, h'⟩
  all_goals (rw [h'] at h; injection h with hw _ _ _; subst hw)
  · exact hi
  · exact hi
  · exact hi
  · -- created
    have : st' = st := by
      have := hi.stable; rw [hs] at this; exact Option.some.inj this
    subst this
    refine ⟨hi.stable, ?_, ?_, ?_⟩
    · intro c hc'
      simp only [Option.some.injEq] at hc'; subst hc'
      exact ⟨a0, h0, Or.inl (Eqv.refl _)⟩
    · intro c hc'
      simp only [Option.some.injEq] at hc'; subst hc'
      rfl
    · intro c hc' hd
      simp only [Option.some.injEq] at hc'; subst hc'
      simp [createdCanary] at hd
  · exact hi
  · exact hi
  · -- patched
    refine ⟨hi.stable, ?_, ?_, ?_⟩
    · intro c' hc'
      simp only [Option.some.injEq] at hc'; subst hc'
      exact derived_of_step (hi.derived c hc) hn hv
    · intro c' hc'
      simp only [Option.some.injEq] at hc'; subst hc'
      exact hi.rules c hc
    · intro c' hc' hd
      simp only [Option.some.injEq] at hc'; subst hc'
      exact hi.wf c hc hd

theorem inv_finalise {cfg : Cfg} {st : Ingress} {w w' : World} {done : Bool} {e : Err}
    {ws : List Write} (hi : Inv cfg st w) (h : finalise cfg w = .ret w' done e ws) :
    Inv cfg st w' := by
  unfold finalise at h
  cases hc : w.canary with
  | none => simp only [hc] at h; injection h with hw; subst hw; exact hi
  | some c =>
    simp only [hc] at h
    by_cases hd : c.deleting = true
    · simp only [hd, if_true] at h; injection h with hw; subst hw; exact hi
    · simp only [hd, Bool.false_eq_true, if_false] at h
      injection h with hw; subst hw
      by_cases hf : c.fin = true
      · simp only [hf, if_true]
        refine ⟨hi.stable, ?_, ?_, ?_⟩
        · intro c' hc'; simp only [Option.some.injEq] at hc'; subst hc'; exact hi.derived c hc
        · intro c' hc'; simp only [Option.some.injEq] at hc'; subst hc'; exact hi.rules c hc
        · intro c' hc' _; simp only [Option.some.injEq] at hc'; subst hc'; rfl
      · simp only [hf, Bool.false_eq_true, if_false]
        exact ⟨hi.stable, fun _ h => (by cases h), fun _ h => (by cases h), fun _ h => (by cases h)⟩

theorem inv_step {cfg : Cfg} {st : Ingress} {w w' : World} {call : Call} {done : Bool} {e : Err}
    {ws : List Write} (hi : Inv cfg st w) (h : stepCall cfg w call = .ret w' done e ws) :
    Inv cfg st w' := by
  cases call with
  | ensure s => exact inv_ensure hi h
  | finalise => exact inv_finalise hi h
  | addFinalizer =>
    simp only [stepCall] at h
    injection h with hw; subst hw
    cases hc : w.canary with
    | none => exact ⟨hi.stable, by simp, by simp, by simp⟩
    | some c =>
      refine ⟨hi.stable, ?_, ?_, ?_⟩
      · intro c' hc'; simp only [Option.map_some, Option.some.injEq] at hc'; subst hc'
        exact hi.derived c hc
      · intro c' hc'; simp only [Option.map_some, Option.some.injEq] at hc'; subst hc'
        exact hi.rules c hc
      · intro c' hc' _; simp only [Option.map_some, Option.some.injEq] at hc'; subst hc'
        rfl

theorem runCalls_total (cfg : Cfg) (w : World) (calls : List Call) :
    ∃ w', runCalls cfg w calls = some w' ∧ w'.stable = w.stable := by
  induction calls generalizing w with
  | nil => exact ⟨w, rfl, rfl⟩
  | cons c cs ih =>
    obtain ⟨w1, d, e, ws, h, hs, _⟩ := stepCall_frame cfg w c
    obtain ⟨w', h', hs'⟩ := ih w1
    exact ⟨w', by simp only [runCalls, h, h'], hs'.trans hs⟩

theorem inv_run {cfg : Cfg} {st : Ingress} {w w' : World} {calls : List Call}
    (hi : Inv cfg st w) (h : runCalls cfg w calls = some w') : Inv cfg st w' := by
  induction calls generalizing w with
  | nil => simp only [runCalls, Option.some.injEq] at h; subst h; exact hi
  | cons c cs ih =>
    obtain ⟨w1, d, e, ws, hstep, _, _⟩ := stepCall_frame cfg w c
    simp only [runCalls, hstep] at h
    exact ih (inv_step hi hstep) h

end RV.Ingress
