import RV.Model.Ingress
import RV.Oracle.C14
namespace RV.Ingress
end RV.Ingress
