import RV.Json
namespace RV.Drv.Validate
open Lean RV
def handle : Handler := fun op _ _ => .error s!"Validate: op {op} not implemented"
end RV.Drv.Validate
