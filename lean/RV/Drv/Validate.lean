import RV.Json
import RV.Model.Validate
import RV.Oracle.C09V
/-!
  Driver for suite `validate`: the Rollout validating webhook.

  input  {"version":"v1beta1"|"v1alpha1","op":"create"|"update"|"other","limit":n,
          "obj":OBJ,"old":OBJ|null,"store":[{"ns","name","ref","phase"}]}
  OBJ    {"ns","name","anno","ref":REF|null,"canary":STRAT|null,"blueGreen":STRAT|null}
  STRAT  {"steps":[STEP],"trs":[TR]|null,"extra":bool}
  STEP   {"replicas":VAL|null,"traffic":VAL|null,"weight":int|null,"mts":nat|null}
  VAL    {"i":n} | {"p":n} | {"s":raw}
  TR     {"service","grace","ingress":{"classType","name"}|null,"gateway":{"route":str|null}|null,
          "customRefs":[REF]|null}
  output {"allowed":bool,"code":n,"errs":[sorted error classes]} | {"panic":true}

  op "raw" carries an arbitrary request body; only the totality oracle is evaluated.
-/
namespace RV.Drv.Validate
open Lean RV RV.Arith RV.Validate RV.Oracle.C09V

def valOfJson (j : Json) : R IntOrPct :=
  match jopt j "i", jopt j "p", jopt j "s" with
  | some v, _, _ => do return .int (← jint v)
  | _, some v, _ => do return .pct (← jint v)
  | _, _, some _ => .ok .bad
  | _, _, _ => .error s!"bad value {j.compress}"

def optM {α} (f : Json → R α) (j : Json) (k : String) : R (Option α) :=
  match jopt j k with
  | none => .ok none
  | some v => do return some (← f v)

def refOfJson (j : Json) : R Ref := do
  return { apiVersion := ← fStr j "apiVersion", kind := ← fStr j "kind", name := ← fStr j "name" }

def stepOfJson (j : Json) : R Step := do
  return { replicas := ← optM valOfJson j "replicas", traffic := ← optM valOfJson j "traffic",
           weight := ← fOptInt j "weight", mts := ← fOptNat j "mts" }

def trOfJson (j : Json) : R TR := do
  let ing ← optM (fun i => do return ({ classType := ← fStr i "classType", name := ← fStr i "name" } : Ingress)) j "ingress"
  let gw ← optM (fun g => fOptStr g "route") j "gateway"
  return { service := ← fStr j "service", grace := ← fInt j "grace", ingress := ing, gateway := gw,
           customRefs := ← optM (jlistM refOfJson) j "customRefs" }

def stratOfJson (j : Json) : R Strat := do
  return { steps := (← optM (jlistM stepOfJson) j "steps").getD [], trs := ← optM (jlistM trOfJson) j "trs",
           extra := ← fBool j "extra" }

structure Obj where
  ns : String
  name : String
  anno : String
  ref : Option Ref
  canary : Option Strat
  blueGreen : Option Strat

def objOfJson (j : Json) : R Obj := do
  return { ns := ← fStr j "ns", name := ← fStr j "name", anno := ← fStr j "anno",
           ref := ← optM refOfJson j "ref", canary := ← optM stratOfJson j "canary",
           blueGreen := ← optM stratOfJson j "blueGreen" }

def Obj.toB (o : Obj) : R RolloutB :=
  match o.ref with
  | none => .error "v1beta1 object without ref (the field is a struct)"
  | some r => .ok { ns := o.ns, name := o.name, ref := r, canary := o.canary, blueGreen := o.blueGreen }

def Obj.toA (o : Obj) : RolloutA :=
  { ns := o.ns, name := o.name, anno := o.anno, ref := o.ref, canary := o.canary }

def storedOfJson (j : Json) : R Stored := do
  return { ns := ← fStr j "ns", name := ← fStr j "name", ref := ← optM refOfJson j "ref", phase := ← fStr j "phase" }

def errName : Err → String
  | .refRequired => "refRequired" | .refKind => "refKind" | .refKindBG => "refKindBG"
  | .stratEmpty => "stratEmpty" | .stratBoth => "stratBoth" | .canaryNil => "canaryNil"
  | .styleAnno => "styleAnno" | .stepsEmpty => "stepsEmpty" | .replicasNil => "replicasNil"
  | .stepBothNil => "stepBothNil" | .replicasBad => "replicasBad" | .partLimit => "partLimit"
  | .partLimitWeight => "partLimitWeight" | .weightBad => "weightBad" | .trafficBG => "trafficBG"
  | .trafficCanary => "trafficCanary" | .nonDecr => "nonDecr" | .weightDecr => "weightDecr"
  | .trMany => "trMany" | .trGrace => "trGrace" | .trService => "trService" | .trUnset => "trUnset"
  | .trIngress => "trIngress" | .trGateway => "trGateway" | .conflict => "conflict"
  | .internal => "internal" | .decode => "decode" | .immutRef => "immutRef" | .immutTR => "immutTR"
  | .immutStyle => "immutStyle" | .immutSteps => "immutSteps"

def insertSorted (s : String) : List String → List String
  | [] => [s]
  | x :: xs => if s < x then s :: x :: xs else if s = x then x :: xs else x :: insertSorted s xs

def sortDedup (l : List String) : List String := l.foldl (fun acc s => insertSorted s acc) []

def outcomeJ : Outcome → Json
  | .allowed => mkObj [("allowed", boolJ true), ("code", natJ 200), ("errs", arrJ [])]
  | .denied c errs => mkObj [("allowed", boolJ false), ("code", natJ c),
      ("errs", arrJ ((sortDedup (errs.map errName)).map strJ))]
  | .panic => mkObj [("panic", boolJ true)]

/-- the decision of the real handler, as far as the oracles need it -/
def implOutcome (impl : Json) : R Outcome :=
  match jopt impl "panic" with
  | some _ => .ok .panic
  | none => do
    if ← fBool impl "allowed" then return .allowed
    else return .denied (← fNat impl "code") []

def sizeTag (pfx : String) (n : Nat) : String :=
  pfx ++ (if n = 0 then "0" else if n = 1 then "1" else if n ≤ 3 then "2-3" else if n ≤ 6 then "4-6" else "7+")

def decisionTag (impl : Json) : String :=
  match jopt impl "panic" with
  | some _ => "impl:panic"
  | none =>
    match impl.getObjVal? "allowed" with
    | .ok (.bool true) => "impl:allowed"
    | _ =>
      match impl.getObjVal? "errs" with
      | .ok (.arr a) => "impl:denied:" ++ ((a.toList.head?.bind fun j => j.getStr?.toOption).getD "?")
      | _ => "impl:denied"

def stepsTags (st : Option Strat) : List String :=
  match st with
  | none => ["strat:none"]
  | some s =>
    let keys := s.steps.filterMap stepKey
    let mixed := keys.any (·.1) && keys.any (!·.1)
    [sizeTag "steps:" s.steps.length, sizeTag "trs:" (s.trs.getD []).length] ++
    (if mixed then ["types:mixed"] else if keys.any (·.1) then ["types:percent"] else ["types:int"]) ++
    (if mixed && adjNonDecr keys && !pairNonDecr keys then ["nonadjacent-decrease"] else [])

/-- tags naming the input regions of the six repaired defects -/
def regionTags (version : String) (obj : Obj) (old : Option Obj) (store : List Stored) (isUpdate : Bool) : List String :=
  (if version = "v1alpha1" && obj.ref.isNone && obj.canary.isSome then ["region:alpha-no-workloadRef"] else []) ++
  (match old with
    | some o => if isUpdate && o.canary.isNone && o.blueGreen.isNone then ["region:old-without-strategy"] else []
    | none => if isUpdate then ["region:old-absent"] else []) ++
  (match obj.canary with
    | some c => if version = "v1alpha1" && c.steps.any (fun s => s.replicas.isSome && !weightOKA s)
        then ["region:alpha-weight-out-of-range-with-replicas"] else []
    | none => []) ++
  (match old, obj.canary with
    | some o, some c => (match o.canary with
      | some oc => if isUpdate && oc.steps.length != c.steps.length then ["region:step-count-changed"] else []
      | none => [])
    | _, _ => []) ++
  (match obj.ref with
    | some r => if store.any (fun st => st.ns = obj.ns && st.name != obj.name &&
          (match st.ref with | some rr => sameWorkload rr r && rr != r | none => false))
        then ["region:same-workload-other-apiVersion"] else []
    | none => [])

def handle : Handler := fun op inp impl => do
  match op with
  | "raw" =>
    let out ← implOutcome impl
    return { model := .null, holds := [("C09V.total", noPanic out), ("C09V.raw_not_admitted", !accepted out)],
             tags := ["raw", decisionTag impl] }
  | "handle" =>
    let version ← fStr inp "version"
    let opS ← fStr inp "op"
    let o : Op ← match opS with
      | "create" => pure Op.create | "update" => pure Op.update | "other" => pure Op.other
      | _ => .error s!"bad op {opS}"
    let limit ← fInt inp "limit"
    let obj ← objOfJson (← jget inp "obj")
    let old ← optM objOfJson inp "old"
    let store ← jlistM storedOfJson (← jget inp "store")
    let out ← implOutcome impl
    let acc := accepted out
    let prog := progressing store obj.ns obj.name
    let baseTags := [version, "op:" ++ opS, decisionTag impl] ++
      (if o = .update then [if prog then "phase:immutable" else "phase:mutable"] else []) ++
      (if o = .update && prog && acc then ["admitted-while-progressing"] else []) ++
      (if o = .other then ["trivial"] else []) ++ regionTags version obj old store (o = .update)
    if version = "v1alpha1" then
      let a := obj.toA
      let oa := old.map Obj.toA
      let m := handleA store limit o a oa
      let checked := acc && o != .other
      return {
        model := outcomeJ m
        holds := [
          ("C09V.total", noPanic out),
          ("C09V.ref", !checked || refOKA a),
          ("C09V.steps", !checked || stepsOKA a),
          ("C09V.nondecreasing", !checked || nonDecrOKA a),
          ("C09V.traffic", !checked || trafficRangeOKA a),
          ("C09V.routing", !checked || routingOKA a),
          ("C09V.conflict", !checked || (match a.ref with | some r => noConflict store a.ns a.name r | none => false)),
          ("C09V.immutable", !(checked && o = .update && prog) ||
              (match oa with | some ol => unchangedA ol a | none => false))]
        tags := baseTags ++ stepsTags a.canary }
    else
      let b ← obj.toB
      let ob ← match old with
        | none => pure none
        | some x => do pure (some (← x.toB))
      let m := handleB store limit o b ob
      let checked := acc && o != .other
      return {
        model := outcomeJ m
        holds := [
          ("C09V.total", noPanic out),
          ("C09V.ref", !checked || refOKB b),
          ("C09V.steps", !checked || stepsOKB b),
          ("C09V.nondecreasing", !checked || nonDecrOKB b),
          ("C09V.traffic", !checked || trafficRangeOKB b),
          ("C09V.routing", !checked || routingOKB b),
          ("C09V.conflict", !checked || noConflict store b.ns b.name b.ref),
          ("C09V.immutable", !(checked && o = .update && prog) ||
              (match ob with | some ol => unchangedB ol b | none => false))]
        tags := baseTags ++ [if b.blueGreen.isSome then "strategy:blueGreen" else "strategy:canary"] ++
          stepsTags (activeStrat b.canary b.blueGreen) }
  | _ => .error s!"validate: unknown op {op}"

end RV.Drv.Validate
