import RV.Json
namespace RV.Drv.CtlCanary
open Lean RV
def handle : Handler := fun op _ _ => .error s!"CtlCanary: op {op} not implemented"
end RV.Drv.CtlCanary
