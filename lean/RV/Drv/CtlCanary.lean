import RV.Json
import RV.Drv.Arith
import RV.Model.CtlCanary
import RV.Oracle.CtlCanary
namespace RV.Drv.CtlCanary
open Lean RV RV.Arith RV.CtlCanary RV.Drv.Arith

def kvOfJson (j : Json) : R KV :=
  match j with
  | .null => .ok []
  | .obj m => (m.toList).mapM (fun (k, v) => do return (k, ← jstr v))
  | _ => .error s!"kv: {j.compress}"

def kvToJson (m : KV) : Json := mkObj (m.map fun (k, v) => (k, strJ v))

def ownerOf : String → R Owner
  | "none" => .ok .none | "this" => .ok .this | "other" => .ok .other | "thisNonCtrl" => .ok .thisNonCtrl
  | s => .error s!"owner {s}"
def ownerStr : Owner → String
  | .none => "none" | .this => "this" | .other => "other" | .thisNonCtrl => "thisNonCtrl"
def ctrlOf : String → R Ctrl
  | "none" => .ok .none | "this" => .ok .this | "other" => .ok .other
  | s => .error s!"ctrl {s}"
def ctrlStr : Ctrl → String
  | .none => "none" | .this => "this" | .other => "other"

def templateOfJson (j : Json) : R Template := do
  return { rev := ← fNat j "rev", labels := ← kvOfJson (jgetD j "labels" .null), annos := ← kvOfJson (jgetD j "annos" .null) }
def templateToJson (t : Template) : Json :=
  mkObj [("rev", natJ t.rev), ("labels", kvToJson t.labels), ("annos", kvToJson t.annos)]

def strategyOfJson (j : Json) : R Strategy := do
  let ty ← (match ← fStr j "type" with
    | "rolling" => pure StrategyType.rolling
    | _ => pure StrategyType.other)
  let ru ← (match jopt j "rolling" with
    | none => pure none
    | some r => do pure (some (← iosOptOfJson r "maxSurge", ← iosOptOfJson r "maxUnavailable")))
  return { type := ty, rolling := ru }
def strategyToJson (s : Strategy) : Json :=
  mkObj [("type", strJ (match s.type with | .rolling => "rolling" | .other => "other")),
         ("rolling", match s.rolling with
            | none => .null
            | some (a, b) => mkObj [("maxSurge", optJ iosToJson a), ("maxUnavailable", optJ iosToJson b)])]

def depOfJson (j : Json) : R Dep := do
  return { name := ← fNat j "name", owner := ← ownerOf (← fStr j "owner"), ctrl := ← ctrlOf (← fStr j "ctrl"),
           canaryOf := ← fOptNat j "canaryOf", template := ← templateOfJson (← jget j "template"),
           replicas := ← fOptInt j "replicas", paused := ← fBool j "paused", finalizer := ← fBool j "finalizer",
           otherFinalizer := ← fBool j "otherFinalizer", deleting := ← fBool j "deleting", created := ← fInt j "created",
           generation := ← fInt j "generation", observedGeneration := ← fInt j "observedGeneration",
           statusReplicas := ← fInt j "statusReplicas", updatedReplicas := ← fInt j "updatedReplicas",
           availableReplicas := ← fInt j "availableReplicas", strategy := ← strategyOfJson (← jget j "strategy") }

def depToJson (d : Dep) : Json :=
  mkObj [("name", natJ d.name), ("owner", strJ (ownerStr d.owner)), ("ctrl", strJ (ctrlStr d.ctrl)),
    ("canaryOf", optJ natJ d.canaryOf), ("template", templateToJson d.template), ("replicas", optJ intJ d.replicas),
    ("paused", boolJ d.paused), ("finalizer", boolJ d.finalizer), ("otherFinalizer", boolJ d.otherFinalizer),
    ("deleting", boolJ d.deleting), ("created", intJ d.created), ("generation", intJ d.generation),
    ("observedGeneration", intJ d.observedGeneration), ("statusReplicas", intJ d.statusReplicas),
    ("updatedReplicas", intJ d.updatedReplicas), ("availableReplicas", intJ d.availableReplicas),
    ("strategy", strategyToJson d.strategy)]

def worldOfJson (j : Json) : R World := do
  return { deps := ← (← jarr j).mapM depOfJson }
def worldToJson (w : World) : Json := arrJ (w.deps.map depToJson)

def brOfJson (j : Json) : R BR := do
  let patch ← (match jopt j "patch" with
    | none => pure none
    | some p => do pure (some (← kvOfJson (jgetD p "labels" .null), ← kvOfJson (jgetD p "annos" .null))))
  return { key := ← fNat j "key", batches := ← (← fArrD j "batches").mapM iosOfJson, currentBatch := 0,
           partition := ← fOptInt j "partition", rolloutID := ← fBool j "rolloutID",
           failureThreshold := ← iosOptOfJson j "failureThreshold", waitResume := ← fBool j "waitResume", patch := patch }

def opOf : String → R Op
  | "initialize" => .ok .init | "upgradeBatch" => .ok .upgrade | "ensureReady" => .ok .ensure | "finalize" => .ok .fin
  | s => .error s!"op {s}"
def opStr : Op → String
  | .init => "initialize" | .upgrade => "upgradeBatch" | .ensure => "ensureReady" | .fin => "finalize"
def evOf : String → R Event
  | "none" => .ok .none | "clearExp" => .ok .clearExp | "observe" => .ok .observe | "newTemplate" => .ok .newTemplate
  | s => .error s!"event {s}"
def evStr : Event → String
  | .none => "none" | .clearExp => "clearExp" | .observe => "observe" | .newTemplate => "newTemplate"
def expOf : String → R Exp
  | "none" => .ok .none | "pending" => .ok .pending
  | s => .error s!"exp {s}"
def expStr : Exp → String
  | .none => "none" | .pending => "pending"
def resOf : String → R Res
  | "ok" => .ok .ok | "err" => .ok .err | "notFound" => .ok .notFound | "panic" => .ok .panic
  | s => .error s!"res {s}"
def resStr : Res → String
  | .ok => "ok" | .err => "err" | .notFound => "notFound" | .panic => "panic"

def stepOfJson (j : Json) : R Step := do
  return { ev := ← evOf (← fStr j "ev"), op := ← opOf (← fStr j "op"),
           cfg := { failAt := ← fOptNat j "failAt", reads := ← fBool j "reads", timedOut := ← fBool j "timedOut" },
           currentBatch := ← fInt j "currentBatch" }

def statusToJson (s : InitStatus) : Json :=
  mkObj [("observedReplicas", intJ s.observedReplicas), ("stableRevision", strJ ""),
         ("updateRevision", templateToJson s.updateRevision)]

def outToJson (o : StepOut) : Json :=
  mkObj [("res", strJ (resStr o.res)), ("world", worldToJson o.w), ("exp", strJ (expStr o.exp)),
         ("calls", natJ o.calls), ("status", optJ statusToJson o.status)]

/-- the implementation's step output; `status` is not needed by the oracles -/
def outOfJson (j : Json) : R StepOut := do
  return { res := ← resOf (← fStr j "res"), w := ← worldOfJson (← jget j "world"), exp := ← expOf (← fStr j "exp"),
           calls := ← fNat j "calls", status := none }

/-- the oracles of every call, evaluated on the implementation's worlds; a key holds iff it holds for every call -/
def oraclesOnImpl (br : BR) (w : World) (exp : Exp) : List Step → List StepOut → List (String × Bool)
  | st :: steps, o :: outs =>
    let e := applyEvent br st.ev w exp
    let here := RV.Oracle.CtlCanary.stepOracles { br with currentBatch := st.currentBatch } st.op st.cfg e.1 e.2 o
    let rest := oraclesOnImpl br o.w o.exp steps outs
    let keys := (here.map (·.1) ++ rest.map (·.1)).eraseDups
    keys.map fun k => (k, (here ++ rest).all (fun kv => kv.1 != k || kv.2))
  | _, _ => []

/-- what the call did, for the distribution statistics -/
def effectTags (br : BR) (st : Step) (w : World) (exp : Exp) (o : StepOut) : List String :=
  let dropped := (w.deps.filter fun d => d.finalizer && (match o.w.find d.name with
    | some d' => !d'.finalizer
    | none => true)).length
  let scaled := w.deps.any fun d => match o.w.find d.name with
    | some d' => d'.replicas != d.replicas
    | none => false
  (if st.op = .fin then [s!"fin:dropped:{min dropped 4}"] else []) ++
  (match w.find br.key with
   | some sd =>
     if st.op = .fin ∧ br.waitResume ∧ sd.ctrl = .none ∧ sd.paused = br.partition.isSome ∧ sd.statusReplicas ≠ sd.updatedReplicas then
       [s!"fin:waitResume-retryOnReleased:{match o.res with | .ok => "ok" | .err => "err" | .notFound => "notFound" | .panic => "panic"}"]
     else []
   | none => []) ++
  (if st.op = .fin ∧ o.res = .err ∧ dropped > 0 then ["fin:partial"] else []) ++
  (if scaled then ["upgrade:scaled"] else []) ++
  (if o.w.deps.length > w.deps.length then ["init:created"] else []) ++
  (if st.op = .init ∧ o.res = .err ∧ exp = .pending ∧ st.cfg.timedOut = false ∧ st.cfg.failAt.isNone ∧
      RV.Oracle.CtlCanary.matchCount { (default : BR) with key := 0 } w = 0 ∧ o.w.deps.length = w.deps.length
    then ["init:maybeBlockedByExpectation"] else [])

def effectTagsRun (br : BR) (w : World) (exp : Exp) : List Step → List StepOut → List String
  | st :: steps, o :: outs =>
    effectTags br st (applyEvent br st.ev w exp).1 (applyEvent br st.ev w exp).2 o ++ effectTagsRun br o.w o.exp steps outs
  | _, _ => []

def faultTag (st : Step) : String :=
  match st.cfg.failAt with
  | none => "fault:none"
  | some _ => if st.cfg.reads then "fault:any-call" else "fault:write"

def handle : Handler := fun op inp impl => do
  match op with
  | "run" =>
    let br ← brOfJson (← jget inp "br")
    let w ← worldOfJson (← jget inp "world")
    let exp ← expOf (← fStr inp "exp")
    let steps ← (← fArr inp "steps").mapM stepOfJson
    let iouts ← (← fArr impl "steps").mapM outOfJson
    let mouts := run br w exp steps
    let wf := RV.Oracle.CtlCanary.namesNodup w
    let holds := oraclesOnImpl br w exp steps iouts
    let created := (mouts.getLast?.map (fun o => decide (o.w.deps.length > w.deps.length))).getD false
    let tags :=
      ((steps.map fun st => s!"op:{opStr st.op}") ++ (steps.map fun st => s!"ev:{evStr st.ev}") ++
       (steps.map faultTag) ++ (mouts.map fun o => s!"res:{resStr o.res}") ++
       (List.zipWith (fun st o => s!"{opStr st.op}:{resStr o.res}") steps mouts) ++
       effectTagsRun br w exp steps mouts ++
       (if br.waitResume then ["waitResume"] else []) ++ (if br.rolloutID then ["rolloutID"] else []) ++
       [s!"steps:{min steps.length 6}", s!"deps:{min w.deps.length 6}",
        s!"owned:{min (w.deps.filter RV.Oracle.CtlCanary.owned).length 5}",
        s!"match:{min (RV.Oracle.CtlCanary.matchCount br w) 3}",
        if br.patch.isSome then "patchMeta" else "noPatchMeta",
        if br.partition.isSome then "partitioned" else "promote",
        if (w.find br.key).isSome then "stable" else "nostable"] ++
       (if created then ["created"] else []) ++
       (if wf then [] else ["dupNames"]) ++
       (if steps.isEmpty then ["trivial"] else [])).eraseDups
    return { model := mkObj [("steps", arrJ (mouts.map outToJson))], holds := holds, tags := tags }
  | _ => .error s!"ctlcanary: unknown op {op}"

end RV.Drv.CtlCanary
