import RV.Json
import RV.Drv.ClosedLoop
import RV.Drv.ExecutorX
import RV.Model.ClosedLoopBG
import RV.Oracle.ClosedLoopBG
/-!
  Driver of suite `closedloopbg`: the blue-green closed loop.

  op "bstep": in = {scenario, hist, pre, label, lateRelease, earlyExit}, impl = joint state after | {panic}
              model := `RV.ClosedLoopBG.bgStep pre label`; the invariants are evaluated on the implementation's `post`
  op "proj":  in = {cs, w, ex}: `roWorld bgLoop cs = w` (suite rolloutsm's input), `bgProj cs.world` / `exBr` = ex (suite executorx's)
  op "final": in = {baseline, run, done, baseDone}: a disturbed fair walk ends where the undisturbed one does
-/
namespace RV.Drv.ClosedLoopBG
open Lean RV RV.Arith RV.Traffic RV.ClosedLoopBG RV.Drv.Arith RV.Drv.Traffic RV.Oracle.ClosedLoopBG
open RV.ClosedLoop (Label)

def bwOfJson (j : Json) : R BW := do
  let wl ← (match jopt j "wl" with | none => pure none | some x => do pure (some (← RV.Drv.CtlBlueGreen.wlOfJson x)))
  return { wl := wl, hpaV2 := ← (← fArrD j "hpaV2").mapM RV.Drv.CtlBlueGreen.hpaOfJson,
           hpaV1 := ← (← fArrD j "hpaV1").mapM RV.Drv.CtlBlueGreen.hpaOfJson,
           generation := ← fInt j "generation", observedGeneration := ← fInt j "observedGeneration",
           updateRevision := ← fStr j "updateRevision", currentRevision := ← fStr j "currentRevision",
           inProgressAnno := ← fBool j "inProgressAnno" }

def bwToJson (b : BW) : Json :=
  mkObj [("wl", optJ RV.Drv.CtlBlueGreen.wlToJson b.wl), ("hpaV2", arrJ (b.hpaV2.map RV.Drv.CtlBlueGreen.hpaToJson)),
    ("hpaV1", arrJ (b.hpaV1.map RV.Drv.CtlBlueGreen.hpaToJson)), ("generation", intJ b.generation),
    ("observedGeneration", intJ b.observedGeneration), ("updateRevision", strJ b.updateRevision),
    ("currentRevision", strJ b.currentRevision), ("inProgressAnno", boolJ b.inProgressAnno)]

def bsOfJson (j : Json) : R BS := do
  let (gone, ro) ← (match jopt j "ro" with
    | none => pure (true, (default : RolloutSM.Rollout))
    | some r => do pure (false, ← RV.Drv.RolloutSM.roOfJson r))
  let br ← (match jopt j "br" with | none => pure none | some x => do pure (some (← RV.Drv.ClosedLoop.brOfJson x)))
  return { gone := gone, ro := ro, world := ← bwOfJson (← jget j "world"), br := br,
           net := ← netOfJson (← jget j "net"), mem := ← memOfJson (← jget j "mem") }

def bsToJson (s : BS) : Json :=
  mkObj [("ro", if s.gone then .null else RV.Drv.ClosedLoop.roOutJson s.ro), ("world", bwToJson s.world),
    ("br", optJ RV.Drv.ClosedLoop.brToJson s.br), ("net", netToJson s.net), ("mem", memToJson s.mem)]

def userOfJson (j : Json) : R User := do
  return { replicas := ← fInt j "replicas", minReadySeconds := ← fInt j "minReadySeconds", maxSurge := ← iosOptOfJson j "maxSurge",
           maxUnavailable := ← iosOptOfJson j "maxUnavailable", paused := ← fBool j "paused",
           stype := RV.Drv.CtlBlueGreen.stypeOf (← fStr j "stype"),
           hpaV2 := ← (← fArrD j "hpaV2").mapM RV.Drv.CtlBlueGreen.hpaOfJson,
           hpaV1 := ← (← fArrD j "hpaV1").mapM RV.Drv.CtlBlueGreen.hpaOfJson }

def flag (j : Json) (k : String) : Bool := match jopt j k with | some (.bool b) => b | _ => false

def phaseTag (s : BS) : String :=
  if s.gone then "gone" else s!"{RV.Drv.RolloutSM.phaseStr s.ro.phase}/{RV.Drv.RolloutSM.reasonStr s.ro.reason}"

def handle : Handler := fun op inp impl => do
  match op with
  | "bstep" =>
    let pre ← bsOfJson (← jget inp "pre")
    let lab ← fStr inp "label"
    let u ← userOfJson (← jget inp "scenario")
    let implPanic := (jopt impl "panic").isSome
    let post ← (if implPanic then pure pre else bsOfJson impl)
    let l? := RV.Drv.ClosedLoop.labelOf lab
    let holds := if implPanic then [("C09.bg_total", false), ("C06.bg_total", false)] else
      [("C09.bg_total", true), ("C06.bg_total", true)] ++ stateOracles u post ++
      (match l? with | some l => stepOracles pre l post | none => [])
    let fin := match pre.ro.sub with | some s => if pre.gone then "" else RV.Drv.RolloutSM.finStr s.finStep | none => ""
    let tags := [s!"label:{(lab.splitOn ":").head!}", s!"at:{phaseTag pre}"] ++
      (match pre.ro.sub with | some s => if pre.gone then [] else [s!"state:{RV.Drv.RolloutSM.stateStr s.state}"] | none => []) ++
      (if fin != "" then [s!"fin:{fin}"] else []) ++
      (if held post then ["held"] else []) ++ (if terminal post then ["terminal"] else []) ++
      (if superseded pre then ["superseded"] else []) ++
      (if superseded pre && adopted pre then ["guard:supersedeBeforeInit"] else []) ++
      (if terminal post && gCsPartitionKept post then ["guard:csPartitionKept"] else []) ++
      (if gCsPausedLost u then ["guard:csPausedLost"] else []) ++
      (if flag inp "lateRelease" then ["guard:releaseWhileFinalising"] else []) ++
      (if flag inp "earlyExit" then ["guard:exitBeforeBatchRelease"] else []) ++
      (match l? with | some l => (if resumeIssued pre post && l == .ro then ["resume-issued"] else []) ++
                                  (if settingsReleased pre post then ["settings-released"] else []) | none => [])
    match l? with
    | none => return { model := .null, holds := holds, tags := "uncompared" :: tags }
    | some l =>
      match bgStep pre l with
      | none => return { model := mkObj [("panic", strJ "?")], holds := holds, tags := "panic" :: tags }
      | some s' => return { model := bsToJson s', holds := holds, tags := (if s' == pre then ["stutter"] else []) ++ tags }
  | "proj" =>
    let cs ← bsOfJson (← jget inp "cs")
    let okRo ← (match jopt inp "w" with
      | none => pure cs.gone
      | some wj => do
        let w ← RV.Drv.RolloutSM.worldOfJson wj
        pure (!cs.gone && decide (roWorld bgLoop cs = some w)))
    let okEx ← (match jopt inp "ex" with
      | none => pure cs.br.isNone
      | some ej => do
        let b ← RV.Drv.Executor.brOfJson (← jget ej "br")
        let w ← (RV.Drv.ExecutorX.bgPack .cloneSet).decode (← jget ej "world")
        pure (match cs.br with
          | some cb => decide (RV.ClosedLoop.exBr cb = b) && decide (bgProj cs.world = w)
          | none => false))
    return { holds := [("C06.bg_proj_ro", okRo), ("C06.bg_proj_ex", okEx), ("C01.bg_proj_ro", okRo), ("C01.bg_proj_ex", okEx),
                       ("C04.bg_proj_ro", okRo), ("C05.bg_proj_ex", okEx), ("C09.bg_proj_ro", okRo), ("C09.bg_proj_ex", okEx),
                       ("C10.bg_proj_ro", okRo)],
             tags := ["proj", if cs.br.isSome then "br" else "nobr"] }
  | "final" =>
    let done := flag inp "done"
    let baseDone := flag inp "baseDone"
    let same := (← jget inp "run").compress == (← jget inp "baseline").compress
    let plan ← fStr inp "plan"
    return { holds := [("C06.bg_same_final_state", !baseDone || !done || same), ("C06.bg_terminates", !baseDone || done)],
             tags := ["final", if plan == "baseline" then "baseline" else "disturbed", if baseDone then "base-done" else "base-stuck",
                      if done then "run-done" else "run-stuck"] }
  | "exit" =>
    let done := flag inp "done"
    let last ← fStr inp "last"
    let before ← bsOfJson (← jget inp "before")
    let after ← bsOfJson (← jget inp "after")
    let u ← userOfJson (← jget inp "scenario")
    let rollback := last.startsWith "release:" && (last.drop 8).toString == before.world.currentRevision &&
      before.world.updateRevision != before.world.currentRevision
    let delete := last == "delete"
    let common := (if flag inp "lateRelease" then ["guard:releaseWhileFinalising"] else []) ++
      (if flag inp "earlyExit" then ["guard:exitBeforeBatchRelease"] else []) ++
      (if gCsPausedLost u then ["guard:csPausedLost"] else [])
    if rollback then
      return { holds := [("C10.bg_rollback_completes", done), ("C06.bg_rollback_completes", done)],
               tags := ["exit", "exit:rollback", if done then "exit-done" else "exit-stuck"] ++
                 (if rollbackUnseen after then ["guard:bgRollbackNoSurge"] else []) ++ common }
    else if delete then
      return { holds := [("C05.bg_exit_completes", done), ("C06.bg_exit_completes", done)],
               tags := ["exit", "exit:delete", if done then "exit-done" else "exit-stuck"] ++
                 (if heldBack before then ["guard:csPartitionKept"] else []) ++ common }
    else
      return { holds := [], tags := ["exit", "exit:other", if done then "exit-done" else "exit-stuck"] }
  | _ => .error s!"closedloopbg: unknown op {op}"

end RV.Drv.ClosedLoopBG
