import RV.Json
namespace RV.Drv.Ingress
open Lean RV
def handle : Handler := fun op _ _ => .error s!"Ingress: op {op} not implemented"
end RV.Drv.Ingress
