import RV.Json
import RV.Model.Ingress
import RV.Oracle.C14
/-!
Driver for suite `ingress` (property C14).

ops
* `build` — `buildCanaryIngress`.  in `{class,name,stableSvc,canarySvc,ingress}`,
  impl `{name,owner,ingress}` or `{panic:true}`.
* `lua`   — one run of the class's annotation script.  in `{class,ann,weight,matches,rhm}`,
  impl `{ann}` or `{err:true}`.
* `lua2`  — `r1 = script a s1`, `r12 = script r1 s2`, `r2 = script a s2`.
* `seq`   — `EnsureRoutes` / `Finalise` / `addFinalizer` calls on a fake client;
  impl `{steps:[{done,err,canary,stableSame,writes} | {panic:true}]}`.
-/
namespace RV.Drv.Ingress
open Lean RV RV.Ingress RV.Oracle.C14

/-! ### JSON in -/

def annOf (j : Json) : R AnnMap :=
  match j with
  | .null => .ok []
  | .obj kvs => kvs.foldl (init := .ok []) fun acc k v => do
      let l ← acc
      return l ++ [(k, ← jstr v)]
  | _ => .error s!"annotations: object expected in {j.compress}"

def fAnn (j : Json) (k : String) : R AnnMap := do annOf (← jget j k)

def classOf (s : String) : R Class :=
  match s with
  | "" => .ok .nginx
  | "nginx" => .ok .nginx
  | "aliyun-alb" => .ok .alb
  | "higress" => .ok .higress
  | "mse" => .ok .mse
  | _ => .error s!"unknown class {s}"

def cfgOf (j : Json) : R Cfg := do
  return { cls := ← classOf (← fStr j "class"), name := ← fStr j "name",
           stableSvc := ← fStr j "stableSvc", canarySvc := ← fStr j "canarySvc" }

def svcOf (j : Json) : R SvcBackend := do
  return { name := ← fStr j "name", portName := ← fStr j "portName", portNumber := ← fInt j "portNumber" }

def pathOf (j : Json) : R Path := do
  let svc ← match jopt j "svc" with
    | none => pure none
    | some v => do pure (some (← svcOf v))
  return { path := ← fStr j "path", pathType := ← fOptStr j "pathType",
           backend := { service := svc, resource := ← fOptStr j "res" } }

def ruleOf (j : Json) : R Rule := do
  let http ← match jopt j "http" with
    | none => pure none
    | some v => do pure (some (← jlistM pathOf v))
  return { host := ← fStr j "host", http := http }

def tlsOf (j : Json) : R TLS := do
  return { hosts := ← jlistM jstr (← jget j "hosts"), secret := ← fStr j "secret" }

def ingressOf (j : Json) : R Ingress := do
  return { ann := ← fAnn j "ann", labels := ← fAnn j "labels", className := ← fOptStr j "className",
           tls := ← jlistM tlsOf (← jget j "tls"), defaultBackend := ← fBool j "defaultBackend",
           rules := ← jlistM ruleOf (← jget j "rules") }

def headerOf (j : Json) : R HeaderMatch := do
  return { name := ← fStr j "name", value := ← fStr j "value", kind := ← fOptStr j "type" }

def matchOf (j : Json) : R HttpMatch := do
  return { headers := ← jlistM headerOf (← jget j "headers"),
           queryParams := ← jlistM headerOf (← jget j "queryParams") }

def optMatches (j : Json) : R (Option (List HttpMatch)) :=
  match jopt j "matches" with
  | none => .ok none
  | some v => do return some (← jlistM matchOf v)

def kvOf (j : Json) : R HeaderKV := do
  return { name := ← fStr j "name", value := ← fStr j "value" }

def optRhm (j : Json) : R (Option (List HeaderKV)) :=
  match jopt j "rhm" with
  | none => .ok none
  | some v => do return some (← jlistM kvOf (← jget v "set"))

def strategyOf (j : Json) : R Strategy := do
  return { traffic := ← fOptStr j "traffic", mts := ← optMatches j, rhm := ← optRhm j }

structure GoLuaStep where
  weight : Option Int
  mts : Option (List HttpMatch)
  rhm : Option (List HeaderKV)

def goLuaStepOf (j : Json) : R GoLuaStep := do
  return { weight := ← fOptInt j "weight", mts := ← optMatches j, rhm := ← optRhm j }

def callOf (j : Json) : R Call := do
  match ← fStr j "op" with
  | "ensure" => return .ensure (← strategyOf (← jget j "strategy"))
  | "finalise" => return .finalise
  | "addFinalizer" => return .addFinalizer
  | o => .error s!"unknown call {o}"

/-! ### JSON out -/

def annJ (a : AnnMap) : Json := mkObj (a.reverse.map fun (k, v) => (k, strJ v))
-- `mkObj` keeps the last binding of a key; `lookup` reads the first, hence the `reverse`

def svcJ (s : SvcBackend) : Json :=
  mkObj [("name", strJ s.name), ("portName", strJ s.portName), ("portNumber", intJ s.portNumber)]

def pathJ (p : Path) : Json :=
  mkObj [("path", strJ p.path), ("pathType", optJ strJ p.pathType),
         ("svc", optJ svcJ p.backend.service), ("res", optJ strJ p.backend.resource)]

def ruleJ (r : Rule) : Json :=
  mkObj [("host", strJ r.host), ("http", optJ (fun ps => arrJ (ps.map pathJ)) r.http)]

def tlsJ (t : TLS) : Json := mkObj [("hosts", arrJ (t.hosts.map strJ)), ("secret", strJ t.secret)]

def ingressJ (i : Ingress) : Json :=
  mkObj [("ann", annJ i.ann), ("labels", annJ i.labels), ("className", optJ strJ i.className),
         ("tls", arrJ (i.tls.map tlsJ)), ("defaultBackend", boolJ i.defaultBackend),
         ("rules", arrJ (i.rules.map ruleJ))]

def luaResJ : Option AnnMap → Json
  | none => mkObj [("err", boolJ true)]
  | some a => mkObj [("ann", annJ a)]

def errJ : Err → Json
  | .ok => strJ "ok"
  | .err => strJ "err"
  | .notFound => strJ "notFound"

def writeJ : Write → Json
  | .create n => mkObj [("verb", strJ "create"), ("obj", strJ ("Ingress/" ++ n))]
  | .patch n => mkObj [("verb", strJ "patch"), ("obj", strJ ("Ingress/" ++ n))]
  | .delete n => mkObj [("verb", strJ "delete"), ("obj", strJ ("Ingress/" ++ n))]

def canaryJ (c : CanaryObj) : Json :=
  mkObj [("ingress", ingressJ c.ing), ("deleting", boolJ c.deleting), ("fin", boolJ c.fin)]

def panicJ : Json := mkObj [("panic", boolJ true)]

def isPanic (j : Json) : Bool := (jopt j "panic").isSome

/-! ### reading the implementation's answers back (for the oracles) -/

def writeOf (j : Json) : R Write := do
  let obj ← fStr j "obj"
  -- anything that is not an Ingress keeps its kind prefix and so can never equal the canary name
  let name := if obj.startsWith "Ingress/" then (obj.drop 8).toString else obj
  match ← fStr j "verb" with
  | "create" => return .create name
  | "patch" => return .patch name
  | "delete" => return .delete name
  | _ => return .create ("?" ++ obj)       -- update / deleteAllOf: never issued by the provider

def canaryOf (j : Json) : R CanaryObj := do
  return { ing := ← ingressOf (← jget j "ingress"), deleting := ← fBool j "deleting", fin := ← fBool j "fin" }

/-! ### tags -/

def classTag : Class → String
  | .nginx => "nginx" | .alb => "aliyun-alb" | .higress => "higress" | .mse => "mse"

def stepKind (mts : Option (List HttpMatch)) (rhm : Option (List HeaderKV)) (hasWeight : Bool) : String :=
  let hs := match mts with | some ms => ms.any (fun m => !m.headers.isEmpty) | none => false
  let qs := match mts with | some ms => ms.any (fun m => !m.queryParams.isEmpty) | none => false
  let m := if hs && qs then "header+query" else if hs then "header" else if qs then "query"
           else if mts.isSome then "emptymatch" else "nomatch"
  (if hasWeight then "weight+" else "") ++ m ++ (if rhm.isSome then "+rhm" else "")

def ingressTags (i : Ingress) : List String :=
  let hostOnly := i.rules.any (fun r => r.http.isNone)
  let nonSvc := i.rules.any (fun r => match r.http with
    | some ps => ps.any (fun p => p.backend.service.isNone) | none => false)
  [s!"rules:{i.rules.length}"] ++ (if hostOnly then ["rule-without-http"] else [])
    ++ (if nonSvc then ["non-service-backend"] else [])
    ++ (if i.ann.isEmpty then ["no-annotations"] else [])

/-! ### ops -/

def doBuild (inp impl : Json) : R OpResult := do
  let cfg ← cfgOf inp
  let st ← ingressOf (← jget inp "ingress")
  let model := match buildCanaryIngress cfg st with
    | .panic => panicJ
    | .ok c => mkObj [("name", strJ cfg.canaryName), ("owner", boolJ true), ("ingress", ingressJ c)]
  let noPanic := !isPanic impl
  let paths ← if isPanic impl then pure true else do   -- a panic is reported by `noPanic`
    let ci ← ingressOf (← jget impl "ingress")
    pure (pathsOk cfg st.rules ci.rules)
  let exp := expectedRules cfg st.rules
  return { model := model,
           holds := [("C14.noPanic", noPanic), ("C16.ingress_no_panic", noPanic), ("C14.paths", paths)],
           tags := ["op:build", s!"canary-rules:{exp.length}"] ++ ingressTags st
                   ++ (if st.rules.isEmpty then ["trivial"] else []) }

def doLua (inp _impl : Json) : R OpResult := do
  let cls ← classOf (← fStr inp "class")
  let a ← fAnn inp "ann"
  let s ← goLuaStepOf inp
  let r := executeLua cls a s.weight s.mts s.rhm
  return { model := luaResJ r,
           tags := ["op:lua", "class:" ++ classTag cls, "step:" ++ stepKind s.mts s.rhm s.weight.isSome,
                    if r.isSome then "script-ok" else "script-error"] }

def implAnn (j : Json) : R (Option AnnMap) :=
  match jopt j "ann" with
  | none => .ok none
  | some a => do return some (← annOf a)

def doLua2 (inp impl : Json) : R OpResult := do
  let cls ← classOf (← fStr inp "class")
  let a ← fAnn inp "ann"
  let s1 ← goLuaStepOf (← jget inp "s1")
  let s2 ← goLuaStepOf (← jget inp "s2")
  let r1 := executeLua cls a s1.weight s1.mts s1.rhm
  let r12 := match r1 with
    | none => none
    | some b => some (executeLua cls b s2.weight s2.mts s2.rhm)
  let r2 := executeLua cls a s2.weight s2.mts s2.rhm
  let model := mkObj [("r1", luaResJ r1), ("r12", optJ luaResJ r12), ("r2", luaResJ r2)]
  -- oracle on the implementation's answers: if both steps were accepted after one another,
  -- the second step alone is accepted and gives the same annotations
  let i12 ← match jopt impl "r12" with
    | none => pure none
    | some j => implAnn j
  let i2 ← implAnn (← jget impl "r2")
  let hist := match i12, i2 with
    | some c, some d => eqvB c d
    | some _, none => false
    | none, _ => true
  let both := match r12 with | some (some _) => true | _ => false
  return { model := model,
           holds := [("C14.scriptHistory", hist)],
           tags := ["op:lua2", "class:" ++ classTag cls,
                    "pair:" ++ stepKind s1.mts s1.rhm false ++ "→" ++ stepKind s2.mts s2.rhm false]
                   ++ (if both then [] else ["trivial"]) }

structure SeqAcc where
  w : World
  out : List Json := []
  stopped : Bool := false

def doSeq (inp impl : Json) : R OpResult := do
  let cfg ← cfgOf inp
  let stable ← match jopt inp "stable" with
    | none => pure none
    | some j => do pure (some (← ingressOf j))
  let calls ← jlistM callOf (← jget inp "calls")
  -- model run
  let acc := calls.foldl (init := ({ w := { stable := stable, canary := none } } : SeqAcc)) fun acc call =>
    if acc.stopped then acc else
    match stepCall cfg acc.w call with
    | .panic => { acc with out := acc.out ++ [panicJ], stopped := true }
    | .ret w' done e ws =>
      let writes := match call with | .addFinalizer => [] | _ => ws
      { acc with w := w',
                 out := acc.out ++ [mkObj [("done", boolJ done), ("err", errJ e),
                          ("canary", optJ canaryJ w'.canary), ("stableSame", boolJ true),
                          ("writes", arrJ (writes.map writeJ))]] }
  let model := mkObj [("steps", arrJ acc.out)]
  -- oracles on the implementation's answers
  let isteps ← jarr (← jget impl "steps")
  let mut noPanic := true
  let mut paths := true
  let mut fresh := true
  let mut frame := true
  let mut fin := true
  let mut prevCanary := false
  let mut nFresh := 0
  let mut created := false
  let mut errs : List String := []
  for (call, st) in calls.zip isteps do
    if isPanic st then
      noPanic := false
    else
      let canary ← match jopt st "canary" with
        | none => pure none
        | some j => do pure (some (← canaryOf j))
      let err ← fStr st "err"
      if err != "ok" && !errs.contains err then errs := errs ++ [err]
      let ws ← jlistM writeOf (← jget st "writes")
      if !(← fBool st "stableSame") || !(writesOk cfg ws) then frame := false
      match canary, stable with
      | some c, some s =>
        created := true
        if !(pathsOk cfg s.rules c.ing.rules) then paths := false
      | some _, none => paths := false
      | none, _ => pure ()
      match call with
      | .ensure s =>
        if prevCanary && err == "ok" then
          nFresh := nFresh + 1
          match canary, stable with
          | some c, some sti => if !(annAsFresh cfg.cls sti.ann (luaStepOf s) c.ing.ann) then fresh := false
          | _, _ => fresh := false
      | .finalise =>
        if err == "ok" && !(finalisedOk canary) then fin := false
      | .addFinalizer => pure ()
      prevCanary := canary.isSome
  let nEnsure := (calls.filter fun c => match c with | .ensure _ => true | _ => false).length
  return { model := model,
           holds := [("C14.noPanic", noPanic), ("C16.ingress_no_panic", noPanic), ("C14.paths", paths), ("C14.fresh", fresh),
                     ("C14.frame", frame), ("C14.finalise", fin)],
           tags := ["op:seq", "class:" ++ classTag cfg.cls, s!"ensure-calls:{nEnsure}",
                    s!"fresh-checks:{min nFresh 6}"]
                   ++ (match stable with | some s => ingressTags s | none => ["no-stable-ingress"])
                   ++ errs.map ("err:" ++ ·)
                   ++ (if calls.any (· == .finalise) then ["has-finalise"] else [])
                   ++ (if calls.any (· == .addFinalizer) then ["has-finalizer"] else [])
                   ++ (if created then [] else ["canary-never-created"]) }

def handle : Handler := fun op inp impl =>
  match op with
  | "build" => doBuild inp impl
  | "lua" => doLua inp impl
  | "lua2" => doLua2 inp impl
  | "seq" => doSeq inp impl
  | _ => .error s!"Ingress: op {op} not implemented"

end RV.Drv.Ingress
