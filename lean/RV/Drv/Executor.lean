import RV.Json
namespace RV.Drv.Executor
open Lean RV
def handle : Handler := fun op _ _ => .error s!"Executor: op {op} not implemented"
end RV.Drv.Executor
