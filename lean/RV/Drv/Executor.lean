import RV.Json
import RV.Drv.Fault
import RV.Drv.Arith
import RV.Model.Executor
import RV.Oracle.Executor
namespace RV.Drv.Executor
open Lean RV RV.Arith RV.Executor RV.Drv.Arith

def phaseOf : String → Phase
  | "" => .empty | "Preparing" => .preparing | "Progressing" => .progressing
  | "Finalizing" => .finalizing | "Completed" => .completed | _ => .other
def phaseStr : Phase → String
  | .empty => "" | .preparing => "Preparing" | .progressing => "Progressing"
  | .finalizing => "Finalizing" | .completed => "Completed" | .other => "Weird"
def bstateOf : String → BState
  | "" => .empty | "Upgrading" => .upgrading | "Verifying" => .verifying | "Ready" => .ready | _ => .other
def bstateStr : BState → String
  | .empty => "" | .upgrading => "Upgrading" | .verifying => "Verifying" | .ready => "Ready" | .other => "Weird"
def hashOf : String → HashObs
  | "empty" => .empty | "same" => .same | _ => .differs
def hashStr : HashObs → String
  | .empty => "empty" | .same => "same" | .differs => "differs"
def ownerOf : String → Owner
  | "this" => .this | "other" => .other | _ => .none
def ownerStr : Owner → String
  | .this => "this" | .other => "other" | .none => "none"

def statusOfJson (j : Json) : R Status := do
  return { phase := phaseOf (← fStr j "phase"), currentBatch := ← fInt j "currentBatch",
           batchState := bstateOf (← fStr j "batchState"), hasReadyTime := ← fBool j "hasReadyTime",
           hash := hashOf (← fStr j "hash"), rolloutIDSame := ← fBool j "rolloutIDSame",
           observedReplicas := ← fInt j "observedReplicas", updateRevision := ← fStr j "updateRevision",
           stableRevision := ← fStr j "stableRevision", noNeedUpdate := ← fOptInt j "noNeedUpdate",
           updated := ← fInt j "updated", updatedReady := ← fInt j "updatedReady" }

def statusToJson (s : Status) : Json :=
  mkObj [("phase", strJ (phaseStr s.phase)), ("currentBatch", intJ s.currentBatch),
    ("batchState", strJ (bstateStr s.batchState)), ("hasReadyTime", boolJ s.hasReadyTime),
    ("hash", strJ (hashStr s.hash)), ("rolloutIDSame", boolJ s.rolloutIDSame),
    ("observedReplicas", intJ s.observedReplicas), ("updateRevision", strJ s.updateRevision),
    ("stableRevision", strJ s.stableRevision), ("noNeedUpdate", optJ intJ s.noNeedUpdate),
    ("updated", intJ s.updated), ("updatedReady", intJ s.updatedReady)]

def brOfJson (j : Json) : R BR := do
  return { batches := ← (← fArrD j "batches").mapM iosOfJson, partition := ← fOptInt j "partition",
           failureThreshold := ← iosOptOfJson j "failureThreshold", deleting := ← fBool j "deleting",
           hasFinalizer := ← fBool j "hasFinalizer", rollbackAnno := ← fBool j "rollbackAnno",
           status := ← statusOfJson (← jget j "status") }

def wlOfJson (j : Json) : R Workload := do
  return { replicas := ← fInt j "replicas", generation := ← fInt j "generation",
           observedGeneration := ← fInt j "observedGeneration", statusReplicas := ← fInt j "statusReplicas",
           updated := ← fInt j "updated", updatedReady := ← fInt j "updatedReady",
           updateRevision := ← fStr j "updateRevision", currentRevision := ← fStr j "currentRevision",
           partition := ← iosOptOfJson j "partition", paused := ← fBool j "paused", owner := ownerOf (← fStr j "owner") }

def wlToJson (w : Workload) : Json :=
  mkObj [("replicas", intJ w.replicas), ("generation", intJ w.generation), ("observedGeneration", intJ w.observedGeneration),
    ("statusReplicas", intJ w.statusReplicas), ("updated", intJ w.updated), ("updatedReady", intJ w.updatedReady),
    ("updateRevision", strJ w.updateRevision), ("currentRevision", strJ w.currentRevision),
    ("partition", optJ iosToJson w.partition), ("paused", boolJ w.paused), ("owner", strJ (ownerStr w.owner))]

def outToJson (o : StepOut) : Json :=
  mkObj [("br", match o.br with
            | none => .null
            | some b => mkObj [("hasFinalizer", boolJ b.hasFinalizer), ("status", statusToJson b.status)]),
         ("wl", optJ wlToJson o.wl), ("requeue", boolJ o.requeue), ("err", boolJ o.err)]

def handle : Handler := fun op inp impl => do
  match op with
  | "reconcile" =>
    let br ← brOfJson (← jget inp "br")
    let wl ← (match jopt inp "wl" with
      | none => pure none
      | some w => do pure (some (← wlOfJson w)))
    let tags := [s!"phase:{phaseStr br.status.phase}", s!"state:{bstateStr br.status.batchState}",
      if wl.isSome then "wl" else "nowl", if br.deleting then "deleting" else "live",
      if br.partition.isSome then "partitioned" else "nopartition"]
    -- oracles on the implementation's output
    let holds ← (match jopt impl "panic" with
      | some _ => pure [("C09.executor_no_panic", RV.Oracle.Executor.panicAllowed br)]
      | none => do
        let ibr ← (match jopt impl "br" with
          | none => pure none
          | some b => do
            let st ← statusOfJson (← jget b "status")
            pure (some { br with hasFinalizer := ← fBool b "hasFinalizer", status := st }))
        let iwl ← (match jopt impl "wl" with
          | none => pure none
          | some w => do pure (some (← wlOfJson w)))
        pure (RV.Oracle.Executor.stepOracles br wl ibr iwl))
    match reconcile br wl with
    | .panic => return { model := mkObj [("panic", strJ "?")], holds := holds, tags := "panic" :: tags }
    | .val o => return { model := outToJson o, holds := holds, tags := tags }
  | "fault" => RV.Drv.Fault.handleFault ["C01", "C06", "C07", "C09", "C11", "C18"] impl
  | _ => .error s!"executor: unknown op {op}"

end RV.Drv.Executor
