import RV.Json
namespace RV.Drv.RolloutSM
open Lean RV
def handle : Handler := fun op _ _ => .error s!"RolloutSM: op {op} not implemented"
end RV.Drv.RolloutSM
