import RV.Json
import RV.Drv.Fault
import RV.Drv.Arith
import RV.Drv.Traffic
import RV.Model.RolloutSM
import RV.Oracle.RolloutSM
namespace RV.Drv.RolloutSM
open Lean RV RV.Arith RV.Traffic RV.RolloutSM RV.Drv.Arith RV.Drv.Traffic

def styleOf : String → Style | "blueGreen" => .blueGreen | _ => .canary
def phaseOf : String → Phase
  | "" => .empty | "Initial" => .initial | "Healthy" => .healthy | "Progressing" => .progressing
  | "Terminating" => .terminating | "Disabled" => .disabled | "Disabling" => .disabling | _ => .empty
def phaseStr : Phase → String
  | .empty => "" | .initial => "Initial" | .healthy => "Healthy" | .progressing => "Progressing"
  | .terminating => "Terminating" | .disabled => "Disabled" | .disabling => "Disabling"
def reasonOf : String → PReason
  | "none" => .none | "initializing" => .initializing | "inRolling" => .inRolling | "finalising" => .finalising
  | "paused" => .paused | "cancelling" => .cancelling | "completed" => .completed | _ => .other
def reasonStr : PReason → String
  | .none => "none" | .initializing => "initializing" | .inRolling => "inRolling" | .finalising => "finalising"
  | .paused => "paused" | .cancelling => "cancelling" | .completed => "completed" | .other => "other"
def stateOf : String → StepState
  | "init" => .init | "upgrade" => .upgrade | "trafficRouting" => .trafficRouting | "metricsAnalysis" => .metricsAnalysis
  | "paused" => .paused | "ready" => .ready | "completed" => .completed | _ => .other
def stateStr : StepState → String
  | .init => "init" | .upgrade => "upgrade" | .trafficRouting => "trafficRouting" | .metricsAnalysis => "metricsAnalysis"
  | .paused => "paused" | .ready => "ready" | .completed => "completed" | .other => "other"
def finOf : String → FinStep
  | "empty" => .empty | "resumeWorkload" => .resumeWorkload | "releaseWorkloadControl" => .releaseWorkloadControl
  | "routeTrafficToStable" => .routeTrafficToStable | "restoreStableService" => .restoreStableService
  | "removeCanaryService" => .removeCanaryService | "routeTrafficToNew" => .routeTrafficToNew | "end_" => .end_ | _ => .other
def finStr : FinStep → String
  | .empty => "empty" | .resumeWorkload => "resumeWorkload" | .releaseWorkloadControl => "releaseWorkloadControl"
  | .routeTrafficToStable => "routeTrafficToStable" | .restoreStableService => "restoreStableService"
  | .removeCanaryService => "removeCanaryService" | .routeTrafficToNew => "routeTrafficToNew" | .end_ => "end_" | .other => "other"
def pauseOf : String → Pause | "short" => .short | "long" => .long | _ => .manual
def pauseStr : Pause → String | .short => "short" | .long => "long" | .manual => "manual"
def hashOf : String → HashRel | "same" => .same | "differs" => .differs | _ => .empty
def hashStr : HashRel → String | .same => "same" | .differs => "differs" | .empty => "empty"
def ageStr : Age → String | .none => "none" | .fresh => "fresh" | .elapsed => "elapsed"
def termOf : String → TermReason | "inTerminating" => .inTerminating | "completed" => .completed | _ => .none
def termStr : TermReason → String | .inTerminating => "inTerminating" | .completed => "completed" | .none => "none"

def stepOfJson (j : Json) : R Step := do
  return { replicas := ← iosOfJson (← jget j "replicas"), weight := ← fOptNat j "weight", pause := pauseOf (← fStr j "pause") }
def stepToJson (s : Step) : Json :=
  mkObj [("replicas", iosToJson s.replicas), ("weight", optJ natJ s.weight), ("pause", strJ (pauseStr s.pause))]

def subOfJson (j : Json) : R Sub := do
  return { curIdx := ← fInt j "curIdx", nextIdx := ← fInt j "nextIdx", state := stateOf (← fStr j "state"),
           finStep := finOf (← fStr j "finStep"), canaryRev := ← fStr j "canaryRev", stableRev := ← fStr j "stableRev",
           podHash := ← fStr j "podHash", hash := hashOf (← fStr j "hash"), observedRolloutID := ← fStr j "observedRolloutID",
           observedGen := ← fInt j "observedGen", lastUpdate := ageOf (← fStr j "lastUpdate") }
def subToJson (s : Sub) : Json :=
  mkObj [("curIdx", intJ s.curIdx), ("nextIdx", intJ s.nextIdx), ("state", strJ (stateStr s.state)), ("finStep", strJ (finStr s.finStep)),
    ("canaryRev", strJ s.canaryRev), ("stableRev", strJ s.stableRev), ("podHash", strJ s.podHash), ("hash", strJ (hashStr s.hash)),
    ("observedRolloutID", strJ s.observedRolloutID), ("observedGen", intJ s.observedGen), ("lastUpdate", strJ (ageStr s.lastUpdate))]

def roOfJson (j : Json) : R Rollout := do
  let sub ← (match jopt j "sub" with | none => pure none | some s => do pure (some (← subOfJson s)))
  let succ ← (match jopt j "succeeded" with | none => pure none | some b => do pure (some (← jbool b)))
  return { style := styleOf (← fStr j "style"), steps := ← (← fArrD j "steps").mapM stepOfJson, paused := ← fBool j "paused",
           disabled := ← fBool j "disabled", deleting := ← fBool j "deleting", hasFinalizer := ← fBool j "hasFinalizer",
           hasTraffic := ← fBool j "hasTraffic", disableGen := ← fBool j "disableGen", rollbackInBatch := ← fBool j "rollbackInBatch",
           grace := ← fNat j "grace", phase := phaseOf (← fStr j "phase"), reason := reasonOf (← fStr j "reason"),
           condAge := ageOf (← fStr j "condAge"), succeeded := succ, term := termOf (← fStr j "term"), sub := sub,
           -- absent in lines written before the canary-style worlds existed: the CloneSet rollout
           realPartition := ← (match jopt j "realPartition" with | none => pure true | some b => jbool b) }
/-- output canonicalisation shared with the harness: an illegal next-step index is shown corrected
    (whether the in-memory correction is also persisted depends on unrelated status fields) -/
def normNext (r : Rollout) : Rollout :=
  let n : Int := r.steps.length
  { r with sub := r.sub.map fun s => if s.nextIdx ≤ 0 ∨ s.nextIdx > n then { s with nextIdx := nextBatchIndex n s.curIdx } else s }

def roToJson (r0 : Rollout) : Json :=
  let r := normNext r0
  mkObj [("style", strJ (match r.style with | .canary => "canary" | .blueGreen => "blueGreen")), ("steps", arrJ (r.steps.map stepToJson)),
    ("paused", boolJ r.paused), ("disabled", boolJ r.disabled), ("deleting", boolJ r.deleting), ("hasFinalizer", boolJ r.hasFinalizer),
    ("hasTraffic", boolJ r.hasTraffic), ("disableGen", boolJ r.disableGen), ("rollbackInBatch", boolJ r.rollbackInBatch),
    ("grace", natJ r.grace), ("phase", strJ (phaseStr r.phase)), ("reason", strJ (reasonStr r.reason)), ("condAge", strJ "ignored"),
    ("succeeded", optJ boolJ r.succeeded), ("term", strJ (termStr r.term)), ("sub", optJ subToJson r.sub),
    ("realPartition", boolJ r.realPartition)]

def wlOfJson (j : Json) : R WL := do
  let canaryRev ← fStr j "canaryRev"
  return { consistent := ← fBool j "consistent", inProgressAnno := ← fBool j "inProgressAnno", canaryRev := canaryRev,
           stableRev := ← fStr j "stableRev", inRollback := ← fBool j "inRollback", replicas := ← fInt j "replicas", generation := ← fInt j "generation",
           -- absent in lines written before the canary-style worlds existed: the CloneSet's update revision
           podTemplateHash := ← (match jopt j "podTemplateHash" with | none => pure canaryRev | some x => jstr x) }
def wlToJson (w : WL) : Json :=
  mkObj [("consistent", boolJ w.consistent), ("inProgressAnno", boolJ w.inProgressAnno), ("canaryRev", strJ w.canaryRev),
    ("stableRev", strJ w.stableRev), ("inRollback", boolJ w.inRollback), ("replicas", intJ w.replicas), ("generation", intJ w.generation),
    ("podTemplateHash", strJ w.podTemplateHash)]

def brOfJson (j : Json) : R BR := do
  return { batches := ← (← fArrD j "batches").mapM iosOfJson, partition := ← fOptInt j "partition", rolloutID := ← fStr j "rolloutID",
           policy := ← fStr j "policy", rollbackAnno := ← fBool j "rollbackAnno", specOther := ← fBool j "specOther",
           deleting := ← fBool j "deleting", phaseCompleted := ← fBool j "phaseCompleted", currentBatch := ← fInt j "currentBatch",
           batchReady := ← fBool j "batchReady", hashSame := ← fBool j "hashSame", genObserved := ← fBool j "genObserved" }
def brToJson (b : BR) : Json :=
  mkObj [("batches", arrJ (b.batches.map iosToJson)), ("partition", optJ intJ b.partition), ("rolloutID", strJ b.rolloutID),
    ("policy", strJ b.policy), ("rollbackAnno", boolJ b.rollbackAnno), ("specOther", boolJ b.specOther), ("deleting", boolJ b.deleting),
    ("phaseCompleted", boolJ b.phaseCompleted), ("currentBatch", intJ b.currentBatch), ("batchReady", boolJ b.batchReady),
    ("hashSame", boolJ b.hashSame), ("genObserved", boolJ b.genObserved)]

def worldOfJson (j : Json) : R World := do
  let wl ← (match jopt j "wl" with | none => pure none | some x => do pure (some (← wlOfJson x)))
  let br ← (match jopt j "br" with | none => pure none | some x => do pure (some (← brOfJson x)))
  return { ro := ← roOfJson (← jget j "ro"), wl := wl, br := br, net := ← netOfJson (← jget j "net"), mem := ← memOfJson (← jget j "mem") }

/-- classification of the canary-style (`IsRealPartition = false`) worlds for the distribution statistics -/
def canaryStyleTags (w : World) : List String :=
  match w.ro.style with
  | .blueGreen => ["wk:blueGreen"]
  | .canary =>
    if w.ro.realPartition then ["wk:partition"] else
    "wk:canaryStyle" ::
    (match w.ro.sub, w.wl with
     | some s, some wl =>
       (match w.ro.steps[(s.curIdx - 1).toNat]? with
        | some st =>
          let rolling := w.ro.phase = .progressing && w.ro.reason = .inRolling && !w.ro.deleting && wl.consistent
          let full := decide (scaledV st.replicas wl.replicas true ≥ wl.replicas)
          let traffic := w.ro.hasTraffic && stepHasTraffic st
          (if rolling && s.state = .init && traffic && decide (s.curIdx = 1) then
             [if full then "cs:first-init-traffic-full" else "cs:first-init-traffic-part"] else []) ++
          (if rolling && s.state = .init && traffic && decide (s.curIdx ≠ 1) then
             [if full then "cs:later-init-traffic-full" else "cs:later-init-traffic-part"] else []) ++
          (if rolling && s.state = .upgrade && traffic then
             [if full then "cs:upgrade-traffic-full" else "cs:upgrade-traffic-part"] else []) ++
          (if wl.podTemplateHash = "" then ["cs:nopodhash"] else if wl.podTemplateHash = wl.canaryRev then ["cs:podhash=canary"] else ["cs:podhash-other"])
        | none => [])
     | _, _ => [])

def handle : Handler := fun op inp impl => do
  match op with
  | "reconcile" =>
    let w ← worldOfJson inp
    let tags := [s!"phase:{phaseStr w.ro.phase}", s!"reason:{reasonStr w.ro.reason}",
      match w.ro.sub with | some s => s!"state:{stateStr s.state}" | none => "nosub",
      if w.wl.isSome then "wl" else "nowl", if w.br.isSome then "br" else "nobr",
      if w.ro.hasTraffic then "traffic" else "notraffic", match w.ro.style with | .canary => "canary" | .blueGreen => "blueGreen"]
      ++ canaryStyleTags w
    let implPanic := (jopt impl "panic").isSome
    let mut holds := [("C09.rollout_no_panic", !implPanic || RV.Oracle.RolloutSM.corrupted w)]
    let mut tags := tags
    -- oracles on the implementation's resulting world
    if !implPanic then
      match jopt impl "w" with
      | some iw =>
        let gone := (jopt iw "ro").isNone
        let roJ := jgetD iw "ro" .null
        let ro' ← (if gone then pure w.ro else roOfJson roJ)
        let wl' ← (match jopt iw "wl" with | none => pure none | some x => do pure (some (← wlOfJson x)))
        let br' ← (match jopt iw "br" with | none => pure none | some x => do pure (some (← brOfJson x)))
        let w' : World := { ro := ro', wl := wl', br := br', net := ← netOfJson (← jget iw "net"), mem := ← memOfJson (← jget iw "mem") }
        let r : StepResult := { w := w', roGone := gone, requeue := ← fBool impl "requeue", err := ← fBool impl "err",
                                writes := if w'.br == w.br && w'.net == w.net && w'.wl == w.wl then [] else ["changed"] }
        holds := holds ++ RV.Oracle.RolloutSM.stepOracles w r ++ RV.Oracle.RolloutSM.canaryStyleOracles w r
        -- C07 "nothing oscillates": a successful write to the BatchRelease changes it (a reconcile that rewrites an identical
        -- BatchRelease never reaches the fixed point `runBatchRelease` waits for)
        -- C01 / C02 / C11: the Rollout trusts `batchReady` only of a BatchRelease whose status has acknowledged the CURRENT plan
        -- (observed hash = hash of the spec): right after this reconcile changed the batch partition, the stored
        -- acknowledgement must not cover the new partition yet (model: `runBatchRelease` / `finalizingBatchRelease` set
        -- `hashSame := false`) - a plan hash that is blind to the partition would let a stale "ready" stand for the new batch
        let partChanged := match w.br, w'.br with
          | some b, some b' => b.partition != b'.partition
          | _, _ => false
        let unack := !partChanged || (w'.br.map (·.hashSame)) == some false
        holds := holds ++ [("C01.partition_change_unacknowledged", unack), ("C02.partition_change_unacknowledged", unack),
                           ("C11.partition_change_unacknowledged", unack)]
        let implBrWritten := (jopt impl "brWritten").bind (fun x => x.getBool?.toOption) |>.getD false
        holds := holds ++ [("C07.br_write_changes_it", !implBrWritten || w'.br != w.br),
                           ("C02.br_write_changes_it", !implBrWritten || w'.br != w.br)]
        if RV.Oracle.RolloutSM.firstStepLeft w r then tags := tags ++ ["first-step-pinned:checked"]
        if RV.Oracle.RolloutSM.bypassTaken w r then tags := tags ++ ["bypass:taken"]
      | none => pure ()
    match reconcile w with
    | .panic => return { model := mkObj [("panic", strJ "?")], holds := holds, tags := "panic" :: tags }
    | .val r =>
      let wj := mkObj [("ro", if r.roGone then .null else roToJson r.w.ro), ("wl", optJ wlToJson r.w.wl), ("br", optJ brToJson r.w.br),
                       ("net", netToJson r.w.net), ("mem", memToJson r.w.mem)]
      let brW := r.writes.any fun x => x == "createBR" || x == "updateBR" || x == "patchBR" || x == "deleteBR" || x == "patchBRRolloutID"
      return { model := mkObj ([("requeue", boolJ r.requeue), ("err", boolJ r.err), ("roGone", boolJ r.roGone), ("w", wj)] ++
                 -- (the walks of the cluster / closedloop suites emit their Rollout reconciles without this field)
                 (if (jopt impl "brWritten").isSome then [("brWritten", boolJ brW)] else [])),
               holds := holds, tags := tags }
  | "fault" => RV.Drv.Fault.handleFault ["C01", "C02", "C03", "C04", "C05", "C06", "C07", "C09", "C10", "C18"] impl
  | _ => .error s!"rolloutsm: unknown op {op}"

end RV.Drv.RolloutSM
