import RV.Json
import RV.Drv.RolloutSM
import RV.Drv.Executor
import RV.Model.Wakeup
import RV.Oracle.Wakeup
namespace RV.Drv.Wakeup
open Lean RV RV.Wakeup RV.Oracle.Wakeup

def refOfJson (j : Json) : R Ref := do
  return { apiVersion := ← fStr j "apiVersion", kind := ← fStr j "kind", name := ← fStr j "name" }

def objOfJson (j : Json) : R Obj := do
  return { ns := ← fStr j "ns", name := ← fStr j "name", ref := ← refOfJson (← jget j "ref") }

def gvkOfJson (j : Json) : R GVK := do
  return { group := ← fStr j "group", version := ← fStr j "version", kind := ← fStr j "kind" }

def controlOfJson (j : Json) : R Control := do
  match ← fStr j "c" with
  | "absent" | "" => return .absent
  | "empty" => return .empty
  | "badSyntax" => return .badSyntax
  | "partialRef" => return .partialRef (← fStr j "apiVersion") (← fStr j "kind")
  | "ref" => return .ref (← fStr j "apiVersion") (← fStr j "kind") (← fStr j "name")
  | c => .error s!"control {c}"

def statusOfJson (j : Json) : R WlStatus := do
  return { replicas := ← fInt j "replicas", ready := ← fInt j "ready", available := ← fInt j "available", updated := ← fInt j "updated",
           updatedReady := ← fInt j "updatedReady", observedGeneration := ← fInt j "observedGeneration",
           updateRevision := ← fStr j "updateRevision", stableRevision := ← fStr j "stableRevision" }

def tyOfJson (j : Json) : R WlType := do
  match ← fStr j "ty" with
  | "CloneSet" => return .cloneSet
  | "DaemonSet" => return .daemonSet
  | "Deployment" => return .deployment
  | "StatefulSet" => return .nativeSts
  | "AdvStatefulSet" => return .advSts
  | "ReplicaSet" => return .replicaSet
  | "Unstructured" =>
    match jopt j "gvk" with
    | some g => return .unstructured (← gvkOfJson g)
    | none => return .unstructured ⟨"", "", ""⟩
  | t => .error s!"workload type {t}"

def wlOfJson (j : Json) : R Wl := do
  return { ty := ← tyOfJson j, ns := ← fStr j "ns", name := ← fStr j "name", rv := ← fStr j "rv", generation := ← fInt j "generation",
           status := ← statusOfJson (← jget j "status"), control := ← controlOfJson (← jget j "control") }

def ownerOfJson (j : Json) (k : String) : R (Option OwnerRef) :=
  match jopt j k with
  | none => pure none
  | some o => do return some { apiVersion := ← fStr o "apiVersion", kind := ← fStr o "kind", name := ← fStr o "name" }

def storeOfJson (j : Json) : R StoreObj := do
  return { gvk := ← gvkOfJson (← jget j "gvk"), ns := ← fStr j "ns", name := ← fStr j "name", owner := ← ownerOfJson j "owner",
           inProgress := ← fBool j "inProgress", control := ← controlOfJson (← jget j "control") }

def readyOf : String → Ready
  | "true" => .condTrue
  | "false" => .condFalse
  | _ => .noCond

def podOfJson (j : Json) : R Pod := do
  return { ns := ← fStr j "ns", name := ← fStr j "name", rv := ← fStr j "rv", depHash := ← fStr j "depHash", revHash := ← fStr j "revHash",
           ready := readyOf (← fStr j "ready"), owner := ← ownerOfJson j "owner", inProgress := ← fBool j "inProgress" }

def pairOfJson (j : Json) : R (String × String) := do
  match ← jarr j with
  | [a, b] => return (← jstr a, ← jstr b)
  | _ => .error "annotation pair"

def brMetaOfJson (j : Json) : R BrMeta := do
  let annos ← (match jopt j "annos" with
    | none => pure none
    | some a => do pure (some (← (← jarr a).mapM pairOfJson)))
  return { ns := ← fStr j "ns", name := ← fStr j "name", generation := ← fInt j "generation", deleting := ← fBool j "deleting", annos := annos }

def keyStr (k : Key) : String := k.ns ++ "/" ++ k.name

def keyOfStr (s : String) : Key :=
  match s.splitOn "/" with
  | [a, b] => ⟨a, b⟩
  | _ => ⟨"?", s⟩

/-- the work queue is a set; the harness reports it sorted -/
def canonKeys (ks : List Key) : List String :=
  let ss := ks.map keyStr
  let sorted := ss.mergeSort (fun a b => decide (a ≤ b))
  sorted.eraseDups

def keysJson (ks : List Key) : Json := mkObj [("keys", arrJ ((canonKeys ks).map strJ))]

def enqJson : EnqOut → R Json
  | .keys ks => pure (keysJson ks)
  | .panic => pure (mkObj [("panic", strJ "?")])
  | .loop => .error "owner references form a cycle"

def implKeys (impl : Json) : R (Option (List Key)) :=
  match jopt impl "keys" with
  | none => pure none
  | some a => do return some ((← (← jarr a).mapM jstr).map keyOfStr)

def handle : Handler := fun op inp impl => do
  match op with
  | "ro" | "br" | "tr" =>
    let rs ← (← fArrD inp "rollouts").mapM objOfJson
    let brs ← (← fArrD inp "brs").mapM objOfJson
    let store ← (← fArrD inp "store").mapM storeOfJson
    let listErr ← fBool inp "listErr"
    let getErr ← fBool inp "getErr"
    let ev ← jget inp "ev"
    let t ← fStr ev "t"
    let k ← fStr ev "k"
    let ik ← implKeys impl
    let baseTags := [s!"ctl:{op}", s!"ev:{k}/{t}"] ++ (if listErr then ["listErr"] else []) ++ (if getErr then ["getErr"] else [])
    let nTag (ks : List Key) := s!"enq:{(canonKeys ks).length}"
    match k with
    | "rollout" | "tr" =>
      let m ← jget ev "ro"
      let ns ← fStr m "ns"
      let name ← fStr m "name"
      let out := if op == "tr" then trEnqueue ns name else
        roEnqueue (match t with | "create" => .roCreate ns name | "update" => .roUpdate ns name | _ => .roDelete ns name) rs listErr
      let holds := match ik with
        | some keys => [("C07.own_object_wakes", keys == [⟨ns, name⟩])]
        | none => [("C07.handler_no_panic", false)]
      return { model := keysJson out, holds := holds, tags := baseTags ++ [nTag out] }
    | "br" =>
      let b ← brMetaOfJson (← jget ev "br")
      let old ← (match jopt ev "brOld" with | some o => brMetaOfJson o | none => pure b)
      if op == "ro" then
        let e : RoEvent := match t with | "create" => .brCreate b | "update" => .brUpdate old b | _ => .brDelete b
        let out := roEnqueue e rs listErr
        let holds := match ik with
          | some keys => [("C07.br_update_wakes_rollout", roBrEvent t b keys)]
          | none => [("C07.handler_no_panic", false)]
        return { model := keysJson out, holds := holds, tags := baseTags ++ [nTag out] }
      else
        let e : BrEvent := match t with | "create" => .brCreate b | "update" => .brUpdate old b | _ => .brDelete b
        let out := brEnqueue e brs store listErr getErr
        let holds := match ik with
          | some keys =>
            if t == "update" then [("C07.br_spec_change_wakes_br", brSpecChangeWakes old b keys), ("C07.br_status_only_silent", brStatusOnlySilent old b keys)]
            else [("C07.own_object_wakes", keys == [⟨b.ns, b.name⟩])]
          | none => [("C07.handler_no_panic", false)]
        let cls := if t == "update" then
            [if old.generation ≠ b.generation then "br:generation" else if b.deleting then "br:deleting"
             else if old.annos ≠ b.annos then "br:annotations" else "br:status-only"] else []
        return { model := ← enqJson out, holds := holds, tags := baseTags ++ cls ++ (match out with | .keys ks => [nTag ks] | _ => ["enq:panic"]) }
    | "wl" =>
      let o ← wlOfJson (← jget ev "wl")
      let old ← (match jopt ev "wlOld" with | some x => wlOfJson x | none => pure o)
      let ctlTag := match o.control with
        | .absent => "control:absent" | .empty => "control:empty" | .badSyntax => "control:badSyntax"
        | .partialRef .. => "control:partialRef" | .ref .. => if (controlledBy o.control).isSome then "control:this-kind" else "control:foreign"
      if op == "ro" then
        let e : RoEvent := match t with | "create" => .wlCreate o | "update" => .wlUpdate old o | _ => .wlDelete o
        let out := roEnqueue e rs listErr
        let holds := match ik with
          | some keys => [("C07.foreign_event_ignored", roFrame rs o keys), ("C07.workload_event_wakes_rollout", roOwnerWoken rs listErr o keys)]
          | none => [("C07.handler_no_panic", false)]
        let nOwn := match schemeKind o.ty with | some g => (owners rs o.ns o.name g).length | none => 0
        return { model := keysJson out, holds := holds, tags := baseTags ++ [nTag out, s!"owners:{nOwn}", s!"candidates:{rs.length}"] }
      else
        let e : BrEvent := match t with | "create" => .wlCreate o | "update" => .wlUpdate old o | _ => .wlDelete o
        let out := brEnqueue e brs store listErr getErr
        let implPanic := (jopt impl "panic").isSome
        let holds := match ik with
          | some keys => [("C07.foreign_event_ignored", brFrame brs o keys)] ++
              (if t == "update" then [("C07.workload_progress_wakes_br", wlProgressWakes old o keys)] else []) ++
              [("C09.handler_no_panic", true)]
          -- C09: no API-reachable workload object (e.g. an unstructured one whose revision fields have another JSON type) may
          -- crash the handler, which runs on the informer goroutine (a typed ReplicaSet never reaches it: no such watch)
          | none => [("C07.handler_no_panic", implPanic && o.ty == .replicaSet), ("C09.handler_no_panic", implPanic && o.ty == .replicaSet)]
        let nonStr (w : Json) : Bool := (jopt (jgetD w "status" .null) "nonString").isSome
        let nsTag := if nonStr (jgetD ev "wl" .null) || nonStr (jgetD ev "wlOld" .null) then ["wl:nonStringRevision"] else []
        let nOwn := match switchKind o.ty with | some g => (owners brs o.ns o.name g).length | none => 0
        let prog := if t == "update" then [if wlProgressed old o then "wl:progressed" else "wl:no-progress"] else []
        return { model := ← enqJson out, holds := holds,
                 tags := baseTags ++ [ctlTag, s!"owners:{nOwn}", s!"candidates:{brs.length}"] ++ prog ++ nsTag ++ (match out with | .keys ks => [nTag ks] | _ => ["enq:panic"]) }
    | "pod" =>
      let p ← podOfJson (← jget ev "pod")
      let old ← (match jopt ev "podOld" with | some x => podOfJson x | none => pure p)
      let e : BrEvent := match t with | "create" => .podCreate p | "update" => .podUpdate old p | _ => .podDelete p
      let out := brEnqueue e brs store listErr getErr
      let top := podTop store getErr p
      let topTag := match p.owner, top with
        | none, _ => "pod:no-owner"
        | _, .obj _ c => if (controlledBy c).isSome then "pod:controlled" else "pod:top-uncontrolled"
        | _, .nil => "pod:unsupported-owner" | _, .err => "pod:get-error" | _, .loop => "pod:loop"
      let holds := match ik with
        | some keys => [("C07.foreign_event_ignored", podFrame p keys)] ++
            (if t == "update" then [("C07.pod_ready_wakes_br", podWakes store getErr old p keys)] else [])
        | none => [("C07.handler_no_panic", false)]
      let chg := if t == "update" then [if podChanged old p then "pod:changed" else "pod:unchanged"] else []
      return { model := ← enqJson out, holds := holds, tags := baseTags ++ [topTag] ++ chg ++ (match out with | .keys ks => [nTag ks] | _ => ["enq:loop"]) }
    | _ => .error s!"wakeup: unknown event family {k}"
  | "ro-step" =>
    let w ← RV.Drv.RolloutSM.worldOfJson inp
    if (jopt impl "panic").isSome then return { holds := [], tags := ["step:ro", "step:panic", "trivial"] } else
    let requeue ← fBool impl "requeue"
    let err ← fBool impl "err"
    let gone ← fBool impl "roGone"
    let eventWoke ← fBool impl "eventWoke"
    -- a negative RequeueAfter: the reconcile computed a recheck time that has already passed; controller-runtime drops it
    let negRequeue := match jopt impl "negRequeueAfter" with | some (.bool b) => b | _ => false
    let woken := requeue || err || eventWoke
    let cls := roAwaits w
    let modelWoke := match RV.RolloutSM.reconcile w with | .val r => (roWakes w r).ro | .panic => false
    let clsTag := match cls with | some c => s!"{repr c}" | none => "none"
    return { holds := [("C07.no_lost_wakeup", roStepOk w woken gone), ("C07.wake_model_sound", !modelWoke || woken || gone),
                       ("C07.requeue_after_not_negative", !negRequeue)],
             tags := ["step:ro", if woken then "step:woken" else if gone then "step:gone" else s!"step:rests={clsTag}"] ++
               (if requeue then ["woke:requeue"] else []) ++ (if err then ["woke:err"] else []) ++ (if eventWoke then ["woke:event"] else []) ++
               (if roIllFormed w then ["step:ill-formed"] else []) ++
               (if w.ro.hasTraffic && w.ro.grace == 0 then ["grace:0"] else if w.ro.hasTraffic then ["grace:default"] else ["grace:none"]) ++
               (if w.ro.realPartition then [] else ["wk:canaryStyle"]) }
  | "br-step" =>
    let br ← RV.Drv.Executor.brOfJson (← jget inp "br")
    let wl ← (match jopt inp "wl" with | none => pure none | some x => do pure (some (← RV.Drv.Executor.wlOfJson x)))
    if (jopt impl "panic").isSome then return { holds := [], tags := ["step:br", "step:panic", "trivial"] } else
    let requeue ← fBool impl "requeue"
    let err ← fBool impl "err"
    let eventWoke ← fBool impl "eventWoke"
    let woken := requeue || err || eventWoke
    let post ← (match jopt impl "br" with
      | none => pure none
      | some b => do
        let st ← RV.Drv.Executor.statusOfJson (← jget b "status")
        pure (some { br with hasFinalizer := ← fBool b "hasFinalizer", status := st }))
    let wl' ← (match jopt impl "wl" with | none => pure none | some x => do pure (some (← RV.Drv.Executor.wlOfJson x)))
    let modelWoke := match RV.Executor.reconcile br wl with | .val o => (brWakes br wl o).br | .panic => false
    let clsTag := match post with
      | none => "gone"
      | some b => (match brAwaits b wl' with | some c => s!"{repr c}" | none => "none")
    return { holds := [("C07.no_lost_wakeup", brStepOk post wl' woken), ("C07.wake_model_sound", !modelWoke || woken || post.isNone)],
             tags := ["step:br", if woken then "step:woken" else s!"step:rests={clsTag}"] ++
               (if requeue then ["woke:requeue"] else []) ++ (if err then ["woke:err"] else []) ++ (if eventWoke then ["woke:event"] else []) }
  | "quiescent" =>
    -- the event-driven closed loop has nothing pending: judge the state it stopped in
    let ex ← fBool inp "exists"
    let terminal ← fBool inp "terminal"
    let roCls ← (if ex then do pure (roAwaits (← RV.Drv.RolloutSM.worldOfJson (← jget inp "w"))) else pure none)
    let (brEx, brCls) ← (match jopt inp "ex" with
      | none => pure (false, none)
      | some e => do
        let br ← RV.Drv.Executor.brOfJson (← jget e "br")
        let wl ← (match jopt e "wl" with | none => pure none | some w => do pure (some (← RV.Drv.Executor.wlOfJson w)))
        pure (true, brAwaits br wl))
    let ok := if ex then idleOk roCls brEx brCls else (!brEx || brCls.isSome)
    let showR (o : Option RoWait) := match o with | some c => s!"{repr c}" | none => "none"
    let showB (o : Option BrWait) := match o with | some c => s!"{repr c}" | none => if brEx then "none" else "absent"
    return { holds := [("C07.no_lost_wakeup", ok)],
             tags := [s!"idle:ro={showR roCls}", s!"idle:br={showB brCls}", if terminal then "idle:terminal" else "idle:waiting"] }
  | "evrun" =>
    let done ← fBool impl "done"
    let stuck ← fBool impl "stuck"
    let steps ← fNat impl "reconciles"
    let n ← fNat inp "steps"
    return { holds := [("C07.event_driven_terminates", done && !stuck), ("C07.event_driven_budget", decide (steps ≤ 60 * (n + 4)))],
             tags := [if done then "evrun:done" else "evrun:notdone", s!"evrun:plan={← fStr inp "plan"}"] }
  | _ => .error s!"wakeup: unknown op {op}"

end RV.Drv.Wakeup
