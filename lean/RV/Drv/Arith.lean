import RV.Json
import RV.Model.Arith
namespace RV.Drv.Arith
open Lean RV RV.Arith

def iosOfJson (j : Json) : R IntOrPct :=
  match jopt j "i", jopt j "p", jopt j "s" with
  | some v, _, _ => do return .int (← jint v)
  | _, some v, _ => do return .pct (← jint v)
  | _, _, some _ => .ok .bad
  | _, _, _ => .error s!"bad intorstring {j.compress}"

def iosOptOfJson (j : Json) (k : String) : R (Option IntOrPct) :=
  match jopt j k with
  | none => .ok none
  | some v => do return some (← iosOfJson v)

def iosToJson : IntOrPct → Json
  | .int n => mkObj [("i", intJ n)]
  | .pct p => mkObj [("p", intJ p)]
  | .bad => mkObj [("s", strJ "?")]

def handle : Handler := fun op inp impl => do
  match op with
  | "calcBatch" =>
    let r ← fInt inp "replicas"
    let b ← iosOfJson (← jget inp "batch")
    return { model := intJ (calcBatchReplicas r b) }
  | "parsePct" =>
    let s ← fInt inp "stable"
    let a ← fInt inp "all"
    let c ← iosOfJson (← jget inp "canary")
    -- C01 (scaling): the partition of a percentage plan is itself a percentage (`ParseIntegerAsPercentageIfPossible` "will
    -- return a percentage type IntOrString"), so that the workload controller re-scales it when the size changes
    let isPct := match impl with | .obj _ => (jopt impl "p").isSome | _ => false
    return { model := iosToJson (parsePct s a c), holds := [("C01.percent_partition_is_percentage", isPct)] }
  | "rsLimit" =>
    let r ← fInt inp "replicas"
    let p ← iosOfJson (← jget inp "partition")
    return { model := intJ (newRSReplicasLimit p r) }
  | "fenceposts" =>
    let r ← fInt inp "replicas"
    let s ← iosOptOfJson inp "surge"
    let u ← iosOptOfJson inp "unavailable"
    match resolveFenceposts s u r with
    | none => return { model := mkObj [("err", boolJ true)] }
    | some (a, b) => return { model := mkObj [("surge", intJ a), ("unavailable", intJ b)] }
  | "moreOrEqual" =>
    let c ← iosOfJson (← jget inp "current")
    let d ← iosOfJson (← jget inp "desired")
    return { model := boolJ (moreOrEqual c d) }
  | _ => .error s!"arith: unknown op {op}"

end RV.Drv.Arith
