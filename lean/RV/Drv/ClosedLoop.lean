import RV.Json
import RV.Drv.RolloutSM
import RV.Drv.Executor
import RV.Model.ClosedLoop
import RV.Oracle.ClosedLoop
import RV.Oracle.ClosedLoopLive
import RV.Oracle.ClosedLoopTraffic
import RV.Model.ClosedLoopRb
namespace RV.Drv.ClosedLoop
open Lean RV RV.Arith RV.Traffic RV.ClosedLoop RV.Drv.Arith RV.Drv.Traffic

/-- the executor status without the derived `rolloutIDSame` -/
def stToJson (s : Executor.Status) : Json :=
  mkObj [("phase", strJ (RV.Drv.Executor.phaseStr s.phase)), ("currentBatch", intJ s.currentBatch),
    ("batchState", strJ (RV.Drv.Executor.bstateStr s.batchState)), ("hasReadyTime", boolJ s.hasReadyTime),
    ("hash", strJ (RV.Drv.Executor.hashStr s.hash)),
    ("observedReplicas", intJ s.observedReplicas), ("updateRevision", strJ s.updateRevision),
    ("stableRevision", strJ s.stableRevision), ("noNeedUpdate", optJ intJ s.noNeedUpdate),
    ("updated", intJ s.updated), ("updatedReady", intJ s.updatedReady)]

def stOfJson (j : Json) : R Executor.Status := do
  let j' := j.setObjVal! "rolloutIDSame" (.bool false)
  RV.Drv.Executor.statusOfJson j'

def wlOfJson (j : Json) : R CWl := do
  return { replicas := ← fInt j "replicas", generation := ← fInt j "generation", observedGeneration := ← fInt j "observedGeneration",
           statusReplicas := ← fInt j "statusReplicas", updated := ← fInt j "updated", updatedReady := ← fInt j "updatedReady",
           updateRevision := ← fStr j "updateRevision", currentRevision := ← fStr j "currentRevision",
           partition := ← iosOptOfJson j "partition", paused := ← fBool j "paused",
           owner := RV.Drv.Executor.ownerOf (← fStr j "owner"), inProgressAnno := ← fBool j "inProgressAnno" }

def wlToJson (w : CWl) : Json :=
  mkObj [("replicas", intJ w.replicas), ("generation", intJ w.generation), ("observedGeneration", intJ w.observedGeneration),
    ("statusReplicas", intJ w.statusReplicas), ("updated", intJ w.updated), ("updatedReady", intJ w.updatedReady),
    ("updateRevision", strJ w.updateRevision), ("currentRevision", strJ w.currentRevision),
    ("partition", optJ iosToJson w.partition), ("paused", boolJ w.paused), ("owner", strJ (RV.Drv.Executor.ownerStr w.owner)),
    ("inProgressAnno", boolJ w.inProgressAnno)]

def brOfJson (j : Json) : R CBr := do
  return { batches := ← (← fArrD j "batches").mapM iosOfJson, partition := ← fOptInt j "partition", rolloutID := ← fStr j "rolloutID",
           policy := ← fStr j "policy", rollbackAnno := ← fBool j "rollbackAnno", specOther := ← fBool j "specOther",
           failureThreshold := ← iosOptOfJson j "failureThreshold", deleting := ← fBool j "deleting", hasFinalizer := ← fBool j "hasFinalizer",
           generation := ← fInt j "generation", observedGeneration := ← fInt j "observedGeneration",
           observedRolloutID := ← fStr j "observedRolloutID", st := ← stOfJson (← jget j "st") }

def brToJson (b : CBr) : Json :=
  mkObj [("batches", arrJ (b.batches.map iosToJson)), ("partition", optJ intJ b.partition), ("rolloutID", strJ b.rolloutID),
    ("policy", strJ b.policy), ("rollbackAnno", boolJ b.rollbackAnno), ("specOther", boolJ b.specOther),
    ("failureThreshold", optJ iosToJson b.failureThreshold), ("deleting", boolJ b.deleting), ("hasFinalizer", boolJ b.hasFinalizer),
    ("generation", intJ b.generation), ("observedGeneration", intJ b.observedGeneration),
    ("observedRolloutID", strJ b.observedRolloutID), ("st", stToJson { b.st with rolloutIDSame := false })]

def csOfJson (j : Json) : R CS := do
  let (gone, ro) ← (match jopt j "ro" with
    | none => pure (true, (default : RolloutSM.Rollout))
    | some r => do pure (false, ← RV.Drv.RolloutSM.roOfJson r))
  let wl ← (match jopt j "wl" with | none => pure none | some x => do pure (some (← wlOfJson x)))
  let br ← (match jopt j "br" with | none => pure none | some x => do pure (some (← brOfJson x)))
  return { gone := gone, ro := ro, wl := wl, br := br, net := ← netOfJson (← jget j "net"), mem := ← memOfJson (← jget j "mem") }

/-- output form of the Rollout: next-step index canonicalised as in suite `rolloutsm`; the age of the Progressing
    condition is shown only while it is read (reason Initializing) -/
def roOutJson (r : RolloutSM.Rollout) : Json :=
  let j := RV.Drv.RolloutSM.roToJson r
  if r.reason = .initializing then j.setObjVal! "condAge" (strJ (RV.Drv.RolloutSM.ageStr r.condAge)) else j

def csToJson (s : CS) : Json :=
  mkObj [("ro", if s.gone then .null else roOutJson s.ro), ("wl", optJ wlToJson s.wl), ("br", optJ brToJson s.br),
    ("net", netToJson s.net), ("mem", memToJson s.mem)]

def labelOf (l : String) : Option Label :=
  match l with
  | "ro" => some .ro | "br" => some .br | "env" => some .env | "approve" => some .approve | "tick" => some .tick
  | "crash" => some .crash | "delete" => some .delete
  | _ => if l.startsWith "release:" then some (.release (l.drop 8).toString) else none

def phaseTag (s : CS) : String :=
  if s.gone then "gone" else s!"{RV.Drv.RolloutSM.phaseStr s.ro.phase}/{RV.Drv.RolloutSM.reasonStr s.ro.reason}"

def handle : Handler := fun op inp impl => do
  match op with
  | "cstep" =>
    let pre ← csOfJson (← jget inp "pre")
    let lab ← fStr inp "label"
    let post ← (if (jopt impl "panic").isSome then pure pre else csOfJson impl)
    let tags := [s!"label:{(lab.splitOn ":").head!}", s!"at:{phaseTag pre}"] ++
      (match pre.ro.sub with | some s => if pre.gone then [] else [s!"state:{RV.Drv.RolloutSM.stateStr s.state}"] | none => [])
    let fwd := match jopt inp "fwd" with | some (.bool b) => b | _ => false
    let del := match jopt inp "del" with | some (.bool b) => b | _ => false
    -- scope of the supersession theorems: the harness says the history so far was legal for the forward theorems; the driver
    -- itself decides whether THIS label is legal (`legalS pre`), the harness carries the verdict forward (`sup` of the next line)
    let supIn := match jopt inp "sup" with | some (.bool b) => b | _ => false
    let sup := supIn && (match labelOf lab with | some l => RV.Oracle.ClosedLoop.legalS pre l | none => lab != "rollback")
    let implPanic := (jopt impl "panic").isSome
    let holds := if implPanic then [("C09.loop_total", false), ("C06.loop_total", false)] else
      RV.Oracle.ClosedLoop.stateOracles post fwd del sup ++ RV.Oracle.ClosedLoop.stepOracles pre lab post fwd ++
      RV.Oracle.ClosedLoopTraffic.stateOraclesT post fwd ++ RV.Oracle.ClosedLoopTraffic.stepOraclesT pre lab post
    -- history flags of the harness (sticky along the walk): the input regions of open findings
    let flag (k : String) : Bool := match jopt inp k with | some (.bool b) => b | _ => false
    let tags := (if flag "lateRelease" then ["guard:releaseWhileFinalising"] else []) ++
      (if flag "earlyExit" then ["guard:exitBeforeBatchRelease"] else []) ++
      (if flag "noRevKey" then ["guard:noRevKey"] else []) ++
      (if flag "staleCursor" then ["guard:abandonedCleanup"] else []) ++
      (if fwd && !RV.Oracle.ClosedLoopTraffic.trInv post then [s!"trInv-fails:{RV.Oracle.ClosedLoopTraffic.trInvWhy post}"] else []) ++
      (if RV.Oracle.ClosedLoopTraffic.routeLive post.net then ["net:route-live"] else []) ++
      (if post.net.stableSel.isSome then ["net:stable-pinned"] else []) ++
      (if post.net.canarySvc.isSome then ["net:canary-svc"] else []) ++
      (if RV.Oracle.ClosedLoopTraffic.rbPending pre then ["rb-pending"] else []) ++
      (if RV.Oracle.ClosedLoopTraffic.rbPending pre && RV.Oracle.ClosedLoopTraffic.routeLive pre.net then ["rb-pending-while-routed"] else []) ++
      (if RV.Oracle.ClosedLoopTraffic.isTerminal post then ["terminal-judged"] else []) ++
      (if !post.gone && post.ro.hasTraffic then [if post.ro.disableGen then "cfg:traffic-disableGen" else "cfg:traffic"] else []) ++ tags
    -- known finding supersedeBeforeInit: a release was pushed while the BatchRelease had not recorded its revision (history flag
    -- from the harness) and the rollout has not taken the new revision up yet (state)
    let early := match jopt inp "earlyRelease" with | some (.bool b) => b | _ => false
    let tags := (if early && RV.Oracle.ClosedLoop.superseding post then ["guard:supersedeBeforeInit"] else []) ++
      (if RV.Oracle.ClosedLoop.superseding post then ["superseding"] else []) ++ tags
    let tags := (if sup && !fwd then ["scope:sup", if RV.Oracle.ClosedLoop.resetInv post then "resetInv:holds" else "resetInv:no"] else []) ++ tags
    let tags := (if fwd then "scope:fwd" else if del then "scope:del" else "scope:any") :: (if del then [if RV.Oracle.ClosedLoop.delInv post then "delInv:holds" else "delInv:fails"] else []) ++ (if RV.Oracle.ClosedLoop.fwdInv post then "fwdInv:holds" else "fwdInv:fails") :: tags
    match labelOf lab with
    | none =>
      -- the user event of the extended loop (RV.ClosedLoop.stepX)
      if lab == "rollback" then
        match stepX pre .rollback with
        | some s' => return { model := csToJson s', holds := holds, tags := "label:rollback" :: tags }
        | none => return { model := .null, holds := holds, tags := "uncompared" :: tags }
      else return { model := .null, holds := holds, tags := "uncompared" :: tags }
    | some l =>
      match step pre l with
      | none => return { model := mkObj [("panic", strJ "?")], holds := holds, tags := "panic" :: tags }
      | some s' => return { model := csToJson s', holds := holds, tags := (if s' == pre then ["stutter"] else []) ++ tags }
  | "proj" =>
    let cs ← csOfJson (← jget inp "cs")
    let okRo ← (match jopt inp "w" with
      | none => pure cs.gone
      | some wj => do
        let w ← RV.Drv.RolloutSM.worldOfJson wj
        pure (!cs.gone && decide (roWorld cs = w)))
    let okEx ← (match jopt inp "ex" with
      | none => pure (exView cs).isNone
      | some ej => do
        let b ← RV.Drv.Executor.brOfJson (← jget ej "br")
        let wl ← (match jopt ej "wl" with | none => pure none | some x => do pure (some (← RV.Drv.Executor.wlOfJson x)))
        pure (match exView cs with
          | some (b', wl') => decide (b' = b) && decide (wl' = wl)
          | none => false))
    return { holds := [("C06.proj_ro", okRo), ("C06.proj_ex", okEx), ("C01.proj_ro", okRo), ("C01.proj_ex", okEx),
                       ("C02.proj_ro", okRo), ("C09.proj_ro", okRo), ("C09.proj_ex", okEx), ("C07.proj_ro", okRo), ("C07.proj_ex", okEx)],
             tags := ["proj", if cs.br.isSome then "br" else "nobr"] }
  | "trace" =>
    let states ← (← fArr inp "states").mapM csOfJson
    let labels ← (← fArr inp "labels").mapM jstr
    let fwds ← (← fArr inp "fwd").mapM jbool
    match states with
    | [] => .error "closedloop: empty trace"
    | s0 :: rest =>
      -- a fault-injected reconcile is not a label of the model: the ghost is not advanced over it (judged := false, label crash is a no-op for the ghost)
      let steps := (labels.zip (rest.zip fwds)).map fun (l, s', f) =>
        match labelOf l with
        | some lab => (lab, s', f)
        | none =>
          -- a reconcile cut short by an API fault observes what a full reconcile observes: the ghost treats it as that reconcile
          if l.startsWith "fault-ro" then (Label.ro, s', f) else if l.startsWith "fault-br" then (Label.br, s', f) else (Label.crash, s', false)
      let ok := RV.Oracle.ClosedLoop.traceOK (RV.Oracle.ClosedLoop.Ghost.fresh 0) s0 steps
      let njudged := (steps.filter fun x => x.2.2).length
      let bad := match RV.Oracle.ClosedLoop.traceFirstBad (RV.Oracle.ClosedLoop.Ghost.fresh 0) s0 steps 0 with
        | some (i, g, a, b) => [s!"bad-at:{i}:idx={g.idx},up={g.upgraded},ro={g.routed},pa={g.pauseOK},inv={a},adv={b}"]
        | none => []
      -- C07: a healthy fair run (rounds ro, br, env, approve, tick; crashes allowed) of the REAL controllers finishes
      -- within 20·(#steps + 4) rounds of its release
      let fair := match jopt inp "fair" with | some (.bool b) => b | _ => false
      let healthy := match jopt inp "healthy" with | some (.bool b) => b | _ => false
      let term ← (match jopt inp "terminalAt" with | some v => jint v | none => pure (-1))
      let nsteps ← (match jopt inp "steps" with | some v => jnat v | none => pure 0)
      -- C07: the explicit measure `mu` of the progress theorems, on the implementation's states at the round boundaries (after
      -- every `tick`) of a healthy fair run, from the first release on: strictly smaller within 5 rounds
      let relIdx := (labels.findIdx? (fun l => l.startsWith "release:")).getD labels.length
      let bounds := ((labels.zip rest).zipIdx.filter (fun (x, i) => x.1 == "tick" && i > relIdx)).map (fun (x, _) => x.2)
      let muOK := !(fair && healthy) || RV.Oracle.ClosedLoop.measureDecreases 5 bounds
      let muBad := if fair && healthy then (match RV.Oracle.ClosedLoop.measureFirstBad 5 bounds 0 with | some (i, m) => [s!"mu-stall-at-round:{i}:mu={m}"] | none => []) else []
      let termOK := !(fair && healthy) || (decide (0 ≤ term) && decide (term ≤ 20 * ((nsteps : Int) + 4)))
      -- C03: the weight on the gateway is the weight of a step whose pods had been reported ready (ghost recomputed here)
      let tsteps := steps.map fun (l, s', _) => (l, s')
      let routeOK := RV.Oracle.ClosedLoopTraffic.traceRouteOK RV.Oracle.ClosedLoopTraffic.TGhost.fresh s0 tsteps
      let routeBad := match RV.Oracle.ClosedLoopTraffic.traceRouteFirstBad RV.Oracle.ClosedLoopTraffic.TGhost.fresh s0 tsteps 0 with
        | some (i, t) => [s!"route-bad-at:{i}:seen={t.seen}"]
        | none => []
      let routedStates := (rest.filter fun s => RV.Oracle.ClosedLoopTraffic.routeLive s.net).length
      let kind := match jopt inp "kind" with | some (.str k) => [s!"walk:{k}"] | _ => []
      let tflag (k : String) : Bool := match jopt inp k with | some (.bool b) => b | _ => false
      let kind := kind ++ (if tflag "lateRelease" then ["guard:releaseWhileFinalising"] else []) ++
        (if tflag "earlyExit" then ["guard:exitBeforeBatchRelease"] else []) ++ (if tflag "noRevKey" then ["guard:noRevKey"] else []) ++
        (if tflag "staleCursor" then ["guard:abandonedCleanup"] else [])
      let hasTr := (!s0.gone && s0.ro.hasTraffic)
      return { holds := [("C02.loop_gate", ok), ("C06.loop_gate", ok), ("C07.loop_terminates", termOK), ("C06.loop_terminates", termOK),
                         ("C07.loop_measure_decreases", muOK), ("C03.loop_route_after_ready", routeOK)],
               tags := ["trace", s!"trace-len:{(labels.length / 50) * 50}+", if njudged == 0 then "trivial" else "trace-judged"] ++ bad ++ muBad ++ routeBad ++ kind ++
                 (if hasTr then [if s0.ro.disableGen then "walk-cfg:traffic-disableGen" else "walk-cfg:traffic"] else ["walk-cfg:no-traffic"]) ++
                 (if routedStates > 0 then ["walk-routed"] else []) ++
                 (if fair && healthy then [s!"mu-boundaries:{(bounds.length / 10) * 10}+"] else []) ++
                 (if fair && healthy then ["fair-healthy-run", s!"rounds-per-step:{if nsteps == 0 then 0 else term.toNat / nsteps}"] else if fair then ["fair-run-with-events"] else ["random-schedule"]) }
  | _ => .error s!"closedloop: unknown op {op}"

end RV.Drv.ClosedLoop
