import RV.Json
import RV.Model.Gateway
import RV.Oracle.C13
/-!
Driver for suite `gateway` (property C13).

ops
* `build` — the pure builder `buildDesiredHTTPRoute` applied once and then again to its
  own output.  in `{conf, rules, weight, matches}`, impl `{out, again}`.
* `seq`   — `EnsureRoutes` for a list of steps (each called `rep` times), then `Finalise`
  (`fin` times) on a fake client.  in `{conf, rules|null, steps, fin}`,
  impl `{steps:[[call…]…], fin:[call…]}`, call = `{ret, err, rules|null}`.
-/
namespace RV.Drv.Gateway
open Lean RV RV.Gateway RV.Oracle.C13

/-! ### JSON -/

def atomOf (j : Json) : R Atom := do
  return { ty := ← fOptStr j "t", name := ← fStr j "n", value := ← fStr j "v" }

def pathOf (j : Json) : R PathM := do
  return { ty := ← fOptStr j "t", value := ← fOptStr j "v" }

def optPath (j : Json) : R (Option PathM) :=
  match jopt j "path" with
  | none => .ok none
  | some p => do return some (← pathOf p)

def matchOf (j : Json) : R Match := do
  return { path := ← optPath j, headers := ← jlistM atomOf (← jget j "h"),
           queryParams := ← jlistM atomOf (← jget j "q"), method := ← fOptStr j "method" }

def umatchOf (j : Json) : R UMatch := do
  return { path := ← optPath j, headers := ← jlistM atomOf (← jget j "h"),
           queryParams := ← jlistM atomOf (← jget j "q") }

def refOf (j : Json) : R Ref := do
  return { kind := ← fOptStr j "kind", name := ← fStr j "name", weight := ← fOptInt j "w",
           rest := ← fStr j "rest" }

def ruleOf (j : Json) : R Rule := do
  return { mts := ← jlistM matchOf (← jget j "m"), filters := ← fStr j "f",
           refs := ← jlistM refOf (← jget j "b") }

def confOf (j : Json) : R Conf := do
  return { stable := ← fStr j "stable", canary := ← fStr j "canary" }

def rulesOf (j : Json) : R (List Rule) := jlistM ruleOf j

def optRulesOf (j : Json) (k : String) : R (Option (List Rule)) :=
  match jopt j k with
  | none => .ok none
  | some v => do return some (← rulesOf v)

def atomJ (a : Atom) : Json := mkObj [("t", optJ strJ a.ty), ("n", strJ a.name), ("v", strJ a.value)]
def pathJ (p : PathM) : Json := mkObj [("t", optJ strJ p.ty), ("v", optJ strJ p.value)]
def matchJ (m : Match) : Json :=
  mkObj [("path", optJ pathJ m.path), ("h", arrJ (m.headers.map atomJ)),
         ("q", arrJ (m.queryParams.map atomJ)), ("method", optJ strJ m.method)]
def refJ (r : Ref) : Json :=
  mkObj [("kind", optJ strJ r.kind), ("name", strJ r.name), ("w", optJ intJ r.weight),
         ("rest", strJ r.rest)]
def ruleJ (r : Rule) : Json :=
  mkObj [("m", arrJ (r.mts.map matchJ)), ("f", strJ r.filters), ("b", arrJ (r.refs.map refJ))]
def rulesJ (rs : List Rule) : Json := arrJ (rs.map ruleJ)

def outJ : Out → Json
  | .ok rs => rulesJ rs
  | .panic => mkObj [("panic", boolJ true)]

/-- builder output as emitted by the harness: an array of rules or `{"panic":true}` -/
def outOf (j : Json) : R Out :=
  match j with
  | .arr _ => do return .ok (← rulesOf j)
  | _ => .ok .panic

def trafficOf (j : Json) : R (Option Traffic) :=
  match jopt j "traffic" with
  | none => .ok none
  | some t =>
    match jopt t "p" with
    | some v => do return some (.pct (← jint v))
    | none => .ok (some .bad)

def stepOf (j : Json) : R (Step × Nat) := do
  return ({ traffic := ← trafficOf j, ms := ← jlistM umatchOf (← jget j "matches") },
          ← fNat j "rep")

def callJ (r : CallRes) : Json :=
  mkObj [("ret", boolJ r.ret), ("err", strJ r.err), ("rules", optJ rulesJ r.store)]

def callOf (j : Json) : R CallRes := do
  return { ret := ← fBool j "ret", err := ← fStr j "err", store := ← optRulesOf j "rules" }

/-! ### classification -/

def sizeTag (pre : String) (n : Nat) : String :=
  pre ++ "=" ++ (if n ≥ 4 then "4+" else toString n)

def kindOf (w : Option Int) (ms : List UMatch) : String :=
  if w == some (-1) then "finalise" else if !ms.isEmpty then "match" else
  match w with | none => "nil-weight" | some _ => "weight"

def matchMixTag (ms : List UMatch) : List String :=
  let p := ms.any (fun u => u.path.isSome)
  let n := ms.any (fun u => u.path.isNone)
  if p && n then ["ms:mixed-path-nonpath"] else if p then ["ms:path-only"]
  else if n then ["ms:nonpath-only"] else []

def routeTags (c : Conf) (rules : List Rule) : List String :=
  [sizeTag "rules" rules.length] ++
  (if rules.any (fun r => r.refs.isEmpty) then ["route:backendless-rule"] else []) ++
  (if rules.any (fun r => hasSvc r.refs c.stable) then ["route:has-stable"] else ["route:no-stable"]) ++
  (if rules.any (fun r => r.refs.any (fun x => !isSvc x c.stable && !isSvc x c.canary)) then ["route:foreign-backend"] else []) ++
  (if rules.any (fun r => hasSvc r.refs c.stable && r.mts.isEmpty) then ["route:stable-rule-without-matches"] else []) ++
  (if rules.any (fun r => r.filters != "") then ["route:filters"] else []) ++
  (if canaryFree c rules then ["route:canary-free"] else if inv c rules then ["route:reachable-shape"] else ["route:outside-inv"])

/-- the oracle of the clause that governs one builder application `rin → rout` -/
def clauseHolds (c : Conf) (w : Option Int) (ms : List UMatch) (rin rout : List Rule) :
    List (String × Bool) :=
  if w == some (-1) then [("C13.finalise", finaliseOk c rin rout)]
  else if !ms.isEmpty then [("C13.match", matchOk c ms rin rout)]
  else match w with
    | some w => [("C13.weight", weightOk c w rin rout)]
    | none => []

/-! ### ops -/

def handleBuild (inp impl : Json) : R OpResult := do
  let c ← confOf (← jget inp "conf")
  let rules ← rulesOf (← jget inp "rules")
  let w ← fOptInt inp "weight"
  let ms ← jlistM umatchOf (← jget inp "matches")
  let out := buildDesired c rules w ms
  let again := match out with
    | .ok rs => outJ (buildDesired c rs w ms)
    | .panic => Json.null
  let model := mkObj [("out", outJ out), ("again", again)]
  -- oracles on the implementation's output
  let iout ← outOf (← jget impl "out")
  let hyp := confOk c && inv c rules
  let mut holds : List (String × Bool) := []
  let mut tags := ["op:build", "kind:" ++ kindOf w ms] ++ routeTags c rules ++ matchMixTag ms
  if !confOk c then tags := tags ++ ["conf:stable=canary"]
  match iout with
  | .panic => tags := tags ++ ["out:panic"]
  | .ok rout =>
    if hyp then
      holds := holds ++ clauseHolds c w ms rules rout
      holds := holds ++ [("C13.inv", inv c rout)]
      match jopt impl "again" with
      | some a =>
        match ← outOf a with
        | .ok r2 => holds := holds ++ [("C13.idem", r2 == rout)]
        | .panic => holds := holds ++ [("C13.idem", false)]
      | none => pure ()
    else
      tags := tags ++ ["outside-hyp"]
  if rules.isEmpty then tags := tags ++ ["trivial"]
  return { model := model, holds := holds, tags := tags }

/-- run one call list of the model and fold the oracles over the implementation's calls -/
def handleSeq (inp impl : Json) : R OpResult := do
  let c ← confOf (← jget inp "conf")
  let orig ← optRulesOf inp "rules"
  let steps ← jlistM stepOf (← jget inp "steps")
  let fin ← fNat inp "fin"
  -- `NewGatewayTrafficRouting` refuses a canary Service name equal to the stable one (`Conf.refused`): no provider,
  -- no call.  Regression oracle of the fixed finding sameServiceGateway: a constructor that accepts such a
  -- configuration again is a VIOLATION with this input.
  if c.refused then
    let iRefused := (jopt impl "refused").isSome
    return { model := mkObj [("refused", boolJ true)],
             holds := [("C13.same_service_refused", iRefused), ("C03.gateway_same_service_refused", iRefused)],
             tags := ["op:seq", "conf:stable=canary", "provider:refused"] }
  -- model
  let mut store := orig
  let mut mSteps : List Json := []
  for (s, rep) in steps do
    let mut calls : List Json := []
    for _ in List.range rep do
      let r := ensureRoutes c store s
      store := r.store
      calls := calls ++ [callJ r]
    mSteps := mSteps ++ [arrJ calls]
  let mut mFin : List Json := []
  for _ in List.range fin do
    let r := finalise c store
    store := r.store
    mFin := mFin ++ [callJ r]
  let model := mkObj [("steps", arrJ mSteps), ("fin", arrJ mFin)]
  -- oracles on the implementation's trace
  let iSteps ← jlistM (jlistM callOf) (← jget impl "steps")
  let iFin ← jlistM callOf (← jget impl "fin")
  let mut tags := ["op:seq", sizeTag "steps" steps.length] ++
    (match jopt inp "conflictHit" with | some (.bool true) => ["fault:conflict-on-write"] | _ => [])
  let mut holds : List (String × Bool) := []
  let kinds := steps.map fun (s, _) => kindOf s.weight s.ms
  for (a, b) in kinds.zip (kinds.drop 1) do
    tags := tags ++ ["trans:" ++ a ++ ">" ++ b]
  for (s, _) in steps do
    tags := tags ++ matchMixTag s.ms
  match orig with
  | none => tags := tags ++ ["route:missing"]
  | some o =>
    tags := tags ++ routeTags c o
    let hyp := confOk c && canaryFree c o
    if !confOk c then tags := tags ++ ["conf:stable=canary"]
    if !hyp then tags := tags ++ ["outside-hyp"]
    let mut cur := o
    let mut panicked := false
    let mut invOk := true
    let mut idemOk := true
    let mut exactOk := true
    let mut clause : List (String × Bool) := []
    for ((s, _), calls) in steps.zip iSteps do
      let mut first := true
      for call in calls do
        match call.store with
        | none => pure ()
        | some after =>
          if call.err == "panic" then panicked := true
          -- C03: a call that reports the step as routed must leave exactly the step's share on the route
          exactOk := exactOk && verifiedMeansExact c s.weight s.ms call.ret call.err after
          if call.err == "ok" then
            if first then
              clause := clause ++ clauseHolds c s.weight s.ms cur after
            else
              idemOk := idemOk && call.ret && after == cur
            invOk := invOk && inv c after
          cur := after
        first := false
    let mut firstFin := true
    for call in iFin do
      match call.store with
      | none => pure ()
      | some after =>
        if firstFin then
          clause := clause ++ [("C13.finalise", finaliseOk c cur after)]
        else
          idemOk := idemOk && !call.ret && after == cur
        cur := after
      firstFin := false
    if panicked then tags := tags ++ ["out:panic"]
    if hyp then
      -- one entry per clause: conjunction over the trace
      for name in ["C13.weight", "C13.match", "C13.finalise"] do
        let vs := clause.filter (fun kv => kv.1 == name)
        if !vs.isEmpty then holds := holds ++ [(name, vs.all (fun kv => kv.2))]
      holds := holds ++ [("C13.inv", invOk), ("C13.idem", idemOk), ("C03.gateway_verified_means_exact", exactOk),
                         ("C13.verified_means_exact", exactOk)]
      if fin > 0 then holds := holds ++ [("C13.sequence", restoredOk c o cur)]
  if steps.isEmpty && fin == 0 then tags := tags ++ ["trivial"]
  return { model := model, holds := holds, tags := tags }

def handle : Handler := fun op inp impl => do
  match op with
  | "build" => handleBuild inp impl
  | "seq" => handleSeq inp impl
  | _ => .error s!"gateway: unknown op {op}"

end RV.Drv.Gateway
