import RV.Json
namespace RV.Drv.Gateway
open Lean RV
def handle : Handler := fun op _ _ => .error s!"Gateway: op {op} not implemented"
end RV.Drv.Gateway
