import RV.Json
namespace RV.Drv.Isolation
open Lean RV
def handle : Handler := fun op _ _ => .error s!"Isolation: op {op} not implemented"
end RV.Drv.Isolation
