import RV.Json
import RV.Model.Isolation
import RV.Oracle.Isolation
/-
  Driver of suite `isolation` (C19).  For every op the model is run on the joint trace and on every
  rollout's projection; closure results / API facts that the model takes as inputs are read from the
  implementation's step records and echoed; everything the model predicts (retry / error / recheck
  results, the content of the shared map after every step) overwrites the echoed record, so that a
  difference shows up in the comparison.  The oracles are evaluated on the implementation's records.
-/
namespace RV.Drv.Isolation
open Lean RV RV.Isolation RV.Oracle.Isolation

def sortStr (l : List String) : List String := (l.toArray.qsort (· < ·)).toList
def sortBy {α : Type} (f : α → String) (l : List α) : List α := (l.toArray.qsort (fun a b => f a < f b)).toList

def fIntD (j : Json) (k : String) (d : Int) : R Int :=
  match jopt j k with
  | none => pure d
  | some v => jint v

def fStrD (j : Json) (k : String) (d : String) : String :=
  match jopt j k with
  | some (.str s) => s
  | _ => d

def fBoolD (j : Json) (k : String) (d : Bool) : Bool :=
  match jopt j k with
  | some (.bool b) => b
  | _ => d

/-! ## events -/

inductive RawEv where
  | op (r : Nat) (j : Json)
  | tick (d : Nat)
  | clean (iv : Nat)

def rawEvents (inp : Json) : R (List RawEv) := do
  (← fArrD inp "events").mapM fun e => do
    match ← fStr e "t" with
    | "tick" => return .tick (← fNat e "d")
    | "clean" => return .clean (← fNat e "iv")
    | "op" => return .op (← fNat e "r") e
    | t => throw s!"isolation: unknown event {t}"

def gopOf (j : Json) : R GOp := do
  let key ← fStr j "key"
  let action := fStrD j "action" ""
  match ← fStr j "k" with
  | "expect" => return .expect key action
  | "observe" => return .observe key action
  | "sat" => return .satisfied key action (← fIntD j "grace" 0)
  | "delete" => return .delete key
  | "get" => return .get key
  | "run" => return .run key action (← fIntD j "grace" 0) (fBoolD j "modified" false) (fBoolD j "err" false)
  | k => throw s!"isolation: unknown grace op {k}"

def eopOf (j : Json) : R EOp := do
  let ck ← fStr j "ck"
  let action := fStrD j "action" ""
  let name := fStrD j "name" ""
  match ← fStr j "k" with
  | "expect" => return .expect ck action name
  | "observe" => return .observe ck action name
  | "sat" => return .satisfied ck
  | "delete" => return .delete ck
  | "get" => return .get ck
  | k => throw s!"isolation: unknown exp op {k}"

/-! ## JSON of observations and stores -/

def graceDump (now : Nat) (g : Grace) : Json :=
  arrJ <| (sortBy (·.1) g).flatMap fun (k, tc) =>
    if tc.isEmpty then [arrJ [strJ k, strJ "", intJ (-1)]]
    else (sortBy (·.1) tc).map fun (a, t) => arrJ [strJ k, strJ a, natJ (now - t)]

def gobsJ : GObs → Json
  | .unit => mkObj [("t", strJ "unit")]
  | .sat ok rem => mkObj [("t", strJ "sat"), ("ok", boolJ ok), ("rem", intJ rem)]
  | .actions none => mkObj [("t", strJ "actions"), ("as", .null)]
  | .actions (some as) => mkObj [("t", strJ "actions"), ("as", arrJ ((sortStr as).map strJ))]
  | .run o => mkObj [("t", strJ "run"), ("retry", boolJ o.retry), ("rem", intJ o.remaining), ("err", boolJ o.err)]

def objsJ (m : AMap (List String)) : Json :=
  arrJ <| (sortBy (·.1) m).map fun (a, names) => arrJ [strJ a, arrJ ((sortStr names).map strJ)]

def expDump (now : Nat) (st : ExpStore) : Json :=
  arrJ <| (sortBy (·.1) st).map fun (k, e) =>
    mkObj [("key", strJ k), ("objs", objsJ e.objs), ("unsat", optJ (fun t => natJ (now - t)) e.firstUnsat)]

def restJ : Rest → Json
  | .none => .null
  | .one a names => mkObj [("a", strJ a), ("names", arrJ ((sortStr names).map strJ))]
  | .ambiguous => strJ "ambiguous"

def createOutS : CreateOut → String
  | .alreadyExists => "alreadyExists" | .blocked => "blocked" | .stableErr => "stableErr"
  | .createErr => "createErr" | .created => "created"

def eobsJ : EObs → Json
  | .unit => mkObj [("t", strJ "unit")]
  | .sat o => mkObj [("t", strJ "sat"), ("ok", boolJ o.ok), ("since", natJ o.since), ("rest", restJ o.rest)]
  | .objs none => mkObj [("t", strJ "objs"), ("m", .null)]
  | .objs (some m) => mkObj [("t", strJ "objs"), ("m", objsJ m)]
  | .created o => mkObj [("t", strJ "created"), ("res", strJ (createOutS o))]

def obsListJ {Obs : Type} (f : Obs → Json) (l : List (Nat × Obs)) : Json :=
  arrJ (l.map fun (r, o) => mkObj [("r", natJ r), ("o", f o)])

/-! ## comparison helpers on the implementation's records -/

def jeq (a b : Json) : Bool := a.compress == b.compress

/-- the impl's `obs` records of rollout r -/
def implObsOf (r : Nat) (obs : List Json) : List Json :=
  obs.filter fun o => match o.getObjVal? "r" with
    | .ok v => (v.getNat?.toOption == some r)
    | _ => false

/-- rows of a grace dump whose key is selected -/
def dumpRestrict (p : String → Bool) (d : Json) : Json :=
  match d with
  | .arr rows => .arr (rows.filter fun row => match row with
      | .arr cols => (match cols[0]? with | some (Json.str k) => p k | _ => false)
      | .obj _ => (match row.getObjVal? "key" with | .ok (Json.str k) => p k | _ => false)
      | _ => false)
  | x => x

/-- keys under which a dump differs from the previous one -/
def dumpKeys (d : Json) : List String :=
  match d with
  | .arr rows => (rows.toList.filterMap fun row => match row with
      | .arr cols => (match cols[0]? with | some (Json.str k) => some k | _ => none)
      | .obj _ => (match row.getObjVal? "key" with | .ok (Json.str k) => some k | _ => none)
      | _ => none).eraseDups
  | _ => []

def touchedKeys (before after : Json) : List String :=
  ((dumpKeys before) ++ (dumpKeys after)).eraseDups.filter fun k =>
    !(jeq (dumpRestrict (· == k) before) (dumpRestrict (· == k) after))

def setField (j : Json) (k : String) (v : Json) : Json := j.setObjVal! k v

/-- rows (key, action, age) of a grace dump -/
def dumpRows (d : Json) : List (String × String × Int) :=
  match d with
  | .arr rows => rows.toList.filterMap fun row => match row with
    | .arr cols => (match cols[0]?, cols[1]?, cols[2]? with
      | some (Json.str k), some (Json.str a), some v => some (k, a, (v.getInt?.toOption).getD 0)
      | _, _, _ => none)
    | _ => none
  | _ => []

def ownActions : String → List String
  | "patchStableService" => ["patchService"]
  | "restoreStableService" => ["restoreService"]
  | "restoreGateway" => ["restoreGateway"]
  | "removeCanaryService" => ["removeCanaryService"]
  | "routeAllToNew" => ["updateRoute"]
  | "finalisingTrafficRouting" => ["restoreService", "restoreGateway", "removeCanaryService"]
  | _ => []

def allTrue (l : List Bool) : Bool := l.all id

/-! ## op grace / exp -/

def handleGrace (inp impl : Json) : R OpResult := do
  let owners ← fNat inp "owners"
  let evs ← (← rawEvents inp).mapM fun e => match e with
    | .op r j => do return Ev.op r (← gopOf (← jget j "g"))
    | .tick d => pure (Ev.tick d)
    | .clean iv => pure (Ev.glob iv)
  let rs := (List.range owners).map (· + 1)
  let j := Grace.run (0, []) evs
  let jointJ := mkObj [("obs", obsListJ gobsJ j.2), ("final", graceDump j.1.1 j.1.2)]
  let soloJ := rs.map fun r =>
    let s := Grace.run (0, []) (proj r evs)
    mkObj [("obs", obsListJ gobsJ s.2), ("final", graceDump s.1.1 s.1.2), ("r", natJ r)]
  -- oracle on the implementation
  let keysOf (r : Nat) : List String := evs.filterMap fun e => match e with
    | .op r' o => if r' = r then some o.key else none
    | _ => none
  let sep := rs.all fun r => sepFor (fun o : GOp => [o.key]) (fun k => (keysOf r).contains k) r evs
  let implJoint ← jget impl "joint"
  let implSolo ← fArrD impl "solo"
  let jobs ← fArrD implJoint "obs"
  let jfinal ← jget implJoint "final"
  let same ← (rs.zip implSolo).mapM fun (r, s) => do
    let sobs ← fArrD s "obs"
    return jeq (arrJ (implObsOf r jobs)) (arrJ sobs) &&
      jeq (dumpRestrict (fun k => (keysOf r).contains k) jfinal) (← jget s "final")
  let nOps := evs.filter (fun e => match e with | .op _ _ => true | _ => false) |>.length
  let ops := evs.filterMap fun e => match e with | .op _ o => some o | _ => none
  let errRep := (ops.zip jobs).all fun (o, ob) => match o with
    | .run _ _ _ _ er =>
      let oj := (ob.getObjVal? "o").toOption.getD .null
      errorReported er (fBoolD oj "retry" false) (fBoolD oj "err" false)
    | _ => true
  return { model := mkObj [("joint", jointJ), ("solo", arrJ soloJ)],
           holds := (if sep then [("C19.same_as_solo", allTrue same)] else []) ++ [("C19.closure_error_reported", errRep)],
           tags := ["op:grace", s!"n:{owners}", if sep then "mode:distinct" else "mode:overlap"] ++
             (if nOps < 2 then ["trivial"] else []) ++
             (if evs.any (fun e => match e with | .tick _ => true | _ => false) then ["ticks"] else []) ++
             (if evs.any (fun e => match e with | .glob _ => true | _ => false) then ["cleaner"] else []) ++
             (if j.2.any (fun o => match o.2 with | .run ro => ro.retry | _ => false) then ["retrySeen"] else []) }

def handleExp (inp impl : Json) : R OpResult := do
  let owners ← fNat inp "owners"
  let evs ← (← rawEvents inp).mapM fun e => match e with
    | .op r j => do return Ev.op r (← eopOf (← jget j "e"))
    | .tick d => pure (Ev.tick d)
    | .clean iv => pure (Ev.glob iv)
  let rs := (List.range owners).map (· + 1)
  let j := ExpStore.run (0, []) evs
  let jointJ := mkObj [("obs", obsListJ eobsJ j.2), ("final", expDump j.1.1 j.1.2)]
  let soloJ := rs.map fun r =>
    let s := ExpStore.run (0, []) (proj r evs)
    mkObj [("obs", obsListJ eobsJ s.2), ("final", expDump s.1.1 s.1.2), ("r", natJ r)]
  let keysOf (r : Nat) : List String := evs.flatMap fun e => match e with
    | .op r' o => if r' = r then o.keys else []
    | _ => []
  let sep := rs.all fun r => sepFor EOp.keys (fun k => (keysOf r).contains k) r evs
  let implJoint ← jget impl "joint"
  let implSolo ← fArrD impl "solo"
  let jobs ← fArrD implJoint "obs"
  let jfinal ← jget implJoint "final"
  let same ← (rs.zip implSolo).mapM fun (r, s) => do
    let sobs ← fArrD s "obs"
    return jeq (arrJ (implObsOf r jobs)) (arrJ sobs) &&
      jeq (dumpRestrict (fun k => (keysOf r).contains k) jfinal) (← jget s "final")
  let nOps := evs.filter (fun e => match e with | .op _ _ => true | _ => false) |>.length
  return { model := mkObj [("joint", jointJ), ("solo", arrJ soloJ)],
           holds := if sep then [("C19.same_as_solo", allTrue same)] else [],
           tags := ["op:exp", s!"n:{owners}", if sep then "mode:distinct" else "mode:overlap"] ++
             (if nOps < 2 then ["trivial"] else []) ++
             (if j.2.any (fun o => match o.2 with | .sat so => !so.ok | _ => false) then ["unsatisfiedSeen"] else []) }

/-! ## op manager -/

structure Ro where
  r : Nat
  ns : String
  name : String
  uid : String
  svc : String
  ing : String
  graces : List Int
  disableGen : Bool
  noProvider : Bool

structure Svc where
  ns : String
  name : String
  uid : String

def roOf (j : Json) : R Ro := do
  return { r := ← fNat j "r", ns := ← fStr j "ns", name := ← fStr j "name", uid := ← fStr j "uid", svc := ← fStr j "svc",
           ing := ← fStr j "ing", graces := ← (← fArrD j "graces").mapM jint, disableGen := ← fBool j "disableGen",
           noProvider := ← fBool j "noProvider" }

def svcOf (j : Json) : R Svc := do
  return { ns := ← fStr j "ns", name := ← fStr j "name", uid := ← fStr j "uid" }

def Ro.ctx (ro : Ro) : TRCtx :=
  { ns := ro.ns, ownerUID := ro.uid, refs := ro.graces.map (fun g => ⟨ro.svc, g⟩), onlyTrafficRouting := false,
    disableGen := ro.disableGen }

def Ro.ident (svcs : List Svc) (ro : Ro) : RIdent :=
  { ns := ro.ns, ownerUID := ro.uid, svc := ro.svc,
    svcUID := match svcs.find? (fun s => s.ns == ro.ns && s.name == ro.svc) with
      | some s => s.uid
      | none => s!"absent-service-of-{ro.r}" }

def Ro.footprint (ro : Ro) : List String :=
  (RV.Isolation.footprint ro.ns ro.svc ro.ing false ro.disableGen).map fun (k, ns, n) => k ++ " " ++ nsName ns n

def closureOf (step : Json) (i : Nat) : R Closure := do
  match (← fArrD step "cl")[i]? with
  | some c => return ⟨← fBool c "modified", ← fBool c "err"⟩
  | none => return ⟨false, false⟩

/-- `found`: the UID of the stable Service as the API server had it when the call started (`none` = absent) -/
def mcall (site : Site) (ro : Ro) (dflt : Int) (found : Option String) (cl : Closure) : MCall :=
  { site := site, c := ro.ctx, defaultGrace := dflt,
    stable := match found with
      | some uid => .ok ⟨ro.ns, ro.svc, uid⟩
      | none => .notFound,
    providerErr := ro.noProvider, cl := cl }

/-- run the model along the implementation's step records; returns the model's records -/
def runManager (ros : List Ro) (dflt : Int) (evs : List RawEv) (only : Option Nat) (steps : List Json) :
    R (List Json × Nat × Grace) := do
  let mut now := 0
  let mut g : Grace := []
  let mut rest := steps
  let mut out : List Json := []
  for e in evs do
    match e with
    | .tick d => now := now + d
    | .clean iv => g := g.cleanOutdated now iv
    | .op r ej =>
      if only.isSome ∧ only ≠ some r then continue
      let call ← fStr ej "call"
      match rest with
      | [] => throw "isolation: implementation reported fewer steps than events"
      | s :: more =>
        rest := more
        if (← fNat s "r") ≠ r ∨ (← fStr s "call") ≠ call then throw "isolation: step record does not match its event"
        match ros.find? (·.r == r) with
        | none => throw s!"isolation: unknown rollout {r}"
        | some ro =>
          let found ← fOptStr s "stable"
          let pre := graceDump now g
          let single (site : Site) : R Json := do
            let x := mcall site ro dflt found (← closureOf s 0)
            let res := managerCall g now x
            pure (setField (setField (setField s "b" (boolJ res.2.retry)) "err" (boolJ res.2.err)) "rem" (intJ res.2.remaining))
          let mut recd := s
          match call with
          | "patchStableService" =>
            recd ← single .patchService
            g := (managerCall g now (mcall .patchService ro dflt found (← closureOf s 0))).1
          | "restoreStableService" =>
            recd ← single .restoreService
            g := (managerCall g now (mcall .restoreService ro dflt found (← closureOf s 0))).1
          | "restoreGateway" =>
            recd ← single .restoreGateway
            g := (managerCall g now (mcall .restoreGateway ro dflt found (← closureOf s 0))).1
          | "removeCanaryService" =>
            recd ← single .removeCanaryService
            g := (managerCall g now (mcall .removeCanaryService ro dflt found (← closureOf s 0))).1
          | "routeAllToNew" =>
            recd ← single .updateRoute
            g := (managerCall g now (mcall .updateRoute ro dflt found (← closureOf s 0))).1
          | "finalisingTrafficRouting" =>
            let a := mcall .restoreService ro dflt found (← closureOf s 0)
            let b := mcall .restoreGateway ro dflt found (← closureOf s 1)
            let c := mcall .removeCanaryService ro dflt found (← closureOf s 2)
            let res := finalising g now a b c
            recd := setField (setField (setField s "b" (boolJ res.2.done)) "err" (boolJ res.2.err)) "rem" (intJ res.2.recheck)
            g := res.1
          | "doTrafficRouting" => pure ()      -- does not use the shared helpers
          | c => throw s!"isolation: unknown call {c}"
          out := out ++ [setField (setField recd "pre" pre) "store" (graceDump now g)]
  return (out, now, g)

def stepsOf (r : Nat) (steps : List Json) : List Json := implObsOf r steps

def restrictStore (p : String → Bool) (s : Json) : Json :=
  let s := match s.getObjVal? "store" with
    | .ok d => setField s "store" (dumpRestrict p d)
    | _ => s
  match s.getObjVal? "pre" with
  | .ok d => setField s "pre" (dumpRestrict p d)
  | _ => s

/-- keys of the shared map that the steps of every rollout changed, from the impl's store records -/
def usedKeys (rs : List Nat) (steps : List Json) : List (Nat × List String) := Id.run do
  let mut acc : List (Nat × List String) := rs.map (·, [])
  for s in steps do
    let cur := (s.getObjVal? "store").toOption.getD (.arr #[])
    let prev := (s.getObjVal? "pre").toOption.getD (.arr #[])
    let r := ((s.getObjVal? "r").toOption.bind (·.getNat?.toOption)).getD 0
    let t := touchedKeys prev cur
    acc := acc.map fun (r', ks) => if r' = r then (r', (ks ++ t).eraseDups) else (r', ks)
  return acc

def writesOf (s : Json) : List String :=
  match s.getObjVal? "writes" with
  | .ok (.arr ws) => ws.toList.filterMap fun w => match w with
    | .arr cols => (match cols[1]?, cols[2]? with
      | some (Json.str k), some (Json.str o) => some (k ++ " " ++ o)
      | _, _ => none)
    | _ => none
  | _ => []

def handleManager (inp impl : Json) : R OpResult := do
  let ros ← (← fArrD inp "rollouts").mapM roOf
  let svcs ← (← fArrD inp "services").mapM svcOf
  let dflt ← fInt inp "defaultGrace"
  let evs ← rawEvents inp
  let implJoint ← jget impl "joint"
  let implSolo ← fArrD impl "solo"
  let jsteps ← fArrD implJoint "steps"
  let (mj, jnow, jg) ← runManager ros dflt evs none jsteps
  let jointJ := mkObj [("steps", arrJ mj), ("final", graceDump jnow jg)]
  let soloJ ← (ros.zip implSolo).mapM fun (ro, s) => do
    let (ms, snow, sg) ← runManager ros dflt evs (some ro.r) (← fArrD s "steps")
    return mkObj [("steps", arrJ ms), ("final", graceDump snow sg), ("r", natJ ro.r)]
  -- who is who
  let ids := ros.map fun ro => (ro.r, ro.ident svcs)
  let distinct := allDistinct ids
  let clash := ros.any fun a => ros.any fun b => a.r != b.r &&
    !(noNameClash a.ns a.svc a.ing false a.disableGen b.ns b.svc b.ing false b.disableGen)
  -- oracles on the implementation's records
  let same ← (ros.zip implSolo).mapM fun (ro, s) => do
    let p := fun k => (ro.ident svcs).keys.contains k
    let ssteps ← fArrD s "steps"
    return jeq (arrJ ((stepsOf ro.r jsteps).map (restrictStore p))) (arrJ (ssteps.map (restrictStore p)))
  let used := usedKeys (ros.map (·.r)) jsteps
  let within := jsteps.all fun s =>
    let r := ((s.getObjVal? "r").toOption.bind (·.getNat?.toOption)).getD 0
    match ros.find? (·.r == r) with
    | some ro => (writesOf s).all ro.footprint.contains
    | none => false
  let calls := jsteps.filterMap fun s => (s.getObjVal? "call").toOption.bind (·.getStr?.toOption)
  let anyB (k : String) := jsteps.any fun s => fBoolD s k false
  let aframe := jsteps.all fun s =>
    actionFrame (ownActions (fStrD s "call" ""))
      (dumpRows ((s.getObjVal? "pre").toOption.getD .null)) (dumpRows ((s.getObjVal? "store").toOption.getD .null))
  -- a write that failed (injected fault) must surface as an error of the call, which then never reports completion
  let errRep := jsteps.all fun s =>
    let fault := match s.getObjVal? "writes" with
      | .ok (.arr ws) => ws.toList.any fun w => match w with
        | .arr cols => (match cols[3]? with | some (Json.bool ok) => !ok | _ => false)
        | _ => false
      | _ => false
    let call := fStrD s "call" ""
    if call == "finalisingTrafficRouting" || call == "doTrafficRouting" then !fault || (fBoolD s "err" false && !fBoolD s "b" true)
    else errorReported fault (fBoolD s "b" false) (fBoolD s "err" false)
  return { model := mkObj [("joint", jointJ), ("solo", arrJ soloJ)],
           holds := (if distinct then [("C19.same_as_solo", allTrue same), ("C19.keys_distinct", keysDistinct used)] else []) ++
                    [("C19.writes_within_footprint", within), ("C19.action_frame", aframe), ("C19.closure_error_reported", errRep)],
           tags := ["op:manager", s!"n:{ros.length}",
                    if !distinct then "mode:sharedObjects" else if clash then "mode:nameClash" else "mode:distinct"] ++
             (if clash ∧ distinct then ["guard:canaryNameClash"] else []) ++
             (if calls.length < 2 then ["trivial"] else []) ++
             (if evs.any (fun e => match e with | .tick _ => true | _ => false) then ["ticks"] else []) ++
             (if evs.any (fun e => match e with | .clean _ => true | _ => false) then ["cleaner"] else []) ++
             (if anyB "err" then ["errSeen"] else []) ++
             (if jsteps.any (fun s => fBoolD s "b" false && (fStrD s "call" "") != "doTrafficRouting" && (fStrD s "call" "") != "finalisingTrafficRouting") then ["retrySeen"] else []) ++
             (if (ros.map (·.graces)).eraseDups.length > 1 then ["differentGrace"] else []) ++
             (if ros.any (fun a => ros.any fun b => a.r != b.r && a.svc == b.svc && a.ns != b.ns) then ["sameServiceNameOtherNs"] else []) ++
             (calls.eraseDups.map (fun c => s!"call:{c}")) }

/-! ## op brexp -/

structure Rel where
  r : Nat
  ns : String
  name : String
  hasWorkload : Bool

def runBr (rels : List Rel) (timeout : Nat) (evs : List RawEv) (only : Option Nat) (steps : List Json) :
    R (List Json × Nat × ExpStore) := do
  let mut now := 0
  let mut st : ExpStore := []
  let mut rest := steps
  let mut out : List Json := []
  for e in evs do
    match e with
    | .tick d => now := now + d
    | .clean _ => pure ()
    | .op r ej =>
      if only.isSome ∧ only ≠ some r then continue
      let call ← fStr ej "call"
      match rest with
      | [] => throw "isolation: implementation reported fewer steps than events"
      | s :: more =>
        rest := more
        if (← fNat s "r") ≠ r ∨ (← fStr s "call") ≠ call then throw "isolation: step record does not match its event"
        match rels.find? (·.r == r) with
        | none => throw s!"isolation: unknown release {r}"
        | some rel =>
          let mut recd := s
          let pre := expDump now st
          match call with
          | "create" =>
            let createOk := (jopt ej "failAt").isNone
            let res := brCreate st now timeout rel.ns rel.name (← fBool s "known") rel.hasWorkload createOk (fStrD s "uid" "")
            st := res.1
            recd := setField s "res" (strJ (createOutS res.2))
          | "deliver" | "deliverForeign" =>
            match jopt s "obj" with
            | none => pure ()
            | some o =>
              let owner : Option Owner := match jopt o "ownerKind" with
                | some (.str k) => some ⟨k, fStrD o "ownerName" ""⟩
                | _ => none
              st := brObserved st (← fStr o "ns") (← fStr o "uid") owner
          | c => throw s!"isolation: unknown call {c}"
          out := out ++ [setField (setField recd "pre" pre) "store" (expDump now st)]
  return (out, now, st)

def createOutOf : String → CreateOut
  | "alreadyExists" => .alreadyExists | "blocked" => .blocked | "stableErr" => .stableErr
  | "createErr" => .createErr | _ => .created

/-- `createAllowed` on one implementation record: the key's row of the store before the call -/
def createAllowedJ (timeout : Nat) (ck : String) (s : Json) : Bool :=
  let row : Option Json := match s.getObjVal? "pre" with
    | .ok (.arr rows) => rows.toList.find? fun r => match r.getObjVal? "key" with | .ok (Json.str k) => k == ck | _ => false
    | _ => none
  let pending := match row with
    | some r => (match r.getObjVal? "objs" with
      | .ok (.arr os) => os.toList.any fun o => match o with
        | .arr cols => (match cols[1]? with | some (Json.arr names) => names.size > 0 | _ => false)
        | _ => false
      | _ => false)
    | none => false
  let unsat : Option Nat := match row with
    | some r => (match r.getObjVal? "unsat" with | .ok v => v.getNat?.toOption | _ => none)
    | none => none
  createAllowed pending unsat timeout (createOutOf (fStrD s "res" ""))

def handleBr (inp impl : Json) : R OpResult := do
  let rels ← (← fArrD inp "releases").mapM fun j => do
    return ({ r := ← fNat j "r", ns := ← fStr j "ns", name := ← fStr j "name", hasWorkload := ← fBool j "hasWorkload" } : Rel)
  let timeout ← fNat inp "timeout"
  let evs ← rawEvents inp
  let implJoint ← jget impl "joint"
  let implSolo ← fArrD impl "solo"
  let jsteps ← fArrD implJoint "steps"
  let (mj, jnow, jst) ← runBr rels timeout evs none jsteps
  let jointJ := mkObj [("steps", arrJ mj), ("final", expDump jnow jst)]
  let soloJ ← (rels.zip implSolo).mapM fun (rel, s) => do
    let (ms, snow, sst) ← runBr rels timeout evs (some rel.r) (← fArrD s "steps")
    return mkObj [("steps", arrJ ms), ("final", expDump snow sst), ("r", natJ rel.r)]
  let distinct := brAllDistinct (rels.map fun x => (x.r, x.ns, x.name))
  let same ← (rels.zip implSolo).mapM fun (rel, s) => do
    let p := fun k => k == nsName rel.ns rel.name
    let ssteps ← fArrD s "steps"
    return jeq (arrJ ((stepsOf rel.r jsteps).map (restrictStore p))) (arrJ (ssteps.map (restrictStore p)))
  let used := usedKeys (rels.map (·.r)) jsteps
  let results := jsteps.filterMap fun s => (s.getObjVal? "res").toOption.bind (·.getStr?.toOption)
  return { model := mkObj [("joint", jointJ), ("solo", arrJ soloJ)],
           holds := (if distinct then [("C19.same_as_solo", allTrue same), ("C19.keys_distinct", keysDistinct used)] else []) ++
             [("C19.create_respects_expectation", jsteps.all fun s =>
                if fStrD s "call" "" == "create" then
                  (match rels.find? (fun x => some x.r == ((s.getObjVal? "r").toOption.bind (·.getNat?.toOption))) with
                   | some rel => createAllowedJ timeout (nsName rel.ns rel.name) s
                   | none => false)
                else true)],
           tags := ["op:brexp", s!"n:{rels.length}", if distinct then "mode:distinct" else "mode:sharedObjects"] ++
             (if results.length < 2 then ["trivial"] else []) ++ (results.eraseDups.map (fun c => s!"create:{c}")) ++
             (if rels.any (fun a => rels.any fun b => a.r != b.r && a.name == b.name && a.ns != b.ns) then ["sameNameOtherNs"] else []) }

/-! ## op watch -/

def isSubset (a b : List String) : Bool := a.all b.contains

def strsOf (j : Json) (k : String) : List String :=
  match j.getObjVal? k with
  | .ok (.arr xs) => xs.toList.filterMap (·.getStr?.toOption)
  | _ => []

structure WRo where
  r : Nat
  gvk : String
  fails : List Bool

/-- the model along the events: a reconcile is `watchStart`, then (if it calls `AddWatcherDynamically`) the records of
    the reconciles that run while the call is in flight, then `watchFinish` -/
partial def runWatch (ros : List WRo) (evs : List RawEv) (only : Option Nat) : R (List Json) := do
  let mut w := staticKinds
  let mut ord : List (Nat × Nat) := []
  let mut out : List Json := []
  let dyn (w : List String) : Json := arrJ ((sortStr (w.filter (!staticKinds.contains ·))).map strJ)
  for e in evs do
    match e with
    | .op r ej =>
      let call ← fStr ej "call"
      let nestedAll ← (match jopt ej "nested" with | some v => (do (← jarr v).mapM jnat) | none => pure [])
      let nested := nestedAll.filter fun n => only.isNone || only == some n
      -- the reconciles of this event in the order in which they do their `Load`
      let mine := only.isNone || only == some r
      let seq : List (Nat × Bool) :=   -- (rollout, isTheInFlightOne)
        if call == "inflight" then (if mine then [(r, true)] else []) ++ nested.map (·, false)
        else (if mine then [(r, false)] else [])
      -- the in-flight one starts first and finishes last — unless it makes no call, then it simply runs first
      let mut pendingRec : Option (Nat × String × Bool) := none   -- (r, gvk, ok) of the call in flight
      let mut during := 0
      for (q, inflight) in seq do
        match ros.find? (·.r == q) with
        | none => throw s!"isolation: unknown rollout {q}"
        | some ro =>
          if watchStart w ro.gvk then
            let k := (ord.lookup q).getD 0
            ord := (q, k + 1) :: ord.filter (·.1 != q)
            let ok := !((ro.fails[k]?).getD false)
            if inflight then
              pendingRec := some (q, ro.gvk, ok)
            else
              let fin := watchFinish w ro.gvk (if ok then .added else .err)
              w := fin.1
              if pendingRec.isSome then during := during + 1
              out := out ++ [mkObj [("r", natJ q), ("attempts", arrJ [arrJ [strJ ro.gvk, boolJ ok]]), ("registry", dyn w),
                ("err", boolJ (!ok)), ("panic", boolJ false), ("during", natJ 0)]]
          else
            if pendingRec.isSome then during := during + 1
            out := out ++ [mkObj [("r", natJ q), ("attempts", arrJ []), ("registry", dyn w), ("panic", boolJ false), ("during", natJ 0)]]
      match pendingRec with
      | some (q, gvk, ok) =>
        let fin := watchFinish w gvk (if ok then .added else .err)
        w := fin.1
        out := out ++ [mkObj [("r", natJ q), ("attempts", arrJ [arrJ [strJ gvk, boolJ ok]]), ("registry", dyn w),
          ("err", boolJ (!ok)), ("panic", boolJ false), ("during", natJ during)]]
      | none => pure ()
    | _ => pure ()
  return out

def wrecOf (ros : List WRo) (j : Json) : R WRec := do
  let r ← fNat j "r"
  let atts ← (← fArrD j "attempts").mapM fun a => do
    match (← jarr a)[1]? with
    | some (Json.bool b) => pure b
    | _ => throw "isolation: bad attempt record"
  return { r := r, gvk := ((ros.find? (·.r == r)).map (·.gvk)).getD "", attempts := atts, registry := strsOf j "registry",
           err := fBoolD j "err" false, during := (← fNat j "during") }

def handleWatch (inp impl : Json) : R OpResult := do
  let ros ← (← fArrD inp "rollouts").mapM fun j => do
    let fails ← (← fArrD j "fails").mapM jbool
    return ({ r := ← fNat j "r", gvk := (← fStr j "apiVersion") ++ ", Kind=" ++ (← fStr j "kind"), fails := fails } : WRo)
  let evs ← rawEvents inp
  let implJoint ← jget impl "joint"
  let implSolo ← fArrD impl "solo"
  let jsteps ← fArrD implJoint "steps"
  -- the part of `Reconcile` after the watch lines is not this model's subject: whether a reconcile that did not
  -- fail in `Watch` returned an error is echoed
  -- (and so is whether that later part panicked: oracle `C19.no_panic`)
  let echoErr (model : List Json) (im : List Json) : List Json :=
    (model.zip (im.map some ++ List.replicate model.length none)).map fun (m, i) =>
      match i with
      | none => m
      | some s =>
        let m := match m.getObjVal? "err" with
          | .ok _ => m
          | _ => setField m "err" ((s.getObjVal? "err").toOption.getD .null)
        if (m.getObjVal? "attempts").toOption.map (·.compress) == some "[]" then
          setField m "panic" ((s.getObjVal? "panic").toOption.getD .null)
        else m
  let mj ← runWatch ros evs none
  let jointJ := mkObj [("steps", arrJ (echoErr mj jsteps))]
  let soloJ ← (ros.zip implSolo).mapM fun (ro, s) => do
    let ms ← runWatch ros evs (some ro.r)
    return mkObj [("steps", arrJ (echoErr ms (← fArrD s "steps"))), ("r", natJ ro.r)]
  -- oracles on the implementation's records
  let recs ← jsteps.mapM (wrecOf ros)
  let frame := Id.run do
    let mut prev : List String := []
    let mut ok := true
    for x in recs do
      ok := ok && isSubset prev x.registry && (x.registry.filter (!prev.contains ·)).all (· == x.gvk)
      prev := x.registry
    return ok
  let shared (ro : WRo) : Bool := !staticKinds.contains ro.gvk && ros.any fun o => o.r != ro.r && o.gvk == ro.gvk
  let same ← (ros.zip implSolo).mapM fun (ro, s) => do
    let srecs ← (← fArrD s "steps").mapM (wrecOf ros)
    return watchSolo (shared ro) (establishedSeq staticKinds ro.r recs) (establishedSeq staticKinds ro.r srecs)
  let dyn := ros.filter fun ro => !staticKinds.contains ro.gvk
  let anyFail := recs.any fun x => x.attempts.any (!·)
  return { model := mkObj [("joint", jointJ), ("solo", arrJ soloJ)],
           holds := [("C19.watch_frame", frame), ("C19.same_as_solo", allTrue same),
                     ("C19.watch_registered_iff_succeeded", watchRegIffSucc staticKinds recs),
                     ("C19.watch_failed_not_registered", watchRetried staticKinds recs),
                     ("C19.watch_error_reported", watchErrReported recs),
                     ("C19.no_panic", jsteps.all fun s => !fBoolD s "panic" false)],
           tags := ["op:watch", s!"n:{ros.length}", s!"ctl:{fStrD inp "ctl" "rollout"}", s!"dynamicKinds:{(dyn.map (·.gvk)).eraseDups.length}"] ++
             (if dyn.isEmpty then ["trivial"] else []) ++
             (if fStrD inp "ctl" "rollout" == "batchrelease" ∧ !dyn.isEmpty then ["guard:brUnsupportedKindPanic"] else []) ++
             (if dyn.any shared then ["sharedDynamicKind"] else []) ++
             (if anyFail then ["watchFailed"] else []) ++
             (if recs.any (·.during > 0) then ["watchInFlight"] else []) ++
             (if recs.any (fun x => x.during > 0 && x.attempts.any (!·)) then ["inFlightWatchFailed"] else []) }

/-! ## op race -/

def handleRace (inp : Json) : R OpResult := do
  match jopt inp "result" with
  | none => return { model := mkObj [], holds := [], tags := ["op:race", "race:not-run", "trivial", "supporting"] }
  | some res =>
    let built := fBoolD res "built" false
    let races ← fIntD res "races" 0
    let failed := fBoolD res "failed" false
    let ran := fBoolD inp "ran" false
    if !built then
      return { model := mkObj [], holds := [], tags := ["op:race", "race:unavailable", "trivial", "supporting"] }
    return { model := mkObj [], holds := [("C19.race_free_supporting", races == 0 && !failed)],
             tags := ["op:race", "supporting", if races == 0 && !failed then "race:clean" else "race:REPORTED",
                      if ran then "race:ran-now" else "race:recorded-earlier", "trivial"] }

def handle : Handler := fun op inp impl => do
  match jopt impl "panic" with
  | some _ => return { model := .null, holds := [("C19.no_panic", false)], tags := [s!"op:{op}", "panic"] }
  | none =>
    match op with
    | "grace" => handleGrace inp impl
    | "exp" => handleExp inp impl
    | "manager" => handleManager inp impl
    | "brexp" => handleBr inp impl
    | "watch" => handleWatch inp impl
    | "race" => handleRace inp
    | _ => .error s!"isolation: unknown op {op}"

end RV.Drv.Isolation
