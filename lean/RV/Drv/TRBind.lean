import RV.Json
import RV.Drv.Fault
import RV.Drv.Traffic
import RV.Drv.TRSM
import RV.Drv.RolloutSM
import RV.Model.TRBind
import RV.Oracle.TRBind
import RV.Oracle.RolloutSM
namespace RV.Drv.TRBind
open Lean RV RV.Traffic RV.TRBind RV.Oracle.TRBind RV.Drv.Traffic

def troOfJson (j : Json) : R TRO := do
  return { deleting := ← fBool j "deleting", hasFinalizer := ← fBool j "hasFinalizer",
           holders := ← (← fArrD j "holders").mapM jnat, phase := RV.Drv.TRSM.phaseOf (← fStr j "phase"),
           weight := ← fOptNat j "weight", grace := ← fNat j "grace", hasRef := ← fBool j "hasRef" }
def troToJson (t : TRO) : Json :=
  mkObj [("deleting", boolJ t.deleting), ("hasFinalizer", boolJ t.hasFinalizer), ("holders", arrJ (t.holders.map natJ)),
    ("phase", strJ (RV.Drv.TRSM.phaseStr t.phase)), ("weight", optJ natJ t.weight), ("grace", natJ t.grace), ("hasRef", boolJ t.hasRef)]

def optTR (j : Json) (k : String) : R (Option TRO) :=
  match jopt j k with
  | none => pure none
  | some x => do pure (some (← troOfJson x))

/-- the world of one rollout: its `net` / `mem` are the joint state's -/
def wOfJson (j : Json) : R RolloutSM.World := do
  let wl ← (match jopt j "wl" with | none => pure none | some x => do pure (some (← RV.Drv.RolloutSM.wlOfJson x)))
  let br ← (match jopt j "br" with | none => pure none | some x => do pure (some (← RV.Drv.RolloutSM.brOfJson x)))
  return { ro := ← RV.Drv.RolloutSM.roOfJson (← jget j "ro"), wl := wl, br := br, net := default, mem := Mem.empty }

/-- the age of the Progressing condition is shown only while it is read (reason Initializing) -/
def roToJson (r : RolloutSM.Rollout) : Json :=
  let j := RV.Drv.RolloutSM.roToJson r
  if r.reason = .initializing then j.setObjVal! "condAge" (strJ (RV.Drv.RolloutSM.ageStr r.condAge)) else j

def wToJson (w : RolloutSM.World) : Json :=
  mkObj [("ro", roToJson w.ro), ("wl", optJ RV.Drv.RolloutSM.wlToJson w.wl), ("br", optJ RV.Drv.RolloutSM.brToJson w.br)]

def entryOfJson (j : Json) : R Entry := do
  return { bound := ← fBool j "bound", gone := ← fBool j "gone", w := ← wOfJson (← jget j "w") }
def entryToJson (e : Entry) : Json :=
  mkObj [("bound", boolJ e.bound), ("gone", boolJ e.gone), ("w", wToJson e.w)]

def jsOfJson (j : Json) : R JS := do
  return { tr := ← optTR j "tr", net := ← netOfJson (← jget j "net"), mem := ← memOfJson (← jget j "mem"),
           ros := ← (← fArrD j "ros").mapM entryOfJson }
def jsToJson (s : JS) : Json :=
  mkObj [("tr", optJ troToJson s.tr), ("net", netToJson s.net), ("mem", memToJson s.mem), ("ros", arrJ (s.ros.map entryToJson))]

def faultOf : String → TFault
  | "get" => .get | "update" => .update | _ => .none

def labelOfJson (j : Json) : R Label := do
  let k ← fStr j "k"
  let i := (jopt j "i").bind (fun x => x.getNat?.toOption) |>.getD 0
  match k with
  | "ro" => return .ro i (faultOf ((jopt j "f").bind (fun x => x.getStr?.toOption) |>.getD "none"))
  | "tr" => return .tr
  | "tick" => return .tick
  | "crash" => return .crash
  | "deleteTR" => return .deleteTR
  | "createTR" =>
    let g := (jopt j "grace").bind (fun x => x.getNat?.toOption) |>.getD 0
    let hr := (jopt j "hasRef").bind (fun x => x.getBool?.toOption) |>.getD false
    return .createTR (← fOptNat j "weight") g hr
  | "editStrategy" => return .editStrategy (← fOptNat j "weight")
  | "deleteRo" => return .deleteRo i
  | "perturb" =>
    match jopt j "w" with
    | some w => return .perturb i (← wOfJson w)
    | none => return .tick   -- never emitted
  | "envNet" => return .envNet (← netOfJson (← jget j "net"))
  | _ => .error s!"trbind: unknown label {k}"

def posStr : Pos → String | .init => "init" | .fin => "fin" | .other => "other"

/-- the extra outputs of the two reconciles -/
def infoOf (s : JS) (l : Label) : List (String × Json) :=
  match l with
  | .ro i f =>
    (match s.ros[i]? with
     | some e =>
       if e.gone then [] else
       (match roReconcile i e.bound (roWorld s e) s.tr f with
        | .val r _ => [("requeue", boolJ r.requeue), ("err", boolJ r.err)]
        | .panic => [])
     | none => [])
  | .tr =>
    (match s.tr with
     | some t => let r := trReconcile t s.net s.mem
                 [("requeue", boolJ r.requeue), ("err", boolJ r.err), ("writes", arrJ (r.writes.map strJ))]
     | none => [])
  | _ => []

def phaseTag (tr : Option TRO) : String :=
  match tr with
  | none => "tr:absent"
  | some t => s!"tr:{RV.Drv.TRSM.phaseStr t.phase}" ++ (if t.deleting then "+deleting" else "")

def obsOfJson (j : Json) : R Obs := do
  return { k := ← fStr j "k", tr := ← optTR j "tr", net := ← netOfJson (← jget j "net"),
           err := (jopt j "err").bind (fun x => x.getBool?.toOption) |>.getD false }

/-- rollout `j`'s worker adds / removes its progressing finalizer (an add is refused on an object in deletion) -/
def otherWrites (j : Nat) (add : Bool) (t : TRO) : Option TRO :=
  stored { t with holders := if add then (if t.deleting || j ∈ t.holders then t.holders else insertSorted j t.holders)
                             else t.holders.filter (· ≠ j) }

def handle : Handler := fun op inp impl => do
  match op with
  | "bstep" =>
    let pre ← jsOfJson (← jget inp "js")
    let lj ← jget inp "label"
    let l ← labelOfJson lj
    let kind ← fStr lj "k"
    let src := (jopt inp "src").bind (fun x => x.getStr?.toOption) |>.getD "?"
    -- `race {j, add}` on a Rollout reconcile: rollout j's worker adds / removes ITS progressing finalizer while this reconcile
    -- writes its own; the first Update meets a 409 and `retry.RetryOnConflict` re-reads, so the outcome is this reconcile's
    -- finalizer change applied to the object the other writer left (the two changes commute: different names).  Only a
    -- reconcile that writes the object's finalizers meets the other writer.
    let race : Option (Nat × Bool) := match jopt lj "race" with
      | some r => (match (jopt r "j").bind (fun x => x.getNat?.toOption), (jopt r "add").bind (fun x => x.getBool?.toOption) with
                   | some j, some a => some (j, a)
                   | _, _ => none)
      | none => none
    let modelStep := match step pre l, race with
      | some s', some (j, add) =>
        if holdersOf s'.tr != holdersOf pre.tr then
          some { s' with tr := s'.tr.bind (otherWrites j add) }
        else some s'
      | m, _ => m
    let model := match modelStep with
      | none => mkObj [("panic", strJ "?")]
      | some s' => mkObj (("js", jsToJson s') :: infoOf pre l ++
          (if race.isSome then [("raced", boolJ (match step pre l with | some s1 => holdersOf s1.tr != holdersOf pre.tr | none => false))] else []))
    let implPanic := (jopt impl "panic").isSome
    let mut tags := [s!"label:{kind}", s!"src:{src}", phaseTag pre.tr, s!"ros:{pre.ros.length}", s!"holders:{(holdersOf pre.tr).length}"]
    if race.isSome then
      tags := tags ++ [match jopt impl "raced" with | some (.bool true) => "race:conflict-met-a-concurrent-finalizer-write" | _ => "race:no-finalizer-write"]
    let mut holds : List (String × Bool) := [("C09.bind_no_panic", !implPanic || modelStep.isNone)]
    if implPanic then
      return { model := model, holds := holds, tags := "panic" :: tags }
    let post ← jsOfJson (← jget impl "js")
    let ierr := (jopt impl "err").bind (fun x => x.getBool?.toOption) |>.getD false
    -- a raced reconcile is judged against the object the concurrent writer left (the harness reports whether the race happened)
    let implRaced := match jopt impl "raced" with | some (.bool true) => true | _ => false
    let pre : JS := match race with
      | some (j, add) => if implRaced then { pre with tr := pre.tr.bind (otherWrites j add) } else pre
      | none => pre
    -- every label: the object disappears only in deletion with its last finalizer
    holds := holds ++ [("C18.bind_held_stays_visible", staysVisible l pre.tr post.tr)]
    match l with
    | .tr =>
      holds := holds ++ [("C03.bind_routes_only_while_held", routesOnlyWhileHeld pre post),
                         ("C05.bind_held_not_restored", heldNotRestored pre post),
                         ("C05.bind_finalizing_unheld", finalizingEntryUnheld pre.tr post.tr),
                         ("C18.bind_tr_finalizer_guard", trFinalizerGuard pre post ((jopt impl "requeue").bind (fun x => x.getBool?.toOption) |>.getD false)),
                         ("C18.bind_tr_keeps_holders", trKeepsHolders pre.tr post.tr)]
      tags := tags ++ [if routed pre.net post.net then "tr:routes" else if withdrawn pre.net post.net then "tr:withdraws" else "tr:nogw",
                       if pre.tr.isNone then "trivial" else "tr:present"]
    | .ro i f =>
      match pre.ros[i]?, post.ros[i]? with
      | some e, some e' =>
        if e.gone then tags := tags ++ ["trivial", "ro:gone"] else
        let w := roWorld pre e
        let pos := position w
        let reached := faultReached i e.bound w pre.tr f
        holds := holds ++ [("C03.bind_rollout_waits", leavesInitHeld i e e' pre.tr post.tr && addedOnlyWhenOpen i pre.tr post.tr),
                           ("C05.bind_others_kept", othersKept i pre.tr post.tr),
                           ("C05.bind_finalise_finalizer_off", finaliseFinalizerOff i pos e e' post.tr),
                           ("C06.bind_fault_reported", faultReported reached ierr e e' pre.tr post.tr)]
        tags := tags ++ [s!"pos:{posStr pos}", if e.bound then "bound" else "unbound",
                         s!"reason:{RV.Drv.RolloutSM.reasonStr e.w.ro.reason}", s!"fault:{(match f with | .none => "none" | .get => "get" | .update => "update")}"] ++
                        (if reached then ["fault:reached"] else []) ++
                        (if guardCompletedBeforeRestored pos e e' post.tr then ["obs:completedBeforeRestored"] else []) ++
                        (if !(holdersOf pre.tr).contains i && (holdersOf post.tr).contains i then ["ro:adds-finalizer"] else []) ++
                        (if (holdersOf pre.tr).contains i && !(holdersOf post.tr).contains i then ["ro:removes-finalizer"] else []) ++
                        (if e.bound && initializing e.w.ro && rolling e'.w.ro then ["ro:leaves-init"] else []) ++
                        (if e.bound && pos == .fin && cleanupMoved e e' then ["ro:cleanup-moves"] else [])
      | _, _ => tags := tags ++ ["trivial"]
    | _ => pure ()
    return { model := model, holds := holds, tags := tags }
  | "trace" =>
    let obs ← (← fArrD inp "obs").mapM obsOfJson
    let released := obs.any fun o => match o.tr with
      | some t => t.holders.isEmpty && (t.phase == .progressing || t.phase == .finalizing) && !t.deleting | none => false
    return { model := .null, holds := [("C05.bind_released_means_restored", releasedMeansRestored obs)],
             tags := ["trace", if released then "trace:released" else "trace:never-released", s!"tracelen:{obs.length / 20 * 20}+"] ++
                     (if released then [] else ["trivial"]) }
  | "fault" => RV.Drv.Fault.handleFault ["C03", "C05", "C06", "C09", "C18"] impl
  | _ => .error s!"trbind: unknown op {op}"

end RV.Drv.TRBind
