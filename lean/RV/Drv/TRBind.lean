import RV.Json
namespace RV.Drv.TRBind
open Lean RV
/-- stub: replaced by the slice that owns this suite -/
def handle : Handler := fun _ _ _ => .error "suite not built yet"
end RV.Drv.TRBind
