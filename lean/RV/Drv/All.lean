import RV.Json
import RV.Drv.Echo
import RV.Drv.Arith
namespace RV.Drv
def lookup : String → Option Handler
  | "echo" => some Echo.handle
  | "arith" => some Arith.handle
  | _ => none
end RV.Drv
