import RV.Json
import RV.Drv.Echo
import RV.Drv.Arith
import RV.Drv.Gateway
import RV.Drv.LabelPatch
import RV.Drv.Conversion
import RV.Drv.Ingress
import RV.Drv.Custom
import RV.Drv.Webhook
import RV.Drv.Validate
import RV.Drv.DepSync
import RV.Drv.LuaJson
import RV.Drv.BatchCtx
import RV.Drv.Executor
import RV.Drv.RolloutSM
import RV.Drv.Traffic
import RV.Drv.TRSM
import RV.Drv.Tables
import RV.Drv.Cluster
import RV.Drv.CtlPDeploy
import RV.Drv.CtlCanary
import RV.Drv.CtlBlueGreen
import RV.Drv.CtlSts
import RV.Drv.Isolation
import RV.Drv.ClosedLoop
import RV.Drv.Wakeup
import RV.Drv.TrafficX
import RV.Drv.Finder
import RV.Drv.DepCtl
import RV.Drv.ExecutorX
import RV.Drv.TRBind
import RV.Drv.ClosedLoopBG
import RV.Drv.Extra2
namespace RV.Drv
/-- suite name ↦ handler.  One file per suite so that suites can be developed independently. -/
def lookup : String → Option Handler
  | "echo" => some Echo.handle
  | "arith" => some Arith.handle
  | "gateway" => some Gateway.handle
  | "labelpatch" => some LabelPatch.handle
  | "conversion" => some Conversion.handle
  | "ingress" => some Ingress.handle
  | "custom" => some Custom.handle
  | "webhook" => some Webhook.handle
  | "validate" => some Validate.handle
  | "depsync" => some DepSync.handle
  | "luajson" => some LuaJson.handle
  | "batchctx" => some BatchCtx.handle
  | "executor" => some Executor.handle
  | "rolloutsm" => some RolloutSM.handle
  | "traffic" => some Traffic.handle
  | "trsm" => some TRSM.handle
  | "tables" => some Tables.handle
  | "cluster" => some Cluster.handle
  | "ctlpdeploy" => some CtlPDeploy.handle
  | "ctlcanary" => some CtlCanary.handle
  | "ctlbluegreen" => some CtlBlueGreen.handle
  | "ctlsts" => some CtlSts.handle
  | "isolation" => some Isolation.handle
  | "closedloop" => some ClosedLoop.handle
  | "wakeup" => some Wakeup.handle
  | "trafficx" => some TrafficX.handle
  | "finder" => some Finder.handle
  | "depctl" => some DepCtl.handle
  | "executorx" => some ExecutorX.handle
  | "trbind" => some TRBind.handle
  | "closedloopbg" => some ClosedLoopBG.handle
  | "extra2" => some Extra2.handle
  | _ => none
end RV.Drv
