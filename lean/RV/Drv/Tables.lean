import RV.Json
namespace RV.Drv.Tables
open Lean RV
def handle : Handler := fun op _ _ => .error s!"Tables: op {op} not implemented"
end RV.Drv.Tables
