import RV.Json
namespace RV.Drv.CtlBlueGreen
open Lean RV
def handle : Handler := fun op _ _ => .error s!"CtlBlueGreen: op {op} not implemented"
end RV.Drv.CtlBlueGreen
