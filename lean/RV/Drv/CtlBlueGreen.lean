import RV.Json
import RV.Drv.Arith
import RV.Model.CtlBlueGreen
import RV.Oracle.CtlBlueGreen
namespace RV.Drv.CtlBlueGreen
open Lean RV RV.Arith RV.CtlBlueGreen RV.Drv.Arith

def kindOf : String → R Kind
  | "deployment" => .ok .deployment
  | "cloneSet" => .ok .cloneSet
  | s => .error s!"kind {s}"
def stypeOf : String → SType
  | "empty" => .empty | "expected" => .expected | _ => .other
def stypeStr : SType → String
  | .empty => "empty" | .expected => "expected" | .other => "other"
def opOf : String → R Op
  | "initialize" => .ok .init
  | "upgradeBatch" => .ok .upgrade
  | "finalize" => .ok .fin
  | s => .error s!"op {s}"
def resStr : Res → String
  | .ok => "ok" | .retry => "retry" | .badRequest => "badRequest" | .notFound => "notFound" | .err => "err"
def resOf : String → R Res
  | "ok" => .ok .ok | "retry" => .ok .retry | "badRequest" => .ok .badRequest
  | "notFound" => .ok .notFound | "err" => .ok .err
  | s => .error s!"res {s}"

def settingOfJson (j : Json) : R Setting := do
  return { maxUnavailable := ← iosOptOfJson j "maxUnavailable", maxSurge := ← iosOptOfJson j "maxSurge",
           minReadySeconds := ← fInt j "minReadySeconds", progressDeadlineSeconds := ← fOptInt j "progressDeadlineSeconds" }
def settingToJson (s : Setting) : Json :=
  mkObj [("maxUnavailable", optJ iosToJson s.maxUnavailable), ("maxSurge", optJ iosToJson s.maxSurge),
         ("minReadySeconds", intJ s.minReadySeconds), ("progressDeadlineSeconds", optJ intJ s.progressDeadlineSeconds)]

def savedOfJson (j : Json) (k : String) : R Saved :=
  match jopt j k with
  | none => .ok .none
  | some (.str _) => .ok .bad
  | some v => do return .some (← settingOfJson v)
def savedToJson : Saved → Json
  | .none => .null
  | .bad => strJ "bad"
  | .some s => settingToJson s

def ruOfJson (j : Json) (k : String) : R (Option RU) :=
  match jopt j k with
  | none => .ok none
  | some v => do return some { maxSurge := ← iosOptOfJson v "maxSurge", maxUnavailable := ← iosOptOfJson v "maxUnavailable" }
def ruToJson (r : RU) : Json :=
  mkObj [("maxSurge", optJ iosToJson r.maxSurge), ("maxUnavailable", optJ iosToJson r.maxUnavailable)]

def ctlOfInt (n : Int) : Ctl := if n = -1 then .none else if n < 0 then .garbage else .uid n.toNat
def ctlToInt : Ctl → Int
  | .none => -1 | .garbage => -2 | .uid u => u

def statusOfJson (j : Json) : R Status := do
  return { replicas := ← fInt j "replicas", ready := ← fInt j "ready", updated := ← fInt j "updated",
           available := ← fInt j "available", updatedReady := ← fInt j "updatedReady" }
def statusToJson (s : Status) : Json :=
  mkObj [("replicas", intJ s.replicas), ("ready", intJ s.ready), ("updated", intJ s.updated),
         ("available", intJ s.available), ("updatedReady", intJ s.updatedReady)]

def wlOfJson (j : Json) : R Workload := do
  return { replicas := ← fOptInt j "replicas", deleting := ← fBool j "deleting", paused := ← fBool j "paused",
           minReadySeconds := ← fInt j "minReadySeconds", progressDeadlineSeconds := ← fOptInt j "progressDeadlineSeconds",
           stype := stypeOf (← fStr j "stype"), ru := ← ruOfJson j "ru", partition := ← iosOptOfJson j "partition",
           saved := ← savedOfJson j "saved", ctl := ctlOfInt (← fInt j "ctl"), stableLabel := ← fBool j "stableLabel",
           status := ← statusOfJson (← jget j "status") }
def wlToJson (w : Workload) : Json :=
  mkObj [("replicas", optJ intJ w.replicas), ("deleting", boolJ w.deleting), ("paused", boolJ w.paused),
         ("minReadySeconds", intJ w.minReadySeconds), ("progressDeadlineSeconds", optJ intJ w.progressDeadlineSeconds),
         ("stype", strJ (stypeStr w.stype)), ("ru", optJ ruToJson w.ru), ("partition", optJ iosToJson w.partition),
         ("saved", savedToJson w.saved), ("ctl", intJ (ctlToInt w.ctl)), ("stableLabel", boolJ w.stableLabel),
         ("status", statusToJson w.status)]

def hpaOfJson (j : Json) : R HPA := do
  let av := match (← fStr j "av") with
    | "absent" => AV.absent | "same" => AV.same | _ => AV.other
  let n ← fInt j "name"
  return { av := av, kindSame := (← fStr j "kind") == "same", name := if n < 0 then none else some n.toNat }
def hpaToJson (h : HPA) : Json :=
  mkObj [("av", strJ (match h.av with | .absent => "absent" | .same => "same" | .other => "other")),
         ("kind", strJ (if h.kindSame then "same" else "other")),
         ("name", match h.name with | none => intJ (-1) | some k => intJ k)]

def rsOfJson (j : Json) : R RS := do return { zero := ← fBool j "zero", mrs := ← fInt j "mrs" }
def rsToJson (r : RS) : Json := mkObj [("zero", boolJ r.zero), ("mrs", intJ r.mrs)]

def worldOfJson (j : Json) : R World := do
  let wl ← (match jopt j "wl" with
    | none => pure none
    | some v => do pure (some (← wlOfJson v)))
  return { wl := wl, rss := ← (← fArrD j "rss").mapM rsOfJson,
           hpaV2 := ← (← fArrD j "hpaV2").mapM hpaOfJson, hpaV1 := ← (← fArrD j "hpaV1").mapM hpaOfJson }
def worldToJson (w : World) : Json :=
  mkObj [("wl", optJ wlToJson w.wl), ("rss", arrJ (w.rss.map rsToJson)),
         ("hpaV2", arrJ (w.hpaV2.map hpaToJson)), ("hpaV1", arrJ (w.hpaV1.map hpaToJson))]

def brOfJson (j : Json) : R BR := do
  return { uid := ← fNat j "uid", batches := ← (← fArrD j "batches").mapM iosOfJson,
           currentBatch := ← fInt j "currentBatch", partitioned := ← fBool j "partitioned" }

def faultOfJson (j : Json) : R Fault := do
  return { write := ← fOptNat j "write", get := ← fBool j "get", listV2 := ← fBool j "listV2", listV1 := ← fBool j "listV1" }

def callOutToJson (o : CallOut) : Json :=
  mkObj [("world", worldToJson o.world), ("res", strJ (resStr o.res)), ("writes", natJ o.writes),
         ("observed", optJ intJ o.observed)]
def callOutOfJson (j : Json) : R CallOut := do
  return { world := ← worldOfJson (← jget j "world"), res := ← resOf (← fStr j "res"), writes := ← fNat j "writes",
           observed := ← fOptInt j "observed" }

def outToJson : Out CallOut → Json
  | .panic => mkObj [("panic", strJ "?")]
  | .val o => callOutToJson o

def origOfJson (j : Json) : R (Option RV.Oracle.CtlBlueGreen.Orig) :=
  match jopt j "orig" with
  | none => .ok none
  | some v => do
    return some { setting := ← settingOfJson (← jget v "setting"), stype := stypeOf (← fStr v "stype") }

def opName : Op → String
  | .init => "initialize" | .upgrade => "upgradeBatch" | .fin => "finalize"

def handle : Handler := fun op inp impl => do
  let kind ← kindOf (← fStr inp "kind")
  let w ← worldOfJson (← jget inp "world")
  let br ← brOfJson (← jget inp "br")
  let cop ← opOf (← fStr inp "op")
  let f ← faultOfJson (← jget inp "fault")
  let orig ← origOfJson inp
  let baseTags := [s!"kind:{if kind = .deployment then "deployment" else "cloneSet"}", s!"op:{opName cop}",
    if f.write.isSome then "fault:write" else if f.get then "fault:get" else if f.listV2 || f.listV1 then "fault:list" else "fault:none",
    if orig.isSome then "walk" else "single"] ++
    (match w.wl with
     | none => ["wl:absent", "trivial"]
     | some wl =>
       [match wl.saved with | .none => "saved:none" | .bad => "saved:bad" | .some _ => "saved:some",
        if wl.ctl = .none then "ctl:none" else if controlled br wl then "ctl:this" else "ctl:other"] ++
       (if w.hpaV2.any (fun h => h.av = .absent) || w.hpaV1.any (fun h => h.av = .absent) then ["hpa:noApiVersion"] else []) ++
       (if f.get then ["trivial"] else [])) ++
    [match findHPA w noFault with
     | .err => "hpa:err"
     | .val none => "hpa:none"
     | .val (some (_, 0)) => "hpa:enabled"
     | .val (some _) => "hpa:disabled",
     s!"rs:{w.rss.length}"] ++
    RV.Oracle.CtlBlueGreen.guardTags kind cop w br orig
  match op with
  | "step" =>
    let m := call kind cop w br f
    let holds ← (match jopt impl "panic" with
      | some _ => pure [("C09.bg_no_panic", RV.Oracle.CtlBlueGreen.panicAllowed cop w br)]
      | none => do
        let o ← callOutOfJson impl
        pure (RV.Oracle.CtlBlueGreen.stepOracles kind cop w br f orig o))
    let rtag := match jopt impl "panic" with
      | some _ => ["res:panic"]
      | none => match jopt impl "res" with
        | some (.str s) => [s!"res:{s}", s!"writes:{(jgetD impl "writes" .null).compress}"]
        | _ => []
    return { model := outToJson m, holds := holds, tags := baseTags ++ rtag }
  | "retry" =>
    let first := call kind cop w br f
    let model := match first with
      | .panic => mkObj [("panic", strJ "?")]
      | .val o1 =>
        match call kind cop o1.world br noFault, call kind cop w br noFault with
        | .val o2, .val o3 =>
          (match call kind cop o3.world br noFault with
           | .val o4 => mkObj [("first", callOutToJson o1), ("second", callOutToJson o2), ("direct", callOutToJson o3),
                               ("again", callOutToJson o4)]
           | .panic => mkObj [("panic", strJ "?")])
        | _, _ => mkObj [("panic", strJ "?")]
    let holds ← (match jopt impl "panic" with
      | some _ => pure [("C09.bg_no_panic", RV.Oracle.CtlBlueGreen.panicAllowed cop w br)]
      | none => do
        let o2 ← callOutOfJson (← jget impl "second")
        let o3 ← callOutOfJson (← jget impl "direct")
        let o4 ← callOutOfJson (← jget impl "again")
        pure (RV.Oracle.CtlBlueGreen.retryOracles cop br o2 o3 o4))
    return { model := model, holds := holds, tags := "retry" :: baseTags }
  | _ => .error s!"ctlbluegreen: unknown op {op}"

end RV.Drv.CtlBlueGreen
