import RV.Json
namespace RV.Drv.LabelPatch
open Lean RV
def handle : Handler := fun op _ _ => .error s!"LabelPatch: op {op} not implemented"
end RV.Drv.LabelPatch
