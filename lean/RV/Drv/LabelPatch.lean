import RV.Json
import RV.Drv.Arith
import RV.Model.LabelPatch
import RV.Oracle.C12
/-!
Driver for suite `labelpatch` (property C12).

ops
* `patch`      — `PatchPodBatchLabel` through the exported entry point: first pass, stored
                 labels afterwards, second pass, and a pass on the scrambled pod set
* `filter`     — `FilterPodsForUnorderedUpdate` / `FilterPodsForOrderedUpdate`
* `increments` — `calculatePlannedStepIncrements`
* `satisfied`  — `batchLabelSatisfied`
-/
namespace RV.Drv.LabelPatch
open Lean RV RV.Arith RV.LabelPatch RV.Oracle.C12

def ownerOfJson (j : Json) : R Owner :=
  match jopt j "owner" with
  | none => .ok .none
  | some o =>
    match jopt o "other" with
    | some _ => .ok .other
    | none => do
      let name ← fStr o "rs"
      let uid := match jopt o "uid" with
        | some (.str s) => s
        | _ => ""
      return .rs name uid

def podOfJson (j : Json) : R Pod := do
  return { name := ← fStr j "name", terminating := ← fBool j "term", missing := ← fBool j "missing",
           tmplHash := ← fOptStr j "tmpl", ctrlHash := ← fOptStr j "ctrl", owner := ← ownerOfJson j,
           rolloutId := ← fOptStr j "rid", batchId := ← fOptStr j "bid", noNeed := ← fOptStr j "noneed" }

def listOrNull {α} (f : Json → R α) (j : Json) (k : String) : R (List α) :=
  match jopt j k with
  | none => .ok []
  | some v => jlistM f v

def cfgOfJson (j : Json) : R Cfg := do
  let part ← match jopt j "partition" with
    | none => pure (IntOrPct.int 0)
    | some p => RV.Drv.Arith.iosOfJson p
  return { rolloutId := ← fStr j "id", updateRevision := ← fStr j "rev",
           batches := ← listOrNull RV.Drv.Arith.iosOfJson j "batches",
           replicas := ← fInt j "replicas", currentBatch := ← fInt j "cur",
           plannedUpdated := ← fInt j "planned", desiredUpdated := ← fInt j "desired",
           desiredPartition := part }

def filterOfJson (j : Json) : R FilterKind := do
  match ← fStr j "filter" with
  | "none" => return .none
  | "unordered" => return .unordered
  | "ordered" => return .ordered
  | s => .error s!"bad filter {s}"

def envOfJson (j : Json) : R Env := do
  let rs ← listOrNull (fun r => do return (← fStr r "name", ← fStr r "hash")) j "rs"
  return ⟨rs⟩

def sortByName {α} (name : α → String) (l : List α) : List α :=
  l.mergeSort (fun a b => !(name b < name a))

def resStr : Outcome → String
  | .panic => "panic"
  | .done true _ => "err"
  | .done false _ => "ok"

def patchesOf : Outcome → List Patch
  | .panic => []
  | .done _ ps => ps

/-- canonical patch list: label patches in issue order, hash-only patches sorted by pod name -/
def patchesJ (cfg : Cfg) (fp : List Pod) (ps : List Patch) : Json :=
  let named := ps.map fun p => ((fp[p.idx]?.map (·.name)).getD s!"#{p.idx}", p)
  let lab := named.filter (fun x => x.2.batch.isSome)
  let hashOnly := sortByName (·.1) (named.filter (fun x => x.2.batch.isNone))
  arrJ ((lab ++ hashOnly).map fun (n, p) =>
    mkObj [("name", strJ n),
           ("rid", if p.batch.isSome then strJ cfg.rolloutId else .null),
           ("bid", optJ (fun b => strJ (itoa b)) p.batch),
           ("hash", optJ strJ p.hash)])

def passJ (cfg : Cfg) (fp : List Pod) (out : Outcome) : Json :=
  mkObj [("res", strJ (resStr out)), ("patches", patchesJ cfg fp (patchesOf out))]

/-- the original pods with the labels of the patched list (matched by name) -/
def mergeBack (orig after : List Pod) : List Pod :=
  orig.map fun p => (after.find? (·.name == p.name)).getD p

def storedJ (pods : List Pod) : Json :=
  arrJ ((sortByName (·.name) (pods.filter (!·.missing))).map fun p =>
    mkObj [("name", strJ p.name), ("rid", optJ strJ p.rolloutId), ("bid", optJ strJ p.batchId),
           ("ctrl", optJ strJ p.ctrlHash)])

/-- the implementation's patches as model patches addressed into `fp` -/
def implPatches (fp : List Pod) (j : Json) : R (List Patch) := do
  (← fArr j "patches").mapM fun p => do
    let name ← fStr p "name"
    let idx := (fp.findIdx? (·.name == name)).getD fp.length
    let rid ← fOptStr p "rid"
    let bid ← fOptStr p "bid"
    let batch : Option Nat :=
      if rid.isNone && bid.isNone then none else
      match atoi (lbl bid) with
      | some v => some v.toNat
      | none => some 0
    return { idx := idx, batch := batch, hash := ← fOptStr p "hash" }

/-- `fp` with the labels the implementation's store holds afterwards -/
def implAfter (fp : List Pod) (j : Json) : R (List Pod) := do
  let stored ← (← fArr j "pods").mapM fun p => do
    return (← fStr p "name", ← fOptStr p "rid", ← fOptStr p "bid", ← fOptStr p "ctrl")
  return fp.map fun p =>
    match stored.find? (·.1 == p.name) with
    | some (_, rid, bid, ctrl) => { p with rolloutId := rid, batchId := bid, ctrlHash := ctrl }
    | none => p

def bucket (n : Nat) : String :=
  if n == 0 then "0" else if n ≤ 2 then "1-2" else if n ≤ 5 then "3-5" else if n ≤ 9 then "6-9" else "10+"

def filterName : FilterKind → String
  | .none => "none" | .unordered => "unordered" | .ordered => "ordered"

def handlePatch (inp impl : Json) : R OpResult := do
  let cfg ← cfgOfJson (← jget inp "cfg")
  let kind ← filterOfJson inp
  let env ← envOfJson inp
  let pods ← listOrNull podOfJson inp "pods"
  -- model
  let (fp, out) := patchTop env kind cfg pods
  let afterFp := applyPatches cfg.rolloutId (patchesOf out) fp
  let after := mergeBack pods afterFp
  let second : Json :=
    match out with
    | .done false _ =>
      let (fp2, out2) := patchTop env kind cfg after
      passJ cfg fp2 out2
    | _ => .null
  let spods := pods.map (scramble cfg)
  let (sfp, sout) := patchTop env kind cfg spods
  let model := mkObj [("res", strJ (resStr out)), ("patches", patchesJ cfg fp (patchesOf out)),
                      ("pods", storedJ after), ("second", second), ("scrambled", passJ cfg sfp sout)]
  -- oracles on the implementation's output
  let implRes ← fStr impl "res"
  let ips ← implPatches fp impl
  let iafter ← implAfter fp impl
  let pre := curInRange cfg && namesOk kind pods
  let early := cfg.rolloutId == "" || pods.isEmpty
  let mut holds : List (String × Bool) := []
  let mut tags : List String := [s!"filter:{filterName kind}", s!"res:{implRes}", s!"pods:{bucket pods.length}",
    s!"patches:{bucket (ips.filter (·.batch.isSome)).length}"]
  if early then tags := "trivial" :: tags
  if !pre then tags := "outside-precondition-vi" :: tags
  if ips.any (·.batch.isNone) then tags := "hash-only-patch" :: tags
  if pods.any (·.missing) then tags := "pod-missing" :: tags
  if pods.any (·.terminating) then tags := "pod-terminating" :: tags
  let cur := pods.filter (fun p => hasId cfg p && !early)
  if cur.any (fun p => match atoi (lbl p.batchId) with
      | some v => v < 1 || v > cfg.batches.length
      | none => false) then tags := "bid-out-of-range" :: tags
  if cur.any (fun p => (atoi (lbl p.batchId)).isNone) then tags := "bid-non-numeric" :: tags
  if pods.any (fun p => !hasId cfg p && p.rolloutId.isSome) then tags := "foreign-id" :: tags
  if pre then holds := ("C12.vi", implRes != "panic") :: holds
  match plannedIncrements cfg.batches cfg.replicas cfg.currentBatch with
  | none => tags := "plan-index-out-of-range" :: tags
  | some planned =>
    match resolvePods env [] fp with
    | none =>
      tags := "rs-get-failed" :: tags
      holds := [("C12.i", ips.isEmpty || early), ("C12.ii", ips.isEmpty || early), ("C12.iii", ips.isEmpty || early)] ++ holds
    | some rps =>
      if rps.any (·.hp.isSome) then tags := "rs-hash-computed" :: tags
      if planned.any (· < 0) then tags := "plan-not-monotone" :: tags
      if rps.any (fun rp => hasId cfg rp.pod && !rp.pod.terminating && !liveNew cfg rp) then
        tags := "old-revision-pod-with-current-id" :: tags
      if (withPods rps iafter).any (fun rp => liveNew cfg rp && !hasId cfg rp.pod) then
        tags := "candidates-left-unlabelled" :: tags
      if (List.range (planned.length + 1)).any (fun b => b ≥ 1 &&
          decide ((labelled cfg b (withPods rps iafter) : Int) < increment planned b)) then
        tags := "budget-left-unused" :: tags
      if (List.range (planned.length + 1)).any (fun b => b ≥ 1 &&
          decide ((labelled cfg b rps : Int) > increment planned b)) then
        tags := "batch-over-labelled-before" :: tags
      holds := [("C12.i", okLive cfg rps ips), ("C12.ii", okBudget cfg planned rps (withPods rps iafter)),
                ("C12.iii", okFresh cfg rps ips)] ++ holds
  if implRes == "ok" then
    let s ← jget impl "second"
    let sps ← fArr s "patches"
    holds := ("C12.iv", (← fStr s "res") == "ok" && sps.isEmpty) :: holds
    if !sps.isEmpty then tags := "second-pass-patches" :: tags
  let sc ← jget impl "scrambled"
  holds := ("C12.v", (← fStr sc "res") == implRes && (← jget sc "patches").compress == (← jget impl "patches").compress) :: holds
  return { model := model, holds := holds, tags := tags }

def handleFilter (inp _impl : Json) : R OpResult := do
  let cfg ← cfgOfJson (← jget inp "cfg")
  let kind ← filterOfJson inp
  let pods ← listOrNull podOfJson inp "pods"
  let model := match applyFilter kind cfg pods with
    | none => mkObj [("panic", boolJ true)]
    | some fp => mkObj [("names", arrJ (fp.map (strJ ·.name)))]
  let tags := [s!"op:filter:{filterName kind}", s!"pods:{bucket pods.length}"] ++
    (if (applyFilter kind cfg pods).isNone then ["filter-panic"] else []) ++
    (if pods.isEmpty then ["trivial"] else [])
  return { model := model, tags := tags }

def handleIncrements (inp _impl : Json) : R OpResult := do
  let batches ← listOrNull RV.Drv.Arith.iosOfJson inp "batches"
  let replicas ← fInt inp "replicas"
  let cur ← fInt inp "cur"
  let model := match plannedIncrements batches replicas cur with
    | none => mkObj [("panic", boolJ true)]
    | some l => mkObj [("res", arrJ (l.map intJ))]
  return { model := model, tags := ["op:increments"] ++ (if (plannedIncrements batches replicas cur).isNone then ["plan-index-out-of-range"] else []) }

def handleSatisfied (inp _impl : Json) : R OpResult := do
  let pods ← listOrNull podOfJson inp "pods"
  let id ← fStr inp "id"
  let target ← fInt inp "target"
  return { model := boolJ (batchLabelSatisfied pods id target), tags := ["op:satisfied"] }

def handle : Handler := fun op inp impl =>
  match op with
  | "patch" => handlePatch inp impl
  | "filter" => handleFilter inp impl
  | "increments" => handleIncrements inp impl
  | "satisfied" => handleSatisfied inp impl
  | _ => .error s!"labelpatch: unknown op {op}"

end RV.Drv.LabelPatch
