import RV.Json
import RV.Drv.RolloutSM
import RV.Oracle.Cluster
namespace RV.Drv.Cluster
open Lean RV RV.Arith RV.RolloutSM RV.Drv.RolloutSM RV.Drv.Arith RV.Oracle.Cluster

def wlxOfJson (j : Json) : R WlX := do
  return { partition := ← iosOptOfJson j "partition", paused := ← fBool j "paused", controlled := ← fBool j "controlled",
           updated := ← fInt j "updated" }

def worldIfAny (j : Json) : R World := do
  -- a vanished rollout is reported with an empty rollout record
  match jopt (← jget j "w") "ro" with
  | some _ => worldOfJson (← jget j "w")
  | none => .error "no world"

def emptyRo : Rollout := default

def stateOfJson (j : Json) : R (Bool × World × Option WlX) := do
  let ex ← fBool j "exists"
  let wj ← jget j "w"
  let w : World ← (if ex then worldOfJson wj else do
    let wl ← (match jopt wj "wl" with | none => pure none | some x => do pure (some (← wlOfJson x)))
    let br ← (match jopt wj "br" with | none => pure none | some x => do pure (some (← brOfJson x)))
    pure { ro := emptyRo, wl := wl, br := br, net := ← RV.Drv.Traffic.netOfJson (← jget wj "net"), mem := RV.Traffic.Mem.empty })
  let x ← (match jopt j "wlx" with | none => pure none | some v => do pure (some (← wlxOfJson v)))
  return (ex, w, x)

/-- C06: the final states agree on everything the user can observe -/
def sameFinal (a b : Bool × World × Option WlX) : Bool :=
  let (ea, wa, xa) := a
  let (eb, wb, xb) := b
  -- metadata.generation counts spec writes (the harness' API server bumps it once per CloneSet patch): a re-run after a
  -- failed call may legitimately repeat a patch, so the counter is history, not final state; everything else is compared
  ea == eb && wa.br == wb.br && wa.net == wb.net && (wa.wl.map fun x => { x with generation := 0 }) == (wb.wl.map fun x => { x with generation := 0 }) && xa == xb &&
  wa.ro.phase == wb.ro.phase && wa.ro.reason == wb.ro.reason && wa.ro.succeeded == wb.ro.succeeded &&
  (wa.ro.sub.map fun s => (s.curIdx, s.state, s.canaryRev, s.stableRev)) == (wb.ro.sub.map fun s => (s.curIdx, s.state, s.canaryRev, s.stableRev))

def handle : Handler := fun op inp _impl => do
  match op with
  | "snapshot" =>
    let (ex, w, x) ← stateOfJson inp
    let holds :=
      [("C05.terminal_clean", terminalClean ex w x), ("C06.terminal_clean", terminalClean ex w x)] ++
      (match x with
       | some k => [("C01.cluster_exposure", !ex || exposureWithinStep w k), ("C06.cluster_exposure", !ex || exposureWithinStep w k),
                    ("C04.cluster_no_void", !ex || noVoid w k), ("C06.cluster_no_void", !ex || noVoid w k),
                    ("C01.cluster_supervised", !ex || supervised w k), ("C08.cluster_supervised", !ex || supervised w k)]
       | none => [])
    let rolling := ex && w.ro.phase == .progressing && w.ro.reason == .inRolling
    let routed := match w.net.canaryIng with | some wt => decide (wt > 0) | none => false
    let terminal := !ex || w.ro.phase == .healthy || w.ro.phase == .disabled
    return { holds := holds, tags := [s!"snap:{phaseStr w.ro.phase}/{reasonStr w.ro.reason}", if ex then "exists" else "gone"] ++
      (if rolling && (x.map (·.controlled)).getD false then ["exposure-judged"] else []) ++
      (if routed then ["canary-route-live"] else []) ++ (if w.net.stableSel.isSome then ["stable-pinned"] else []) ++
      (if terminal then ["terminal-judged"] else []) ++
      (match jopt inp "lateRelease" with | some (.bool true) => ["guard:releaseWhileFinalising"] | _ => []) ++
      (match jopt inp "earlyExit" with | some (.bool true) => ["guard:exitBeforeBatchRelease"] | _ => []) ++ (if !rolling && !routed && !terminal then ["trivial"] else []) }
  | "final" =>
    let base ← stateOfJson (← jget inp "baseline")
    let run ← stateOfJson (← jget inp "run")
    let done ← fBool inp "done"
    let same ← fBool inp "sameOutcome"
    let recs ← fNat inp "reconciles"
    let steps ← fNat inp "steps"
    let (ex, w, x) := run
    let disturbed := match jopt inp "disturbed" with | some (.bool b) => b | _ => false
    -- known finding releaseWhileFinalising: a new revision admitted by the workload webhook while the
    -- clean-up is running (in-progress annotation already removed) is orphaned
    let lateRelease ← (match jopt inp "eventAt", jopt inp "event" with
      | some ea, some (.str ev) => do
        let ph ← fStr ea "phase"
        let fs ← fStr ea "finStep"
        let an ← fBool ea "inProgressAnno"
        pure ((ev == "rollback" || ev == "release3") && ph == "Progressing" && fs != "" && fs != "END" && !an)
      | _, _ => pure false)
    let clean := terminalClean ex w x
    let budgetOk := decide (recs ≤ 60 * (steps + 4))
    let holds :=
      [("C07.terminates", done), ("C05.final_clean", clean),
       -- a generous linear budget: every step needs a bounded number of rounds of (rollout, BatchRelease) reconciles
       ("C07.reconcile_budget", budgetOk)] ++
      (if disturbed then [("C06.terminates", done), ("C06.final_clean", clean)] else []) ++
      (if same then [("C06.same_final_state", sameFinal base run)] else [])
    return { holds := holds, tags := [if same then "run:disturbed-or-baseline" else "run:user-event", if done then "done" else "notdone",
      s!"plan:{((← fStr inp "plan").splitOn "@").head!}"] ++ (if lateRelease then ["guard:releaseWhileFinalising", "late-release"] else []) ++
      (match jopt inp "earlyExit" with | some (.bool true) => ["guard:exitBeforeBatchRelease"] | _ => []) }
  | _ => .error s!"cluster: unknown op {op}"

end RV.Drv.Cluster
