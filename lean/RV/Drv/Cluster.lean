import RV.Json
namespace RV.Drv.Cluster
open Lean RV
def handle : Handler := fun op _ _ => .error s!"Cluster: op {op} not implemented"
end RV.Drv.Cluster
