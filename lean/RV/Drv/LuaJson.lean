import RV.Json
namespace RV.Drv.LuaJson
open Lean RV
def handle : Handler := fun op _ _ => .error s!"LuaJson: op {op} not implemented"
end RV.Drv.LuaJson
