import RV.Json
import RV.Model.LuaJson
import RV.Oracle.C16
import RV.Gen.LuaGlobals
namespace RV.Drv.LuaJson
open Lean RV RV.LuaJson RV.Oracle.C16

/-! JSON ⇄ model values -/

partial def jOfJson : Json → R J
  | .null => .ok .null
  | .bool b => .ok (.bool b)
  | .num n => if n.exponent == 0 then .ok (.num n.mantissa) else .error s!"non-integer number {n}"
  | .str s => .ok (.str s)
  | .arr xs => do return .arr (← xs.toList.mapM jOfJson)
  | .obj kvs => do
      let l ← (kvs.toList).mapM fun (k, v) => do return (k, ← jOfJson v)
      return .obj l

partial def jToJson : J → Json
  | .null => .null
  | .bool b => .bool b
  | .num n => intJ n
  | .str s => .str s
  | .arr xs => arrJ (xs.map jToJson)
  | .obj kvs => mkObj (kvs.map fun (k, v) => (k, jToJson v))

def keyOfJson : Json → R Key
  | .str s => .ok (.str s)
  | .null => .ok .other
  | .num n => if n.exponent == 0 then .ok (.int n.mantissa) else .error s!"non-integer key {n}"
  | j => .error s!"bad key {j.compress}"

partial def lvalOfJson : Json → R LVal
  | .null => .ok .nil
  | .bool b => .ok (.bool b)
  | .num n => if n.exponent == 0 then .ok (.num n.mantissa) else .error s!"non-integer number {n}"
  | .str s => .ok (.str s)
  | j@(.obj _) =>
    match jopt j "fn", jopt j "id" with
    | some _, _ => .ok .func
    | _, some idj => do
      let id ← jnat idj
      match jopt j "cut" with
      | some _ => return .tbl id []
      | none =>
        let kvs ← fArr j "kv"
        let es ← kvs.mapM fun e => do
          match (← jarr e) with
          | [k, v] => return (← keyOfJson k, ← lvalOfJson v)
          | _ => .error s!"bad kv {e.compress}"
        return .tbl id es
    | _, _ => .error s!"bad lua value {j.compress}"
  | j => .error s!"bad lua value {j.compress}"

def errName : EncErr → String
  | .nested => "nested" | .sparse => "sparse" | .keys => "keys" | .type => "type"

def errOfName : String → Option EncErr
  | "nested" => some .nested | "sparse" => some .sparse | "keys" => some .keys | "type" => some .type
  | _ => none

def outJson : Except EncErr J → Json
  | .ok j => mkObj [("ok", jToJson j)]
  | .error e => mkObj [("err", strJ (errName e))]

def implOut (impl : Json) : ImplOut :=
  match impl.getObjVal? "ok" with
  | .ok j => match jOfJson j with
    | .ok v => .ok v
    | .error _ => .bad
  | .error _ =>
    match impl.getObjVal? "err" with
    | .ok (.str s) => match errOfName s with
      | some e => .err e
      | none => .bad
    | _ => .bad

/-! classification helpers for the distribution tags -/

mutual
partial def hasNullMember : J → Bool
  | .arr xs => xs.any (fun x => x.isNull || hasNullMember x)
  | .obj kvs => kvs.any (fun (_, x) => x.isNull || hasNullMember x)
  | _ => false
end

partial def hasEmpty : J → Bool
  | .arr xs => xs.isEmpty || xs.any hasEmpty
  | .obj kvs => kvs.isEmpty || kvs.any (fun (_, x) => hasEmpty x)
  | _ => false

def bucket (n : Nat) : String :=
  if n ≤ 1 then "1" else if n ≤ 5 then "2-5" else if n ≤ 20 then "6-20" else if n ≤ 80 then "21-80" else ">80"

def hasDup : List Nat → Bool
  | [] => false
  | x :: xs => xs.contains x || hasDup xs

def contains (s sub : String) : Bool := (s.splitOn sub).length > 1

/-- Guard of known finding `patternBacktrack`: the script calls one of the pattern
    matching functions of the string library (whose backtracking matcher runs inside a
    single VM instruction and is not interrupted by the deadline). -/
def usesPatternMatching (script : String) : Bool :=
  ["find", "match", "gmatch", "gsub", "gfind"].any fun f =>
    contains script s!"string.{f}" || contains script s!":{f}("

def isNameChar (c : Char) : Bool := c.isAlphanum || c == '_' || c == '.' || c == ':'

/-- Guard of known finding `tailCallLoop`: the script contains a tail call
    (`return name(`).  gopher-lua counts tail calls per frame and, when an error is
    raised, formats one traceback line per counted tail call before truncating. -/
def hasTailCall (script : String) : Bool :=
  ((script.splitOn "return ").drop 1).any fun seg =>
    let cs := seg.toList
    let name := cs.takeWhile isNameChar
    !name.isEmpty && (cs.drop name.length).head? == some '('

/-- the round trip through the Lua-side json library: `json.decode(json.encode(obj))`
    wrapped in `{v = …}` and encoded again by the caller. -/
def luajsonModel (v : J) : Except EncErr J :=
  match encode (decode 0 v).1 with
  | .error e => .error e
  | .ok c1 => encode (decode 0 (.obj [("v", c1)])).1

def handle : Handler := fun op inp impl => do
  match op with
  | "roundtrip" =>
    let mode ← fStr inp "mode"
    let v ← jOfJson (← jget inp "v")
    let out := implOut impl
    let model := if mode == "luajson" then luajsonModel v else encode (decode 0 v).1
    let expected := if mode == "luajson" then J.obj [("v", canon v)] else v
    let c := canon v
    let tags := [s!"rt:mode:{mode}", s!"rt:size:{bucket v.size}", s!"rt:depth:{v.depth}"]
      ++ (if c.beq v then ["rt:identity"] else ["rt:normalised"])
      ++ (if hasNullMember v then ["rt:null-member"] else [])
      ++ (if hasEmpty v then ["rt:empty-container"] else [])
      ++ (if clean v then ["rt:clean"] else [])
      ++ (if v.depth == 0 then ["trivial"] else [])
    return { model := outJson model,
             holds := [("C16.roundtrip_meaning", roundtripHolds expected out),
                       ("C16.encode_error_is_value", encodeAnswered out)],
             tags := tags }
  | "encode" =>
    let via ← fStr inp "via"
    let lj := jgetD inp "l" .null
    let out := implOut impl
    -- a script that did not return (l = null and impl err "script"/"notTable") carries no model
    match impl.getObjVal? "err" with
    | .ok (.str "script") => return { tags := ["enc:script-failed", "trivial"] }
    | _ =>
    let l ← lvalOfJson lj
    let r := encode l
    let tags := [s!"enc:via:{via}", s!"enc:size:{bucket l.size}"]
      ++ (match r with | .ok _ => ["enc:ok"] | .error e => [s!"enc:err:{errName e}"])
      ++ (if hasDup (ids l) then ["enc:repeated-table"] else [])
      ++ (match l with | .tbl _ [] => ["trivial"] | .tbl _ _ => [] | _ => ["enc:not-a-table"])
    return { model := outJson r,
             holds := [("C16.encode_error_is_value", encodeAnswered out)],
             tags := tags }
  | "global" =>
    let name ← fStr inp "name"
    match impl.getObjVal? "present" with
    | .ok (.bool present) =>
      return { model := mkObj [("present", boolJ (RV.Gen.luaGlobals.contains name))],
               holds := [("C16.no_capability_reachable", nameAllowed name present)],
               tags := [if present then "global:present" else "global:absent"]
                 ++ (if isCapability name then ["global:capability-name"] else []) }
    | _ => .error s!"global: unexpected impl {impl.compress}"
  | "probe" =>
    let kind ← fStr inp "kind"
    let same ← fBool impl "same"
    let leak ← fBool impl "leak"
    let effect ← fBool impl "effect"
    let inTime ← fBool impl "in_time"
    let pan ← fBool impl "panic"
    let outcome ← fStr impl "outcome"
    return { model := .null,
             holds := [("C16.no_escape", noEscape same leak effect),
                       ("C16.returns_in_time", returnsInTime inTime),
                       ("C16.no_panic", noPanic pan)],
             tags := [s!"probe:{kind}", s!"probe:outcome:{outcome}"] }
  | "iso" =>
    -- C19: the Lua runtime is not modelled; the oracle compares what a probe script sees when it runs alone,
    -- after a script that left globals / patched libraries behind, and while such scripts run concurrently
    match jopt impl "panic" with
    | some _ => return { model := .null, holds := [("C19.lua_fresh_state", false)], tags := ["iso:panic"] }
    | none =>
      let solo ← fStr impl "solo"
      let after ← fStr impl "after"
      let conc ← fBool impl "conc_same"
      return { model := .null,
               holds := [("C19.lua_fresh_state", solo == after), ("C19.lua_concurrent_same", conc),
                         -- the JSON bytes of one script result are not overwritten by the encoding of another
                         ("C19.encode_result_owned", (jopt impl "owned").bind (fun x => x.getBool?.toOption) |>.getD true),
                         ("C16.encode_result_owned", (jopt impl "owned").bind (fun x => x.getBool?.toOption) |>.getD true)],
               tags := ["iso", if (← fNat inp "conc") > 0 then "iso:concurrent" else "iso:sequential"] }
  | "run" =>
    let cls ← fStr inp "class"
    let script ← fStr inp "script"
    let inTime ← fBool impl "in_time"
    let pan ← fBool impl "panic"
    let outcome ← fStr impl "outcome"
    return { model := .null,
             holds := [("C16.returns_in_time", returnsInTime inTime),
                       ("C16.no_panic", noPanic pan),
                       ("C16.table_or_error", tableOrError outcome || !inTime)],
             tags := [s!"run:{cls}", s!"run:outcome:{outcome}", s!"run:len:{bucket (script.length / 10)}"]
               ++ (if usesPatternMatching script then ["guard:patternBacktrack"] else [])
               ++ (if hasTailCall script then ["guard:tailCallLoop"] else [])
               ++ (if script.isEmpty then ["trivial"] else []) }
  | _ => .error s!"luajson: unknown op {op}"

end RV.Drv.LuaJson
