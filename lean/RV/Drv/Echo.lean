import RV.Json
namespace RV.Drv.Echo
open Lean RV
def handle : Handler := fun _ inp _ => .ok { model := inp }
end RV.Drv.Echo
