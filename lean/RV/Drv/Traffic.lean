import RV.Json
namespace RV.Drv.Traffic
open Lean RV
def handle : Handler := fun op _ _ => .error s!"Traffic: op {op} not implemented"
end RV.Drv.Traffic
