import RV.Json
import RV.Drv.Fault
import RV.Model.Traffic
import RV.Oracle.Traffic
namespace RV.Drv.Traffic
open Lean RV RV.Traffic

def expOf : String → Exp
  | "fresh" => .fresh | "elapsed" => .elapsed | _ => .none
/-- outputs: an elapsed expectation is reported like none (observationally equal: `runGrace_elapsed_none`;
    the grace package's background cleaner removes elapsed entries at any time) -/
def expStr : Exp → String
  | .fresh => "fresh" | .elapsed => "none" | .none => "none"
def ageOf : String → Age
  | "fresh" => .fresh | "elapsed" => .elapsed | _ => .none

def netOfJson (j : Json) : R Net := do
  return { stableExists := ← fBool j "stableExists", stableSel := ← fOptStr j "stableSel",
           canarySvc := ← fOptStr j "canarySvc", stableIngress := ← fBool j "stableIngress",
           canaryIng := ← fOptNat j "canaryIng" }
def netToJson (n : Net) : Json :=
  mkObj [("stableExists", boolJ n.stableExists), ("stableSel", optJ strJ n.stableSel),
    ("canarySvc", optJ strJ n.canarySvc), ("stableIngress", boolJ n.stableIngress), ("canaryIng", optJ natJ n.canaryIng)]
def memOfJson (j : Json) : R Mem := do
  return { patchService := expOf (← fStr j "patchService"), restoreService := expOf (← fStr j "restoreService"),
           restoreGateway := expOf (← fStr j "restoreGateway"), removeCanaryService := expOf (← fStr j "removeCanaryService"),
           updateRoute := expOf (← fStr j "updateRoute") }
def memToJson (m : Mem) : Json :=
  mkObj [("patchService", strJ (expStr m.patchService)), ("restoreService", strJ (expStr m.restoreService)),
    ("restoreGateway", strJ (expStr m.restoreGateway)), ("removeCanaryService", strJ (expStr m.removeCanaryService)),
    ("updateRoute", strJ (expStr m.updateRoute))]
def ctxOfJson (j : Json) : R TCtx := do
  let hk ← (match jopt j "hasRevKey" with | none => pure true | some b => jbool b)
  return { hasRef := ← fBool j "hasRef", grace := ← fNat j "grace", weight := ← fOptNat j "weight",
           disableGen := ← fBool j "disableGen", stableRev := ← fStr j "stableRev", canaryRev := ← fStr j "canaryRev",
           lastUpdate := ageOf (← fStr j "lastUpdate"), hasRevKey := hk }
def outToJson (o : TOut) : Json :=
  mkObj [("done", boolJ o.done), ("err", boolJ o.err), ("net", netToJson o.net), ("mem", memToJson o.mem), ("touched", boolJ o.touched),
    ("writes", arrJ (o.writes.map strJ))]
def outOfJson (j : Json) : R TOut := do
  return { done := ← fBool j "done", err := ← fBool j "err", net := ← netOfJson (← jget j "net"),
           mem := ← memOfJson (← jget j "mem"), touched := ← fBool j "touched",
           writes := ← (← fArrD j "writes").mapM jstr }

def callOf (call : String) : Option (TCtx → Net → Mem → TOut) :=
  match call with
  | "patchStableService" => some patchStableService
  | "restoreStableService" => some restoreStableService
  | "restoreGateway" => some restoreGateway
  | "removeCanaryService" => some removeCanaryService
  | "finalisingTrafficRouting" => some finalisingTrafficRouting
  | "doTrafficRouting" => some doTrafficRouting
  | "routeAllToNew" => some routeAllToNew
  | _ => none

def handle : Handler := fun op inp impl => do
  match op with
  | "call" =>
    let call ← fStr inp "call"
    let c ← ctxOfJson (← jget inp "ctx")
    let n ← netOfJson (← jget inp "net")
    let m ← memOfJson (← jget inp "mem")
    match callOf call with
    | none => .error s!"traffic: unknown call {call}"
    | some f =>
      let o := f c n m
      let holds ← (match jopt impl "panic" with
        | some _ => pure [("C09.traffic_no_panic", false)]
        | none => do
          let io ← outOfJson impl
          let rc ← fBool impl "recheck"
          pure (RV.Oracle.Traffic.callOracles call c n m io ++ [("C07.retry_has_wakeup", RV.Oracle.Traffic.retryHasWakeup call c io rc)]))
      return { model := (outToJson o).setObjVal! "recheck" (boolJ (RV.Oracle.Traffic.recheckOf call c o)), holds := holds,
               tags := [s!"call:{call}", if o.done then "res:true" else "res:false", if o.err then "err" else "noerr",
                        if o.net != n then "netwrite" else "nonetwrite", s!"grace:{c.grace}"] ++
                        (if c.hasRevKey then [] else ["guard:noRevKey"]) }
  | "fault" => RV.Drv.Fault.handleFault ["C03", "C04", "C05", "C06", "C07", "C09", "C10", "C14"] impl
  | _ => .error s!"traffic: unknown op {op}"

end RV.Drv.Traffic
