import RV.Json
import RV.Drv.Fault
import RV.Drv.Traffic
import RV.Model.TRSM
import RV.Oracle.TRSM
namespace RV.Drv.TRSM
open Lean RV RV.Traffic RV.TRSM RV.Drv.Traffic RV.Oracle.TRSM

def phaseOf : String → Phase
  | "" => .empty | "Initial" => .initial | "Healthy" => .healthy | "Progressing" => .progressing
  | "Finalizing" => .finalizing | "Terminating" => .terminating | _ => .other
def phaseStr : Phase → String
  | .empty => "" | .initial => "Initial" | .healthy => "Healthy" | .progressing => "Progressing"
  | .finalizing => "Finalizing" | .terminating => "Terminating" | .other => "Weird"

def trOfJson (j : Json) : R TR := do
  return { deleting := ← fBool j "deleting", hasFinalizer := ← fBool j "hasFinalizer", progressing := ← fNat j "progressing",
           phase := phaseOf (← fStr j "phase"), weight := ← fOptNat j "weight", grace := ← fNat j "grace" }
def trToJson (t : TR) : Json :=
  mkObj [("deleting", boolJ t.deleting), ("hasFinalizer", boolJ t.hasFinalizer), ("progressing", natJ t.progressing),
    ("phase", strJ (phaseStr t.phase)), ("weight", optJ natJ t.weight), ("grace", natJ t.grace)]

def handle : Handler := fun op inp impl => do
  match op with
  | "reconcile" =>
    let w : World := { tr := ← trOfJson (← jget inp "tr"), net := ← netOfJson (← jget inp "net"), mem := ← memOfJson (← jget inp "mem") }
    let r := reconcile w
    -- a vanished object is reported with the input phase by the harness
    let trOut := if r.gone then { r.w.tr with phase := w.tr.phase } else r.w.tr
    let model := mkObj [("requeue", boolJ r.requeue), ("err", boolJ r.err), ("gone", boolJ r.gone), ("tr", trToJson trOut),
                        ("net", netToJson r.w.net), ("mem", memToJson r.w.mem)]
    let holds ← (match jopt impl "panic" with
      | some _ => pure [("C09.tr_no_panic", false)]
      | none => do
        let t' ← trOfJson (← jget impl "tr")
        let n' ← netOfJson (← jget impl "net")
        pure [("C18.tr_finalizer_guard", finalizerGuard w t' n')])
    return { model := model, holds := holds,
             tags := [s!"phase:{phaseStr w.tr.phase}", if w.tr.deleting then "deleting" else "live", if r.finalised then "finalised" else "notfinalised"] }
  | "fault" => RV.Drv.Fault.handleFault ["C06", "C09", "C18"] impl
  | _ => .error s!"trsm: unknown op {op}"

end RV.Drv.TRSM
