import RV.Json
namespace RV.Drv.TRSM
open Lean RV
def handle : Handler := fun op _ _ => .error s!"TRSM: op {op} not implemented"
end RV.Drv.TRSM
