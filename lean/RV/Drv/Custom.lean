import RV.Json
namespace RV.Drv.Custom
open Lean RV
def handle : Handler := fun op _ _ => .error s!"Custom: op {op} not implemented"
end RV.Drv.Custom
