import RV.Json
import RV.Model.Custom
import RV.Model.CustomHist
import RV.Oracle.C15
import RV.Oracle.C15Hist
/-!
  Driver for suite "custom" (C15).  Ops `seq`, `script` (harness/suite_custom.go) and `hist`
  (harness/suite_custom_hist.go).
-/
namespace RV.Drv.Custom
open Lean RV RV.Custom RV.Oracle.C15

/-! ### JSON ↔ model values -/

partial def jOfJson : Json → R J
  | .null => .ok .null
  | .bool b => .ok (.bool b)
  | .num n => if n.exponent == 0 then .ok (.int n.mantissa) else .error s!"non-integer number {n}"
  | .str s => .ok (.str s)
  | .arr a => do return .arr (← a.toList.mapM jOfJson)
  | .obj kvs => do return .obj (← kvs.toList.mapM fun (k, v) => do return (k, ← jOfJson v))

partial def jToJson : J → Json
  | .null => .null
  | .bool b => .bool b
  | .int n => intJ n
  | .str s => .str s
  | .arr xs => arrJ (xs.map jToJson)
  | .obj kvs => mkObj (kvs.map fun (k, v) => (k, jToJson v))

def strMapOfJson (j : Json) : R StrMap :=
  match j with
  | .null => .ok []
  | .obj kvs => kvs.toList.mapM fun (k, v) => do return (k, ← jstr v)
  | _ => .error s!"string map expected: {j.compress}"

def strMapToJson (m : StrMap) : Json := mkObj (m.map fun (k, v) => (k, strJ v))

def dataToJson (d : Data) : Json :=
  mkObj [("spec", jToJson d.spec), ("labels", strMapToJson d.labels), ("annotations", strMapToJson d.annotations)]

def dataOfJson (j : Json) : R Data := do
  let spec ← jOfJson (jgetD j "spec" .null)
  let labels ← strMapOfJson (jgetD j "labels" .null)
  let anns ← strMapOfJson (jgetD j "annotations" .null)
  return { spec := spec, labels := labels, annotations := anns }

/-- the codec instance the driver runs the model with: Lean's JSON printer / parser.
    (`json.Unmarshal` errors are ignored by the Go code: garbage decodes to the zero `Data`.) -/
def codec : Codec where
  enc d := (dataToJson d).compress
  dec s :=
    match Json.parse s with
    | .ok j =>
      match dataOfJson j with
      | .ok d => d
      | .error _ => { spec := .null, labels := [], annotations := [] }
    | .error _ => { spec := .null, labels := [], annotations := [] }

def origOfJson (j : Json) : R (Option String) :=
  match j with
  | .null => .ok none
  | _ =>
    match jopt j "d", jopt j "raw" with
    | some d, _ => do return some (codec.enc (← dataOfJson d))
    | _, some r => do return some (← jstr r)
    | _, _ => .error s!"bad orig {j.compress}"

def objOfJson (j : Json) : R Obj := do
  let spec ← match ← fArr j "spec" with
    | [] => pure none
    | [v] => do pure (some (← jOfJson v))
    | _ => .error "spec: 0 or 1 element expected"
  let labels ← match jopt j "labels" with
    | none => pure none
    | some l => do pure (some (← strMapOfJson l))
  let anns ← match jopt j "annotations" with
    | none => pure none
    | some l => do pure (some (← strMapOfJson l))
  let orig ← origOfJson (jgetD j "orig" .null)
  let anns := match orig with
    | none => anns
    | some s => some ((anns.getD []) ++ [(origKey, s)])
  return { spec := spec, labels := labels, annotations := anns }

def origToJson (s : String) : Json :=
  if s == "" then mkObj [("raw", strJ s)]
  else match Json.parse s with
    | .ok (.obj o) => mkObj [("d", dataToJson (codec.dec (Json.obj o).compress))]
    | _ => mkObj [("raw", strJ s)]

def objToJson (o : Obj) : Json :=
  let orig := match o.annotations with
    | none => Json.null
    | some a => match lookup origKey a with
      | none => Json.null
      | some s => origToJson s
  mkObj [("spec", match o.spec with | none => arrJ [] | some v => arrJ [jToJson v]),
         ("labels", optJ strMapToJson o.labels),
         ("annotations", optJ (fun a => strMapToJson (eraseKey origKey a)) o.annotations),
         ("orig", orig)]

def optObjToJson : Option Obj → Json
  | none => .null
  | some o => objToJson o

def optObjOfJson (j : Json) : R (Option Obj) :=
  match j with
  | .null => .ok none
  | _ => do return some (← objOfJson j)

def resToJson : Res → Json
  | .ok true => strJ "ok:true"
  | .ok false => strJ "ok:false"
  | .err => strJ "err"

def resOfJson (j : Json) : R Res := do
  match ← jstr j with
  | "ok:true" => return .ok true
  | "ok:false" => return .ok false
  | "err" => return .err
  | s => .error s!"bad result {s}"

/-! ### strategy, generated scripts -/

def kvMatchOfJson (j : Json) : R KVMatch := do
  return { ty := ← fOptStr j "type", name := ← fStr j "name", value := ← fStr j "value" }

def strategyOfJson (j : Json) : R Strategy := do
  let traffic ← match jopt j "traffic" with
    | none => pure Traffic.none
    | some t =>
      match jopt t "p" with
      | some p => do pure (Traffic.pct (← jint p))
      | none => pure Traffic.bad
  let mts ← (← fArr j "matches").mapM fun m => do
    let path ← match jopt m "path" with
      | none => pure none
      | some p => do pure (some ({ ty := ← fOptStr p "type", value := ← fOptStr p "value" } : PathMatch))
    let hs ← (← jarr (jgetD m "headers" (arrJ []))).mapM kvMatchOfJson
    let qs ← (← jarr (jgetD m "queryParams" (arrJ []))).mapM kvMatchOfJson
    pure ({ path := path, headers := hs, queryParams := qs } : HttpMatch)
  let pairs (k : String) (h : Json) : R (List (String × String)) := do
    (← jarr (jgetD h k (arrJ []))).mapM fun p => do
      match ← jarr p with
      | [a, b] => do pure (← jstr a, ← jstr b)
      | _ => .error "pair expected"
  let hdr ← match jopt j "hdrMod" with
    | none => pure none
    | some h => do
      let rem ← (← jarr (jgetD h "remove" (arrJ []))).mapM jstr
      pure (some ({ set := ← pairs "set" h, add := ← pairs "add" h, remove := rem } : HeaderMod))
  return { traffic := traffic, mts := mts, hdrMod := hdr }

def valOfJson (j : Json) : R Val := do
  match ← fStr j "kind" with
  | "weight" => return .weight
  | "stableWeight" => return .stableWeight
  | "weightStr" => return .weightStr
  | "canarySvc" => return .canarySvc
  | "stableSvc" => return .stableSvc
  | "int" => return .int (← fInt j "n")
  | "str" => return .str (← fStr j "s")
  | k => .error s!"bad val kind {k}"

partial def stmtOfJson (j : Json) : R Stmt := do
  match ← fStr j "op" with
  | "ensureSpec" => return .ensureSpec
  | "setSpec" => return .setSpec (← fStr j "k") (← valOfJson (← jget j "v"))
  | "delSpec" => return .delSpec (← fStr j "k")
  | "appendSpec" => return .appendSpec (← fStr j "k") (← valOfJson (← jget j "v"))
  | "setLabel" => return .setLabel (← fStr j "k") (← valOfJson (← jget j "v"))
  | "delLabel" => return .delLabel (← fStr j "k")
  | "clearLabels" => return .clearLabels
  | "setAnn" => return .setAnn (← fStr j "k") (← valOfJson (← jget j "v"))
  | "delAnn" => return .delAnn (← fStr j "k")
  | "clearAnns" => return .clearAnns
  | "failIfWeightGt" => return .failIfWeightGt (← fInt j "n")
  | "onlyIfMatches" => return .onlyIfMatches (← stmtOfJson (← jget j "st"))
  | o => .error s!"bad stmt {o}"

def genScriptOfJson (j : Json) : R GenScript := do
  let stmts ← (← fArr j "stmts").mapM stmtOfJson
  let ret ← match ← fStr j "ret" with
    | "data" => pure Ret.data
    | "number" => pure Ret.number
    | "hostile" => pure Ret.number   -- a non-table result (a string with a scripted __tostring): the same error for the model
    | "empty" => pure Ret.empty
    | r => .error s!"bad ret {r}"
  return { stmts := stmts, ret := ret }

/-! ### which inputs the hand translations cover -/

def destSupported (d : J) : Bool :=
  match d with
  | .obj kvs =>
    (match lookup "weight" kvs with
      | none => true
      | some (.int _) => true
      | some _ => false)
    && (match lookup "destination" kvs with
      | some (.obj dk) => match lookup "host" dk with
        | none => true
        | some (.str _) => true
        | some _ => false
      | _ => true)
  | _ => true

def ruleSupported (r : J) : Bool :=
  match r with
  | .obj kvs => match lookup "route" kvs with
    | some (.arr ds) => ds.all destSupported
    | _ => true
  | _ => true

def matchSupported (m : HttpMatch) : Bool :=
  (match m.path with
    | none => true
    | some p => (matchTypeOfPath p.ty).isSome)
  && m.headers.all (fun h => (matchTypeOfKV h.ty).isSome)
  && m.queryParams.all (fun h => (matchTypeOfKV h.ty).isSome)

/-- shapes on which `vsScript` is a faithful translation (elsewhere Lua's coercions of numbers /
    strings and the leaking global `matchType` decide, which the model does not reproduce). -/
def vsSupported (d : Data) (s : Strategy) : Bool :=
  s.mts.all matchSupported &&
  match decJ d.spec with
  | .obj kvs => protos.all fun p =>
    match lookup p kvs with
    | some (.arr rules) => rules.all ruleSupported
    | _ => true
  | _ => true

/-- generated scripts assume `spec` is an object or nil. -/
def genSupported (d : Data) : Bool :=
  match d.spec with
  | .obj _ => true
  | .null => true
  | _ => false

/-! ### references -/

structure RefIn where
  kind : String
  script : Option Script
  obj : Option Obj
  supported : Data → Strategy → Bool

def refOfJson (stable canary : String) (j : Json) : R RefIn := do
  let kind ← fStr j "kind"
  let obj ← optObjOfJson (jgetD j "obj" .null)
  match kind with
  | "vs" => return { kind, script := some (vsScript stable canary), obj, supported := vsSupported }
  | "dr" => return { kind, script := some drScript, obj, supported := fun _ _ => true }
  | "gen" =>
    match jopt j "gen" with
    | none => return { kind, script := none, obj, supported := fun _ _ => true }
    | some g =>
      let noScript ← jbool (jgetD j "noScript" (boolJ false))
      if noScript then return { kind, script := none, obj, supported := fun _ _ => true }
      else do
        let gs ← genScriptOfJson g
        return { kind, script := some (genScript stable canary gs), obj, supported := fun d _ => genSupported d }
  | k => .error s!"bad ref kind {k}"

def freshToJson (r : RefIn) (s : Strategy) : Json :=
  match r.obj, r.script with
  | some o, some f =>
    match f (dataOf o) s with
    | some d => dataToJson d
    | none => strJ "err"
  | _, _ => .null

def objsJson (st : List Ref) : Json := arrJ (st.map fun r => optObjToJson r.obj)

/-! ### tags -/

def specTag (o : Obj) : String :=
  match o.spec with
  | none => "spec:absent"
  | some .null => "spec:null"
  | some (.obj []) => "spec:{}"
  | some (.obj _) => "spec:object"
  | some _ => "spec:other"

def mapTag (n : String) (m : Option StrMap) : String :=
  match m with
  | none => s!"{n}:absent"
  | some [] => s!"{n}:empty"
  | some _ => s!"{n}:nonempty"

def strategyTags (s : Strategy) : List String :=
  [match s.traffic with
    | .none => "traffic:nil"
    | .bad => "traffic:bad-string"
    | .pct p => if p < 0 then "traffic:negative" else if p = 0 then "traffic:0" else if p < 100 then "traffic:1-99"
                else if p = 100 then "traffic:100" else "traffic:>100",
   if s.mts = [] then "step:weight" else "step:matches"]
  ++ (if s.hdrMod.isSome then ["hdrMod"] else [])

/-- how the VirtualService rules of a spec are classified by the property. -/
def vsRuleTags (stable : String) (spec : J) : List String :=
  match decJ spec with
  | .obj kvs => protos.foldl (fun acc p =>
      match lookup p kvs with
      | some (.arr rules) => acc ++ rules.map fun r =>
          if hasMatch r then "rule:has-match"
          else if noStableDest stable r then "rule:other-hosts"
          else if (singleStable stable r).isSome then "rule:single-stable"
          else match ruleMult stable r with
            | none => "rule:script-error"
            | some 0 => "rule:other"
            | some 1 => "rule:stable-among-several"
            | some _ => "rule:several-stable"
      | _ => acc) []
  | _ => []

/-- one verdict per key: the conjunction of all its checks (the reply is a JSON object — with
    duplicate keys only the last check would survive). -/
def mergeHolds (hs : List (String × Bool)) : List (String × Bool) :=
  hs.foldl (fun acc (k, b) =>
    match acc.find? (·.1 == k) with
    | some _ => acc.map fun (k', b') => if k' == k then (k', b' && b) else (k', b')
    | none => acc ++ [(k, b)]) []

/-! ### ops -/

def handleScript (inp impl : Json) : R OpResult := do
  let stable ← fStr inp "stable"
  let canary ← fStr inp "canary"
  let r ← refOfJson stable canary (mkObj [("kind", ← jget inp "kind"), ("gen", jgetD inp "gen" .null),
                                           ("noScript", boolJ false), ("obj", .null)])
  let d ← dataOfJson (← jget inp "data")
  let s ← strategyOfJson (← jget inp "strategy")
  let f ← match r.script with
    | some f => pure f
    | none => .error "script op without script"
  let supported := r.supported d s
  let out := f d s
  let model := if supported then (match out with | some d' => dataToJson d' | none => strJ "err") else Json.null
  -- oracles on the implementation's output
  let implData : Option Data := match impl with
    | .str _ => none
    | j => match dataOfJson j with
      | .ok d => some d
      | .error _ => none
  let mut holds : List (String × Bool) := []
  let mut tags : List String := [s!"script:{r.kind}", if supported then "shape:modelled" else "shape:unmodelled"]
  tags := tags ++ strategyTags s
  match impl with
  | .str _ => tags := tags ++ ["script-result:error"]
  | _ => tags := tags ++ ["script-result:ok"]
  if r.kind == "vs" then
    tags := tags ++ (vsRuleTags stable d.spec).eraseDups
    match implData with
    | some o =>
      if s.mts = [] then
        holds := holds ++ [("C15.istio", vsWeightOK stable canary (canaryWeight s) (decJ d.spec) o.spec
                                          && decide (o.labels = d.labels) && decide (o.annotations = d.annotations))]
    | none => pure ()
  if r.kind == "dr" then
    match implData with
    | some o => holds := holds ++ [("C15.istio", drOK (decJ d.spec) o.spec
                                     && decide (o.labels = d.labels) && decide (o.annotations = d.annotations))]
    | none => pure ()
  return { model := model, holds := holds, tags := tags }

def handleSeq (inp impl : Json) : R OpResult := do
  let stable ← fStr inp "stable"
  let canary ← fStr inp "canary"
  let refs ← (← fArr inp "refs").mapM (refOfJson stable canary)
  let steps ← (← fArr inp "steps").mapM strategyOfJson
  let st0 : List Ref := refs.map fun r => ⟨r.script, r.obj⟩
  -- is every script execution of this case inside the modelled shapes?
  let supported := refs.all fun r => match r.obj with
    | none => true
    | some o => steps.all fun s => r.supported (dataOf o) s
  -- model run
  let mut st := st0
  let mut stepsOut : List Json := []
  for s in steps do
    let (st1, r1) := ensureRoutes codec s st
    let (st2, r2) := ensureRoutes codec s st1
    let same := decide (st2.map (·.obj) = st1.map (·.obj))
    stepsOut := stepsOut ++ [mkObj [("res", resToJson r1), ("objs", objsJson st1), ("res2", resToJson r2),
                                    ("same2", boolJ same), ("fresh", arrJ (refs.map fun r => freshToJson r s))]]
    st := st2
  let (stF, rF) := finalise codec st
  let (stF2, rF2) := finalise codec stF
  let model := mkObj [("steps", arrJ stepsOut),
                      ("fin", mkObj [("res", resToJson rF), ("objs", objsJson stF)]),
                      ("fin2", mkObj [("res", resToJson rF2), ("same", boolJ (decide (stF2.map (·.obj) = stF.map (·.obj))))])]
  -- oracles on the implementation's output
  let allPresent := refs.all (·.obj.isSome)
  let origObjs := refs.filterMap (·.obj)
  let pristine := origObjs.all noOrig
  let implSteps ← fArr impl "steps"
  let mut holds : List (String × Bool) := []
  let mut tags : List String := [s!"refs:{refs.length}", s!"steps:{steps.length}"]
  tags := tags ++ (refs.map fun r => s!"ref:{r.kind}").eraseDups
  tags := tags ++ (if allPresent then [] else ["ref:missing-object"])
  tags := tags ++ (if refs.any (fun r => r.script.isNone) then ["ref:no-script"] else [])
  tags := tags ++ (if pristine then [] else ["stale-original-annotation"])
  tags := tags ++ (origObjs.map specTag ++ origObjs.map (fun o => mapTag "labels" o.labels)
                    ++ origObjs.map (fun o => mapTag "annotations" o.annotations)).eraseDups
  tags := tags ++ [if supported then "shape:modelled" else "shape:unmodelled"]
  -- Env: the scripts are deterministic.  The shipped VirtualService script is not when a match type
  -- is missing / unknown (it then reads a stale global); the CRDs default and enumerate the types.
  let detOK := steps.all fun s => s.mts.all matchSupported
  tags := tags ++ (if detOK then [] else ["env:match-type-missing(nondeterministic-script)"])
  let mut anyOk := false
  let mut idx := 0
  for (s, js) in steps.zip implSteps do
    idx := idx + 1
    let res ← resOfJson (← jget js "res")
    let objs ← (← fArr js "objs").mapM optObjOfJson
    let res2 ← resOfJson (← jget js "res2")
    let same2 ← fBool js "same2"
    tags := tags ++ strategyTags s
    tags := tags ++ [match res with
      | .ok true => "ensure:done"
      | .ok false => "ensure:updated"
      | .err => "ensure:error"]
    -- idempotence: judged from the implementation's own second call
    if detOK then
      holds := holds ++ [("C15.idempotent", idemOK res res2 same2)]
    match res with
    | .ok _ =>
      anyOk := true
      if allPresent && pristine && detOK then
        -- statelessness: against the script run on the original object alone (implementation's `fresh`)
        let fresh ← (← fArr js "fresh").mapM fun f => match f with
          | .str _ => pure none
          | .null => pure none
          | j => do pure (some (← dataOfJson j))
        let ok := match fresh.mapM id with
          | some ds => statelessOK codec origObjs ds objs
          | none => false
        holds := holds ++ [("C15.stateless", ok)]
        if idx > 1 then tags := tags ++ ["stateless:after-earlier-steps"]
    | .err => pure ()
  let fin ← jget impl "fin"
  let finObjs ← (← fArr fin "objs").mapM optObjOfJson
  let finRes ← resOfJson (← jget fin "res")
  if pristine then
    if allPresent && steps.length > 0 then
      holds := holds ++ [("C15.restore", restoreOK origObjs finObjs && decide (finRes = .ok true))]
      tags := tags ++ ["restore:after-steps"]
    else
      -- nothing was ever stored: Finalise must not touch anything
      holds := holds ++ [("C15.restore", decide (finObjs = refs.map (·.obj)) && decide (finRes = .ok false))]
      tags := tags ++ ["restore:untouched"]
  let fin2 ← jget impl "fin2"
  holds := holds ++ [("C15.restore-idempotent", decide ((← resOfJson (← jget fin2 "res")) = .ok false) && (← fBool fin2 "same"))]
  if steps.length == 0 then tags := tags ++ ["trivial"]
  let _ := anyOk
  return { model := if supported then model else .null, holds := mergeHolds holds, tags := tags.eraseDups }


/-! ### op `hist`: provider calls interleaved with foreign events and API faults -/

def budgetOfJson (j : Json) : R (Option Nat) := fOptNat j "fail"

def freshHist (u : Option Script × Obj) (s : Strategy) : Json :=
  match u.1 with
  | some f =>
    match f (dataOf u.2) s with
    | some d => dataToJson d
    | none => strJ "err"
  | none => .null

def freshOfJson (js : Json) : R (Option (List Data)) := do
  let fresh ← (← fArr js "fresh").mapM fun f => match f with
    | .str _ => pure none
    | .null => pure none
    | j => do pure (some (← dataOfJson j))
  return fresh.mapM id

/-! event `race`: `EnsureRoutes` whose `b`-th write meets a conflict because the user replaced that very object between the
    provider's read and that write.  For the model this is the step with budget `b` (the provider returns at the first
    failed write) followed by the user's write to the ref whose `Update` failed; `raceTarget` says which ref that is. -/

def storeFailAt (c : Codec) : Option Nat → List (Option Script × Obj) → Nat → Option Nat
  | _, [], _ => none
  | b, p :: r, i =>
    match (if (storeIfAbsentW c p.2).2 then spend b else some b) with
    | none => some i
    | some b1 => storeFailAt c b1 r (i + 1)

def applyFailAt : Option Nat → List Data → List (Option Script × Obj) → Nat → Option Nat
  | b, d :: ds, p :: r, i =>
    match (if (compareAndUpdate d p.2).2 then spend b else some b) with
    | none => some i
    | some b1 => applyFailAt b1 ds r (i + 1)
  | _, _, _, _ => none

def raceTarget (c : Codec) (b : Option Nat) (s : Strategy) (st : List Ref) : Option Nat :=
  match getAll st with
  | none => none
  | some objs =>
    match (storeLoop c b objs).2 with
    | none => storeFailAt c b objs 0
    | some b1 =>
      match planAll c s (storeLoop c b objs).1 with
      | none => none
      | some ds => applyFailAt b1 ds (storeLoop c b objs).1 0

def handleHist (inp impl : Json) : R OpResult := do
  let stable ← fStr inp "stable"
  let canary ← fStr inp "canary"
  let events ← fArr inp "events"
  let implEvents ← fArr impl "events"
  if implEvents.length != events.length then
    .error "hist: the implementation reports a different number of events"
  -- model state, the user's last configurations (a function of the events alone), and per ref the
  -- predicate "the script execution is inside the modelled shapes" (same list operations as `Users`)
  let mut w : World := World.empty
  let mut us : Users := Users.empty
  let mut kindsA : List RefIn := []
  let mut kindsP : List RefIn := []
  let mut written : List ((Data → Strategy → Bool) × Obj) := []
  let mut strategies : List Strategy := []
  let mut out : List Json := []
  let mut holds : List (String × Bool) := []
  let mut tags : List String := [s!"events:{if events.length ≤ 4 then "1-4" else if events.length ≤ 8 then "5-8" else "9+"}"]
  -- what happened so far (for the scenario tags)
  let mut maxRefs := 0
  let mut lastStepFailed := false
  let mut lastFinFailed := false
  let mut partialFin := false       -- a failed Finalise restored some refs and not others, no successful call since
  let mut retryOf : Option String := none   -- the previous event was a step cut short by an injected fault: its strategy (JSON text)
  let mut prevObjs : List (Option Obj) := []
  let mut prevParked : List (Option Obj) := []
  for (e, je) in events.zip implEvents do
    let ev ← fStr e "ev"
    let implObjs ← (← fArr je "objs").mapM optObjOfJson
    let implParked ← (← fArr je "parked").mapM optObjOfJson
    let implRes : Option Res ← match jopt je "res" with
      | none => pure none
      | some r => do pure (some (← resOfJson r))
    let mut recJ : List (String × Json) := []
    tags := tags ++ [s!"ev:{ev}"]
    if ev != "step" && ev != "race" then retryOf := none
    match ev with
    | "add" =>
      let r ← refOfJson stable canary (← jget e "ref")
      let o ← match r.obj with
        | some o => pure o
        | none => .error "hist: add without object"
      if !(noOrig o) then .error "hist: generator must supply manifests without the provider's annotation"
      let evm := Event.addRef r.script o
      w := (runEv codec evm w).1
      us := usersEv evm us
      kindsA := kindsA ++ [r]
      written := written ++ [(r.supported, o)]
      tags := tags ++ [s!"ref:{r.kind}"] ++ (if r.script.isNone then ["ref:no-script"] else [])
               ++ [specTag o, mapTag "labels" o.labels, mapTag "annotations" o.annotations]
      recJ := [("res", .null)]
    | "write" =>
      let i ← fNat e "i"
      let o ← objOfJson (← jget e "obj")
      if !(noOrig o) then .error "hist: generator must supply manifests without the provider's annotation"
      -- scenario: the re-created object lacks the annotation while a sibling carries it
      let siblings := (w.active.zipIdx.filter fun (r, k) => k != i && (match r.obj with
        | some x => !noOrig x
        | none => false)).length
      let self := match getAt i w.active with
        | some ⟨_, some x⟩ => !noOrig x
        | _ => false
      if self then tags := tags ++ ["write:over-annotated-object"]
      if siblings > 0 && (getAt i w.active).isSome then tags := tags ++ ["write:while-siblings-annotated"]
      let evm := Event.userWrite i o
      w := (runEv codec evm w).1
      us := usersEv evm us
      match getAt i kindsA with
      | some r => written := written ++ [(r.supported, o)]
      | none => tags := tags ++ ["index:out-of-range"]
      recJ := [("res", .null)]
    | "delete" =>
      let i ← fNat e "i"
      w := (runEv codec (.delete i) w).1
      recJ := [("res", .null)]
    | "remove" =>
      let i ← fNat e "i"
      match getAt i w.active with
      | some ⟨_, some x⟩ => if !noOrig x then tags := tags ++ ["remove:annotated-object"]
      | _ => pure ()
      w := (runEv codec (.removeRef i) w).1
      us := usersEv (.removeRef i) us
      match getAt i kindsA with
      | some r => kindsA := removeAt i kindsA; kindsP := kindsP ++ [r]
      | none => tags := tags ++ ["index:out-of-range"]
      recJ := [("res", .null)]
    | "readd" =>
      let j ← fNat e "j"
      match getAt j w.parked with
      | some ⟨_, some x⟩ => if !noOrig x then tags := tags ++ ["readd:annotated-object"]
      | _ => pure ()
      w := (runEv codec (.readd j) w).1
      us := usersEv (.readd j) us
      match getAt j kindsP with
      | some r => kindsP := removeAt j kindsP; kindsA := kindsA ++ [r]
      | none => tags := tags ++ ["index:out-of-range"]
      recJ := [("res", .null)]
    | "step" | "race" =>
      let b ← budgetOfJson e
      let s ← strategyOfJson (← jget e "strategy")
      strategies := strategies ++ [s]
      if !(s.mts.all matchSupported) then .error "hist: generator must supply admissible match types"
      let mixed := w.active.any (fun r => match r.obj with | some x => noOrig x | none => false)
                    && w.active.any (fun r => match r.obj with | some x => !noOrig x | none => false)
      let pre := w.active
      let (st1, r1) := ensureRoutesF codec b s pre
      recJ := [("res", resToJson r1)]
      w := { w with active := st1 }
      match r1 with
      | .ok _ =>
        -- the repeated call runs against an API server that refuses every write
        let (st2, r2) := ensureRoutesF codec (some 0) s st1
        recJ := recJ ++ [("res2", resToJson r2), ("same2", boolJ (decide (st2.map (·.obj) = st1.map (·.obj)))),
                       ("fresh", arrJ (us.active.map fun u => freshHist u s))]
        w := { w with active := st2 }
      | .err => pure ()
      -- the concurrent writer of a `race`
      if ev == "race" then
        match raceTarget codec b s pre with
        | some i =>
          let objsJ ← fArr e "objs"
          match objsJ[i]? with
          | some oj =>
            let o ← objOfJson oj
            if !(noOrig o) then .error "hist: generator must supply manifests without the provider's annotation"
            let evm := Event.userWrite i o
            w := (runEv codec evm w).1
            us := usersEv evm us
            match getAt i kindsA with
            | some r => written := written ++ [(r.supported, o)]
            | none => pure ()
            tags := tags ++ ["race:user-replaced-the-object-under-the-write"]
          | none => .error "hist: race without a manifest for the conflicting ref"
        | none => tags := tags ++ ["race:no-write-reached"]
      -- tags
      tags := tags ++ strategyTags s
      if b.isSome then tags := tags ++ ["step:with-fault-budget"]
      if mixed then tags := tags ++ ["step:some-refs-annotated-some-not"]
      if w.active.any (·.obj.isNone) then tags := tags ++ ["step:object-missing"]
      -- C06 / C15: the retry of a step that an API fault (a failed or conflicting write, a crash between two writes) cut short
      -- goes through: whatever the interrupted call left behind, the same step without a fault does not fail
      let stratTxt := (← jget e "strategy").compress
      if b.isNone && ev == "step" && retryOf == some stratTxt then
        let recovered := match implRes with | some .err => false | _ => true
        holds := holds ++ [("C15.hist_retry_recovers", recovered), ("C06.hist_retry_recovers", recovered)]
        tags := tags ++ ["step:retry-after-fault"]
      retryOf := if ev == "step" && b.isSome && r1 == .err && (ensureRoutesF codec none s pre).2 != .err then some stratTxt else none
      match implRes with
      | some (.ok d) =>
        tags := tags ++ [if d then "ensure:done" else "ensure:updated"]
        if lastStepFailed then tags := tags ++ ["step:ok-after-failed-step"]
        if partialFin then tags := tags ++ ["step:ok-after-partial-finalise"]
        if mixed then tags := tags ++ ["step:ok-with-some-refs-annotated-some-not"]
        lastStepFailed := false
        partialFin := false
      | _ =>
        tags := tags ++ ["ensure:error"]
        if b.isSome && r1 == .err && (ensureRoutesF codec none s pre).2 != .err then
          tags := tags ++ ["step:failed-by-fault"]
        lastStepFailed := true
      -- oracles on the implementation's output
      match implRes with
      | some (.ok _) =>
        let res2 ← resOfJson (← jget je "res2")
        let same2 ← fBool je "same2"
        holds := holds ++ [("C15.hist_idempotent", idemOK (.ok true) res2 same2)]
        let ok := match ← freshOfJson je with
          | some ds => statelessOK codec (us.active.map (·.2)) ds implObjs
          | none => false
        holds := holds ++ [("C15.hist_stateless", ok)]
      | _ => pure ()
      holds := holds ++ [("C15.hist_frame", decide (implParked = prevParked))]
    | "init" =>
      -- `Initialize`: every referenced object exists and has a script, or an error; nothing is written
      let r1 : Res := if w.active.all (fun r => r.obj.isSome && r.script.isSome) then .ok true else .err
      recJ := [("res", resToJson r1)]
      holds := holds ++ [("C15.hist_init_writes_nothing", decide (implObjs = prevObjs) && decide (implParked = prevParked))]
    | "fin" =>
      let b ← budgetOfJson e
      let annotatedBefore := (w.active.filter fun r => match r.obj with | some x => !noOrig x | none => false).length
      let (st1, r1) := finaliseF codec b w.active
      recJ := [("res", resToJson r1)]
      w := { w with active := st1 }
      if b.isSome then tags := tags ++ ["fin:with-fault-budget"]
      match implRes with
      | some (.ok m) =>
        tags := tags ++ [if m then "finalise:modified" else "finalise:nothing-to-do"]
        if lastFinFailed then tags := tags ++ ["fin:ok-after-failed-fin"]
        lastFinFailed := false
        partialFin := false
        holds := holds ++ [("C15.hist_restore",
          histRestoreOK (us.active.map (·.2)) prevObjs implObjs && decide (m = anyAnnotated prevObjs))]
      | _ =>
        tags := tags ++ ["finalise:error"]
        lastFinFailed := true
        let annotatedAfter := (st1.filter fun r => match r.obj with | some x => !noOrig x | none => false).length
        if annotatedAfter < annotatedBefore then
          partialFin := true
          tags := tags ++ ["fin:failed-part-way"]
      holds := holds ++ [("C15.hist_frame", decide (implParked = prevParked))]
    | k => .error s!"hist: unknown event {k}"
    if w.active.length > maxRefs then maxRefs := w.active.length
    -- the invariant, on the implementation's objects, after every event
    holds := holds ++ [("C15.hist_orig", origKeptOK codec (us.active.map (·.2)) implObjs
                                          && origKeptOK codec (us.parked.map (·.2)) implParked)]
    out := out ++ [mkObj (recJ ++ [("objs", objsJson w.active), ("parked", objsJson w.parked)])]
    prevObjs := implObjs
    prevParked := implParked
  tags := tags ++ [s!"refs-max:{maxRefs}"]
  let supported := written.all fun (sup, o) => strategies.all fun s => sup (dataOf o) s
  tags := tags ++ [if supported then "shape:modelled" else "shape:unmodelled"]
  if strategies.isEmpty then tags := tags ++ ["trivial"]
  return { model := if supported then mkObj [("events", arrJ out)] else .null,
           holds := mergeHolds holds, tags := tags.eraseDups }

def handle : Handler := fun op inp impl => do
  match impl with
  | .obj _ =>
    if (jopt impl "panic").isSome then
      -- C16: whatever the script returns, the provider turns it into a result or an error, never a process crash
      return { model := .null, holds := [("C15.no-panic", false), ("C16.provider_no_panic", false)], tags := ["panic"] }
  | _ => pure ()
  let r ← (match op with
    | "seq" => handleSeq inp impl
    | "script" => handleScript inp impl
    | "hist" => handleHist inp impl
    | _ => .error s!"custom: unknown op {op}")
  return { r with holds := r.holds ++ [("C16.provider_no_panic", true)] }

end RV.Drv.Custom
