import RV.Json
import RV.Model.Custom
import RV.Oracle.C15
/-!
  Driver for suite "custom" (C15).  Ops `seq` and `script`, see harness/suite_custom.go.
-/
namespace RV.Drv.Custom
open Lean RV RV.Custom RV.Oracle.C15

/-! ### JSON ↔ model values -/

partial def jOfJson : Json → R J
  | .null => .ok .null
  | .bool b => .ok (.bool b)
  | .num n => if n.exponent == 0 then .ok (.int n.mantissa) else .error s!"non-integer number {n}"
  | .str s => .ok (.str s)
  | .arr a => do return .arr (← a.toList.mapM jOfJson)
  | .obj kvs => do return .obj (← kvs.toList.mapM fun (k, v) => do return (k, ← jOfJson v))

partial def jToJson : J → Json
  | .null => .null
  | .bool b => .bool b
  | .int n => intJ n
  | .str s => .str s
  | .arr xs => arrJ (xs.map jToJson)
  | .obj kvs => mkObj (kvs.map fun (k, v) => (k, jToJson v))

def strMapOfJson (j : Json) : R StrMap :=
  match j with
  | .null => .ok []
  | .obj kvs => kvs.toList.mapM fun (k, v) => do return (k, ← jstr v)
  | _ => .error s!"string map expected: {j.compress}"

def strMapToJson (m : StrMap) : Json := mkObj (m.map fun (k, v) => (k, strJ v))

def dataToJson (d : Data) : Json :=
  mkObj [("spec", jToJson d.spec), ("labels", strMapToJson d.labels), ("annotations", strMapToJson d.annotations)]

def dataOfJson (j : Json) : R Data := do
  let spec ← jOfJson (jgetD j "spec" .null)
  let labels ← strMapOfJson (jgetD j "labels" .null)
  let anns ← strMapOfJson (jgetD j "annotations" .null)
  return { spec := spec, labels := labels, annotations := anns }

/-- the codec instance the driver runs the model with: Lean's JSON printer / parser.
    (`json.Unmarshal` errors are ignored by the Go code: garbage decodes to the zero `Data`.) -/
def codec : Codec where
  enc d := (dataToJson d).compress
  dec s :=
    match Json.parse s with
    | .ok j =>
      match dataOfJson j with
      | .ok d => d
      | .error _ => { spec := .null, labels := [], annotations := [] }
    | .error _ => { spec := .null, labels := [], annotations := [] }

def origOfJson (j : Json) : R (Option String) :=
  match j with
  | .null => .ok none
  | _ =>
    match jopt j "d", jopt j "raw" with
    | some d, _ => do return some (codec.enc (← dataOfJson d))
    | _, some r => do return some (← jstr r)
    | _, _ => .error s!"bad orig {j.compress}"

def objOfJson (j : Json) : R Obj := do
  let spec ← match ← fArr j "spec" with
    | [] => pure none
    | [v] => do pure (some (← jOfJson v))
    | _ => .error "spec: 0 or 1 element expected"
  let labels ← match jopt j "labels" with
    | none => pure none
    | some l => do pure (some (← strMapOfJson l))
  let anns ← match jopt j "annotations" with
    | none => pure none
    | some l => do pure (some (← strMapOfJson l))
  let orig ← origOfJson (jgetD j "orig" .null)
  let anns := match orig with
    | none => anns
    | some s => some ((anns.getD []) ++ [(origKey, s)])
  return { spec := spec, labels := labels, annotations := anns }

def origToJson (s : String) : Json :=
  if s == "" then mkObj [("raw", strJ s)]
  else match Json.parse s with
    | .ok (.obj o) => mkObj [("d", dataToJson (codec.dec (Json.obj o).compress))]
    | _ => mkObj [("raw", strJ s)]

def objToJson (o : Obj) : Json :=
  let orig := match o.annotations with
    | none => Json.null
    | some a => match lookup origKey a with
      | none => Json.null
      | some s => origToJson s
  mkObj [("spec", match o.spec with | none => arrJ [] | some v => arrJ [jToJson v]),
         ("labels", optJ strMapToJson o.labels),
         ("annotations", optJ (fun a => strMapToJson (eraseKey origKey a)) o.annotations),
         ("orig", orig)]

def optObjToJson : Option Obj → Json
  | none => .null
  | some o => objToJson o

def optObjOfJson (j : Json) : R (Option Obj) :=
  match j with
  | .null => .ok none
  | _ => do return some (← objOfJson j)

def resToJson : Res → Json
  | .ok true => strJ "ok:true"
  | .ok false => strJ "ok:false"
  | .err => strJ "err"

def resOfJson (j : Json) : R Res := do
  match ← jstr j with
  | "ok:true" => return .ok true
  | "ok:false" => return .ok false
  | "err" => return .err
  | s => .error s!"bad result {s}"

/-! ### strategy, generated scripts -/

def kvMatchOfJson (j : Json) : R KVMatch := do
  return { ty := ← fOptStr j "type", name := ← fStr j "name", value := ← fStr j "value" }

def strategyOfJson (j : Json) : R Strategy := do
  let traffic ← match jopt j "traffic" with
    | none => pure Traffic.none
    | some t =>
      match jopt t "p" with
      | some p => do pure (Traffic.pct (← jint p))
      | none => pure Traffic.bad
  let mts ← (← fArr j "matches").mapM fun m => do
    let path ← match jopt m "path" with
      | none => pure none
      | some p => do pure (some ({ ty := ← fOptStr p "type", value := ← fOptStr p "value" } : PathMatch))
    let hs ← (← jarr (jgetD m "headers" (arrJ []))).mapM kvMatchOfJson
    let qs ← (← jarr (jgetD m "queryParams" (arrJ []))).mapM kvMatchOfJson
    pure ({ path := path, headers := hs, queryParams := qs } : HttpMatch)
  let pairs (k : String) (h : Json) : R (List (String × String)) := do
    (← jarr (jgetD h k (arrJ []))).mapM fun p => do
      match ← jarr p with
      | [a, b] => do pure (← jstr a, ← jstr b)
      | _ => .error "pair expected"
  let hdr ← match jopt j "hdrMod" with
    | none => pure none
    | some h => do
      let rem ← (← jarr (jgetD h "remove" (arrJ []))).mapM jstr
      pure (some ({ set := ← pairs "set" h, add := ← pairs "add" h, remove := rem } : HeaderMod))
  return { traffic := traffic, mts := mts, hdrMod := hdr }

def valOfJson (j : Json) : R Val := do
  match ← fStr j "kind" with
  | "weight" => return .weight
  | "stableWeight" => return .stableWeight
  | "weightStr" => return .weightStr
  | "canarySvc" => return .canarySvc
  | "stableSvc" => return .stableSvc
  | "int" => return .int (← fInt j "n")
  | "str" => return .str (← fStr j "s")
  | k => .error s!"bad val kind {k}"

partial def stmtOfJson (j : Json) : R Stmt := do
  match ← fStr j "op" with
  | "ensureSpec" => return .ensureSpec
  | "setSpec" => return .setSpec (← fStr j "k") (← valOfJson (← jget j "v"))
  | "delSpec" => return .delSpec (← fStr j "k")
  | "appendSpec" => return .appendSpec (← fStr j "k") (← valOfJson (← jget j "v"))
  | "setLabel" => return .setLabel (← fStr j "k") (← valOfJson (← jget j "v"))
  | "delLabel" => return .delLabel (← fStr j "k")
  | "clearLabels" => return .clearLabels
  | "setAnn" => return .setAnn (← fStr j "k") (← valOfJson (← jget j "v"))
  | "delAnn" => return .delAnn (← fStr j "k")
  | "clearAnns" => return .clearAnns
  | "failIfWeightGt" => return .failIfWeightGt (← fInt j "n")
  | "onlyIfMatches" => return .onlyIfMatches (← stmtOfJson (← jget j "st"))
  | o => .error s!"bad stmt {o}"

def genScriptOfJson (j : Json) : R GenScript := do
  let stmts ← (← fArr j "stmts").mapM stmtOfJson
  let ret ← match ← fStr j "ret" with
    | "data" => pure Ret.data
    | "number" => pure Ret.number
    | "empty" => pure Ret.empty
    | r => .error s!"bad ret {r}"
  return { stmts := stmts, ret := ret }

/-! ### which inputs the hand translations cover -/

def destSupported (d : J) : Bool :=
  match d with
  | .obj kvs =>
    (match lookup "weight" kvs with
      | none => true
      | some (.int _) => true
      | some _ => false)
    && (match lookup "destination" kvs with
      | some (.obj dk) => match lookup "host" dk with
        | none => true
        | some (.str _) => true
        | some _ => false
      | _ => true)
  | _ => true

def ruleSupported (r : J) : Bool :=
  match r with
  | .obj kvs => match lookup "route" kvs with
    | some (.arr ds) => ds.all destSupported
    | _ => true
  | _ => true

def matchSupported (m : HttpMatch) : Bool :=
  (match m.path with
    | none => true
    | some p => (matchTypeOfPath p.ty).isSome)
  && m.headers.all (fun h => (matchTypeOfKV h.ty).isSome)
  && m.queryParams.all (fun h => (matchTypeOfKV h.ty).isSome)

/-- shapes on which `vsScript` is a faithful translation (elsewhere Lua's coercions of numbers /
    strings and the leaking global `matchType` decide, which the model does not reproduce). -/
def vsSupported (d : Data) (s : Strategy) : Bool :=
  s.mts.all matchSupported &&
  match decJ d.spec with
  | .obj kvs => protos.all fun p =>
    match lookup p kvs with
    | some (.arr rules) => rules.all ruleSupported
    | _ => true
  | _ => true

/-- generated scripts assume `spec` is an object or nil. -/
def genSupported (d : Data) : Bool :=
  match d.spec with
  | .obj _ => true
  | .null => true
  | _ => false

/-! ### references -/

structure RefIn where
  kind : String
  script : Option Script
  obj : Option Obj
  supported : Data → Strategy → Bool

def refOfJson (stable canary : String) (j : Json) : R RefIn := do
  let kind ← fStr j "kind"
  let obj ← optObjOfJson (jgetD j "obj" .null)
  match kind with
  | "vs" => return { kind, script := some (vsScript stable canary), obj, supported := vsSupported }
  | "dr" => return { kind, script := some drScript, obj, supported := fun _ _ => true }
  | "gen" =>
    match jopt j "gen" with
    | none => return { kind, script := none, obj, supported := fun _ _ => true }
    | some g =>
      let noScript ← jbool (jgetD j "noScript" (boolJ false))
      if noScript then return { kind, script := none, obj, supported := fun _ _ => true }
      else do
        let gs ← genScriptOfJson g
        return { kind, script := some (genScript stable canary gs), obj, supported := fun d _ => genSupported d }
  | k => .error s!"bad ref kind {k}"

def freshToJson (r : RefIn) (s : Strategy) : Json :=
  match r.obj, r.script with
  | some o, some f =>
    match f (dataOf o) s with
    | some d => dataToJson d
    | none => strJ "err"
  | _, _ => .null

def objsJson (st : List Ref) : Json := arrJ (st.map fun r => optObjToJson r.obj)

/-! ### tags -/

def specTag (o : Obj) : String :=
  match o.spec with
  | none => "spec:absent"
  | some .null => "spec:null"
  | some (.obj []) => "spec:{}"
  | some (.obj _) => "spec:object"
  | some _ => "spec:other"

def mapTag (n : String) (m : Option StrMap) : String :=
  match m with
  | none => s!"{n}:absent"
  | some [] => s!"{n}:empty"
  | some _ => s!"{n}:nonempty"

def strategyTags (s : Strategy) : List String :=
  [match s.traffic with
    | .none => "traffic:nil"
    | .bad => "traffic:bad-string"
    | .pct p => if p < 0 then "traffic:negative" else if p = 0 then "traffic:0" else if p < 100 then "traffic:1-99"
                else if p = 100 then "traffic:100" else "traffic:>100",
   if s.mts = [] then "step:weight" else "step:matches"]
  ++ (if s.hdrMod.isSome then ["hdrMod"] else [])

/-- how the VirtualService rules of a spec are classified by the property. -/
def vsRuleTags (stable : String) (spec : J) : List String :=
  match decJ spec with
  | .obj kvs => protos.foldl (fun acc p =>
      match lookup p kvs with
      | some (.arr rules) => acc ++ rules.map fun r =>
          if hasMatch r then "rule:has-match"
          else if noStableDest stable r then "rule:other-hosts"
          else if (singleStable stable r).isSome then "rule:single-stable"
          else match ruleMult stable r with
            | none => "rule:script-error"
            | some 0 => "rule:other"
            | some 1 => "rule:stable-among-several"
            | some _ => "rule:several-stable"
      | _ => acc) []
  | _ => []

/-! ### ops -/

def handleScript (inp impl : Json) : R OpResult := do
  let stable ← fStr inp "stable"
  let canary ← fStr inp "canary"
  let r ← refOfJson stable canary (mkObj [("kind", ← jget inp "kind"), ("gen", jgetD inp "gen" .null),
                                           ("noScript", boolJ false), ("obj", .null)])
  let d ← dataOfJson (← jget inp "data")
  let s ← strategyOfJson (← jget inp "strategy")
  let f ← match r.script with
    | some f => pure f
    | none => .error "script op without script"
  let supported := r.supported d s
  let out := f d s
  let model := if supported then (match out with | some d' => dataToJson d' | none => strJ "err") else Json.null
  -- oracles on the implementation's output
  let implData : Option Data := match impl with
    | .str _ => none
    | j => match dataOfJson j with
      | .ok d => some d
      | .error _ => none
  let mut holds : List (String × Bool) := []
  let mut tags : List String := [s!"script:{r.kind}", if supported then "shape:modelled" else "shape:unmodelled"]
  tags := tags ++ strategyTags s
  match impl with
  | .str _ => tags := tags ++ ["script-result:error"]
  | _ => tags := tags ++ ["script-result:ok"]
  if r.kind == "vs" then
    tags := tags ++ (vsRuleTags stable d.spec).eraseDups
    match implData with
    | some o =>
      if s.mts = [] then
        holds := holds ++ [("C15.istio", vsWeightOK stable canary (canaryWeight s) (decJ d.spec) o.spec
                                          && decide (o.labels = d.labels) && decide (o.annotations = d.annotations))]
    | none => pure ()
  if r.kind == "dr" then
    match implData with
    | some o => holds := holds ++ [("C15.istio", drOK (decJ d.spec) o.spec
                                     && decide (o.labels = d.labels) && decide (o.annotations = d.annotations))]
    | none => pure ()
  return { model := model, holds := holds, tags := tags }

def handleSeq (inp impl : Json) : R OpResult := do
  let stable ← fStr inp "stable"
  let canary ← fStr inp "canary"
  let refs ← (← fArr inp "refs").mapM (refOfJson stable canary)
  let steps ← (← fArr inp "steps").mapM strategyOfJson
  let st0 : List Ref := refs.map fun r => ⟨r.script, r.obj⟩
  -- is every script execution of this case inside the modelled shapes?
  let supported := refs.all fun r => match r.obj with
    | none => true
    | some o => steps.all fun s => r.supported (dataOf o) s
  -- model run
  let mut st := st0
  let mut stepsOut : List Json := []
  for s in steps do
    let (st1, r1) := ensureRoutes codec s st
    let (st2, r2) := ensureRoutes codec s st1
    let same := decide (st2.map (·.obj) = st1.map (·.obj))
    stepsOut := stepsOut ++ [mkObj [("res", resToJson r1), ("objs", objsJson st1), ("res2", resToJson r2),
                                    ("same2", boolJ same), ("fresh", arrJ (refs.map fun r => freshToJson r s))]]
    st := st2
  let (stF, rF) := finalise codec st
  let (stF2, rF2) := finalise codec stF
  let model := mkObj [("steps", arrJ stepsOut),
                      ("fin", mkObj [("res", resToJson rF), ("objs", objsJson stF)]),
                      ("fin2", mkObj [("res", resToJson rF2), ("same", boolJ (decide (stF2.map (·.obj) = stF.map (·.obj))))])]
  -- oracles on the implementation's output
  let allPresent := refs.all (·.obj.isSome)
  let origObjs := refs.filterMap (·.obj)
  let pristine := origObjs.all noOrig
  let implSteps ← fArr impl "steps"
  let mut holds : List (String × Bool) := []
  let mut tags : List String := [s!"refs:{refs.length}", s!"steps:{steps.length}"]
  tags := tags ++ (refs.map fun r => s!"ref:{r.kind}").eraseDups
  tags := tags ++ (if allPresent then [] else ["ref:missing-object"])
  tags := tags ++ (if refs.any (fun r => r.script.isNone) then ["ref:no-script"] else [])
  tags := tags ++ (if pristine then [] else ["stale-original-annotation"])
  tags := tags ++ (origObjs.map specTag ++ origObjs.map (fun o => mapTag "labels" o.labels)
                    ++ origObjs.map (fun o => mapTag "annotations" o.annotations)).eraseDups
  tags := tags ++ [if supported then "shape:modelled" else "shape:unmodelled"]
  -- Env: the scripts are deterministic.  The shipped VirtualService script is not when a match type
  -- is missing / unknown (it then reads a stale global); the CRDs default and enumerate the types.
  let detOK := steps.all fun s => s.mts.all matchSupported
  tags := tags ++ (if detOK then [] else ["env:match-type-missing(nondeterministic-script)"])
  let mut anyOk := false
  let mut idx := 0
  for (s, js) in steps.zip implSteps do
    idx := idx + 1
    let res ← resOfJson (← jget js "res")
    let objs ← (← fArr js "objs").mapM optObjOfJson
    let res2 ← resOfJson (← jget js "res2")
    let same2 ← fBool js "same2"
    tags := tags ++ strategyTags s
    tags := tags ++ [match res with
      | .ok true => "ensure:done"
      | .ok false => "ensure:updated"
      | .err => "ensure:error"]
    -- idempotence: judged from the implementation's own second call
    if detOK then
      holds := holds ++ [("C15.idempotent", idemOK res res2 same2)]
    match res with
    | .ok _ =>
      anyOk := true
      if allPresent && pristine && detOK then
        -- statelessness: against the script run on the original object alone (implementation's `fresh`)
        let fresh ← (← fArr js "fresh").mapM fun f => match f with
          | .str _ => pure none
          | .null => pure none
          | j => do pure (some (← dataOfJson j))
        let ok := match fresh.mapM id with
          | some ds => statelessOK codec origObjs ds objs
          | none => false
        holds := holds ++ [("C15.stateless", ok)]
        if idx > 1 then tags := tags ++ ["stateless:after-earlier-steps"]
    | .err => pure ()
  let fin ← jget impl "fin"
  let finObjs ← (← fArr fin "objs").mapM optObjOfJson
  let finRes ← resOfJson (← jget fin "res")
  if pristine then
    if allPresent && steps.length > 0 then
      holds := holds ++ [("C15.restore", restoreOK origObjs finObjs && decide (finRes = .ok true))]
      tags := tags ++ ["restore:after-steps"]
    else
      -- nothing was ever stored: Finalise must not touch anything
      holds := holds ++ [("C15.restore", decide (finObjs = refs.map (·.obj)) && decide (finRes = .ok false))]
      tags := tags ++ ["restore:untouched"]
  let fin2 ← jget impl "fin2"
  holds := holds ++ [("C15.restore-idempotent", decide ((← resOfJson (← jget fin2 "res")) = .ok false) && (← fBool fin2 "same"))]
  if steps.length == 0 then tags := tags ++ ["trivial"]
  let _ := anyOk
  return { model := if supported then model else .null, holds := holds, tags := tags.eraseDups }

def handle : Handler := fun op inp impl => do
  match impl with
  | .obj _ =>
    if (jopt impl "panic").isSome then
      return { model := .null, holds := [("C15.no-panic", false)], tags := ["panic"] }
  | _ => pure ()
  match op with
  | "seq" => handleSeq inp impl
  | "script" => handleScript inp impl
  | _ => .error s!"custom: unknown op {op}"

end RV.Drv.Custom
