import RV.Json
import RV.Drv.Arith
import RV.Model.CtlSts
import RV.Oracle.CtlSts
namespace RV.Drv.CtlSts
open Lean RV RV.Arith RV.Webhook RV.CtlSts RV.Drv.Arith RV.Oracle.CtlSts

/-! JSON forms: an absent block is `null`, a block that is not what it should be is the string
    `"malformed"`, a present block is an object.  Inputs may also say `"null"`: the harness then stores a JSON
    `null`, which every reader and the merge patch treat exactly like an absent `updateStrategy` / `rollingUpdate`
    (`NestedFieldNoCopy` returns not-found below a nil value) and like a non-integer `partition`; `"float"`:
    a non-integer number as partition. -/

def partOfJson : Json → R PartV
  | .null => pure .absent
  | .str _ => pure .malformed
  | j => do return .int (← fInt j "i")

def partToJson : PartV → Json
  | .absent => .null
  | .malformed => strJ "malformed"
  | .int n => mkObj [("i", intJ n)]

def optBoolOfJson (j : Json) (k : String) : Option Bool :=
  match jopt j k with
  | some (.bool b) => some b
  | _ => none

def rubOfJson : Json → R RUB
  | .null => pure .absent
  | .str "null" => pure .absent
  | .str _ => pure .malformed
  | j => do return .present (← partOfJson (jgetD j "partition" .null)) (optBoolOfJson j "paused") (← fBool j "unordered")

def rubToJson : RUB → Json
  | .absent => .null
  | .malformed => strJ "malformed"
  | .present p pa un => mkObj [("partition", partToJson p), ("paused", optJ boolJ pa), ("unordered", boolJ un)]

def usOfJson : Json → R US
  | .null => pure .absent
  | .str "null" => pure .absent
  | .str _ => pure .malformed
  | j => do return .present (← fStr j "type") (← rubOfJson (jgetD j "ru" .null))

def usToJson : US → Json
  | .absent => .null
  | .malformed => strJ "malformed"
  | .present t ru => mkObj [("type", strJ t), ("ru", rubToJson ru)]

def kindOf : String → R Kind
  | "native" => pure .native | "advanced" => pure .advanced
  | "unstructured" => pure .unstructured | "daemonSet" => pure .daemonSet
  | s => .error s!"ctlsts: kind {s}"
def kindStr : Kind → String
  | .native => "native" | .advanced => "advanced" | .unstructured => "unstructured" | .daemonSet => "daemonSet"

def ownerOf : String → R Owner
  | "none" => pure .none | "this" => pure .this | "other" => pure .other
  | s => .error s!"ctlsts: control {s}"
def ownerStr : Owner → String
  | .none => "none" | .this => "this" | .other => "other"

def wlOfJson (j : Json) : R Wl := do
  return { kind := ← kindOf (← fStr j "kind"), replicas := ← fOptInt j "replicas", us := ← usOfJson (jgetD j "us" .null),
           control := ← ownerOf (← fStr j "control"), inProgress := ← fBool j "inProgress", tmpl := ← fNat j "tmpl",
           tmplPresent := ← fBool j "tmplPresent", updatedReady := ← fInt j "updatedReady", rest := ← fNat j "rest" }

def wlToJson (w : Wl) : Json :=
  mkObj [("kind", strJ (kindStr w.kind)), ("replicas", optJ intJ w.replicas), ("us", usToJson w.us),
    ("control", strJ (ownerStr w.control)), ("inProgress", boolJ w.inProgress), ("tmpl", natJ w.tmpl),
    ("tmplPresent", boolJ w.tmplPresent), ("updatedReady", intJ w.updatedReady), ("rest", natJ w.rest)]

def wlOptOfJson (j : Json) (k : String) : R (Option Wl) :=
  match jopt j k with
  | none => pure none
  | some v => do return some (← wlOfJson v)

def editOfJson (j : Json) (k : String) : R Edit :=
  match jopt j k with
  | none => pure Edit.none
  | some e => do
    let us ← (do
      if ← fBool e "setUS" then return some (← usOfJson (jgetD e "us" .null))
      else return none)
    return { tmpl := ← fOptNat e "tmpl", replicas := ← fOptInt e "replicas", us := us }

def callOf : String → R Call
  | "initialize" => pure .initialize | "upgradeBatch" => pure .upgradeBatch
  | "finalize" => pure .finalize | "submit" => pure .submit
  | s => .error s!"ctlsts: call {s}"
def callStr : Call → String
  | .initialize => "initialize" | .upgradeBatch => "upgradeBatch" | .finalize => "finalize" | .submit => "submit"

def faultOf : String → R Fault
  | "none" => pure .none | "get" => pure .get | "list" => pure .list | "write" => pure .write
  | s => .error s!"ctlsts: fault {s}"

def stepOfJson (j : Json) : R Step := do
  return { call := ← callOf (← fStr j "call"), fault := ← faultOf (← fStr j "fault"), batch := ← fInt j "batch",
           bpNil := ← fBool j "bpNil", edit := ← editOfJson j "edit" }

def obsToJson (o : InitObs) : Json :=
  mkObj [("observedReplicas", intJ o.observedReplicas), ("noNeedUpdate", optJ intJ o.noNeedUpdate)]

def resStr : RV.CtlSts.Res → String
  | .ok => "ok" | .err => "err" | .rejected => "rejected"

def outToJson : Out StepOut → Json
  | .panic => mkObj [("panic", strJ "?")]
  | .val o => mkObj [("res", strJ (resStr o.res)), ("wl", optJ wlToJson o.wl),
                     ("writes", natJ o.writes), ("obs", optJ obsToJson o.obs)]

/-- the implementation's step outcome, parsed back -/
def outOfJson (j : Json) : R (Out StepOut) :=
  match jopt j "panic" with
  | some _ => pure .panic
  | none => do
    let res ← (do match ← fStr j "res" with
      | "ok" => pure RV.CtlSts.Res.ok
      | "rejected" => pure RV.CtlSts.Res.rejected
      | _ => pure RV.CtlSts.Res.err)
    let obs ← (match jopt j "obs" with
      | none => pure none
      | some o => do
        pure (some { observedReplicas := ← fInt o "observedReplicas", noNeedUpdate := ← fOptInt o "noNeedUpdate" : InitObs }))
    return .val { res := res, wl := ← wlOptOfJson j "wl", writes := ← fNat j "writes", obs := obs }

def andAll (l : List (String × Bool)) : List (String × Bool) :=
  -- one verdict per key: the conjunction over the walk
  l.foldl (fun acc (k, v) =>
    match acc.find? (·.1 == k) with
    | some _ => acc.map fun (k', v') => if k' == k then (k', v' && v) else (k', v')
    | none => acc ++ [(k, v)]) []

/-- per-step oracles along the implementation's snapshots -/
def walkOracles (c : Cfg) : Option Wl → List Step → List (Out StepOut) → List (String × Bool)
  | d, s :: ss, .val o :: os => stepOracles c s d o ++ walkOracles c o.wl ss os
  | _, _, _ => []

/-- no-crash oracle on every step of the implementation's walk, the panicking one included -/
def crashOracles (rel : Rel) : Option Wl → List Step → List (Out StepOut) → List (String × Bool)
  | d, s :: ss, o :: os =>
    [("C07.sts_no_crash", noCrash rel s d (isPanic o)), ("C09.sts_no_crash", noCrash rel s d (isPanic o))] ++
      (match o with
       | .val v => crashOracles rel v.wl ss os
       | .panic => [])
  | _, _, _ => []

/-- some `UpgradeBatch` of the implementation's walk met a non-empty DaemonSet without `rollingUpdate` -/
def anyDsNoRU : Option Wl → List Step → List (Out StepOut) → Bool
  | d, s :: ss, o :: os =>
    (s.call == .upgradeBatch && (match d with
                                 | some w => dsNoRU w && replicasOf w != some 0
                                 | none => false)) ||
      (match o with
       | .val v => anyDsNoRU v.wl ss os
       | .panic => false)
  | _, _, _ => false

def pairOracles : List Step → List (Out StepOut) → List (String × Bool)
  | a :: b :: ss, .val oa :: .val ob :: os =>
    ("C06.sts_idempotent", idempotent a b oa ob) :: pairOracles (b :: ss) (.val ob :: os)
  | _, _ => []

/-- which branch each step of the implementation's walk took (distribution statistics) -/
def stepTags : Option Wl → List Step → List (Out StepOut) → List String
  | d, s :: ss, .val o :: os =>
    let t := match s.call, d with
      | .initialize, some d0 =>
        if o.res = .err then "init:err" else if o.writes = 1 then (if d0.control = .other then "init:reclaimed" else "init:claimed")
        else "init:already"
      | .upgradeBatch, some d0 =>
        if o.res = .err then "upgrade:err" else if o.writes = 1 then "upgrade:wrote"
        else if replicasOf d0 = some 0 then "upgrade:size0" else "upgrade:satisfied"
      | .finalize, some _ =>
        if o.res = .err then "finalize:err" else if s.bpNil then "finalize:full" else "finalize:controlinfo-only"
      | .submit, some d0 =>
        if o.res = .rejected then "submit:rejected-by-panic"
        else match o.wl with
          | some d' =>
            if !d0.inProgress && d'.inProgress then "submit:enters-rollout"
            else if relevant { matched := true } d0 (applyEdit d0 s.edit) then "submit:held-again" else "submit:plain"
          | none => "submit:?"
      | _, none => "nowl-step"
    t :: stepTags o.wl ss os
  | _, _, _ => []

def usTag : US → String
  | .absent => "us:absent"
  | .malformed => "us:malformed"
  | .present _ .absent => "us:no-rollingUpdate"
  | .present _ .malformed => "us:rollingUpdate-malformed"
  | .present _ (.present .absent _ _) => "us:no-partition"
  | .present _ (.present .malformed _ _) => "us:partition-malformed"
  | .present _ (.present (.int _) _ _) => "us:partition"

/-! ### op `verdict` -/

def podOwnerOf : String → R PodOwner
  | "none" => pure .none | "this" => pure .this | "other" => pure (.other false) | "via" => pure (.other true)
  | s => .error s!"ctlsts: pod owner {s}"

def condOfJson (j : Json) : R (String × String) := do
  match ← jarr j with
  | [a, b] => return (← jstr a, ← jstr b)
  | _ => .error "ctlsts: pod condition"

def podOfJson (j : Json) : R Pod := do
  return { inNamespace := ← fBool j "inNamespace", selMatch := ← fBool j "selMatch", phase := ← fStr j "phase",
           owner := ← podOwnerOf (← fStr j "owner"), terminating := ← fBool j "terminating",
           hashLabel := ← fStr j "hashLabel", revLabel := ← fStr j "revLabel",
           conds := ← (← fArrD j "conds").mapM condOfJson }

def degradeOf : String → R Degrade
  | "notReady" => pure .notReady | "terminating" => pure .terminating | "otherRevision" => pure .otherRevision
  | "deleted" => pure .deleted | "failed" => pure .failed | "disowned" => pure .disowned
  | s => .error s!"ctlsts: degrade {s}"

def degradeStr : Degrade → String
  | .notReady => "notReady" | .terminating => "terminating" | .otherRevision => "otherRevision"
  | .deleted => "deleted" | .failed => "failed" | .disowned => "disowned"

def readyStr : RV.BatchCtx.Ready → String
  | .ok => "ok" | .notUpdated => "notUpdated" | .notReady => "notReady" | .noneReady => "noneReady"
  | .notLabelled => "notLabelled"

def verdictStr : Verdict → String
  | .is r => readyStr r
  | .err => "err"

def verdictOf : String → R Verdict
  | "ok" => pure (.is .ok) | "notUpdated" => pure (.is .notUpdated) | "notReady" => pure (.is .notReady)
  | "noneReady" => pure (.is .noneReady) | "notLabelled" => pure (.is .notLabelled) | "err" => pure .err
  | s => .error s!"ctlsts: verdict {s}"

def countersToJson (c : Counters) : Json :=
  mkObj [("replicas", intJ c.replicas), ("updated", intJ c.updated), ("updatedReady", intJ c.updatedReady)]

def ctxToJson (c : RV.BatchCtx.Ctx) : Json :=
  mkObj [("updated", intJ c.updated), ("updatedReady", intJ c.updatedReady), ("desired", intJ c.desired),
    ("planned", intJ c.planned), ("currentPartition", intJ (RV.BatchCtx.intVal c.knobCur)),
    ("desiredPartition", intJ (RV.BatchCtx.intVal c.knobDes))]

def verdictOutToJson : Out VerdictOut → Json
  | .panic => mkObj [("panic", strJ "?")]
  | .val o => mkObj [("counters", optJ countersToJson o.counters), ("ctx", optJ ctxToJson o.ctx),
                     ("verdict", strJ (verdictStr o.verdict)), ("writes", natJ o.writes), ("untouched", boolJ true)]

/-- the implementation's answer, parsed back (the context only through the model comparison) -/
def verdictOutOfJson (j : Json) : R (Out VerdictOut) :=
  match jopt j "panic" with
  | some _ => pure .panic
  | none => do
    let counters ← (match jopt j "counters" with
      | none => pure none
      | some c => do
        pure (some { replicas := ← fInt c "replicas", updated := ← fInt c "updated", updatedReady := ← fInt c "updatedReady" : Counters }))
    let untouched ← fBool j "untouched"
    -- a check that touched the cluster is reported as one that wrote
    return .val { counters := counters, ctx := none, verdict := ← verdictOf (← fStr j "verdict"),
                  writes := (← fNat j "writes") + (if untouched then 0 else 1) }

/-- (terminating, consistent, ready) of a pod of the workload's own, as a tag -/
def comboTag (rev : String) (p : Pod) : String :=
  let b (x : Bool) (c : String) := if x then c else "-"
  s!"pod:{b p.terminating "T"}{b (isConsistent p rev) "C"}{b (isPodReady p) "R"}"

def handle : Handler := fun op inp impl => do
  match op with
  | "walk" =>
    let d0 ← wlOptOfJson inp "wl"
    let rel : Rel := { batches := ← (← fArrD inp "batches").mapM iosOfJson, rollbackAnno := ← fBool inp "rollbackAnno",
                       updated := ← fInt inp "updated", noNeedUpdate := ← fOptInt inp "noNeedUpdate" }
    let world : World := { matched := ← fBool inp "matched" }
    let steps ← (← fArrD inp "steps").mapM stepOfJson
    let c : Cfg := { rel := rel, world := world }
    let outs ← (← jarr impl).mapM outOfJson
    let model := run c d0 steps
    -- tags
    let calls := steps.map fun s => callStr s.call
    let faults := steps.filter (fun s => s.fault != .none && s.call != .submit)
    let panicked := outs.any fun o => match o with | .panic => true | _ => false
    let wrote := outs.any fun o => match o with | .val o => o.writes > 0 | _ => false
    let tags := [s!"len:{if steps.length ≥ 8 then "8+" else toString steps.length}"] ++
      (match d0 with
       | some d => [s!"kind:{kindStr d.kind}", usTag d.us] ++
                   (if isUnordered d.kind d.us then ["unordered"] else []) ++
                   (match replicasOf d with
                    | some r => if r > maxInt16 then ["size:>MaxInt16"] else if r = 0 then ["size:0"] else []
                    | none => ["size:nil"])
       | none => ["nowl"]) ++
      (calls.eraseDups.map fun c => s!"has:{c}") ++
      (if faults.isEmpty then [] else ["faulted"]) ++
      (if steps.any (fun s => s.fault == .get && s.call != .submit) then ["fault:get"] else []) ++
      (if steps.any (fun s => s.fault == .list && s.call != .submit) then ["fault:list"] else []) ++
      (if steps.any (fun s => s.fault == .write && s.call != .submit) then ["fault:write"] else []) ++
      (if panicked then ["panic"] else []) ++
      (if rel.noNeedUpdate.isSome then ["noNeedUpdate"] else []) ++
      (if wrote then [] else ["nowrite"]) ++
      (if steps.isEmpty then ["trivial"] else []) ++
      (stepTags d0 steps outs).eraseDups ++
      (if anyDsNoRU d0 steps outs then ["upgrade:ds-no-rollingUpdate"] else []) ++
      (if (steps.zip steps.tail).any (fun (a, b) => sameCall a b) then ["repeat"] else [])
    -- oracles on the implementation's snapshots
    let stepH := walkOracles c d0 steps outs
    let pairH := pairOracles steps outs ++ crashOracles rel d0 steps outs
    let vs := valsOf outs
    -- C05 round trip: the user's view survives every step, every complete Finalize releases the knobs
    let (rtH, rtTags) := match d0 with
      | some d => ([("C05.sts_round_trip", roundTrip d steps vs)], if hasRelease steps vs then ["roundtrip"] else [])
      | none => ([], [])
    -- C01 walk bound (fixed size, the user leaves the update strategy alone)
    let wbH := match d0 with
      | some d =>
        match replicasOf d with
        | some r =>
          if quiet steps ∧ sizeOK r ∧ nnOK r rel.noNeedUpdate then
            [("C01.sts_walk_bound", walkBounded rel r (exposureW d) steps vs)]
          else []
        | none => []
      | none => []
    return { model := arrJ (model.map outToJson), holds := andAll (stepH ++ pairH ++ rtH ++ wbH), tags := tags ++ rtTags }
  | "verdict" =>
    let d ← wlOptOfJson inp "wl"
    let st ← jget inp "status"
    let cl : Cluster := { status := { updateRevision := ← fStr st "updateRevision", updated := ← fInt st "updated", ready := ← fInt st "ready" },
                          pods := ← (← fArrD inp "pods").mapM podOfJson }
    let rel : Rel := { batches := ← (← fArrD inp "batches").mapM iosOfJson, rollbackAnno := false, updated := 0,
                       noNeedUpdate := ← fOptInt inp "noNeedUpdate", failureThreshold := ← iosOptOfJson inp "failureThreshold" }
    let batch ← fInt inp "batch"
    let fname ← fStr inp "fault"
    let f ← faultOf fname
    let deg ← (match jopt inp "degrade" with
      | none => pure none
      | some g => do pure (some (← degradeOf (← fStr g "how"), ← fNat g "index")))
    let cl2 := deg.map fun (h, i) => degraded cl h i
    let m1 := planeVerdict rel batch d cl f
    let m2 := cl2.map fun c => planeVerdict rel batch d c f
    let i1 ← verdictOutOfJson (← jget impl "first")
    let i2 ← (match jopt impl "second" with
      | none => pure none
      | some j => do pure (some (← verdictOutOfJson j)))
    -- oracles on the implementation's answers
    let one (cl : Cluster) (o : Out VerdictOut) : List (String × Bool) :=
      match o with
      | .val o => [("C11.sts_ready_means_live_ready_pods", verdictSound rel batch d cl o),
                   ("C11.sts_updated_ready_exact", countersSound d cl o),
                   ("C07.sts_ready_when_pods_ready", verdictComplete rel batch d cl f o)]
      | .panic => []
    let crash (o : Out VerdictOut) : List (String × Bool) :=
      -- API-reachable inputs (`callInputOK` of the upgradeBatch call, which reads the same plan entry) never crash the check
      let s : Step := { call := .upgradeBatch, fault := f, batch := batch, bpNil := false, edit := Edit.none }
      [("C07.sts_no_crash", noCrash rel s d (isPanic o)), ("C09.sts_no_crash", noCrash rel s d (isPanic o))]
    let fb : List (String × Bool) :=
      match d, deg, cl2, i1, i2 with
      | some w, some (h, i), some c2, .val o1, some (.val o2) =>
        [("C11.sts_falls_back", fallsBack rel batch w cl h i o1 o2)] ++ one c2 (.val o2) ++ crash (.val o2)
      | _, _, some c2, _, some o2 => one c2 o2 ++ crash o2
      | _, _, _, _, _ => []
    -- tags
    let rev := cl.status.updateRevision
    let vtag (o : Out VerdictOut) := match o with
      | .val o => verdictStr o.verdict
      | .panic => "panic"
    let flip := match i1, i2 with
      | .val o1, some (.val o2) =>
        if isReady o1 && !isReady o2 && o2.verdict != .err then ["fallback:flipped"]
        else if isReady o1 && isReady o2 then ["fallback:still-ready"] else []
      | _, _ => []
    let degTags := match deg with
      | some (h, i) =>
        [s!"degrade:{degradeStr h}"] ++
        (match cl.pods[i]? with
         | some p => if liveReadyUpdated rev p then ["degrade:of-counted-pod"] else ["degrade:of-other-pod"]
         | none => ["degrade:nothing"])
      | none => []
    let own := cl.pods.filter fun p => p.inNamespace && p.selMatch && isOwned p.owner && !isCompleted p
    let tags := ["op:verdict", s!"verdict:{vtag i1}"] ++
      (match i2 with
       | some o => [s!"verdict2:{vtag o}"]
       | none => []) ++
      (match d with
       | some w => [s!"kind:{kindStr w.kind}", if needsList w then "counted-from-pods" else "counter-from-status"] ++
                   (if isUnordered w.kind w.us then ["unordered"] else []) ++
                   (match replicasOf w with
                    | some r => if r = 0 then ["size:0"] else []
                    | none => ["size:nil"])
       | none => ["nowl"]) ++
      (if f != .none then [s!"fault:{fname}"] else []) ++
      (if rel.failureThreshold.isSome then ["failureThreshold"] else []) ++
      (if rel.noNeedUpdate.isSome then ["noNeedUpdate"] else []) ++
      [s!"pods:{if cl.pods.length ≥ 8 then "8+" else toString cl.pods.length}"] ++
      (own.map (comboTag rev)).eraseDups ++
      (if cl.pods.any (fun p => !p.inNamespace) then ["pod:other-namespace"] else []) ++
      (if cl.pods.any (fun p => !p.selMatch) then ["pod:not-selected"] else []) ++
      (if cl.pods.any isCompleted then ["pod:completed"] else []) ++
      (if cl.pods.any (fun p => p.owner == .none) then ["pod:no-controller"] else []) ++
      (if cl.pods.any (fun p => p.owner == .other false) then ["pod:foreign-owner"] else []) ++
      (if cl.pods.any (fun p => p.owner == .other true) then ["pod:owned-via"] else []) ++
      (if cl.pods.isEmpty then ["pods:none"] else []) ++
      degTags ++ flip
    return { model := mkObj [("first", verdictOutToJson m1), ("second", optJ verdictOutToJson m2)],
             holds := andAll (one cl i1 ++ crash i1 ++ fb), tags := tags }
  | _ => .error s!"ctlsts: unknown op {op}"

end RV.Drv.CtlSts
