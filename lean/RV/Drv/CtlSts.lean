import RV.Json
namespace RV.Drv.CtlSts
open Lean RV
def handle : Handler := fun op _ _ => .error s!"CtlSts: op {op} not implemented"
end RV.Drv.CtlSts
