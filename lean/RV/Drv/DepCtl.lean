import RV.Json
import RV.Drv.Arith
import RV.Drv.DepSync
import RV.Model.DepCtl
import RV.Oracle.DepCtl
namespace RV.Drv.DepCtl
open Lean RV RV.Arith RV.DepSync RV.DepCtl RV.Oracle.DepCtl

def stypeOfJson (j : Json) (k : String) : R SType := do
  match ← fStr j k with
  | "Recreate" => return .recreate
  | "RollingUpdate" => return .rollingUpdate
  | _ => return .other

def stypeJ : SType → Json
  | .recreate => strJ "Recreate"
  | .rollingUpdate => strJ "RollingUpdate"
  | .other => strJ "other"

def extraOfJson (j : Json) : R Extra :=
  match j with
  | .null => return .absent
  | .str _ => return .other
  | v => do return .canon (← fInt v "r") (← fInt v "e")

def extraJ : Extra → Json
  | .absent => .null
  | .other => strJ "other"
  | .canon r e => mkObj [("r", intJ r), ("e", intJ e)]

def ruOfJson (j : Json) : R RU :=
  match j with
  | .null => return none
  | v => do return some (← Arith.iosOptOfJson v "surge", ← Arith.iosOptOfJson v "unav")

def worldOfJson (j : Json) : R World := do
  let f ← jget j "fault"
  let fault : Fault :=
    { getD := ← fBool f "getD", getW := ← fBool f "getW", protect := ← fBool f "protect",
      scaleAt := ← fOptNat f "scaleAt", extra := ← fBool f "extra" }
  let anno ← match ← fStr j "anno" with
    | "absent" => pure Anno.absent
    | "unparsable" => pure Anno.unparsable
    | "ok" => pure Anno.ok
    | x => throw s!"anno {x}"
  let style ← match ← fStr j "style" with
    | "Partition" => pure Style.partition
    | "Canary" => pure Style.canary
    | "BlueGreen" => pure Style.blueGreen
    | "none" => pure Style.none
    | _ => pure Style.other
  let sel ← match ← fStr j "sel" with
    | "normal" => pure Sel.normal
    | "all" => pure Sel.all
    | "bad" => pure Sel.bad
    | x => throw s!"sel {x}"
  let hook ← match ← fStr j "hook" with
    | "present" => pure Hook.present
    | "absent" => pure Hook.absent
    | "terminating" => pure Hook.terminating
    | x => throw s!"hook {x}"
  return { present := ← fBool j "exists", ctrl := (← fStr j "ctrl") == "set", stype := ← stypeOfJson j "stype", ru := ← ruOfJson (jgetD j "ru" .null),
           specPaused := ← fBool j "specPaused", anno := anno, style := style, sel := sel, hook := hook,
           gen := ← fInt j "gen", obsGen := ← fInt j "obsGen", statusUpdated := ← fInt j "statusUpdated",
           newReady := ← fInt j "newReady", extra := ← extraOfJson (jgetD j "extra" .null), fault := fault,
           s := ← DepSync.stateOfJson (← jget j "s") }

def callJ : Call → Json
  | .protect ok => arrJ [strJ "protect", boolJ ok]
  | .scale i t ok => arrJ [strJ "scale", intJ i, intJ t, boolJ ok]
  | .extra v ok => arrJ [strJ "extra", extraJ v, boolJ ok]

def callOfJson (j : Json) : R (Option Call) := do
  match ← jarr j with
  | [.str "protect", ok] => return some (.protect (← jbool ok))
  | [.str "scale", i, t, ok] => return some (.scale (← jint i) (← jint t) (← jbool ok))
  | [.str "extra", v, ok] => return some (.extra (← extraOfJson v) (← jbool ok))
  | _ => return none

def errJ : ErrKind → Json
  | .get => strJ "get" | .hook => strJ "hook" | .protect => strJ "protect" | .sync => strJ "sync" | .extra => strJ "extra"

def resJ : Res → Json
  | .ok => strJ "ok" | .requeue => strJ "requeue" | .err => strJ "err"

def iosOptJ (v : Option IntOrPct) : Json := optJ Arith.iosToJson v

def ruJ : RU → Json
  | none => .null
  | some (a, b) => mkObj [("surge", iosOptJ a), ("unav", iosOptJ b)]


/-- the model's outcome in the harness's format.  `other` (status and metadata-only writes) and `untouched` are
    predicted where the model determines them (no write at all on the quiet paths, exactly the patch on the
    protection path) and taken from the implementation's line on the sync path, where the model leaves them open. -/
def outJ (w : World) (o : Out) (impl : Json) : R Json := do
  let olds ← (DepSync.indexed w.s.olds).mapM fun (i, _) => DepSync.findIdx o.olds i
  let openPath := o.path == .normal
  return mkObj [
    ("res", resJ o.res), ("errs", arrJ (o.errs.map errJ)), ("calls", arrJ (o.calls.map callJ)),
    ("fired", boolJ o.fired), ("frame", boolJ true),
    ("other", if openPath then jgetD impl "other" .null else natJ 0),
    ("untouched", if openPath then jgetD impl "untouched" .null else boolJ o.untouched),
    ("post", mkObj [
      ("stype", if w.present then stypeJ o.stype else .null), ("ru", if w.present then ruJ o.ru else .null), ("extra", extraJ o.extra),
      ("status", mkObj [("replicas", intJ o.statusReplicas), ("updated", intJ o.statusUpdated), ("obsGen", intJ o.obsGen)]),
      ("new", optJ (fun r => intJ r.spec) o.new), ("olds", arrJ (olds.map fun r => intJ r.spec))])]

/-- the implementation's outcome as an `Out` (ReplicaSet records: the input's, with the reported sizes) -/
def implOut (w : World) (impl : Json) : R Out := do
  let res ← match ← fStr impl "res" with
    | "ok" => pure Res.ok
    | "requeue" => pure Res.requeue
    | "err" => pure Res.err
    | x => throw s!"res {x}"
  let errs ← (← fArr impl "errs").mapM fun e => do
    match ← jstr e with
    | "get" => pure ErrKind.get | "hook" => pure ErrKind.hook | "protect" => pure ErrKind.protect
    | "sync" => pure ErrKind.sync | "extra" => pure ErrKind.extra
    | x => throw s!"err kind {x}"
  let calls ← (← fArr impl "calls").mapM callOfJson
  if calls.any (·.isNone) then throw "unexpected API call"
  let p ← jget impl "post"
  let olds ← (w.s.olds.zip (← fArr p "olds")).mapM fun (r, j) => do return { r with spec := ← jint j }
  let nw ← match jopt p "new", w.s.new with
    | none, _ => pure none
    | some j, some r => do pure (some { r with spec := ← jint j })
    | some j, none => do
      pure (some { idx := -1, name := createdName, created := w.s.now, revision := 0, spec := ← jint j, pods := 0,
                   avail := 0, desired := none, maxAnno := none : RS })
  let st ← jget p "status"
  let stype ← match jopt p "stype" with
    | none => pure w.stype
    | some _ => stypeOfJson p "stype"
  let ru ← if w.present then ruOfJson (jgetD p "ru" .null) else pure w.ru
  return { path := .normal, res := res, errs := errs, calls := calls.filterMap id, fired := ← fBool impl "fired",
           swallowed := false, undef := false, untouched := ← fBool impl "untouched",
           stype := stype, ru := ru, extra := ← extraOfJson (jgetD p "extra" .null),
           new := nw, olds := olds, statusReplicas := ← fInt st "replicas", statusUpdated := ← fInt st "updated",
           obsGen := ← fInt st "obsGen" }

def pathTag : DepCtl.Path → String
  | .getErr => "getErr" | .notFound => "notFound" | .ignored => "ignored" | .hookErr => "hookErr"
  | .protectNoop => "protectNoop" | .protect => "protect" | .normal => "normal"

def extraTag (w : World) : String :=
  match w.extra with
  | .absent => "extra:absent"
  | .other => "extra:other"
  | .canon _ _ => if w.extra == wantExtra w then "extra:exact" else "extra:stale"

def worldTags (w : World) (o : Out) : List String :=
  [s!"path:{pathTag o.path}", s!"res:{match o.res with | .ok => "ok" | .requeue => "requeue" | .err => "err"}"]
  ++ (if o.path == .ignored then
        [if !w.ctrl then "why:noControlInfo" else if w.stype != .recreate then "why:notRecreate"
         else if !w.specPaused then "why:notPaused" else if w.anno != .ok then "why:annotation" else "why:canaryStyle"]
      else [])
  ++ (if o.path == .normal then
        [extraTag w, s!"sync:{match pathOf w.s with | .statusOnly => "statusOnly" | .scale => "scale" | .rolling => "rolling"}",
         s!"scaleCalls:{DepSync.bucket (o.calls.filter (·.isScale)).length}",
         if satisfied w then "satisfied" else "unsatisfied", if fresh w then "status:fresh" else "status:stale",
         s!"partition:{DepSync.ioKind w.s.partition}", s!"replicas:{DepSync.bucket w.s.replicas}",
         s!"olds:{w.s.olds.length}", s!"new:{if w.s.new.isSome then "present" else "absent"}"]
        ++ (if w.sel != .normal then [s!"sel:{if w.sel == .all then "all" else "bad"}"] else [])
        ++ (if w.s.paused then ["strategy:paused"] else []) ++ (if w.s.deleting then ["deleting"] else [])
      else [])
  ++ (if w.hook != .present then [s!"hook:{if w.hook == .absent then "absent" else "terminating"}"] else [])
  ++ (if w.fault != {} then ["fault:injected"] else ["fault:none"])
  ++ (if o.fired then ["fault:fired"] else [])
  ++ (if w.fault.scaleAt.isSome && o.fired && o.calls.any (fun c => c.isScale && c.failed) then
        [if o.swallowed then "scaleFault:dropped" else "scaleFault:returned"] else [])
  ++ (if swallowRegion w then ["guard:swallowedScaleDown"] else [])

/-- oracle verdicts on one implementation outcome -/
def holdsOf (w : World) (o : Out) : List (String × Bool) :=
  [("C17.ctl_only_ours", onlyOurs w o), ("C08.ctl_protection", protection w o),
   ("C07.ctl_extra_status_exact", extraExact w o),
   ("C07.ctl_requeue_until_satisfied", requeueUntilSatisfied w o),
   ("C06.ctl_errors_reported", errorsReported w o), ("C06.ctl_both_attempted", bothAttempted w o),
   ("C17.ctl_paused_scales_only", pausedScalesOnly w o && pausedSizesKept w o)]

def evtOfStr : String → R Evt
  | "create" => pure .create | "update" => pure .update | "delete" => pure .delete | "generic" => pure .generic
  | x => throw s!"evt {x}"

def ownersOfJson (j : Json) (k : String) : R (List Owner) := do
  (← fArrD j k).mapM fun o => do
    return { isDeployment := (← fStr o "kind") == "Deployment", isApps := (← fStr o "group") == "apps",
             name := ← fStr o "name", controller := (← fStr o "controller") == "true" }

def dedupSorted (l : List String) : List String :=
  (l.toArray.qsort (· < ·)).toList.eraseDups

def handle : Handler := fun op inp impl => do
  match op with
  | "reconcile" =>
    let w ← worldOfJson inp
    let statusFault ← fBool (← jget inp "fault") "status"
    let o := reconcile w
    let tags := worldTags w o ++ (if statusFault then ["fault:status"] else [])
    if (jopt impl "panic").isSome then
      return { model := ← outJ w o impl, holds := [("C17.ctl_nopanic", false), ("C06.ctl_nopanic", false)], tags := tags ++ ["impl:panic"] }
    let io ← implOut w impl
    let holds := holdsOf w io
    if o.undef then
      return { model := .null, holds := holds, tags := tags ++ ["undef:fraction-div0"] }
    if statusFault then
      -- Deployment status writes are outside the model: oracles only
      return { model := .null, holds := holds, tags := tags }
    return { model := ← outJ w o impl, holds := holds, tags := tags }
  | "twice" =>
    let w ← worldOfJson inp
    let o1 := reconcile w
    let w2 := post w
    let o2 := reconcile w2
    let i1 ← jget impl "first"
    let i2 ← jget impl "second"
    let tags := (worldTags w o1).map (fun t => "first/" ++ t) ++ [s!"second/path:{pathTag o2.path}",
      s!"second/calls:{DepSync.bucket o2.calls.length}"]
    if (jopt i1 "panic").isSome || (jopt i2 "panic").isSome then
      return { model := .null, holds := [("C17.ctl_nopanic", false), ("C06.ctl_nopanic", false)], tags := tags ++ ["impl:panic"] }
    let io1 ← implOut w i1
    let io2 ← implOut w2 i2
    let holds := holdsOf w io1 ++
      [("C07.ctl_extra_fixed_point", !(normalW w && w.sel != .bad) || extraFixedPoint io2),
       ("C08.ctl_protection_idempotent", !(protectionW w) || (io2.calls.isEmpty && io2.untouched)),
       ("C17.ctl_only_ours_twice", onlyOurs w2 io2)]
    if o1.undef || o2.undef then
      return { model := .null, holds := holds, tags := tags ++ ["undef:fraction-div0"] }
    return { model := mkObj [("first", ← outJ w o1 i1), ("second", ← outJ w2 o2 i2)], holds := holds, tags := tags }
  | "upd" =>
    let e : DepEvt :=
      { evt := ← evtOfStr (← fStr inp "evt"), newCtrl := (← fStr inp "newCtrl") == "set", newStype := ← stypeOfJson inp "newStype",
        newPaused := ← fBool inp "newPaused", oldGen := ← fInt inp "oldGen", newGen := ← fInt inp "newGen",
        newDeleting := ← fBool inp "newDeleting", annoSame := (← fStr inp "annoChange") == "none" }
    let pass := depPredicate e
    let ipass ← fBool impl "pass"
    return { model := mkObj [("pass", boolJ pass), ("queued", arrJ (if pass then [strJ "default/d"] else []))],
             holds := [("C07.ctl_watch", ipass == pass)],
             tags := ["watch:deployment", s!"watch:{if pass then "pass" else "drop"}"] }
  | "rsevt" =>
    let evt ← evtOfStr (← fStr inp "evt")
    let owners ← ownersOfJson inp "owners"
    let oldOwners ← ownersOfJson inp "oldOwners"
    let q := dedupSorted ((if evt == .update then ownerRequests oldOwners else []) ++ ownerRequests owners)
    let qj := arrJ (q.map fun n => strJ s!"default/{n}")
    return { model := mkObj [("pass", boolJ true), ("queued", qj)],
             holds := [("C07.ctl_watch", jgetD impl "queued" .null == qj)],
             tags := ["watch:replicaset", s!"queued:{q.length}"] }
  | "hookevt" =>
    let evt ← evtOfStr (← fStr inp "evt")
    let deps ← (← fArrD inp "deps").mapM fun d => do
      return ({ name := ← fStr d "name", labelled := (← fStr d "label") == "true", stype := ← stypeOfJson d "stype" } : HookDep)
    let q := dedupSorted (hookRequests evt (← fBool inp "ours") (← fBool inp "deleting") (← fBool inp "listFail") deps)
    let qj := arrJ (q.map fun n => strJ s!"default/{n}")
    return { model := mkObj [("queued", qj)], holds := [("C07.ctl_watch", jgetD impl "queued" .null == qj), ("C08.ctl_watch", jgetD impl "queued" .null == qj)],
             tags := ["watch:webhookcfg", s!"queued:{q.length}"] }
  | _ => .error s!"depctl: unknown op {op}"

end RV.Drv.DepCtl
