import RV.Json
import RV.Drv.Arith
import RV.Drv.Executor
import RV.Drv.CtlPDeploy
import RV.Drv.CtlSts
import RV.Drv.CtlBlueGreen
import RV.Drv.CtlCanary
import RV.Model.ExecutorXPlanes
import RV.Oracle.ExecutorXPlanes
/-!
  Driver of suite `executorx`: one real `BatchReleaseReconciler.Reconcile` over any control plane.

  in   = { kind, style, enableExtra, br, world{shape, obs, …}, k }          (k > 0: the k-th API call failed)
  impl = { br: {hasFinalizer, status} | null, world: {…}, requeue, err } | { panic }

  The plane is chosen by the model's `dispatch`; the world is decoded with the plane's own decoders (the drivers of the
  suites ctlpdeploy / ctlsts / ctlbluegreen / ctlcanary / executor).  The oracles are evaluated on the implementation's output.
-/
namespace RV.Drv.ExecutorX
open Lean RV RV.Arith RV.Executor RV.ExecutorX RV.Oracle.ExecutorX RV.Drv.Arith

/-- a plane with everything the driver needs to run it -/
structure Pack (W : Type) where
  name : String
  plane : Plane W
  preds : Preds W
  /-- full-strength `released` (the guards name where the unchanged code falls short of it) -/
  releasedFull : BR → W → Bool
  guards : BR → W → List String
  /-- the plane's own "may panic" region (objects the API server would not serve) -/
  planePanicOK : BR → W → Bool
  decode : Json → R W
  /-- the world JSON after: the input world with the keys the plane writes replaced -/
  encode : Json → W → Json
  tags : BR → W → List String

def setKeys (j : Json) (kvs : List (String × Json)) : Json :=
  kvs.foldl (fun acc (k, v) => acc.setObjVal! k v) j

def obsOfJson (j : Json) : R Obs := do
  return { generation := ← fInt j "generation", observedGeneration := ← fInt j "observedGeneration",
           statusReplicas := ← fInt j "statusReplicas", updated := ← fInt j "updated", updatedReady := ← fInt j "updatedReady",
           updateRevision := ← fStr j "updateRevision", stableRevision := ← fStr j "stableRevision" }

def optOf {α} (j : Json) (k : String) (f : Json → R α) : R (Option α) :=
  match jopt j k with
  | none => pure none
  | some v => do return some (← f v)

/-! ### the planes -/

def csPack : Pack (Option Workload) where
  name := "csPartition"
  plane := csPlane
  preds := csPreds
  releasedFull := csPreds.released
  guards := fun _ _ => []
  planePanicOK := fun _ _ => false
  decode := fun j => optOf j "wl" RV.Drv.Executor.wlOfJson
  encode := fun j w => setKeys j [("wl", optJ RV.Drv.Executor.wlToJson w)]
  tags := fun _ w => [if w.isSome then "wl" else "nowl"]

def pdepPack : Pack PDepW where
  name := "depPartition"
  plane := pdepPlane
  preds := pdepPreds
  releasedFull := pdepPreds.released
  guards := fun _ _ => []
  planePanicOK := fun _ w => match w.dep with
    | some d => d.replicas.isNone
    | none => false
  decode := fun j => do
    return { dep := ← optOf j "dep" RV.Drv.CtlPDeploy.depOfJson, obs := ← obsOfJson (← jget j "obs") }
  encode := fun j w => setKeys j [("dep", optJ RV.Drv.CtlPDeploy.depToJson w.dep)]
  tags := fun _ w => match w.dep with
    | none => ["nowl"]
    | some d => ["wl", if CtlPDeploy.isUnderRolloutControl d then "pdep:controlled" else "pdep:free"]

def statusOfJsonSts (j : Json) : R CtlSts.WlStatus := do
  return { updateRevision := ← fStr j "updateRevision", updated := ← fInt j "updated", ready := ← fInt j "ready" }

def stsPack : Pack StsW where
  name := "stsLike"
  plane := stsPlane
  preds := stsPreds
  releasedFull := stsPreds.released
  guards := fun _ _ => []
  planePanicOK := fun _ w => match w.wl with
    | some wl => (CtlSts.replicasOf wl).isNone
    | none => false
  decode := fun j => do
    let pods ← (← fArrD j "pods").mapM RV.Drv.CtlSts.podOfJson
    return { wl := ← optOf j "sts" RV.Drv.CtlSts.wlOfJson,
             cl := { status := ← statusOfJsonSts (← jget j "status"), pods := pods },
             obs := ← obsOfJson (← jget j "obs") }
  encode := fun j w => setKeys j [("sts", optJ RV.Drv.CtlSts.wlToJson w.wl)]
  tags := fun _ w => match w.wl with
    | none => ["nowl"]
    | some wl => ["wl", s!"sts:{RV.Drv.CtlSts.kindStr wl.kind}", s!"sts:pods:{min w.cl.pods.length 6}"]

def bgPack (kind : CtlBlueGreen.Kind) : Pack BGW where
  name := match kind with
    | .deployment => "depBlueGreen"
    | .cloneSet => "csBlueGreen"
  plane := bgPlane kind
  preds := bgPreds kind
  releasedFull := fun _ w => bgReleasedFull w
  guards := fun br w =>
    (if gBgPartitioned br then ["guard:bgPartitionedFinalize"] else []) ++
    (if gBgRestoredControlled w then ["guard:bgRestoredControlled"] else [])
  planePanicOK := fun _ w => match w.w.wl with
    | some wl => wl.replicas.isNone
    | none => false
  decode := fun j => do
    return { w := ← RV.Drv.CtlBlueGreen.worldOfJson (← jget j "bg"), obs := ← obsOfJson (← jget j "obs") }
  encode := fun j w => setKeys j [("bg", RV.Drv.CtlBlueGreen.worldToJson w.w)]
  tags := fun _ w => match w.w.wl with
    | none => ["nowl"]
    | some wl => ["wl", if bgControlled wl then "bg:controlled" else "bg:free",
                  if wl.saved = .none then "bg:nosaved" else "bg:saved"]

def patchOfJson (j : Json) : R (Option (CtlCanary.KV × CtlCanary.KV)) :=
  match jopt j "patch" with
  | none => pure none
  | some p => do
    pure (some (← RV.Drv.CtlCanary.kvOfJson (jgetD p "labels" .null), ← RV.Drv.CtlCanary.kvOfJson (jgetD p "annos" .null)))

def canaryPack : Pack CanaryW where
  name := "depCanary"
  plane := canaryPlane
  preds := canaryPreds
  releasedFull := canaryPreds.released
  guards := fun _ _ => []
  planePanicOK := fun br w => RV.Oracle.CtlCanary.panicAllowed (canaryBR br w) w.w
  decode := fun j => do
    return { w := ← RV.Drv.CtlCanary.worldOfJson (← jget j "deps"), exp := ← RV.Drv.CtlCanary.expOf (← fStr j "exp"),
             timedOut := ← fBool j "timedOut", waitResume := ← fBool j "waitResume", patch := ← patchOfJson j }
  encode := fun j w => setKeys j [("deps", RV.Drv.CtlCanary.worldToJson w.w), ("exp", strJ (RV.Drv.CtlCanary.expStr w.exp))]
  tags := fun br w =>
    [if (w.w.find 0).isSome then "wl" else "nowl", s!"canary:deps:{min w.w.deps.length 5}",
     s!"canary:match:{min (RV.Oracle.CtlCanary.matchCount (canaryBR br w) w.w) 3}",
     if w.exp = .pending then "canary:exp-pending" else "canary:exp-none"] ++
    (if w.waitResume then ["canary:waitResume"] else []) ++ (if w.patch.isSome then ["canary:patchMeta"] else [])

/-! ### kinds and styles -/

def refKindOf : String → R RefKind
  | "cloneSet" => pure .cloneSet | "daemonSet" => pure .daemonSet | "deployment" => pure .deployment
  | "nativeSts" => pure .nativeSts | "advancedSts" => pure .advancedSts | "replicaSet" => pure .replicaSet
  | "unsupported" => pure .unsupported
  | s => .error s!"executorx: kind {s}"

def styleOf : String → Style
  | "" => .empty | "Partition" => .partition | "Canary" => .canary | "BlueGreen" => .blueGreen | _ => .other

def styleStr : Style → String
  | .empty => "empty" | .partition => "Partition" | .canary => "Canary" | .blueGreen => "BlueGreen" | .other => "Other"

/-! ### one case -/

def outJson {W : Type} (pk : Pack W) (worldIn : Json) (o : StepOutX W) : Json :=
  mkObj [("br", match o.br with
            | none => .null
            | some b => mkObj [("hasFinalizer", boolJ b.hasFinalizer), ("status", RV.Drv.Executor.statusToJson b.status)]),
         ("world", pk.encode worldIn o.wl), ("requeue", boolJ o.requeue), ("err", boolJ o.err)]

def eventStr : Event → String
  | .normal => "normal" | .gone => "gone" | .stillReconciling => "stillReconciling" | .replicasChanged => "replicasChanged"
  | .rollbackInBatch => "rollbackInBatch" | .podTemplateChanged => "podTemplateChanged"

/-- run one case on a plane -/
def runPack {W : Type} [DecidableEq W] (pk : Pack W) (br : BR) (worldIn : Json) (k : Nat) (impl : Json) (baseTags : List String) :
    R OpResult := do
  let w ← pk.decode worldIn
  let Q := pk.preds
  let br1 := withFinalizer br
  let stopped := stoppedX pk.plane br w
  let ready := Q.ready br1 w
  let scaled := scaledX pk.plane br w
  let ev := match pk.plane.syncInfo br1 (initializedStatus br.status) w with
    | .val (e, _) => eventStr e
    | .panic => "panic"
  let mres := reconcileX pk.plane br w
  let model := if k > 0 then Json.null else
    match mres with
    | .panic => mkObj [("panic", strJ "?")]
    | .val o => outJson pk worldIn o
  let guards := pk.guards br w
  let mtags := match mres with
    | .panic => ["model:panic"]
    | .val o =>
      (match o.br with
       | none => ["out:gone"]
       | some b =>
         [s!"out:phase:{RV.Drv.Executor.phaseStr b.status.phase}"] ++
         (if b.status.currentBatch > br.status.currentBatch then ["out:advanced"] else []) ++
         (if b.status.phase = .completed ∧ br.status.phase ≠ .completed then ["out:completed-now"] else []) ++
         (if b.status.batchState = .ready ∧ br.status.batchState ≠ .ready then ["out:ready-now"] else []) ++
         (if b.status.phase = .progressing ∧ br.status.phase ≠ .progressing then ["out:initialized-now"] else [])) ++
      (if o.wl ≠ w then ["out:world-written"] else []) ++ (if o.err then ["out:err"] else [])
  let tags := baseTags ++ [s!"plane:{pk.name}", if stopped then "stopped" else "acted", s!"event:{ev}",
      if ready then "ready" else "notready", if k > 0 then "fault" else "nofault"] ++ pk.tags br w ++ mtags ++ guards
  match jopt impl "panic" with
  | some _ =>
    let allowed := panicAllowed (pk.planePanicOK br w) br
    return { model := model, holds := [("C09.x_no_panic", allowed)], tags := "impl:panic" :: tags }
  | none =>
    let ibr ← (match jopt impl "br" with
      | none => pure none
      | some b => do
        let st ← RV.Drv.Executor.statusOfJson (← jget b "status")
        pure (some { br with hasFinalizer := ← fBool b "hasFinalizer", status := st }))
    let w' ← pk.decode (← jget impl "world")
    let holds := stepOracles stopped ready (pk.releasedFull br1 w') (Q.claimed br1 w w') (Q.wf w && Q.expoOK br1 w) scaled
      (Q.exposure w) (Q.exposure w') (Q.allowed br1 w) br w ibr w'
    -- with an injected API fault the status update itself may have failed: only the clauses that do not depend on the new
    -- status having been persisted are judged (what was written, the finalizer, Completed ⇒ released, the cursor bounds)
    let robust := ["C18.x_finalizer_guards_teardown", "C06.x_no_act_before_persist", "C01.x_no_act_before_persist",
      "C11.x_batch_advance_guarded", "C01.x_batch_advance_guarded", "C11.x_within_partition", "C01.x_within_partition",
      "C01.x_write_within_batch", "C11.x_completed_means_released", "C18.x_completed_means_released",
      "C01.x_init_claims", "C11.x_init_claims"]
    -- ... but during a List outage (k ≥ 1000000) no write fails: a batch that BECOMES Ready in such a reconcile is judged too,
    -- directly on the implementation's output (what the model predicts for the undisturbed reconcile - `stopped` - says nothing
    -- about a reconcile that could not read): Ready only with the plane's readiness predicate true of the real world.
    -- Clauses that rest on the model's `stopped` are not judged under an outage.
    let becameReady := match ibr with
      | some b => br.status.phase = .progressing && b.status.phase = .progressing && b.status.batchState = .ready && br.status.batchState != .ready
      | none => false
    let outageRobust := ["C18.x_finalizer_guards_teardown", "C11.x_batch_advance_guarded", "C01.x_batch_advance_guarded",
      "C11.x_within_partition", "C01.x_within_partition", "C11.x_completed_means_released", "C18.x_completed_means_released"]
    let holds := if k ≥ 1000000 then
        holds.filter (fun kv => outageRobust.contains kv.1) ++ [("C11.x_ready_only_if_ready", !becameReady || ready)]
      else if k > 0 then holds.filter (fun kv => robust.contains kv.1) else holds
    let tags := if k ≥ 1000000 then "fault:list-outage" :: tags else tags
    return { model := model, holds := ("C09.x_no_panic", true) :: holds, tags := tags }

def handle : Handler := fun op inp impl => do
  match op with
  | "reconcile" =>
    let kind ← refKindOf (← fStr inp "kind")
    let style := styleOf (← fStr inp "style")
    let enable ← fBool inp "enableExtra"
    let br ← RV.Drv.Executor.brOfJson (← jget inp "br")
    let worldIn ← jget inp "world"
    let shape ← fStr worldIn "shape"
    let k0 ← fNat inp "k"
    let outage := ((jopt inp "outage").bind (fun x => x.getStr?.toOption)).getD "" != ""
    -- an outage is a fault for the comparison (no model output) ...
    let k := if outage then k0 + 1000000 else k0
    let baseTags := [s!"kind:{← fStr inp "kind"}", s!"style:{styleStr style}", s!"phase:{RV.Drv.Executor.phaseStr br.status.phase}",
      s!"state:{RV.Drv.Executor.bstateStr br.status.batchState}", if br.deleting then "deleting" else "live",
      if br.partition.isSome then "partitioned" else "nopartition", if br.rollbackAnno then "rollbackAnno" else "noRollbackAnno",
      s!"hash:{RV.Drv.Executor.hashStr br.status.hash}",
      match dispatch kind style enable with
      | none => "dispatch:none"
      | some .csPartition => "dispatch:csPartition" | some .dsPartition => "dispatch:dsPartition"
      | some .depPartition => "dispatch:depPartition" | some .stsLike => "dispatch:stsLike"
      | some .depCanary => "dispatch:depCanary" | some .csBlueGreen => "dispatch:csBlueGreen"
      | some .depBlueGreen => "dispatch:depBlueGreen"]
    let implPanic := (jopt impl "panic").isSome
    let mismatch : R OpResult :=
      return { model := .null, holds := [], tags := "mismatch:dispatch" :: baseTags }
    match dispatch kind style enable with
    | none =>
      -- no plane: the initialised status is persisted, nothing else
      let model := if k > 0 then Json.null else
        match (reconcileNoPlane br () : Out (StepOutX Unit)) with
        | .panic => mkObj [("panic", strJ "?")]
        | .val o =>
          mkObj [("br", match o.br with
                    | none => .null
                    | some b => mkObj [("hasFinalizer", boolJ b.hasFinalizer), ("status", RV.Drv.Executor.statusToJson b.status)]),
                 ("world", worldIn), ("requeue", boolJ o.requeue), ("err", boolJ o.err)]
      let tags := baseTags ++ ["plane:none", if kind = .unsupported then "refused:unsupported-kind" else "refused:no-plane-for-kind-and-style",
        if k > 0 then "fault" else "nofault"]
      match jopt impl "panic" with
      | some _ => return { model := model, holds := [("C09.x_no_panic", false)], tags := "impl:panic" :: tags }
      | none =>
        let ibr ← (match jopt impl "br" with
          | none => pure none
          | some b => do
            let st ← RV.Drv.Executor.statusOfJson (← jget b "status")
            pure (some { br with hasFinalizer := ← fBool b "hasFinalizer", status := st }))
        let unchanged := (← jget impl "world").compress == worldIn.compress
        return { model := model,
                 holds := [("C09.x_no_panic", true), ("C18.x_finalizer_guards_teardown", goneOnlyWhenCompleted br ibr),
                           ("C06.x_no_act_before_persist", unchanged), ("C01.x_no_act_before_persist", unchanged)],
                 tags := tags }
    | some .csPartition => if shape = "cs" then runPack csPack br worldIn k impl baseTags else mismatch
    | some .depPartition => if shape = "pdep" then runPack pdepPack br worldIn k impl baseTags else mismatch
    | some .dsPartition => if shape = "sts" then runPack stsPack br worldIn k impl baseTags else mismatch
    | some .stsLike =>
      if shape = "sts" ∧ (kind = .nativeSts ∨ kind = .advancedSts) then runPack stsPack br worldIn k impl baseTags
      else mismatch
    | some .depCanary => if shape = "canary" then runPack canaryPack br worldIn k impl baseTags else mismatch
    | some .csBlueGreen => if shape = "bg" then runPack (bgPack .cloneSet) br worldIn k impl baseTags else mismatch
    | some .depBlueGreen => if shape = "bg" then runPack (bgPack .deployment) br worldIn k impl baseTags else mismatch
  | _ => .error s!"executorx: unknown op {op}"

end RV.Drv.ExecutorX
