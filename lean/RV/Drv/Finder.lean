import RV.Json
import RV.Model.Finder
import RV.Oracle.Finder
namespace RV.Drv.Finder
open Lean RV RV.Finder RV.Oracle.Finder

/-! JSON forms: see harness/suite_finder.go (fdIn).  A field of an unstructured object is `null` (absent),
    `"wrong"` (another JSON type) or `{"v": x}`. -/

def metaOfJson (j : Json) : R Meta := do
  return { ns := ← fStr j "ns", name := ← fStr j "name", uid := ← fStr j "uid", generation := ← fInt j "generation",
           inProgress := ← fBool j "inProgress", deleting := ← fBool j "deleting", created := ← fInt j "created" }

def fMeta (j : Json) : R Meta := do metaOfJson (← jget j "m")

def cloneSetOfJson (j : Json) : R CloneSet := do
  return { m := ← fMeta j, observedGeneration := ← fInt j "observedGeneration", replicas := ← fOptInt j "replicas",
           currentRevision := ← fStr j "currentRevision", updateRevision := ← fStr j "updateRevision",
           updatedReplicas := ← fInt j "updatedReplicas", statusReplicas := ← fInt j "statusReplicas" }

def daemonSetOfJson (j : Json) : R DaemonSet := do
  return { m := ← fMeta j, observedGeneration := ← fInt j "observedGeneration", daemonSetHash := ← fStr j "daemonSetHash",
           desired := ← fInt j "desired", updated := ← fInt j "updated" }

def selOfJson (j : Json) : R Sel := do
  match ← fStr j "t" with
  | "nil" => pure .nil
  | "invalid" => pure .invalid
  | "everything" => pure .everything
  | "app" => return .app (← fStr j "v")
  | s => .error s!"finder: selector {s}"

def deploymentOfJson (j : Json) : R Deployment := do
  return { m := ← fMeta j, observedGeneration := ← fInt j "observedGeneration", replicas := ← fOptInt j "replicas",
           selector := ← selOfJson (← jget j "selector"), template := ← fNat j "template", templateHash := ← fStr j "templateHash",
           stableLabel := ← fStr j "stableLabel", canaryOf := ← fOptStr j "canaryOf",
           statusReplicas := ← fInt j "statusReplicas", updatedReplicas := ← fInt j "updatedReplicas" }

def replicaSetOfJson (j : Json) : R ReplicaSet := do
  return { m := ← fMeta j, app := ← fOptStr j "app", hashLabel := ← fStr j "hashLabel", owner := ← fOptStr j "owner",
           replicas := ← fOptInt j "replicas", template := ← fNat j "template", revision := ← fOptInt j "revision" }

def stsOfJson (j : Json) : R Sts := do
  return { m := ← fMeta j, observedGeneration := ← fInt j "observedGeneration", replicas := ← fOptInt j "replicas",
           currentRevision := ← fStr j "currentRevision", updateRevision := ← fStr j "updateRevision",
           updatedReplicas := ← fInt j "updatedReplicas", statusReplicas := ← fInt j "statusReplicas" }

def ufOfJson {α : Type} (f : Json → R α) (j : Json) (k : String) : R (UF α) :=
  match jgetD j k .null with
  | .null => pure .absent
  | .str _ => pure .wrongType
  | v => do return .val (← f (← jget v "v"))

def gvkOfJson (j : Json) : R GVK := do
  return { group := ← fStr j "group", version := ← fStr j "version", kind := ← fStr j "kind" }

def unstrOfJson (j : Json) : R Unstr := do
  return { gvk := ← gvkOfJson (← jget j "gvk"), m := ← fMeta j, specReplicas := ← ufOfJson jint j "specReplicas",
           observedGeneration := ← ufOfJson jint j "observedGeneration", statusReplicas := ← ufOfJson jint j "statusReplicas",
           updatedReplicas := ← ufOfJson jint j "updatedReplicas", updateRevision := ← ufOfJson jstr j "updateRevision",
           currentRevision := ← ufOfJson jstr j "currentRevision" }

def listOf {α : Type} (f : Json → R α) (j : Json) (k : String) : R (List α) := do
  (← fArrD j k).mapM f

def clusterOfJson (j : Json) : R Cluster := do
  return { cloneSets := ← listOf cloneSetOfJson j "cloneSets", daemonSets := ← listOf daemonSetOfJson j "daemonSets",
           deployments := ← listOf deploymentOfJson j "deployments", replicaSets := ← listOf replicaSetOfJson j "replicaSets",
           nativeSts := ← listOf stsOfJson j "nativeSts", kruiseSts := ← listOf stsOfJson j "kruiseSts",
           unstructured := ← listOf unstrOfJson j "unstructured", failGet := ← listOf jstr j "failGet",
           failListRS := ← fOptNat j "failListRS", failListDeploy := ← fBool j "failListDeploy", filter := ← fBool j "filter" }

def refOfJson (j : Json) : R Ref := do
  return { apiVersion := ← fStr j "apiVersion", kind := ← fStr j "kind", name := ← fStr j "name" }

def strategyOfJson (j : Json) : R Strategy := do
  let canary ← (match jopt j "canary" with
    | none => pure none
    | some v => do return some (← jbool v))
  return { blueGreen := ← fBool j "blueGreen", canary := canary }

def wToJson (w : W) : Json :=
  mkObj [("name", strJ w.name), ("kind", strJ w.kind), ("generation", intJ w.generation), ("replicas", intJ w.replicas),
    ("stableRevision", strJ w.stableRevision), ("canaryRevision", strJ w.canaryRevision), ("podTemplateHash", strJ w.podTemplateHash),
    ("revisionLabelKey", strJ w.revisionLabelKey), ("isInRollback", boolJ w.isInRollback),
    ("inRolloutProgressing", boolJ w.inRolloutProgressing), ("isStatusConsistent", boolJ w.isStatusConsistent)]

def wOfJson (j : Json) : R W := do
  return { name := ← fStr j "name", kind := ← fStr j "kind", generation := ← fInt j "generation", replicas := ← fInt j "replicas",
           stableRevision := ← fStr j "stableRevision", canaryRevision := ← fStr j "canaryRevision", podTemplateHash := ← fStr j "podTemplateHash",
           revisionLabelKey := ← fStr j "revisionLabelKey", isInRollback := ← fBool j "isInRollback",
           inRolloutProgressing := ← fBool j "inRolloutProgressing", isStatusConsistent := ← fBool j "isStatusConsistent" }

def panicJ : Json := mkObj [("panic", strJ "?")]

def outToJson : Out → Json
  | .nothing => mkObj [("r", strJ "nothing")]
  | .err => mkObj [("r", strJ "err")]
  | .wl w => mkObj [("r", strJ "wl"), ("w", wToJson w)]
  | .wlErr w => mkObj [("r", strJ "wlErr"), ("w", wToJson w)]
  | .panic => panicJ

def outOfJson (j : Json) : R Out :=
  match jopt j "panic" with
  | some _ => pure .panic
  | none => do
    match ← fStr j "r" with
    | "nothing" => pure .nothing
    | "err" => pure .err
    | "wl" => return .wl (← wOfJson (← jget j "w"))
    | "wlErr" => return .wlErr (← wOfJson (← jget j "w"))
    | s => .error s!"finder: output {s}"

def finderIdOf : String → R FinderId
  | "deployment" => pure .deployment | "cloneSet" => pure .cloneSet | "advancedDeployment" => pure .advancedDeployment
  | "stsLike" => pure .stsLike | "daemonSet" => pure .daemonSet
  | s => .error s!"finder: finder {s}"

def finderName : FinderId → String
  | .deployment => "deployment" | .cloneSet => "cloneSet" | .advancedDeployment => "advancedDeployment"
  | .stsLike => "stsLike" | .daemonSet => "daemonSet"

def outTag : Out → String
  | .nothing => "out:nothing" | .err => "out:err" | .panic => "out:panic"
  | .wl w => if w.isStatusConsistent then (if w.isInRollback then "out:wl-rollback" else if w.inRolloutProgressing then "out:wl-progressing" else "out:wl-idle") else "out:wl-opaque"
  | .wlErr _ => "out:wlErr"

def styleTag (s : Strategy) : String :=
  match getRollingStyle s with
  | none => "style:none" | some .canary => "style:canary" | some .blueGreen => "style:blueGreen" | some .partition => "style:partition"

def dashes (s : String) : Nat := (s.toList.filter (· == '-')).length

def nameOrNull (o : Option String) : Json := optJ strJ o

def exceptJ {α : Type} (f : α → List (String × Json)) : Except Unit α → Json
  | .error _ => mkObj [("r", strJ "err")]
  | .ok a => mkObj (("r", strJ "ok") :: f a)

/-- insertion sort of names (the harness sorts the names of `GetReplicaSetsForDeployment`) -/
def sortNames (l : List String) : List String := sortBy (fun a b => decide (a < b)) l

/-- C10: the ReplicaSet `GetDeploymentStableRs` names is an oldest one among those that count (none iff none counts) -/
def stableRsOracle (c : Cluster) (d : Deployment) (j : Json) : Bool :=
  let act := activeOwned c d
  match j with
  | .str n =>
    match act.find? (fun (rs : ReplicaSet) => rs.m.name == n) with
    | some rs => act.all (fun (o : ReplicaSet) => decide (rs.m.created ≤ o.m.created))
    | none => false
  | .null => act.isEmpty
  | _ => false

/-- C03: the canary Deployment `getLatestCanaryDeployment` names is a newest one among those not in deletion -/
def latestCanaryOracle (c : Cluster) (d : Deployment) (j : Json) : Bool :=
  let live := (canariesOf c d).filter (fun (x : Deployment) => !x.m.deleting)
  match j with
  | .str n =>
    match live.find? (fun (x : Deployment) => x.m.name == n) with
    | some cd => live.all (fun (o : Deployment) => decide (o.m.created ≤ cd.m.created))
    | none => false
  | .null => live.isEmpty
  | _ => false

def handle : Handler := fun op inp impl => do
  let c ← clusterOfJson (← jget inp "c")
  let s ← strategyOfJson (← jget inp "strategy")
  let ns ← fStr inp "ns"
  let ref ← refOfJson (← jget inp "ref")
  match op with
  | "ref" =>
    let o := getWorkloadForRef c s ns ref
    let io ← outOfJson impl
    let adm := admissible c && strategyOK s
    let F := facts c s ns ref
    let holds := [("C10.finder_no_panic", !adm || noPanic io),
                  ("C09.finder_no_panic", !adm || noPanic io),
                  ("C10.rollback_detected", rollbackDetected c s ns ref io),
                  ("C10.no_false_rollback", noFalseRollback c s ns ref io),
                  ("C10.inconsistent_is_opaque", inconsistentIsOpaque c s ns ref io),
                  ("C08.finder_dispatch", finderDispatch c s ns ref io),
                  ("C03.pod_template_hash_from_canary_rs", podTemplateHashFromCanaryRs c s ns ref io)]
    let own := match getRollingStyle s with
      | none => "owner:-"
      | some st => match owners st c.filter (groupOf ref) ref.kind with
        | [] => "owner:none"
        | f :: _ => s!"owner:{finderName f}"
    let producer := match getRollingStyle s with
      | none => "producer:-"
      | some st => match (owners st c.filter (groupOf ref) ref.kind).find? (fun f => (factsOf c ns ref f).isSome) with
        | none => "producer:none"
        | some f => s!"producer:{finderName f}"
    let tags := ["op:ref", styleTag s, outTag o, own, producer,
                 if adm then "admissible" else "malformed",
                 if c.filter then "filter:on" else "filter:off",
                 if c.failGet.isEmpty && c.failListRS.isNone && !c.failListDeploy then "faults:none" else "faults:some",
                 s!"rs:{min c.replicaSets.length 6}", s!"deployments:{min c.deployments.length 4}"] ++
                (match F with
                 | some F => [if F.waits then "facts:waits" else if F.rollingBack then "facts:rollback" else if F.inProgress then "facts:progressing" else "facts:idle",
                              if F.pth = "" then "pth:empty" else "pth:set"]
                 | none => ["facts:none"]) ++
                (if producer == "producer:stsLike" &&
                    c.unstructured.any (fun u => u.m.ns == ns && u.m.name == ref.name && (u.updateRevision == .wrongType || u.currentRevision == .wrongType)) &&
                    (match getEmptyWorkloadObject c.filter (fromAPIVersionAndKind ref.apiVersion ref.kind) with | some (.unstructured _) => true | _ => false)
                 then ["unstr:nonStringRevision"] else []) ++
                (if producer == "producer:cloneSet" then
                   (c.cloneSets.filter (fun x => x.m.ns == ns && x.m.name == ref.name)).map (fun x => s!"dashes:{min (dashes x.updateRevision) 3}") else []) ++
                (if o == .nothing && (match getRollingStyle s with | some st => (owners st c.filter (groupOf ref) ref.kind).isEmpty | none => false) then ["trivial"] else [])
    return { model := outToJson o, holds := holds, tags := tags }
  | "one" =>
    let f ← finderIdOf (← fStr inp "finder")
    let o := runFinder c ns ref f
    let io ← outOfJson impl
    let cs := c.cloneSets.filter (fun x => x.m.ns == ns && x.m.name == ref.name)
    let dashTags := if f == .cloneSet then cs.map (fun x => s!"dashes:{min (dashes x.updateRevision) 3}") else []
    return { model := outToJson o,
             holds := [("C10.finder_no_panic", !(admissible c) || noPanic io)],
             tags := ["op:one", s!"finder:{finderName f}", outTag o] ++ dashTags }
  | "vgk" =>
    let kind ← fStr inp "kind"
    let groups ← listOf jstr inp "groups"
    let r := verifyGroupKind ref kind groups
    let iok ← fBool impl "ok"
    -- the version of the reference is ignored: the same reference under another version gets the same verdict
    let other := match parseGroupVersion ref.apiVersion with
      | some gv => (verifyGroupKind { ref with apiVersion := gv.group ++ "/vX" } kind groups).ok == iok || gv.group == ""
      | none => !iok
    return { model := mkObj [("ok", boolJ r.ok), ("err", boolJ r.err)],
             holds := [("C08.finder_dispatch", other && (iok == (groups.contains ((groupOf ref).getD "\x00") && ref.kind == kind)))],
             tags := ["op:vgk", if r.ok then "vgk:ok" else if r.err then "vgk:err" else "vgk:no"] }
  | "rss" | "stableRs" | "canary" | "findcs" =>
    match lookup Deployment.m c.deployments ns ref.name with
    | none => return { model := mkObj [("r", strJ "noDeployment")], tags := [s!"op:{op}", "trivial"] }
    | some d =>
      let nth := (← fOptNat inp "nth").getD 0
      match op with
      | "rss" =>
        let r := getReplicaSetsForDeployment c d nth
        return { model := exceptJ (fun rss => [("names", arrJ ((sortNames (rss.map (·.m.name))).map strJ))]) r,
                 tags := ["op:rss", s!"active:{min (activeOwned c d).length 5}"] }
      | "stableRs" =>
        let r := getDeploymentStableRs c d nth
        let holds := match r, impl.getObjVal? "name" with
          | .ok _, .ok j => [("C10.stable_rs_oldest", stableRsOracle c d j)]
          | _, _ => []
        return { model := exceptJ (fun o => [("name", nameOrNull (o.map (·.m.name)))]) r, holds := holds,
                 tags := ["op:stableRs", s!"active:{min (activeOwned c d).length 5}"] }
      | "canary" =>
        let r := getLatestCanaryDeployment c d
        let holds := match r, impl.getObjVal? "name" with
          | .ok _, .ok j => [("C03.latest_canary_newest", latestCanaryOracle c d j)]
          | _, _ => []
        return { model := exceptJ (fun o => [("name", nameOrNull (o.map (·.m.name)))]) r, holds := holds,
                 tags := ["op:canary", s!"canaries:{min (canariesOf c d).length 4}"] }
      | _ =>
        match getReplicaSetsForDeployment c d nth with
        | .error _ => return { model := mkObj [("r", strJ "err")], tags := ["op:findcs", "findcs:err"] }
        | .ok rss =>
          match findCanaryAndStableReplicaSet rss d with
          | none => return { model := panicJ, tags := ["op:findcs", "findcs:panic"] }
          | some (n, o) =>
            return { model := mkObj [("r", strJ "ok"), ("new", nameOrNull (n.map (·.m.name))), ("old", nameOrNull (o.map (·.m.name)))],
                     tags := ["op:findcs", s!"active:{min rss.length 5}"] }
  | _ => .error s!"finder: unknown op {op}"

end RV.Drv.Finder
