import RV.Json
import RV.Model.TrafficX
import RV.Oracle.TrafficX
import RV.Drv.Traffic
import RV.Drv.Gateway
import RV.Drv.Ingress
import RV.Drv.Custom
/-!
Driver for suite `trafficx`: the real `trafficrouting.Manager` over the real providers
(harness/suite_trafficx.go).

ops
* `call`  — one Manager call from one abstract state.
    in   `{call, ctx, net, mem, failAt, trace}`
    impl `{done, err, net, mem, touched, recheck, writes}` | `{panic:true}` | `{err}` (call `initialize`)
* `grace` — `GetGraceSeconds`.  in `{refs:[int], dflt}`, impl `int`.
-/
namespace RV.Drv.TrafficX
open Lean RV RV.TrafficX RV.Traffic RV.Oracle.TrafficX

/-! ### fixed names of the harness -/

def stableName : String := "svc"
/-- the canary Service name of a rollout that generates one (normalisation of the route is judged w.r.t. it) -/
def trafficCanary : String := "svc-canary"
def ingName : String := "ing"

/-! ### JSON in -/

def pairsOf (j : Json) (k : String) : R (List (String × String)) := do
  (← jarr (jgetD j k (arrJ []))).mapM fun p => do
    match ← jarr p with
    | [a, b] => do pure (← jstr a, ← jstr b)
    | _ => .error "pair expected"

def rhmOf (j : Json) : R (Option RV.Custom.HeaderMod) :=
  match jopt j "rhm" with
  | none => .ok none
  | some h => do
    let rem ← (← jarr (jgetD h "remove" (arrJ []))).mapM jstr
    return some { set := ← pairsOf h "set", add := ← pairsOf h "add", remove := rem }

def stratOf (j : Json) : R Strat := do
  return { traffic := ← fOptStr j "traffic",
           mts := ← jlistM RV.Drv.Gateway.umatchOf (← jget j "matches"),
           rhm := ← rhmOf j }

structure ProvIn where
  custom : Bool
  ingress : Option String
  gateway : Bool

def provOf (j : Json) : R ProvIn := do
  return { custom := ← fBool j "custom", ingress := ← fOptStr j "ingress", gateway := ← fBool j "gateway" }

def classOpt (s : String) : Option RV.Ingress.Class :=
  match RV.Drv.Ingress.classOf s with
  | .ok c => some c
  | .error _ => none

def ctxOf (j : Json) : R (XCtx Strat × ProvIn) := do
  let hk ← (match jopt j "hasRevKey" with | none => pure true | some b => jbool b)
  let extra ← (← fArrD j "extraGrace").mapM jint
  let c : XCtx Strat :=
    { hasRef := ← fBool j "hasRef", grace := ← fInt j "grace", extraGrace := extra, defGrace := ← fInt j "defGrace",
      strategy := ← stratOf j, disableGen := ← fBool j "disableGen", onlyTR := ← fBool j "onlyTR",
      stableRev := ← fStr j "stableRev", canaryRev := ← fStr j "canaryRev",
      lastUpdate := RV.Drv.Traffic.ageOf (← fStr j "lastUpdate"), hasRevKey := hk }
  return (c, ← provOf (← jget j "prov"))

def pcfgOf (c : XCtx Strat) (p : ProvIn) : PCfg :=
  { custom := p.custom, ingress := p.ingress.map classOpt, gateway := p.gateway,
    stable := stableName, canary := canaryServiceName stableName c.onlyTR c.disableGen,
    ingName := ingName, codec := RV.Drv.Custom.codec }

structure NetIn where
  net : XNet CNet
  refs : List RV.Drv.Custom.RefIn

def worldOf (j : Json) : R RV.Ingress.World := do
  let stable ← match jopt j "stable" with
    | none => pure none
    | some v => do pure (some (← RV.Drv.Ingress.ingressOf v))
  let canary ← match jopt j "canary" with
    | none => pure none
    | some v => do pure (some (← RV.Drv.Ingress.canaryOf v))
  return { stable := stable, canary := canary }

def netOf (canary : String) (j : Json) : R NetIn := do
  let refs ← (← fArrD j "custom").mapM (RV.Drv.Custom.refOfJson stableName canary)
  let st : List RV.Custom.Ref := refs.map fun r => ⟨r.script, r.obj⟩
  let w ← worldOf (← jget j "ing")
  let route ← RV.Drv.Gateway.optRulesOf j "route"
  return { net := { stableExists := ← fBool j "stableExists", stableSel := ← fOptStr j "stableSel",
                    canarySvc := ← fOptStr j "canarySvc", g := (st, (w, route)) },
           refs := refs }

/-! ### JSON out -/

def worldJ (w : RV.Ingress.World) : Json :=
  mkObj [("stable", optJ RV.Drv.Ingress.ingressJ w.stable), ("canary", optJ RV.Drv.Ingress.canaryJ w.canary)]

def netJ (kinds : List String) (n : XNet CNet) : Json :=
  mkObj [("stableExists", boolJ n.stableExists), ("stableSel", optJ strJ n.stableSel),
         ("canarySvc", optJ strJ n.canarySvc),
         ("custom", arrJ ((kinds.zip n.g.1).map fun (k, r) =>
            mkObj [("kind", strJ k), ("obj", RV.Drv.Custom.optObjToJson r.obj)])),
         ("ing", worldJ n.g.2.1),
         ("route", optJ RV.Drv.Gateway.rulesJ n.g.2.2)]

/-- `bare`: the stable Service has no selector entry besides the revision label — no Manager call changes that -/
def outJ (kinds : List String) (a0 : Api) (bare : Bool) (o : XOut CNet) : Json :=
  if o.panic then mkObj [("panic", boolJ true)]
  else mkObj [("done", boolJ o.done), ("err", boolJ o.err),
              ("net", if bare && o.net.stableExists then (netJ kinds o.net).setObjVal! "stableBare" (boolJ true) else netJ kinds o.net),
              ("mem", RV.Drv.Traffic.memToJson o.mem), ("touched", boolJ o.touched), ("recheck", boolJ o.recheck),
              ("writes", arrJ (o.writes.map strJ)), ("readFailed", boolJ (readFailed a0 o.a))]

/-- the implementation's answer, read back for the oracles -/
def outOf (canary : String) (j : Json) : R (XOut CNet) := do
  let n ← netOf canary (← jget j "net")
  return { done := ← fBool j "done", err := ← fBool j "err", net := n.net,
           mem := ← RV.Drv.Traffic.memOfJson (← jget j "mem"), touched := ← fBool j "touched",
           recheck := ← fBool j "recheck", writes := ← (← fArrD j "writes").mapM jstr, a := Api.ok }

/-! ### the model run -/

def runCall (call : String) (P : Option (Provider Strat CNet)) (c : XCtx Strat) (b : Api) (n : XNet CNet) (m : Mem)
    (bare : Bool) : Option (XOut CNet) :=
  match call with
  | "patchStableService" => some (patchStableServiceX c b n m)
  | "restoreStableService" => some (restoreStableServiceX c b n m)
  | "restoreGateway" => some (restoreGatewayX P c b n m)
  | "removeCanaryService" => some (removeCanaryServiceX c b n m)
  | "finalisingTrafficRouting" => some (finalisingTrafficRoutingX P c b n m)
  | "doTrafficRouting" => some (doTrafficRoutingB stratOps P c b n m bare)
  | "routeAllToNew" => some (routeAllToNewX stratOps P c b n m)
  | _ => none

/-- is every script execution of this call inside the shapes the hand translations cover? -/
def shapesModelled (p : PCfg) (refs : List RV.Drv.Custom.RefIn) (ss : List RV.Custom.Strategy) : Bool :=
  !p.custom || refs.all fun r =>
    match r.obj with
    | none => true
    | some o =>
      let d := p.codec.dec (RV.Custom.origOf (RV.Custom.storeIfAbsent p.codec o))
      ss.all fun s => s.mts.all RV.Drv.Custom.matchSupported && r.supported d s

/-! ### comparing states at the JSON level (the custom refs carry functions) -/

def sameG (kinds : List String) (a b : XNet CNet) : Bool :=
  (netJ kinds { a with stableSel := none, canarySvc := none, stableExists := true }).compress ==
  (netJ kinds { b with stableSel := none, canarySvc := none, stableExists := true }).compress

def sameNet (kinds : List String) (a b : XNet CNet) : Bool := (netJ kinds a).compress == (netJ kinds b).compress

def sizeTag (pre : String) (n : Nat) : String := pre ++ "=" ++ (if n ≥ 4 then "4+" else toString n)

def handleCall (inp impl : Json) : R OpResult := do
  let call ← fStr inp "call"
  let (c, pin) ← ctxOf (← jget inp "ctx")
  let p := pcfgOf c pin
  let nin ← netOf p.canary (← jget inp "net")
  let n := nin.net
  let kinds := nin.refs.map (·.kind)
  let m ← RV.Drv.Traffic.memOfJson (← jget inp "mem")
  let b : Api := { w := ← fOptNat inp "failAt", r := ← fOptNat inp "failGet" }
  let P := mkProvider p
  let trace := jgetD inp "trace" .null
  let streak0 ← (match jopt trace "streak" with | none => pure 0 | some v => jnat v)
  -- a round made while a grace period is still running (or under an injected fault) is not a round of the count
  let waiting := c.lastUpdate == .fresh || m.patchService == .fresh || m.restoreService == .fresh ||
    m.restoreGateway == .fresh || m.removeCanaryService == .fresh || m.updateRoute == .fresh || b.w.isSome || b.armed
  let streak := if waiting then 0 else streak0
  -- the hypotheses of `doTRX_converges`: the stable Service exists and the revisions are known
  let healthy := n.stableExists && (c.noGen || (c.stableRev != "" && c.canaryRev != ""))
  -- `doTRX_converges`: settled within (the provider's bound) + 1 further rounds; the bounds of the members add up
  -- (`gateway_lawful` 1, `ingress_lawful` 2, `custom_lawful` 1, `composite_pair_lawful`)
  let provBound := (if pin.custom then 1 else 0) + (match pin.ingress with | some _ => 2 | none => 0) +
    (if pin.gateway then 1 else 0)
  let prevDone ← (match jopt trace "prevDone" with | none => pure false | some v => jbool v)
  let pristine ← (match jopt trace "pristine" with | none => pure false | some v => jbool v)
  let s := c.strategy
  let sAll := stratOps.routeAll s
  -- region of the FIXED finding `selectorlessStable` (`RV.TrafficX.refusesBare`): the stable Service carries no
  -- selector at all and `DoTrafficRouting` is about to create the canary Service from it — `createCanaryService`
  -- returns an error and nothing is written (`selectorless_refused`; before the repair it assigned into the nil
  -- selector map and panicked).  Judged at full strength: a panic there fails `x_no_panic` like anywhere else, and
  -- the regression oracle `x_selectorless_refused` wants the error with everything left as it was.
  let stableBare ← (match jopt (← jget inp "net") "stableBare" with | none => pure false | some v => jbool v)
  let rBare := call == "doTrafficRouting" && refusesBare stratOps c b n stableBare
  -- region of the FIXED finding `sameServiceGateway`: no canary Service of its own (the providers get the stable
  -- name twice) together with a Gateway API ref — `newNetworkProvider` returns an error (`gatewayRefused`), no
  -- Manager call touches a provider object (`sameService_refused`).  No oracle is weakened there any more.
  let rSame := gatewayRefused p
  -- the C13 theorems speak about routes of reachable shape (`inv`): an arbitrary route that mentions the canary
  -- Service in other ways (random stream) is outside their hypothesis
  let gOutside := pin.gateway && !rSame && (match n.g.2.2 with
    | some rules => !RV.Oracle.C13.inv ⟨p.stable, p.canary⟩ rules
    | none => false)
  let pj : PCfg := if gOutside then { p with gateway := false } else p
  let step := isStep stratOps s
  -- tags common to all calls
  let provTag := (if pin.custom then "C" else "") ++ (match pin.ingress with | some _ => "I" | none => "") ++
                 (if pin.gateway then "G" else "")
  let mut tags : List String :=
    [s!"call:{call}", s!"prov:{if provTag == "" then "none" else provTag}",
     if s.traffic.isSome && !s.mts.isEmpty then "step:weight+matches" else if s.traffic.isSome then "step:weight"
       else if !s.mts.isEmpty then "step:matches" else "step:none",
     s!"grace:{c.graceSec}", s!"lastUpdate:{repr c.lastUpdate}"] ++
    (match pin.ingress with | some cls => [s!"class:{cls}"] | none => []) ++
    (if pin.custom then [sizeTag "customRefs" kinds.length] ++ (kinds.map fun k => s!"ref:{k}").eraseDups else []) ++
    (if c.disableGen then ["disableGen"] else []) ++ (if c.onlyTR then ["onlyTR"] else []) ++
    (if c.hasRef then [] else ["noRef"]) ++ (if b.w.isSome then ["fault:write"] else []) ++
    (if b.armed then ["fault:read"] else []) ++
    (if s.rhm.isSome then ["rhm"] else []) ++
    (if c.hasRevKey then [] else ["guard:noRevKey"]) ++ (if rBare then ["region:selectorlessStable"] else []) ++
    (if stableBare then ["stableBare"] else []) ++ (if rSame then ["region:sameServiceGateway"] else []) ++
    (if P.isNone && c.hasRef then ["provider:refused"] else []) ++
    (if gOutside then ["route:outside-inv"] else []) ++
    (if pristine then ["walk:pristine"] else [])
  if call == "initialize" then
    let e := initializeX P c n
    let ie ← fBool impl "err"
    return { model := mkObj [("err", boolJ e)], holds := [],
             tags := tags ++ [if ie then "init:err" else "init:ok"] }
  match runCall call P c b n m stableBare with
  | none => .error s!"trafficx: unknown call {call}"
  | some o =>
    let modelled := shapesModelled p nin.refs [cuStrategy s, cuStrategy sAll]
    if !modelled then tags := tags ++ ["shape:unmodelled"]
    let model := if modelled then outJ kinds b stableBare o else Json.null
    if (jopt impl "panic").isSome then
      -- `no_panicB`: no state, no context, no fault makes a Manager call panic (every attached property fails)
      let keys := ["C03.x_no_panic", "C04.x_no_panic", "C05.x_no_panic", "C06.x_no_panic", "C07.x_no_panic", "C09.x_no_panic",
                   "C13.x_no_panic", "C14.x_no_panic", "C15.x_no_panic"] ++
                  (if rBare then ["C03.x_selectorless_refused", "C09.x_selectorless_refused"] else [])
      return { model := model, holds := keys.map fun k => (k, false), tags := tags ++ ["panic"] }
    let io ← outOf p.canary impl
    tags := tags ++ [if io.done then "res:true" else "res:false", if io.err then "err" else "noerr",
                     if io.writes.isEmpty then "nowrite" else sizeTag "writes" io.writes.length] ++
                    (if providerTouched io.writes then ["providerTouched"] else [])
    -- the provider objects after the call, as the implementation left them
    let g' := io.net.g
    let same := sameNet kinds io.net n
    let clean := cleanB pj g'
    -- the user's original objects of the walk (when the walk started from a pristine state)
    let orig ← (match jopt trace "orig" with
      | none => pure none
      | some v => do pure (some (← netOf p.canary v)))
    let mut holds : List (String × Bool) := [("C09.x_no_panic", true), ("C03.x_no_panic", true)]
    holds := holds ++ [("C05.x_frame", frameX call n io)]
    -- regression oracle of the fixed finding `selectorlessStable` (`selectorless_refused_oracle`)
    if rBare then
      let v := selectorlessRefusedX same m io
      holds := holds ++ [("C03.x_selectorless_refused", v), ("C09.x_selectorless_refused", v)]
    -- a configuration whose provider cannot be built (`refused_untouched`): the error instead of completion, no
    -- provider object touched; in the region of the fixed finding `sameServiceGateway` this IS the full-strength
    -- form of `C05.x_finalise_restores` / `C07.x_converges` (`sameService_refused`, `gateway_ref_finalise_total`,
    -- `gateway_ref_converges`): the regression oracle of that finding
    if P.isNone && ["doTrafficRouting", "finalisingTrafficRouting", "restoreGateway", "routeAllToNew"].contains call then
      let v := refusedX call c step (sameG kinds io.net n) io
      holds := holds ++ (["C03", "C04", "C05", "C07"].map fun pid => (pid ++ ".x_refused_untouched", v))
      if rSame then
        holds := holds ++ [("C13.x_refused_untouched", v),
          (if call == "doTrafficRouting" || call == "routeAllToNew" then "C07.x_converges" else "C05.x_finalise_restores", v)]
    -- a read that failed with a non-NotFound error (reported by the harness' client) is reported by the call
    let iReadFailed ← fBool impl "readFailed"
    if iReadFailed then tags := tags ++ ["readFailed"]
    holds := holds ++ [("C05.x_read_fault_reported", readFaultReportedX iReadFailed io),
                       ("C06.x_read_fault_reported", readFaultReportedX iReadFailed io)]
    -- provider-specific specs of the members, judged on the implementation's objects
    let specs (st : Strat) : List (String × Bool) :=
      (if p.custom then [("C15.x_routed", cuSpecB p.codec st g'.1)] ++
         (match orig with
          | some on => if pristine && modelled then
              [("C15.x_stateless", cuStatelessB p.codec st (on.refs.filterMap fun r => r.obj.map fun o => (r.script, o)) g'.1)] else []
          | none => []) else []) ++
      (match p.ingress with
        | some (some cls) =>
          let cfg : RV.Ingress.Cfg := ⟨cls, p.ingName, p.stable, p.canary⟩
          [("C14.x_routed", igSpecB cfg st g'.2.1)] ++ (if pristine then [("C14.x_fresh", igFreshB cfg st g'.2.1)] else [])
        | _ => []) ++
      (if pj.gateway then [("C13.x_routed", gwSpecB ⟨p.stable, p.canary⟩ st g'.2.2)] else [])
    if call == "doTrafficRouting" then
      let sp := specB pj s g'
      holds := holds ++ [("C03.x_done_means_routed", doneMeansRoutedX c step sp io),
                         ("C03.x_services_before_routes", servicesBeforeRoutesX c n io && (providerTouched io.writes || sameG kinds io.net n)),
                         ("C04.x_services_before_routes", servicesBeforeRoutesX c n io && (providerTouched io.writes || sameG kinds io.net n)),
                         ("C07.x_fixed_point", fixedPointX (prevDone && b.w.isNone && !b.armed) same m io),
                         ("C07.x_converges", convergesX (if healthy then streak else 0) (provBound + 1) io)]
      if !p.custom then holds := holds ++ [("C07.x_done_no_write", doneNoWriteX same m io)]
      if io.done && c.hasRef && step then
        holds := holds ++ specs s
        tags := tags ++ ["done:routed"]
      if io.done && c.hasRef && !step then tags := tags ++ ["done:nothing-to-route"]
      -- composite: no member is skipped in a round without error that reached the provider
      if c.hasRef && step && !io.err && (providerTouched io.writes || io.done) && (mkProvider p).isSome then
        let ranC := !p.custom || !modelled ||
          memberRanB (cuProvider p.codec)
            (fun a b => (RV.Drv.Custom.objsJson a).compress == (RV.Drv.Custom.objsJson b).compress) s n.g.1 g'.1
        let ranI := match p.ingress with
          | some (some cls) => memberRanB (igProvider ⟨cls, p.ingName, p.stable, p.canary⟩)
              (fun a b => (worldJ a).compress == (worldJ b).compress) s n.g.2.1 g'.2.1
          | _ => true
        let ranG := !p.gateway || memberRanB (gwProvider ⟨p.stable, p.canary⟩) (fun a b => decide (a = b)) s n.g.2.2 g'.2.2
        holds := holds ++ [("C03.x_composite_all_members", ranC && ranI && ranG)]
        if (providerList p).length > 1 then tags := tags ++ ["composite:round"]
    if call == "routeAllToNew" then
      -- with a grace period of 0 the caller does not wait for the routes to be verified ("no need to wait")
      if c.hasRef && !io.done && !io.err && c.graceSec != 0 then
        holds := holds ++ [("C03.x_route_all", specB pj sAll g')] ++ specs sAll
    if call == "finalisingTrafficRouting" then
      holds := holds ++ [("C04.x_finalising_order", finalisingOrderX c clean io),
                         ("C05.x_finalising_order", finalisingOrderX c clean io),
                         ("C04.x_grace_separates", graceSeparatesX c io),
                         ("C05.x_grace_separates", graceSeparatesX c io),
                         ("C07.x_fixed_point", fixedPointX (prevDone && b.w.isNone && !b.armed) same m io),
                         ("C07.x_converges", convergesX streak 9 io)]
    if call == "finalisingTrafficRouting" || call == "restoreGateway" then
      let complete := c.hasRef && !io.err && (if call == "restoreGateway" then !io.done else io.done)
      if complete then
        tags := tags ++ ["finalise:complete"]
        -- the members' own clean-up clauses
        holds := holds ++
          (if p.custom then [("C15.x_clean", cuCleanB g'.1)] else []) ++
          (match p.ingress with | some (some _) => [("C14.x_clean", igCleanB g'.2.1)] | _ => []) ++
          (if pj.gateway then [("C13.x_clean", gwCleanB ⟨p.stable, p.canary⟩ g'.2.2)] else [])
        -- restored to what the user had
        match orig with
        | some on =>
          if pristine then
            tags := tags ++ ["finalise:restored-checked"]
            let rs :=
              (if p.custom && modelled then [("C15.x_restored", cuRestoredB (on.refs.filterMap (·.obj)) g'.1 ||
                  decide (g'.1.map (·.obj) = on.net.g.1.map (·.obj)))] else []) ++
              (match p.ingress with | some (some _) => [("C14.x_restored", decide (g'.2.1.stable = on.net.g.2.1.stable))] | _ => []) ++
              (if p.gateway then [("C13.x_restored", gwRestoredB ⟨p.stable, trafficCanary⟩ on.net.g.2.2 g'.2.2 ||
                  decide (g'.2.2 = on.net.g.2.2))] else [])
            holds := holds ++ rs ++ [("C05.x_finalise_restores", rs.all (·.2))]
        | none => pure ()
    -- a read fault inside the provider's Finalise (not the stable Service `Get`, which is the first one of
    -- `FinalisingTrafficRouting`), no write fault: at most the member that hit it is left unclean
    let inProvider := call == "restoreGateway" ||
      (call == "finalisingTrafficRouting" && (match b.r with | some k => decide (k ≥ 2) | none => false))
    if inProvider && iReadFailed && b.w.isNone && c.hasRef && P.isSome then
      tags := tags ++ ["finalise:read-fault-in-provider"]
      holds := holds ++ [("C05.x_finalise_continues", finaliseContinuesB pj g'),
                         ("C06.x_finalise_continues", finaliseContinuesB pj g')]
    if ["restoreStableService", "restoreGateway", "removeCanaryService", "patchStableService"].contains call then
      holds := holds ++ [("C05.x_task_post", taskPostX call c clean io)]
    return { model := model, holds := RV.Drv.Custom.mergeHolds holds, tags := tags.eraseDups }

def handleGrace (inp impl : Json) : R OpResult := do
  let refs ← (← fArr inp "refs").mapM jint
  let d ← fInt inp "dflt"
  let r := getGraceSeconds refs d
  let _ := impl
  return { model := intJ r, holds := [],
           tags := ["op:grace", sizeTag "refs" refs.length] ++ (if refs.isEmpty then ["trivial"] else []) }

def handle : Handler := fun op inp impl =>
  match op with
  | "call" => handleCall inp impl
  | "grace" => handleGrace inp impl
  | _ => .error s!"trafficx: unknown op {op}"

end RV.Drv.TrafficX
