import RV.Json
import RV.Oracle.Fault
namespace RV.Drv.Fault
open Lean RV

/-- the `fault` op of a suite: verdicts keyed under every property in `props` -/
def handleFault (props : List String) (impl : Json) : R OpResult := do
  match jopt impl "panic" with
  | some _ => return { model := .null, holds := props.map (fun p => (p ++ ".fault_no_panic", false)), tags := ["fault:panic"] }
  | none =>
    let hitS ← fStr impl "hit"
    let hit := hitS != ""
    let err ← fBool impl "err"
    let ws ← (← fArrD impl "writes").mapM jstr
    let bws ← (← fArrD impl "baseWrites").mapM jstr
    let kind := (hitS.splitOn " ").headD ""
    let kindObj := String.intercalate " " ((hitS.splitOn " ").take 2)
    return { model := .null,
             holds := props.flatMap fun p =>
               [(p ++ ".fault_no_panic", true),
                (p ++ ".fault_reported", RV.Oracle.Fault.faultReported hit err),
                (p ++ ".fault_writes_within", RV.Oracle.Fault.faultWritesWithin hit ws bws)],
             tags := ["fault", if hit then s!"fault:{kindObj}" else "fault:not-reached", s!"faultverb:{kind}"] ++ (if hit then [] else ["trivial"]) }

end RV.Drv.Fault
