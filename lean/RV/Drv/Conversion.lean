import RV.Json
namespace RV.Drv.Conversion
open Lean RV
def handle : Handler := fun op _ _ => .error s!"Conversion: op {op} not implemented"
end RV.Drv.Conversion
