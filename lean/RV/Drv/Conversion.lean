import RV.Json
import RV.Model.Conversion
import RV.Oracle.C20
/-!
  Driver for suite `conversion` (property C20).

  ops
    rolloutAB  in: v1alpha1 Rollout       impl: {mid: ConvertTo in,   back: ConvertFrom mid}
    rolloutBA  in: v1beta1 Rollout        impl: {mid: ConvertFrom in, back: ConvertTo mid}
    brAB/brBA  the same for BatchRelease
    fields     in: {type}                 impl: leaf field paths of the Go type (reflection)
-/
namespace RV.Drv.Conversion
open Lean RV RV.Conversion RV.Oracle.C20

/-! ### JSON → model -/

def fOptJ {α} (f : Json → R α) (j : Json) (k : String) : R (Option α) :=
  match jopt j k with
  | none => .ok none
  | some v => do return some (← f v)

def fList {α} (f : Json → R α) (j : Json) (k : String) : R (List α) := do
  jlistM f (← jget j k)

def iosOf (j : Json) : R IOS :=
  match jopt j "i", jopt j "s" with
  | some v, _ => do return .int (← jint v)
  | _, some v => do return .str (← jstr v)
  | _, _ => .error s!"bad intorstring {j.compress}"

def metaOf (j : Json) : R Meta := do
  return { rest := ← fStr j "rest", annStyle := ← fOptStr j "style", annTR := ← fOptStr j "tr",
           annOthers := ← fStr j "others" }

def refOf (j : Json) : R Ref := do
  return { apiVersion := ← fStr j "apiVersion", kind := ← fStr j "kind", name := ← fStr j "name" }

def trRefOf (j : Json) : R TRRef := do
  return { service := ← fStr j "service"
           gracePeriodSeconds := ← fInt j "grace"
           ingress := ← fOptJ (fun i => do
             return ({ classType := ← fStr i "classType", name := ← fStr i "name" } : Ingress)) j "ingress"
           gateway := ← fOptJ (fun g => do
             return ({ httpRouteName := ← fOptStr g "route" } : Gateway)) j "gateway"
           customNetworkRefs := ← fList refOf j "custom" }

def kvOf (j : Json) : R (String × String) := do
  match ← jarr j with
  | [k, v] => return (← jstr k, ← jstr v)
  | _ => .error s!"bad kv {j.compress}"

def patchOf (j : Json) : R Patch := do
  return { annotations := ← fList kvOf j "annotations", labels := ← fList kvOf j "labels" }

def condOf (j : Json) : R Condition := do
  return { type := ← fStr j "type", status := ← fStr j "status", lastUpdateTime := ← fStr j "lut",
           lastTransitionTime := ← fStr j "ltt", reason := ← fStr j "reason", message := ← fStr j "message" }

def canaryStatusOf (j : Json) : R CanaryStatus := do
  return { observedWorkloadGeneration := ← fInt j "owg"
           observedRolloutID := ← fStr j "orid"
           rolloutHash := ← fStr j "hash"
           stableRevision := ← fStr j "stable"
           canaryRevision := ← fStr j "canaryRev"
           podTemplateHash := ← fStr j "pth"
           canaryReplicas := ← fInt j "replicas"
           canaryReadyReplicas := ← fInt j "ready"
           nextStepIndex := ← fInt j "next"
           currentStepIndex := ← fInt j "cur"
           currentStepState := ← fStr j "state"
           message := ← fStr j "message"
           lastUpdateTime := ← fOptStr j "lut"
           finalisingStep := ← fStr j "fin" }

def planOf (j : Json) : R ReleasePlan := do
  return { batches := ← fList iosOf j "batches"
           batchPartition := ← fOptInt j "partition"
           rolloutID := ← fStr j "rolloutID"
           failureThreshold := ← fOptJ iosOf j "ft"
           finalizingPolicy := ← fStr j "policy"
           patch := ← fOptJ patchOf j "patch"
           rollingStyle := ← fStr j "style"
           enableExtraWorkloadForCanary := ← fBool j "extra" }

def brCanaryStatusOf (j : Json) : R BRCanaryStatus := do
  return { currentBatchState := ← fStr j "state"
           currentBatch := ← fInt j "batch"
           batchReadyTime := ← fOptStr j "readyTime"
           updatedReplicas := ← fInt j "updated"
           updatedReadyReplicas := ← fInt j "updatedReady"
           noNeedUpdateReplicas := ← fOptInt j "noNeed" }

def strList (j : Json) (k : String) : R (List String) := fList jstr j k

def pauseOf (j : Json) : R Pause := do return { duration := ← fOptInt j "pause" }

def aStepOf (j : Json) : R A.Step := do
  let w ← fOptInt j "weight"
  return { tr := { weight := w.map Int32.ofInt
                   requestHeaderModifier := ← fOptStr j "rhm"
                   mts := ← fList (fun m => do return ({ headers := ← strList m "headers" } : A.Match)) j "mts" }
           replicas := ← fOptJ iosOf j "replicas"
           pause := ← pauseOf j }

def bStepOf (j : Json) : R B.Step := do
  return { tr := { traffic := ← fOptStr j "traffic"
                   requestHeaderModifier := ← fOptStr j "rhm"
                   mts := ← fList (fun m => do
                     return ({ path := ← fOptStr m "path", headers := ← strList m "headers",
                               queryParams := ← strList m "query" } : B.Match)) j "mts" }
           replicas := ← fOptJ iosOf j "replicas"
           pause := ← pauseOf j }

def aCanaryOf (j : Json) : R A.Canary := do
  return { steps := ← fList aStepOf j "steps"
           trafficRoutings := ← fList trRefOf j "trs"
           failureThreshold := ← fOptJ iosOf j "ft"
           patch := ← fOptJ patchOf j "patch"
           disableGenerateCanaryService := ← fBool j "noSvc" }

def bCanaryOf (j : Json) : R B.Canary := do
  return { steps := ← fList bStepOf j "steps"
           trafficRoutings := ← fList trRefOf j "trs"
           failureThreshold := ← fOptJ iosOf j "ft"
           patch := ← fOptJ patchOf j "patch"
           enableExtraWorkloadForCanary := ← fBool j "extra"
           trafficRoutingRef := ← fStr j "trRef"
           disableGenerateCanaryService := ← fBool j "noSvc" }

def aStatusOf (j : Json) : R A.Status := do
  return { observedGeneration := ← fInt j "og"
           canaryStatus := ← fOptJ canaryStatusOf j "cs"
           conditions := ← fList condOf j "conds"
           phase := ← fStr j "phase"
           message := ← fStr j "message" }

def bStatusOf (j : Json) : R B.Status := do
  return { observedGeneration := ← fInt j "og"
           canaryStatus := ← fOptJ canaryStatusOf j "cs"
           blueGreenStatus := ← fOptStr j "bgs"
           conditions := ← fList condOf j "conds"
           phase := ← fStr j "phase"
           message := ← fStr j "message"
           currentStepIndex := ← fInt j "cur"
           currentStepState := ← fStr j "state" }

def aRolloutOf (j : Json) : R A.Rollout := do
  let s ← jget j "spec"
  return { md := ← metaOf (← jget j "md")
           spec := { workloadRef := ← fOptJ refOf s "wref"
                     strategy := { paused := ← fBool s "paused", canary := ← fOptJ aCanaryOf s "canary" }
                     rolloutID := ← fStr s "rolloutID"
                     disabled := ← fBool s "disabled" }
           status := ← aStatusOf (← jget j "status") }

def bRolloutOf (j : Json) : R B.Rollout := do
  let s ← jget j "spec"
  return { md := ← metaOf (← jget j "md")
           spec := { workloadRef := ← refOf (← jget s "wref")
                     strategy := { paused := ← fBool s "paused", canary := ← fOptJ bCanaryOf s "canary",
                                   blueGreen := ← fOptStr s "blueGreen" }
                     disabled := ← fBool s "disabled" }
           status := ← bStatusOf (← jget j "status") }

def aBRStatusOf (j : Json) : R A.BRStatus := do
  return { conditions := ← fList condOf j "conds"
           canaryStatus := ← brCanaryStatusOf (← jget j "cs")
           stableRevision := ← fStr j "stable"
           updateRevision := ← fStr j "update"
           observedGeneration := ← fInt j "og"
           observedRolloutID := ← fStr j "orid"
           observedWorkloadReplicas := ← fInt j "replicas"
           collisionCount := ← fOptInt j "collision"
           observedReleasePlanHash := ← fStr j "hash"
           phase := ← fStr j "phase" }

def bBRStatusOf (j : Json) : R B.BRStatus := do
  let a ← aBRStatusOf j
  return { conditions := a.conditions, canaryStatus := a.canaryStatus, stableRevision := a.stableRevision,
           updateRevision := a.updateRevision, observedGeneration := a.observedGeneration,
           observedRolloutID := a.observedRolloutID, observedWorkloadReplicas := a.observedWorkloadReplicas,
           collisionCount := a.collisionCount, observedReleasePlanHash := a.observedReleasePlanHash,
           phase := a.phase, message := ← fStr j "message" }

def aBROf (j : Json) : R A.BatchRelease := do
  let s ← jget j "spec"
  return { md := ← metaOf (← jget j "md")
           spec := { workloadRef := ← fOptJ refOf s "wref", plan := ← planOf (← jget s "plan") }
           status := ← aBRStatusOf (← jget j "status") }

def bBROf (j : Json) : R B.BatchRelease := do
  let s ← jget j "spec"
  return { md := ← metaOf (← jget j "md")
           spec := { workloadRef := ← refOf (← jget s "wref"), plan := ← planOf (← jget s "plan") }
           status := ← bBRStatusOf (← jget j "status") }

/-! ### model → JSON -/

def oStr : Option String → Json := optJ strJ
def oInt : Option Int → Json := optJ intJ

def iosJ : IOS → Json
  | .int n => mkObj [("i", intJ n)]
  | .str s => mkObj [("s", strJ s)]

def metaJ (m : Meta) : Json :=
  mkObj [("rest", strJ m.rest), ("style", oStr m.annStyle), ("tr", oStr m.annTR), ("others", strJ m.annOthers)]

def refJ (r : Ref) : Json :=
  mkObj [("apiVersion", strJ r.apiVersion), ("kind", strJ r.kind), ("name", strJ r.name)]

def trRefJ (t : TRRef) : Json :=
  mkObj [("service", strJ t.service), ("grace", intJ t.gracePeriodSeconds),
         ("ingress", optJ (fun i => mkObj [("classType", strJ i.classType), ("name", strJ i.name)]) t.ingress),
         ("gateway", optJ (fun g => mkObj [("route", oStr g.httpRouteName)]) t.gateway),
         ("custom", arrJ (t.customNetworkRefs.map refJ))]

def kvJ (kv : String × String) : Json := arrJ [strJ kv.1, strJ kv.2]

def patchJ (p : Patch) : Json :=
  mkObj [("annotations", arrJ (p.annotations.map kvJ)), ("labels", arrJ (p.labels.map kvJ))]

def condJ (c : Condition) : Json :=
  mkObj [("type", strJ c.type), ("status", strJ c.status), ("lut", strJ c.lastUpdateTime),
         ("ltt", strJ c.lastTransitionTime), ("reason", strJ c.reason), ("message", strJ c.message)]

def canaryStatusJ (s : CanaryStatus) : Json :=
  mkObj [("owg", intJ s.observedWorkloadGeneration), ("orid", strJ s.observedRolloutID),
         ("hash", strJ s.rolloutHash), ("stable", strJ s.stableRevision),
         ("canaryRev", strJ s.canaryRevision), ("pth", strJ s.podTemplateHash),
         ("replicas", intJ s.canaryReplicas), ("ready", intJ s.canaryReadyReplicas),
         ("next", intJ s.nextStepIndex), ("cur", intJ s.currentStepIndex),
         ("state", strJ s.currentStepState), ("message", strJ s.message),
         ("lut", oStr s.lastUpdateTime), ("fin", strJ s.finalisingStep)]

def planJ (p : ReleasePlan) : Json :=
  mkObj [("batches", arrJ (p.batches.map iosJ)), ("partition", oInt p.batchPartition),
         ("rolloutID", strJ p.rolloutID), ("ft", optJ iosJ p.failureThreshold),
         ("policy", strJ p.finalizingPolicy), ("patch", optJ patchJ p.patch),
         ("style", strJ p.rollingStyle), ("extra", boolJ p.enableExtraWorkloadForCanary)]

def brCanaryStatusJ (s : BRCanaryStatus) : Json :=
  mkObj [("state", strJ s.currentBatchState), ("batch", intJ s.currentBatch),
         ("readyTime", oStr s.batchReadyTime), ("updated", intJ s.updatedReplicas),
         ("updatedReady", intJ s.updatedReadyReplicas), ("noNeed", oInt s.noNeedUpdateReplicas)]

def strsJ (l : List String) : Json := arrJ (l.map strJ)

def aStepJ (s : A.Step) : Json :=
  mkObj [("weight", optJ (fun (w : Int32) => intJ w.toInt) s.tr.weight), ("rhm", oStr s.tr.requestHeaderModifier),
         ("mts", arrJ (s.tr.mts.map fun m => mkObj [("headers", strsJ m.headers)])),
         ("replicas", optJ iosJ s.replicas), ("pause", oInt s.pause.duration)]

def bStepJ (s : B.Step) : Json :=
  mkObj [("traffic", oStr s.tr.traffic), ("rhm", oStr s.tr.requestHeaderModifier),
         ("mts", arrJ (s.tr.mts.map fun m =>
            mkObj [("path", oStr m.path), ("headers", strsJ m.headers), ("query", strsJ m.queryParams)])),
         ("replicas", optJ iosJ s.replicas), ("pause", oInt s.pause.duration)]

def aCanaryJ (c : A.Canary) : Json :=
  mkObj [("steps", arrJ (c.steps.map aStepJ)), ("trs", arrJ (c.trafficRoutings.map trRefJ)),
         ("ft", optJ iosJ c.failureThreshold), ("patch", optJ patchJ c.patch),
         ("noSvc", boolJ c.disableGenerateCanaryService)]

def bCanaryJ (c : B.Canary) : Json :=
  mkObj [("steps", arrJ (c.steps.map bStepJ)), ("trs", arrJ (c.trafficRoutings.map trRefJ)),
         ("ft", optJ iosJ c.failureThreshold), ("patch", optJ patchJ c.patch),
         ("extra", boolJ c.enableExtraWorkloadForCanary), ("trRef", strJ c.trafficRoutingRef),
         ("noSvc", boolJ c.disableGenerateCanaryService)]

def aStatusJ (s : A.Status) : Json :=
  mkObj [("og", intJ s.observedGeneration), ("cs", optJ canaryStatusJ s.canaryStatus),
         ("conds", arrJ (s.conditions.map condJ)), ("phase", strJ s.phase), ("message", strJ s.message)]

def bStatusJ (s : B.Status) : Json :=
  mkObj [("og", intJ s.observedGeneration), ("cs", optJ canaryStatusJ s.canaryStatus),
         ("bgs", oStr s.blueGreenStatus),
         ("conds", arrJ (s.conditions.map condJ)), ("phase", strJ s.phase), ("message", strJ s.message),
         ("cur", intJ s.currentStepIndex), ("state", strJ s.currentStepState)]

def aRolloutJ (a : A.Rollout) : Json :=
  mkObj [("md", metaJ a.md),
         ("spec", mkObj [("wref", optJ refJ a.spec.workloadRef), ("paused", boolJ a.spec.strategy.paused),
                         ("canary", optJ aCanaryJ a.spec.strategy.canary),
                         ("rolloutID", strJ a.spec.rolloutID), ("disabled", boolJ a.spec.disabled)]),
         ("status", aStatusJ a.status)]

def bRolloutJ (b : B.Rollout) : Json :=
  mkObj [("md", metaJ b.md),
         ("spec", mkObj [("wref", refJ b.spec.workloadRef), ("paused", boolJ b.spec.strategy.paused),
                         ("canary", optJ bCanaryJ b.spec.strategy.canary),
                         ("blueGreen", oStr b.spec.strategy.blueGreen), ("disabled", boolJ b.spec.disabled)]),
         ("status", bStatusJ b.status)]

def brStatusFields (conds : List Condition) (cs : BRCanaryStatus) (stable update : String) (og : Int)
    (orid : String) (replicas : Int) (collision : Option Int) (hash phase : String) : List (String × Json) :=
  [("conds", arrJ (conds.map condJ)), ("cs", brCanaryStatusJ cs), ("stable", strJ stable),
   ("update", strJ update), ("og", intJ og), ("orid", strJ orid), ("replicas", intJ replicas),
   ("collision", oInt collision), ("hash", strJ hash), ("phase", strJ phase)]

def aBRJ (a : A.BatchRelease) : Json :=
  let s := a.status
  mkObj [("md", metaJ a.md),
         ("spec", mkObj [("wref", optJ refJ a.spec.workloadRef), ("plan", planJ a.spec.plan)]),
         ("status", mkObj (brStatusFields s.conditions s.canaryStatus s.stableRevision s.updateRevision
            s.observedGeneration s.observedRolloutID s.observedWorkloadReplicas s.collisionCount
            s.observedReleasePlanHash s.phase))]

def bBRJ (b : B.BatchRelease) : Json :=
  let s := b.status
  mkObj [("md", metaJ b.md),
         ("spec", mkObj [("wref", refJ b.spec.workloadRef), ("plan", planJ b.spec.plan)]),
         ("status", mkObj (brStatusFields s.conditions s.canaryStatus s.stableRevision s.updateRevision
            s.observedGeneration s.observedRolloutID s.observedWorkloadReplicas s.collisionCount
            s.observedReleasePlanHash s.phase ++ [("message", strJ s.message)]))]

def outcomeJ {α} (f : α → Json) : Outcome α → Json
  | .ok a => mkObj [("ok", f a)]
  | .panic => mkObj [("panic", boolJ true)]

def outcomeOf {α} (f : Json → R α) (j : Json) : R (Outcome α) :=
  match jopt j "ok", jopt j "panic" with
  | some v, _ => do return .ok (← f v)
  | _, some _ => .ok .panic
  | _, _ => .error s!"bad outcome {j.compress}"

/-- run `first` then (if it returned) `second`; JSON of both -/
def twoStep {α β} (first : Outcome α) (second : α → Outcome β) (fa : α → Json) (fb : β → Json) : Json :=
  match first with
  | .panic => mkObj [("mid", outcomeJ fa first), ("back", .null)]
  | .ok m => mkObj [("mid", outcomeJ fa first), ("back", outcomeJ fb (second m))]

/-- the implementation's observed (mid, back) -/
def implTwo {α β} (impl : Json) (pa : Json → R α) (pb : Json → R β) : R (Outcome α × Option (Outcome β)) := do
  let mid ← outcomeOf pa (← jget impl "mid")
  match jopt impl "back" with
  | none => return (mid, none)
  | some b => return (mid, some (← outcomeOf pb b))

def bucket (n : Nat) : String := if n ≥ 3 then "3+" else toString n

def styleTag (v : Option String) : String :=
  match v with
  | none => "style:absent"
  | some s =>
    if s == "partition" then "style:partition" else if s == "canary" then "style:canary"
    else if eqFold s stylePartition then "style:Partition~" else if eqFold s styleCanary then "style:Canary~"
    else if eqFold s styleBlueGreen then "style:bluegreen~" else if s == "" then "style:empty" else "style:other"

def verdicts {α β} (mid : Outcome α) (back : Option (Outcome β)) (clause : String) (h : Outcome β → Bool) :
    List (String × Bool) × List String :=
  match mid, back with
  | .ok _, some (.ok b) => ([("C20.total", true), (clause, h (.ok b))], [])
  | _, _ => ([("C20.total", false), (clause, true)], ["panic"])

def handle : Handler := fun op inp impl => do
  match op with
  | "rolloutAB" =>
    let a ← aRolloutOf inp
    let (mid, back) ← implTwo impl bRolloutOf aRolloutOf
    let (hs, t) := verdicts mid back "C20.meaning" (meaningHoldsRollout a)
    let tags := ["rolloutAB", if a.spec.workloadRef.isNone then "wref:nil" else "wref:set", styleTag a.md.annStyle,
      if a.md.annTR.isSome then "trAnn:set" else "trAnn:absent",
      if a.status.canaryStatus.isSome then "canaryStatus:set" else "canaryStatus:nil"] ++
      (match a.spec.strategy.canary with
       | none => ["canary:nil"]
       | some c => ["canary:set", "steps:" ++ bucket c.steps.length, "trs:" ++ bucket c.trafficRoutings.length] ++
          (if c.steps.any (fun s => s.replicas.isNone && s.tr.weight.isSome) then ["step:weight-only"] else []) ++
          (if c.steps.any (fun s => !s.tr.mts.isEmpty) then ["step:matches"] else []) ++
          (if c.patch.isSome then ["patch:set"] else []) ++
          (if c.disableGenerateCanaryService then ["noSvc:true"] else []) ++
          (if a.spec.rolloutID != "" then ["rolloutID:set"] else []))
    return { model := twoStep (rolloutTo a) rolloutFrom bRolloutJ aRolloutJ, holds := hs, tags := tags ++ t }
  | "rolloutBA" =>
    let b ← bRolloutOf inp
    let (mid, back) ← implTwo impl aRolloutOf bRolloutOf
    let (hs, t) := verdicts mid back "C20.rmw" (rmwHoldsRollout b)
    let tags := ["rolloutBA", if expressibleRollout b then "expressible" else "inexpressible"] ++
      (if b.spec.strategy.blueGreen.isSome then ["blueGreen"] else []) ++
      (if b.spec.strategy.isEmptyRelease then ["empty-strategy"] else []) ++
      (match b.spec.strategy.canary with
       | none => []
       | some c => ["steps:" ++ bucket c.steps.length] ++
          (if c.steps.any (fun s => match s.tr.traffic with | some t => !trafficExpressible t | none => false)
            then ["traffic:noncanonical"] else []) ++
          (if c.disableGenerateCanaryService then ["noSvc:true"] else []) ++
          (if c.trafficRoutingRef != "" then ["trRef:set"] else []))
    return { model := twoStep (rolloutFrom b) rolloutTo aRolloutJ bRolloutJ, holds := hs, tags := tags ++ t }
  | "brAB" =>
    let a ← aBROf inp
    let (mid, back) ← implTwo impl bBROf aBROf
    let (hs, t) := verdicts mid back "C20.meaning" (meaningHoldsBR a)
    let tags := ["brAB", if a.spec.workloadRef.isNone then "wref:nil" else "wref:set", styleTag a.md.annStyle,
      "field" ++ styleTag (some a.spec.plan.rollingStyle), "batches:" ++ bucket a.spec.plan.batches.length] ++
      (if a.spec.plan.patch.isSome then ["patch:set"] else [])
    return { model := twoStep (brTo a) brFrom bBRJ aBRJ, holds := hs, tags := tags ++ t }
  | "brBA" =>
    let b ← bBROf inp
    let (mid, back) ← implTwo impl aBROf bBROf
    let (hs, t) := verdicts mid back "C20.rmw" (rmwHoldsBR b)
    let tags := ["brBA", if expressibleBR b then "expressible" else "inexpressible",
      "field" ++ styleTag (some b.spec.plan.rollingStyle), "batches:" ++ bucket b.spec.plan.batches.length]
    return { model := twoStep (brFrom b) brTo aBRJ bBRJ, holds := hs, tags := tags ++ t }
  | "fields" =>
    let ty ← fStr inp "type"
    let l ← match ty with
      | "v1alpha1.Rollout" => pure fieldsARollout
      | "v1beta1.Rollout" => pure fieldsBRollout
      | "v1alpha1.BatchRelease" => pure fieldsABatchRelease
      | "v1beta1.BatchRelease" => pure fieldsBBatchRelease
      | _ => .error s!"fields: unknown type {ty}"
    return { model := strsJ l, tags := ["fields"] }
  | _ => .error s!"conversion: unknown op {op}"

end RV.Drv.Conversion
