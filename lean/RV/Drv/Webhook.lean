import RV.Json
namespace RV.Drv.Webhook
open Lean RV
def handle : Handler := fun op _ _ => .error s!"Webhook: op {op} not implemented"
end RV.Drv.Webhook
