import RV.Json
import RV.Drv.Fault
import RV.Drv.Arith
import RV.Model.Webhook
import RV.Oracle.C08
namespace RV.Drv.Webhook
open Lean RV RV.Arith RV.Webhook

/-! JSON ⇄ model for suite "webhook" (see harness/suite_webhook.go, functions abs*). -/

def iosOpt (j : Json) (k : String) : R (Option IntOrPct) := RV.Drv.Arith.iosOptOfJson j k

def ruOfJson (j : Json) : R RU := do
  return { maxUnavailable := ← iosOpt j "mu", maxSurge := ← iosOpt j "ms" }

def ruOpt (j : Json) (k : String) : R (Option RU) :=
  match jopt j k with
  | none => .ok none
  | some v => do return some (← ruOfJson v)

def stratAnnoOfJson (j : Json) (k : String) : R StratAnno :=
  match jopt j k with
  | none => .ok .absent
  | some (.str "invalid") => .ok .invalid
  | some v => do
    return .valid { rollingStyle := ← fStr v "style", ru := ← ruOpt v "ru", paused := ← fBool v "paused",
                    partition := ← RV.Drv.Arith.iosOfJson (← jget v "partition") }

def inProgOfJson (j : Json) (k : String) : R InProg :=
  match jopt j k with
  | none => .ok .absent
  | some v =>
    match jopt v "rollout", jopt v "raw" with
    | some n, _ => do return .rollout (← jstr n)
    | _, some r => do return .other (← jstr r)
    | _, _ => .error s!"bad inProgress {v.compress}"

def ruBlockOfJson (j : Json) (k : String) : R RUBlock :=
  match jopt j k with
  | none => .ok .absent
  | some (.str _) => .ok .malformed
  | some v => do return .present (← fOptInt v "partition")

def usOfJson (j : Json) (k : String) : R UpdStrat :=
  match jopt j k with
  | none => .ok .absent
  | some (.str _) => .ok .malformed
  | some v => do return .present (← fStr v "type") (← ruBlockOfJson v "ru")

def objOfJson (j : Json) : R Obj := do
  let t ← jget j "tmpl"
  return {
    group := ← fStr j "group", kind := ← fStr j "kind", name := ← fStr j "name",
    workloadType := ← fStr j "wtype",
    replicas := ← fOptInt j "replicas",
    rolloutId := ← fStr j "rolloutId",
    tmplPresent := ← fBool j "tmplPresent",
    tmpl := { body := ← fNat t "body", hash := ← fStr t "hash" },
    inProgress := ← inProgOfJson j "inProgress",
    paused := ← fBool j "paused",
    stratType := ← fStr j "stratType",
    stratRU := ← ruOpt j "stratRU",
    stratAnno := ← stratAnnoOfJson j "stratAnno",
    hasOrigStrategy := ← fBool j "origStrat",
    stableRev := ← fStr j "stableRev",
    csPartition := ← iosOpt j "csPartition",
    statusReplicas := ← fInt j "statusReplicas",
    statusUpdated := ← fInt j "statusUpdated",
    us := ← usOfJson j "us",
    rest := ← fNat j "rest" }

def rolloutOfJson (j : Json) : R Rollout := do
  return { name := ← fStr j "name", deleting := ← fBool j "deleting", phaseDisabled := ← fBool j "disabled",
           refApiVersion := ← fStr j "apiVersion", refKind := ← fStr j "kind", refName := ← fStr j "refName",
           emptyRelease := ← fBool j "empty", hasTraffic := ← fBool j "traffic" }

def rsOfJson (j : Json) : R RS := do
  let ctrl ← match (← fStr j "ctrl") with
    | "none" => pure Ctrl.none
    | "same" => pure Ctrl.same
    | "other" => pure Ctrl.other
    | s => throw s!"bad ctrl {s}"
  return { deleting := ← fBool j "deleting", replicas := ← fOptInt j "replicas", ctrl := ctrl,
           selected := ← fBool j "selected", tmplBody := ← fNat j "body", hashLabel := ← fStr j "hash",
           revision := ← fOptInt j "rev", created := ← fInt j "created" }

def whOfJson (j : Json) : R WH := do
  let sel ← match (← fStr j "sel") with
    | "nil" => pure Sel.nil
    | "everything" => pure Sel.everything
    | "invalid" => pure Sel.invalid
    | "existsWT" => pure Sel.existsWorkloadType
    | s => throw s!"bad sel {s}"
  return { rules := ← jlistM jbool (← jget j "rules"), sel := sel }

def reqOfJson (j : Json) : R Req := do
  let cfg ← match jopt j "cfg" with
    | none => pure none
    | some v => do pure (some (← jlistM whOfJson v))
  return { unified := ← fBool j "unified", op := ← fStr j "op", subResource := ← fStr j "sub",
           dryRunSet := ← fBool j "dryRun", cfg := cfg,
           old := ← objOfJson (← jget j "old"), new := ← objOfJson (← jget j "new"),
           oldMetaPresent := ← fBool j "oldMeta",
           rollouts := ← jlistM rolloutOfJson (← jget j "rollouts"),
           rss := ← jlistM rsOfJson (← jget j "rss") }

/-! model → JSON -/

def iosJ : IntOrPct → Json := RV.Drv.Arith.iosToJson

def ruJ (r : RU) : Json := mkObj [("mu", optJ iosJ r.maxUnavailable), ("ms", optJ iosJ r.maxSurge)]

def stratAnnoJ : StratAnno → Json
  | .absent => .null
  | .invalid => strJ "invalid"
  | .valid s => mkObj [("style", strJ s.rollingStyle), ("ru", optJ ruJ s.ru), ("paused", boolJ s.paused),
                       ("partition", iosJ s.partition)]

def inProgJ : InProg → Json
  | .absent => .null
  | .rollout n => mkObj [("rollout", strJ n)]
  | .other r => mkObj [("raw", strJ r)]

def usJ : UpdStrat → Json
  | .absent => .null
  | .malformed => strJ "malformed"
  | .present t ru =>
    let r := match ru with
      | .absent => Json.null
      | .malformed => strJ "malformed"
      | .present p => mkObj [("partition", optJ intJ p)]
    mkObj [("type", strJ t), ("ru", r)]

def objJ (o : Obj) : Json :=
  mkObj [("group", strJ o.group), ("kind", strJ o.kind), ("name", strJ o.name), ("wtype", strJ o.workloadType),
         ("replicas", optJ intJ o.replicas), ("rolloutId", strJ o.rolloutId), ("tmplPresent", boolJ o.tmplPresent),
         ("tmpl", mkObj [("body", natJ o.tmpl.body), ("hash", strJ o.tmpl.hash)]),
         ("inProgress", inProgJ o.inProgress), ("paused", boolJ o.paused), ("stratType", strJ o.stratType),
         ("stratRU", optJ ruJ o.stratRU), ("stratAnno", stratAnnoJ o.stratAnno), ("origStrat", boolJ o.hasOrigStrategy),
         ("stableRev", strJ o.stableRev), ("csPartition", optJ iosJ o.csPartition),
         ("statusReplicas", intJ o.statusReplicas), ("statusUpdated", intJ o.statusUpdated),
         ("us", usJ o.us), ("rest", natJ o.rest)]

def outcomeJ : Outcome → Json
  | .admitted o => mkObj [("res", strJ "admitted"), ("obj", objJ o)]
  | .rejected => mkObj [("res", strJ "rejected")]
  | .panic => mkObj [("res", strJ "panic")]

def outcomeOfJson (j : Json) : R Outcome := do
  match (← fStr j "res") with
  | "admitted" => return .admitted (← objOfJson (← jget j "obj"))
  | "rejected" => return .rejected
  | "panic" => return .panic
  | s => throw s!"implementation outcome outside the model: {s}"

open RV.Oracle.C08 in
def tagsOf (rq : Req) (out : Outcome) : List String :=
  let k := match wkind rq with
    | .deployment => "deployment" | .cloneSet => "cloneSet" | .daemonSet => "daemonSet"
    | .stsLike => "stsLike" | .notHandled => "notHandled"
  let res := match out with
    | .admitted o => if o == rq.new then "res:unchanged" else "res:mutated"
    | .rejected => "res:rejected"
    | .panic => "res:panic"
  let hold := match mustHoldRollout rq with
    | some _ => ["mustHold", s!"mustHold:{k}"]
    | none => []
  ["kind:" ++ k, res, s!"rollouts:{rq.rollouts.length}", s!"rss:{min rq.rss.length 5}"]
    ++ hold
    ++ (if selected rq then ["selected"] else ["trivial", "notSelected"])
    ++ (if releaseChange rq.old rq.new then ["releaseChange"] else [])
    ++ (if (matchedRollout rq.new rq.rollouts).isSome then ["rolloutMatched"] else [])
    ++ (if depInProgress rq then ["depInProgress"] else [])
    ++ (if depInProgress rq && repauseStyle rq.new then ["repauseStyle"] else [])
    ++ (if wellFormed rq then [] else ["malformed"])
    ++ (if dsNoRollingUpdate rq then ["dsNoRollingUpdate"] else [])
    ++ (if rq.cfg.isNone then ["cfgMissing"] else [])
    ++ (if rq.unified then ["handler:unified"] else ["handler:workload"])

open RV.Oracle.C08 in
def handle : Handler := fun op inp impl => do
  if op == "fault" then return ← RV.Drv.Fault.handleFault ["C06", "C08", "C09"] impl
  let rq ← reqOfJson inp
  match op with
  | "handle" =>
    let m := outcome rq (RV.Webhook.handle rq)
    let out ← outcomeOfJson impl
    return { model := outcomeJ m,
             holds := [("C08.hold", holdOk rq out), ("C08.frame", frameOk rq out),
                       ("C08.repause", repauseOk rq out), ("C08.total", totalOk rq out)],
             tags := tagsOf rq out }
  | "fetch" =>
    let m := match fetchMatchedRollout rq.new rq.rollouts with
      | none => Json.null
      | some r => strJ r.name
    return { model := mkObj [("rollout", m)], tags := ["fetch"] }
  | "effChange" =>
    return { model := boolJ (isEffectiveRevisionChange rq.old rq.new), tags := ["effChange"] }
  | _ => .error s!"webhook: unknown op {op}"

end RV.Drv.Webhook
