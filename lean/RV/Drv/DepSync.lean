import RV.Json
namespace RV.Drv.DepSync
open Lean RV
def handle : Handler := fun op _ _ => .error s!"DepSync: op {op} not implemented"
end RV.Drv.DepSync
