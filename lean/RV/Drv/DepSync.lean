import RV.Json
import RV.Drv.Arith
import RV.Model.DepSync
import RV.Oracle.C17
namespace RV.Drv.DepSync
open Lean RV RV.Arith RV.DepSync RV.Oracle.C17

def nameBytes (s : String) : List Nat := s.toUTF8.toList.map (·.toNat)

def rsOfJson (idx : Int) (j : Json) : R RS := do
  return { idx := idx, name := nameBytes (← fStr j "name"), created := ← fInt j "created",
           revision := ← fInt j "revision", spec := ← fInt j "spec", pods := ← fInt j "pods",
           avail := ← fInt j "avail", desired := ← fOptInt j "desired", maxAnno := ← fOptInt j "max" }

def indexed {α} (l : List α) : List (Int × α) :=
  (l.foldl (fun (acc : List (Int × α) × Int) a => ((acc.2, a) :: acc.1, acc.2 + 1)) ([], 0)).1.reverse

def stateOfJson (j : Json) : R State := do
  let olds ← (indexed (← fArr j "olds")).mapM fun (i, o) => rsOfJson i o
  let nw ← match jopt j "new" with
    | none => pure none
    | some v => do pure (some (← rsOfJson (-1) v))
  return { replicas := ← fInt j "replicas", partition := ← Arith.iosOfJson (← jget j "partition"),
           rolling := ← fBool j "rolling", maxSurge := ← Arith.iosOptOfJson j "surge",
           maxUnavailable := ← Arith.iosOptOfJson j "unavailable", paused := ← fBool j "paused",
           deleting := ← fBool j "deleting", statusReplicas := ← fInt j "statusReplicas",
           now := ← fInt j "now", new := nw, olds := olds }

def postRSJ (r : RS) : Json :=
  mkObj [("spec", intJ r.spec), ("desired", optJ intJ r.desired), ("max", optJ intJ r.maxAnno)]

def findIdx (l : List RS) (k : Int) : R RS :=
  match l.find? (·.idx == k) with
  | some r => .ok r
  | none => .error s!"model lost RS {k}"

/-- the model's sync in the harness's output format -/
def resultJ (s : State) (r : Result) : R Json := do
  let olds ← (indexed s.olds).mapM fun (i, _) => findIdx r.olds i
  return mkObj [("err", boolJ r.err),
    -- the controller works on copies: the objects of the shared informer cache are never written through
    ("cacheIntact", boolJ true),
    ("writes", arrJ (r.writes.map fun w => arrJ [intJ w.idx, intJ w.to])),
    ("post", mkObj [("new", optJ postRSJ r.new), ("olds", arrJ (olds.map postRSJ)),
                    ("statusReplicas", intJ r.statusReplicas)])]

/-- state after the sync as the *implementation* reports it: input state with the reported sizes -/
def implPost (s : State) (impl : Json) : R State := do
  let p ← jget impl "post"
  let olds ← (s.olds.zip (← fArr p "olds")).mapM fun (r, j) => do
    return { r with spec := ← fInt j "spec", desired := ← fOptInt j "desired", maxAnno := ← fOptInt j "max" }
  let nw ← match jopt p "new", s.new with
    | none, _ => pure none
    | some j, some r => do
      pure (some { r with spec := ← fInt j "spec", desired := ← fOptInt j "desired", maxAnno := ← fOptInt j "max" })
    | some j, none => do
      pure (some { idx := -1, name := createdName, created := s.now, revision := 0, spec := ← fInt j "spec",
                   pods := 0, avail := 0, desired := ← fOptInt j "desired", maxAnno := ← fOptInt j "max" })
  return { s with new := nw, olds := olds }

def bucket (n : Int) : String :=
  if n ≤ 0 then "0" else if n ≤ 1 then "1" else if n ≤ 3 then "2-3" else if n ≤ 7 then "4-7"
  else if n ≤ 15 then "8-15" else "16+"

def ioKind : IntOrPct → String
  | .int _ => "int" | .pct _ => "pct" | .bad => "bad"

def rsJ (r : RS) : Json :=
  mkObj [("name", strJ (String.ofList (r.name.map fun n => Char.ofNat n))), ("created", intJ r.created),
         ("revision", intJ r.revision), ("spec", intJ r.spec), ("pods", intJ r.pods), ("avail", intJ r.avail),
         ("desired", optJ intJ r.desired), ("max", optJ intJ r.maxAnno)]

def stateJ (s : State) : Json :=
  mkObj [("replicas", intJ s.replicas), ("partition", Arith.iosToJson s.partition), ("rolling", boolJ s.rolling),
         ("surge", optJ Arith.iosToJson s.maxSurge), ("unavailable", optJ Arith.iosToJson s.maxUnavailable),
         ("paused", boolJ s.paused), ("deleting", boolJ s.deleting), ("statusReplicas", intJ s.statusReplicas),
         ("now", intJ s.now), ("new", optJ rsJ s.new), ("olds", arrJ (s.olds.map rsJ))]

/-- healthy schedule: sync, environment catches up; until nothing changes (at most `fuel` rounds) -/
def converge (fuel : Nat) (s : State) (rounds : Nat) : Option (Nat × State) :=
  match fuel with
  | 0 => some (rounds, s)
  | fuel + 1 =>
    let r := sync s
    if r.err || r.undef then none else
    let t := round s
    if t == s then some (rounds, s) else converge fuel t (rounds + 1)

def handle : Handler := fun op inp impl => do
  match op with
  | "sync" =>
    let s ← stateOfJson inp
    let r := sync s
    let pathTag := match r.path with
      | .statusOnly => "path:statusOnly" | .scale => "path:scale" | .rolling => "path:rolling"
    let tags := [pathTag, s!"olds:{s.olds.length}", s!"activeOlds:{(active s.olds).length}",
                 s!"new:{if s.new.isSome then "present" else "absent"}",
                 s!"replicas:{bucket s.replicas}", s!"partition:{ioKind s.partition}",
                 s!"writes:{r.writes.length}"]
      ++ (if inv s then ["inv:ok"] else ["inv:no"])
      ++ (if s.new.isNone && r.new.isSome then ["act:create"] else [])
      ++ (if s.new.isSome && optSpec s.new < optSpec r.new then ["act:newUp"] else [])
      ++ (if optSpec r.new < optSpec s.new then ["act:newDown"] else [])
      ++ (if sumSpec s.olds < sumSpec r.olds then ["act:oldUp"] else [])
      ++ (if sumSpec r.olds < sumSpec s.olds then ["act:oldDown"] else [])
      ++ (if r.writes.isEmpty then ["act:none"] else [])
      ++ (if unhealthyOld s > 0 && inScope s then ["state:unhealthyOld"] else [])
      ++ (if (match s.new with | some n => s.olds.any (fun o => decide (n.created < o.created)) | none => false)
          then ["state:newOlderThanSomeOld"] else [])
      ++ (if lowerBoundRegion s && inScope s then ["guard:lowerBound"] else [])
      ++ (if stale s && inScope s then ["guard:stale"] else [])
      ++ (if r.err then ["model:err"] else [])
      ++ (if s.olds.isEmpty && s.new.isNone then ["trivial"] else [])
    if (jopt impl "skipped").isSome then
      return { model := .null, tags := ["skipped", "trivial"] }
    if (jopt impl "panic").isSome then
      return { model := ← resultJ s r, holds := [("C17.nopanic", false)], tags := tags ++ ["impl:panic"] }
    if r.undef then
      -- float division by zero in getReplicaSetFraction: the code's result is implementation-defined
      return { model := .null, tags := tags ++ ["undef:fraction-div0"] }
    let t ← implPost s impl
    -- the clauses are claimed for states satisfying the invariant `I`
    let ok := inv s
    let holds := if ok then
      [("C17.i", clauseI s t), ("C17.i0", clauseI0 s t), ("C17.ii", clauseII s t), ("C17.iiup", clauseIIup s t),
       ("C17.iii", clauseIII s t), ("C17.ivbudget", clauseIVbudget s t), ("C17.ivspent", clauseIVspent s t), ("C17.iv", clauseIV s t),
       ("C17.inv", inv t)]
      else []
    let intact := match jopt impl "cacheIntact" with | some (.bool b) => b | _ => true
    return { model := ← resultJ s r, holds := holds ++ [("C17.cache_not_mutated", intact)], tags := tags }
  | "env" =>
    let s ← stateOfJson (← jget inp "s")
    let name := nameBytes (← fStr inp "rs")
    let pods ← fInt inp "pods"
    let avail ← fInt inp "avail"
    let upd (r : RS) : RS := if r.name == name then { r with pods := pods, avail := avail } else r
    let t : State := { s with new := s.new.map upd, olds := s.olds.map upd }
    let all := s.olds ++ s.new.toList
    let admissible := all.all fun r => r.name != name || envOk r (upd r)
    return { model := stateJ t, holds := [("C17.env", admissible), ("C17.envinv", !inv s || inv t)],
             tags := ["env", if admissible then "env:ok" else "env:bad"] }
  | "converge" =>
    let s ← stateOfJson (← jget inp "s")
    let fuel ← fNat inp "max"
    if (jopt impl "failed").isSome || (jopt impl "panic").isSome then
      -- a sync returned an error on the way (only possible outside the claimed region)
      let claimed := live s
      return { model := .null, holds := [("C17.v", !claimed)], tags := ["converge", "converge:failed"] }
    let nf ← fInt impl "new"
    let of' ← fInt impl "old"
    let claimed := live s
    let tags := ["converge", if claimed then "converge:claimed" else "converge:unclaimed",
                 s!"replicas:{bucket s.replicas}"]
    match converge fuel s 0 with
    | none => return { model := .null, holds := [("C17.v", clauseV s nf of')], tags := tags ++ ["undef"] }
    | some (rounds, t) =>
      return { model := mkObj [("rounds", natJ rounds), ("new", intJ (match t.new with | none => -1 | some r => r.spec)),
                               ("old", intJ (oldTotal t))],
               holds := [("C17.v", clauseV s nf of')], tags := tags ++ [s!"rounds:{bucket rounds}"] }
  | _ => .error s!"depsync: unknown op {op}"

end RV.Drv.DepSync
