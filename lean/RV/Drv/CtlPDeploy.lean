import RV.Json
namespace RV.Drv.CtlPDeploy
open Lean RV
def handle : Handler := fun op _ _ => .error s!"CtlPDeploy: op {op} not implemented"
end RV.Drv.CtlPDeploy
