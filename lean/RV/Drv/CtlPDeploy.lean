import RV.Json
import RV.Drv.Arith
import RV.Model.CtlPDeploy
import RV.Oracle.CtlPDeploy
namespace RV.Drv.CtlPDeploy
open Lean RV RV.Arith RV.Webhook RV.CtlPDeploy RV.Drv.Arith RV.Oracle.CtlPDeploy

def ruOfJson (j : Json) : R RU := do
  return { maxUnavailable := ← iosOptOfJson j "mu", maxSurge := ← iosOptOfJson j "ms" }

def ruOptOfJson (j : Json) (k : String) : R (Option RU) :=
  match jopt j k with
  | none => pure none
  | some v => do return some (← ruOfJson v)

def ruToJson (r : RU) : Json :=
  mkObj [("mu", optJ iosToJson r.maxUnavailable), ("ms", optJ iosToJson r.maxSurge)]

def annoOfJson (j : Json) : R StratAnno := do
  match ← fStr j "kind" with
  | "absent" => return .absent
  | "invalid" => return .invalid
  | "valid" =>
    let s ← jget j "s"
    return .valid { rollingStyle := ← fStr s "rollingStyle", ru := ← ruOptOfJson s "ru",
                    paused := ← fBool s "paused", partition := ← iosOfJson (← jget s "partition") }
  | k => .error s!"ctlpdeploy: anno kind {k}"

def annoToJson : StratAnno → Json
  | .absent => mkObj [("kind", strJ "absent"), ("s", .null)]
  | .invalid => mkObj [("kind", strJ "invalid"), ("s", .null)]
  | .valid s => mkObj [("kind", strJ "valid"),
      ("s", mkObj [("rollingStyle", strJ s.rollingStyle), ("ru", optJ ruToJson s.ru),
                   ("paused", boolJ s.paused), ("partition", iosToJson s.partition)])]

def ownerOf : String → R Owner
  | "none" => pure .none | "this" => pure .this | "other" => pure .other
  | s => .error s!"ctlpdeploy: control {s}"
def ownerStr : Owner → String
  | .none => "none" | .this => "this" | .other => "other"

def depOfJson (j : Json) : R Dep := do
  return { replicas := ← fOptInt j "replicas", paused := ← fBool j "paused", stratType := ← fStr j "stratType",
           stratRU := ← ruOptOfJson j "stratRU", stratAnno := ← annoOfJson (← jget j "anno"),
           control := ← ownerOf (← fStr j "control"), ctrlLabel := ← fBool j "ctrlLabel",
           stableRev := ← fStr j "stableRev", extraStatus := ← fBool j "extraStatus",
           inProgress := ← fBool j "inProgress", tmpl := ← fNat j "tmpl", rest := ← fNat j "rest" }

def depToJson (d : Dep) : Json :=
  mkObj [("replicas", optJ intJ d.replicas), ("paused", boolJ d.paused), ("stratType", strJ d.stratType),
    ("stratRU", optJ ruToJson d.stratRU), ("anno", annoToJson d.stratAnno), ("control", strJ (ownerStr d.control)),
    ("ctrlLabel", boolJ d.ctrlLabel), ("stableRev", strJ d.stableRev), ("extraStatus", boolJ d.extraStatus),
    ("inProgress", boolJ d.inProgress), ("tmpl", natJ d.tmpl), ("rest", natJ d.rest)]

def depOptOfJson (j : Json) (k : String) : R (Option Dep) :=
  match jopt j k with
  | none => pure none
  | some v => do return some (← depOfJson v)

def editOfJson (j : Json) (k : String) : R Edit :=
  match jopt j k with
  | none => pure Edit.none
  | some e => do
    let strat ← (do
      if ← fBool e "setStrat" then
        return some (← fStr e "stratType", ← ruOptOfJson e "ru")
      else return none)
    let paused := match jopt e "paused" with
      | some (.bool b) => some b
      | _ => none
    return { tmpl := ← fOptNat e "tmpl", strat := strat, paused := paused, replicas := ← fOptInt e "replicas" }

def callOf : String → R Call
  | "initialize" => pure .initialize | "upgradeBatch" => pure .upgradeBatch
  | "finalize" => pure .finalize | "submit" => pure .submit
  | s => .error s!"ctlpdeploy: call {s}"
def callStr : Call → String
  | .initialize => "initialize" | .upgradeBatch => "upgradeBatch" | .finalize => "finalize" | .submit => "submit"

def faultOf : String → R Fault
  | "none" => pure .none | "get" => pure .get | "write" => pure .write
  | s => .error s!"ctlpdeploy: fault {s}"

def stepOfJson (j : Json) : R Step := do
  return { call := ← callOf (← fStr j "call"), fault := ← faultOf (← fStr j "fault"), batch := ← fInt j "batch",
           bpNil := ← fBool j "bpNil", edit := ← editOfJson j "edit" }

def obsToJson (o : InitObs) : Json :=
  mkObj [("observedReplicas", intJ o.observedReplicas), ("stableRevision", strJ o.stableRevision),
         ("noNeedUpdate", optJ intJ o.noNeedUpdate)]

def outToJson : Out StepOut → Json
  | .panic => mkObj [("panic", strJ "?")]
  | .val o => mkObj [("res", strJ (if o.res = .ok then "ok" else "err")), ("dep", optJ depToJson o.dep),
                     ("writes", natJ o.writes), ("obs", optJ obsToJson o.obs)]

/-- the implementation's step outcome, parsed back -/
def outOfJson (j : Json) : R (Out StepOut) :=
  match jopt j "panic" with
  | some _ => pure .panic
  | none => do
    let res ← (do match ← fStr j "res" with
      | "ok" => pure Res.ok
      | _ => pure Res.err)
    let obs ← (match jopt j "obs" with
      | none => pure none
      | some o => do
        pure (some { observedReplicas := ← fInt o "observedReplicas", stableRevision := ← fStr o "stableRevision",
                     noNeedUpdate := ← fOptInt o "noNeedUpdate" : InitObs }))
    return .val { res := res, dep := ← depOptOfJson j "dep", writes := ← fNat j "writes", obs := obs }

def andAll (l : List (String × Bool)) : List (String × Bool) :=
  -- one verdict per key: the conjunction over the walk
  l.foldl (fun acc (k, v) =>
    match acc.find? (·.1 == k) with
    | some _ => acc.map fun (k', v') => if k' == k then (k', v' && v) else (k', v')
    | none => acc ++ [(k, v)]) []

/-- per-step oracles along the implementation's snapshots; returns the verdicts and whether the
    implementation ever panicked on an input the model does not panic on -/
def walkOracles (rel : Rel) : Option Dep → List Step → List (Out StepOut) → List (String × Bool)
  | d, s :: ss, .val o :: os => stepOracles rel s d o ++ walkOracles rel o.dep ss os
  | _, _, _ => []

def pairOracles : List Step → List (Out StepOut) → List (String × Bool)
  | a :: b :: ss, .val oa :: .val ob :: os =>
    ("C06.pdeploy_idempotent", idempotent a b oa ob) :: pairOracles (b :: ss) (.val ob :: os)
  | _, _ => []

/-- the Deployment before the last step and the last outcome of the implementation's walk -/
def lastOf : Option Dep → List Step → List (Out StepOut) → Option (List Step × Step × Option Dep × StepOut)
  | d, [s], [.val o] => some ([], s, d, o)
  | _, s :: ss, .val o :: os =>
    match lastOf o.dep ss os with
    | some (pre, l, dl, ol) => some (s :: pre, l, dl, ol)
    | none => none
  | _, _, _ => none

/-- the limit after every snapshot stays within what the walk's upgraded batches allow -/
def walkBound (rel : Rel) (r : Int) (lim0 : Int) : List Step → List Step → List (Out StepOut) → Bool
  | _, [], _ => true
  | done, s :: ss, .val o :: os =>
    let done' := done ++ [s]
    (match o.dep with
     | some d' => decide (limitOf d' ≤ max lim0 (allowedMax rel r done'))
     | none => true) && walkBound rel r lim0 done' ss os
  | _, _, _ => true

/-- which branch each step of the implementation's walk took (distribution statistics) -/
def stepTags : Option Dep → List Step → List (Out StepOut) → List String
  | d, s :: ss, .val o :: os =>
    let t := match s.call, d with
      | .initialize, some _ =>
        if o.res = .err then "init:err" else if o.writes = 1 then "init:claimed" else "init:already"
      | .upgradeBatch, some d0 =>
        if o.res = .err then "upgrade:err" else if o.writes = 1 then "upgrade:wrote"
        else if d0.replicas = some 0 then "upgrade:size0"
        else if !isUnderRolloutControl d0 then "upgrade:notcontrolled" else "upgrade:satisfied"
      | .finalize, some _ =>
        if o.res = .err then "finalize:err" else if o.writes = 0 then "finalize:noop"
        else if s.bpNil then "finalize:full" else "finalize:controlinfo-only"
      | .submit, some d0 =>
        match o.dep with
        | some d' =>
          if d0.inProgress then
            (if isPartitionStyle (getStrategy (applyEdit d0 s.edit)) then "submit:partition" else "submit:inprogress-other")
          else if d'.inProgress then "submit:enters-rollout" else "submit:plain"
        | none => "submit:?"
      | _, none => "nodep-step"
    t :: stepTags o.dep ss os
  | _, _, _ => []

/-- some complete `Finalize` of the implementation's walk met an unclaimed, paused or parked Deployment -/
def anyUnclaimedStep : Option Dep → List Step → List (Out StepOut) → Bool
  | d, s :: ss, .val o :: os => guardUnclaimedStep s d || anyUnclaimedStep o.dep ss os
  | _, _, _ => false

def handle : Handler := fun op inp impl => do
  match op with
  | "walk" =>
    let d0 ← depOptOfJson inp "dep"
    let rel : Rel := { batches := ← (← fArrD inp "batches").mapM iosOfJson, rollbackAnno := ← fBool inp "rollbackAnno",
                       updated := ← fInt inp "updated" }
    let world : World := { matched := ← fBool inp "matched", rsTmpl := ← fOptNat inp "rsTmpl" }
    let steps ← (← fArrD inp "steps").mapM stepOfJson
    let c : Cfg := { rel := rel, world := world }
    let outs ← (← jarr impl).mapM outOfJson
    let model := run c d0 steps
    -- tags
    let calls := steps.map fun s => callStr s.call
    let faults := steps.filter (fun s => s.fault != .none && s.call != .submit)
    let panicked := outs.any fun o => match o with | .panic => true | _ => false
    let wrote := outs.any fun o => match o with | .val o => o.writes > 0 | _ => false
    let tags := [s!"len:{if steps.length ≥ 8 then "8+" else toString steps.length}"] ++
      (calls.eraseDups.map fun c => s!"has:{c}") ++
      (if faults.isEmpty then [] else ["faulted"]) ++
      (if steps.any (fun s => s.fault == .get && s.call != .submit) then ["fault:get"] else []) ++
      (if steps.any (fun s => s.fault == .write && s.call != .submit) then ["fault:write"] else []) ++
      (if panicked then ["panic"] else []) ++
      (if d0.isNone then ["nodep"] else []) ++
      (if wrote then [] else ["nowrite"]) ++
      (if steps.isEmpty then ["trivial"] else []) ++
      (stepTags d0 steps outs).eraseDups ++
      (if anyUnclaimedStep d0 steps outs then ["guard:unclaimedFinalizeStep"] else []) ++
      (if (steps.zip steps.tail).any (fun (a, b) => sameCall a b) then ["repeat"] else [])
    -- oracles on the implementation's snapshots
    let stepH := walkOracles rel d0 steps outs
    let pairH := pairOracles steps outs
    -- C05 round trip
    let (rtH, rtTags) := match d0, lastOf d0 steps outs with
      | some d, some (pre, l, dl, ol) =>
        if stepsOK pre ∧ endsWithFinalize l ol ∧ userClean d then
          let g1 := guardUserRecreate d
          let g2 := guardUnclaimed dl
          ([("C05.pdeploy_round_trip", roundTripFull d pre l dl ol)],
           ["roundtrip"] ++ (if g1 then ["guard:userRecreate"] else []) ++ (if g2 then ["guard:unclaimedFinalize"] else []) ++
           (if !g1 && !g2 then ["roundtrip:claimed"] else []))
        else ([], [])
      | _, _ => ([], [])
    -- C01 walk bound (fixed size)
    let wbH := match d0 with
      | some d =>
        match d.replicas with
        | some r => if noScale steps then [("C01.pdeploy_walk_bound", walkBound rel r (limitOf d) [] steps outs)] else []
        | none => []
      | none => []
    return { model := arrJ (model.map outToJson), holds := andAll (stepH ++ pairH ++ rtH ++ wbH), tags := tags ++ rtTags }
  | _ => .error s!"ctlpdeploy: unknown op {op}"

end RV.Drv.CtlPDeploy
