import RV.Json
import RV.Drv.Arith
import RV.Oracle.Batch
namespace RV.Drv.BatchCtx
open Lean RV RV.Arith RV.BatchCtx RV.Oracle.Batch RV.Drv.Arith

def kindOfStr : String → R Kind
  | "cloneSet" => .ok .cloneSet | "stsOrdered" => .ok .stsOrdered | "stsUnordered" => .ok .stsUnordered
  | "daemonSet" => .ok .daemonSet | "depPartition" => .ok .depPartition | "depCanary" => .ok .depCanary
  | "depBlueGreen" => .ok .depBlueGreen | "csBlueGreen" => .ok .csBlueGreen
  | s => .error s!"kind {s}"

def ctxToJson (c : Ctx) : Json :=
  mkObj [("replicas", intJ c.replicas), ("updated", intJ c.updated), ("updatedReady", intJ c.updatedReady),
    ("planned", intJ c.planned), ("desired", intJ c.desired), ("knobCur", iosToJson c.knobCur),
    ("knobDes", iosToJson c.knobDes), ("failureThreshold", optJ iosToJson c.failureThreshold)]

def ctxOfJson (j : Json) : R Ctx := do
  return { replicas := ← fInt j "replicas", updated := ← fInt j "updated", updatedReady := ← fInt j "updatedReady",
           planned := ← fInt j "planned", desired := ← fInt j "desired",
           knobCur := ← iosOfJson (← jget j "knobCur"), knobDes := ← iosOfJson (← jget j "knobDes"),
           failureThreshold := ← iosOptOfJson j "failureThreshold" }

/-- the canonical form erases the text of non-percent strings -/
def canonIos (j : Json) : Json :=
  match jopt j "s" with
  | some _ => mkObj [("s", strJ "?")]
  | none => j

def handle : Handler := fun op inp impl => do
  match op with
  | "calcUpgrade" =>
    let kind ← kindOfStr (← fStr inp "kind")
    let R ← fInt inp "replicas"
    let entry ← iosOptOfJson inp "entry"
    let nn ← fOptInt inp "noNeedUpdate"
    let knobCur := (← iosOptOfJson inp "knobCur").getD (.int 0)
    let ft ← iosOptOfJson inp "failureThreshold"
    -- blue-green contexts do not carry the failure threshold
    let ft := if kind = .depBlueGreen ∨ kind = .csBlueGreen then none else ft
    let o : Obs := { kind, replicas := R, entry, noNeedUpdate := nn, knobCur,
                     updated := ← fInt inp "updated", updatedReady := ← fInt inp "updatedReady", failureThreshold := ft }
    match calcCtx o with
    | .panic => return { model := mkObj [("panic", strJ "?")], tags := ["panic", s!"kind:{repr kind}"] }
    | .ok c =>
      let w := upgrade kind c
      let model := mkObj [("ctx", ctxToJson c), ("write", optJ iosToJson w)]
      -- oracles on the implementation's output
      let mut holds : List (String × Bool) := []
      let mut tags : List String := [s!"kind:{repr kind}", if w.isSome then "write" else "nowrite",
        match entry with | some (.pct _) => "entry:pct" | some (.int _) => "entry:int" | some .bad => "entry:bad" | none => "entry:none",
        if nn.isSome then "noNeedUpdate" else "plain"]
      match entry, jopt impl "ctx" with
      | some e, some ictxJ =>
        let ictx ← ctxOfJson ictxJ
        let iw : Option IntOrPct ← (match jopt impl "write" with
          | none => pure none
          | some wj => do pure (some (← iosOfJson wj)))
        let g1 := gPctFallback kind R e nn
        if g1 then tags := "guard:pctFallback" :: tags
        match iw with
        | some wv =>
          holds := ("C01.exposure_bound", exposureBound kind R e nn wv) ::
                   ("C01.monotone", monotone kind R c.knobCur wv) ::
                   -- a CloneSet partition written for a percentage entry is a percentage (it follows a resize)
                   ("C01.percent_partition_is_percentage",
                      !(kind == .cloneSet && (match e with | .pct _ => true | _ => false)) || (match wv with | .pct _ => true | _ => false)) :: holds
        | none => pure ()
        -- C07.iv is stated for releases without no-need-update pods (rollback-in-batches counts pods differently)
        if nn.isNone ∧ 0 ≤ R then
          holds := ("C07.target_suffices", targetSuffices kind R c.knobCur iw ictx.desired) :: holds
      | _, _ => pure ()
      -- compare after canonicalising strings
      return { model := model, holds := holds, tags := tags }
  | "isReady" =>
    let c ← ctxOfJson (← jget inp "ctx")
    let lab ← fOptInt inp "labelled"
    let r := isBatchReady c lab
    let implReady := impl == strJ "ok"
    return { model := strJ (if r = .ok then "ok" else "notReady"),
             holds := [("C11.ready_means", !implReady || readyMeans c lab),
                       -- completeness: once the workload has everything the batch calls for (and the planned pods
                       -- carry the batch label), the verdict is Ready — otherwise the release can never advance
                       ("C11.ready_complete", !readyMeans c lab || implReady),
                       ("C07.ready_when_done", !readyMeans c lab || implReady)],
             tags := [s!"ready:{repr r}"] }
  | _ => .error s!"batchctx: unknown op {op}"

end RV.Drv.BatchCtx
