import RV.Json
namespace RV.Drv.BatchCtx
open Lean RV
def handle : Handler := fun op _ _ => .error s!"BatchCtx: op {op} not implemented"
end RV.Drv.BatchCtx
