/-
  Wake-up logic of the three controllers: which watch event is mapped to which reconcile request
  (event handlers + predicates), which events one reconcile / one environment step produces, and
  whether a step wakes the Rollout / the BatchRelease reconciler.

  Source:
    pkg/controller/rollout/rollout_controller.go            SetupWithManager (three watches)
    pkg/controller/rollout/rollout_event_handler.go         enqueueRequestForWorkload, enqueueRequestForBatchRelease
    pkg/controller/batchrelease/batchrelease_controller.go  add (BatchRelease predicate, Pod watch, workload watches)
    pkg/controller/batchrelease/batchrelease_event_handler.go
                                                            podEventHandler, workloadEventHandler, getBatchRelease
    pkg/controller/trafficrouting/trafficrouting_controller.go SetupWithManager
    pkg/util/workloads_utils.go                             GetOwnerWorkload, GetEmptyWorkloadObject, IsSupportedWorkload
    pkg/util/parse_utils.go                                 ParseWorkloadStatus
    pkg/util/pod_utils.go                                   IsEqualRevision, IsPodReady
    k8s.io/apimachinery schema.ParseGroupVersion / FromAPIVersionAndKind, runtime.Scheme.ObjectKinds,
    sigs.k8s.io/controller-runtime handler.EnqueueRequestForObject, predicate.Funcs (nil func = true)

  Abstractions: an object is what the handlers read of it; the control-info annotation is given as the
  result of `json.Unmarshal` into `metav1.OwnerReference` (`Control`); a Deployment's template hash is a tag;
  `reader.List` returns the objects of `rs` / `brs` in list order (the informer cache's order is unspecified,
  the theorems therefore never depend on it except under an explicit uniqueness hypothesis).
-/
import RV.Model.RolloutSM
import RV.Model.Executor
namespace RV.Wakeup

/-- `types.NamespacedName` of a reconcile request -/
structure Key where
  ns : String
  name : String
  deriving Repr, DecidableEq, Inhabited

structure GVK where
  group : String
  version : String
  kind : String
  deriving Repr, DecidableEq, Inhabited

/-- `spec.workloadRef` -/
structure Ref where
  apiVersion : String
  kind : String
  name : String
  deriving Repr, DecidableEq, Inhabited

/-- a Rollout / a BatchRelease as the handlers see it (both carry a workloadRef) -/
structure Obj where
  ns : String
  name : String
  ref : Ref
  deriving Repr, DecidableEq, Inhabited

def Obj.key (o : Obj) : Key := ⟨o.ns, o.name⟩

/-- the pieces of a string between '/' characters (structural, so that literals evaluate by `decide`) -/
def splitSlash : List Char → List Char → List (List Char)
  | [], cur => [cur.reverse]
  | c :: cs, cur => if c = '/' then cur.reverse :: splitSlash cs [] else splitSlash cs (c :: cur)

/-- `schema.ParseGroupVersion`: `none` = error (`strings.Count(gv, "/")` is 0, 1 or more) -/
def parseGV (gv : String) : Option (String × String) :=
  if gv = "" ∨ gv = "/" then some ("", "")
  else match splitSlash gv.toList [] with
    | [v] => some ("", String.ofList v)
    | [g, v] => some (String.ofList g, String.ofList v)
    | _ => none

/-- `schema.FromAPIVersionAndKind` -/
def fromAPIVersionAndKind (apiVersion kind : String) : GVK :=
  match parseGV apiVersion with
  | some (g, v) => ⟨g, v, kind⟩
  | none => ⟨"", "", kind⟩

/-! ### the workload object of an event -/

/-- the Go type of the event's object -/
inductive WlType where
  | cloneSet | daemonSet | deployment | nativeSts | advSts
  | replicaSet                       -- a typed object known to the scheme that is no rollout workload
  | unstructured (gvk : GVK)
  deriving Repr, DecidableEq, Inhabited

def gvkCloneSet : GVK := ⟨"apps.kruise.io", "v1alpha1", "CloneSet"⟩
def gvkDaemonSet : GVK := ⟨"apps.kruise.io", "v1alpha1", "DaemonSet"⟩
def gvkDeployment : GVK := ⟨"apps", "v1", "Deployment"⟩
def gvkNativeSts : GVK := ⟨"apps", "v1", "StatefulSet"⟩
def gvkAdvSts : GVK := ⟨"apps.kruise.io", "v1beta1", "StatefulSet"⟩
def gvkOldAdvSts : GVK := ⟨"apps.kruise.io", "v1alpha1", "StatefulSet"⟩
def gvkReplicaSet : GVK := ⟨"apps", "v1", "ReplicaSet"⟩

/-- `runtime.Scheme.ObjectKinds(obj)[0]`: `none` = error -/
def schemeKind : WlType → Option GVK
  | .cloneSet => some gvkCloneSet
  | .daemonSet => some gvkDaemonSet
  | .deployment => some gvkDeployment
  | .nativeSts => some gvkNativeSts
  | .advSts => some gvkAdvSts
  | .replicaSet => some gvkReplicaSet
  | .unstructured g => if g.kind = "" then none else if g.version = "" then none else some g

/-- the type switch of `workloadEventHandler`: `none` = `default: return` -/
def switchKind : WlType → Option GVK
  | .cloneSet => some gvkCloneSet
  | .daemonSet => some gvkDaemonSet
  | .deployment => some gvkDeployment
  | .nativeSts => some gvkNativeSts
  | .advSts => some gvkAdvSts
  | .unstructured g => some g
  | .replicaSet => none

/-- the kinds an informer of the two controllers can deliver: the five static workload watches of
    `util.AddWorkloadWatcher` and the unstructured watches `AddWatcherDynamically` adds (no typed ReplicaSet watch exists) -/
def watchedType : WlType → Bool
  | .replicaSet => false
  | _ => true

/-- `json.Unmarshal(controlInfo, &metav1.OwnerReference{})` of the control-info annotation -/
inductive Control where
  | absent                                   -- no such annotation
  | empty                                    -- ""
  | badSyntax                                -- not JSON / not an object: the struct stays empty, error
  | partialRef (apiVersion kind : String)    -- a field of the wrong type after these were set: error, name empty
  | ref (apiVersion kind name : String)
  deriving Repr, DecidableEq, Inhabited

/-- the annotation's text is non-empty -/
def Control.nonEmpty : Control → Bool
  | .absent | .empty => false
  | _ => true

/-- `util.WorkloadStatus` -/
structure WlStatus where
  replicas : Int
  ready : Int
  available : Int
  updated : Int
  updatedReady : Int
  observedGeneration : Int
  updateRevision : String
  stableRevision : String
  deriving Repr, DecidableEq, Inhabited

/-- `util.ParseWorkloadStatus`: which raw fields each kind contributes (`raw.updateRevision` of a Deployment is
    its template tag, of a DaemonSet the daemonSetHash) -/
def parseStatus (ty : WlType) (raw : WlStatus) : Option WlStatus :=
  match ty with
  | .deployment => some { raw with updatedReady := 0, stableRevision := "" }
  | .cloneSet => some raw
  | .nativeSts | .advSts => some { raw with updatedReady := 0 }
  | .daemonSet => some { raw with updatedReady := 0, stableRevision := "" }
  | .unstructured _ => some raw   -- a revision field of another JSON type reads as "" (parseStatusStringFromUnstructured)
  | .replicaSet => none     -- panic("unsupported workload type")

/-- a workload object in an event -/
structure Wl where
  ty : WlType
  ns : String
  name : String
  rv : String
  generation : Int
  status : WlStatus
  control : Control
  deriving Repr, DecidableEq, Inhabited

structure OwnerRef where
  apiVersion : String
  kind : String
  name : String
  deriving Repr, DecidableEq, Inhabited

/-- an object the cache can return to `GetOwnerWorkload` (`gvk` = the type it is stored under) -/
structure StoreObj where
  gvk : GVK
  ns : String
  name : String
  owner : Option OwnerRef       -- the controller owner reference
  inProgress : Bool             -- annotation rollouts.kruise.io/in-progressing non-empty
  control : Control
  deriving Repr, DecidableEq, Inhabited

inductive Ready where
  | noCond | condTrue | condFalse
  deriving Repr, DecidableEq, Inhabited

structure Pod where
  ns : String
  name : String
  rv : String
  depHash : String              -- label pod-template-hash
  revHash : String              -- label controller-revision-hash
  ready : Ready
  owner : Option OwnerRef
  inProgress : Bool
  deriving Repr, DecidableEq, Inhabited

/-- a BatchRelease in an event of its own watch -/
structure BrMeta where
  ns : String
  name : String
  generation : Int
  deleting : Bool
  annos : Option (List (String × String))    -- `none` = nil map; pairs sorted by key
  deriving Repr, DecidableEq, Inhabited

/-! ### Rollout controller -/

/-- the match test of `getRolloutForWorkload` / `getBatchRelease` -/
def refMatches (ref : Ref) (gvk : GVK) (name : String) : Bool :=
  match parseGV ref.apiVersion with
  | none => false                                             -- `continue`
  | some (g, _) => ref.kind == gvk.kind && g == gvk.group && ref.name == name

/-- `getRolloutForWorkload`: the first match of the namespace's list -/
def getRolloutForWorkload (rs : List Obj) (ns name : String) (gvk : GVK) : Option Obj :=
  (rs.filter (fun r => r.ns == ns)).find? (fun r => refMatches r.ref gvk name)

/-- `enqueueRequestForWorkload.handleEvent` -/
def roHandleWorkload (rs : List Obj) (listErr : Bool) (ty : WlType) (ns name : String) : List Key :=
  match schemeKind ty with
  | none => []
  | some gvk =>
    if listErr then []
    else match getRolloutForWorkload rs ns name gvk with
      | some r => [r.key]
      | none => []

inductive RoEvent where
  | roCreate (ns name : String) | roUpdate (ns name : String) | roDelete (ns name : String)
  | brCreate (b : BrMeta) | brUpdate (old new : BrMeta) | brDelete (b : BrMeta)
  | wlCreate (o : Wl) | wlUpdate (old new : Wl) | wlDelete (o : Wl)
  deriving Repr

/-- the requests the Rollout controller's three watches add for one event -/
def roEnqueue (e : RoEvent) (rs : List Obj) (listErr : Bool := false) : List Key :=
  match e with
  -- Rollout: handler.EnqueueRequestForObject, no predicate
  | .roCreate ns name | .roUpdate ns name | .roDelete ns name => [⟨ns, name⟩]
  -- BatchRelease: enqueueRequestForBatchRelease — Update only, the Rollout of the same name
  | .brCreate _ | .brDelete _ => []
  | .brUpdate _ new => [⟨new.ns, new.name⟩]
  -- workloads: enqueueRequestForWorkload — all three, the new object
  | .wlCreate o | .wlDelete o => if watchedType o.ty then roHandleWorkload rs listErr o.ty o.ns o.name else []
  | .wlUpdate _ new => if watchedType new.ty then roHandleWorkload rs listErr new.ty new.ns new.name else []

/-! ### BatchRelease controller -/

def brAPIVersion : String := "rollouts.kruise.io/v1beta1"

/-- result of `getBatchRelease` -/
inductive Found where
  | err                    -- error returned: the callers log and return
  | noName                 -- `len(brNsn.Name) == 0`
  | key (k : Key)
  deriving Repr, DecidableEq

/-- the `List` fall-back of `getBatchRelease`: the **last** match of the namespace's list -/
def lastMatch (brs : List Obj) (ns name : String) (gvk : GVK) : Option Obj :=
  ((brs.filter (fun b => b.ns == ns)).filter (fun b => refMatches b.ref gvk name)).getLast?

/-- `getBatchRelease` -/
def getBatchRelease (brs : List Obj) (listErr : Bool) (ns name : String) (gvk : GVK) (c : Control) : Found :=
  let viaList : Found :=
    if listErr then .err
    else match lastMatch brs ns name gvk with
      | some b => .key b.key
      | none => .noName
  match c with
  | .absent | .empty => viaList
  | .badSyntax => viaList             -- the unmarshal error is overwritten by the result of List
  | .partialRef a k =>
    if a = brAPIVersion ∧ k = "BatchRelease" then .err      -- returned with the unmarshal error still set
    else viaList
  | .ref a k n =>
    if a = brAPIVersion ∧ k = "BatchRelease" then (if n = "" then .noName else .key ⟨ns, n⟩)
    else viaList

def Found.keys : Found → List Key
  | .key k => [k]
  | _ => []

/-- `workloadEventHandler.handleWorkload` (Create / Delete) -/
def brHandleWorkload (brs : List Obj) (listErr : Bool) (o : Wl) : List Key :=
  match switchKind o.ty with
  | none => []
  | some gvk => (getBatchRelease brs listErr o.ns o.name gvk o.control).keys

inductive UpdOut where
  | keys (ks : List Key)
  | panic
  deriving Repr, DecidableEq

/-- `workloadEventHandler.Update` -/
def brWorkloadUpdate (brs : List Obj) (listErr : Bool) (old new : Wl) : UpdOut :=
  match switchKind new.ty with
  | none => .keys []
  | some gvk =>
    if new.rv = old.rv then .keys []
    else match parseStatus old.ty old.status, parseStatus new.ty new.status with
      | some so, some sn =>
        if old.generation ≠ new.generation ∨ so ≠ sn then
          .keys (getBatchRelease brs listErr new.ns new.name gvk new.control).keys
        else .keys []
      | _, _ => .panic

/-- `util.IsSupportedWorkload` with the default `filter-workload-type=true` -/
def isSupportedWorkload (g : GVK) : Bool :=
  (g.group == "apps" && (g.kind == "ReplicaSet" || g.kind == "Deployment" || g.kind == "StatefulSet")) ||
  (g.group == "apps.kruise.io" && (g.kind == "CloneSet" || g.kind == "StatefulSet" || g.kind == "DaemonSet"))

/-- `util.GetEmptyWorkloadObject`: the type under which the owner is read (`none` = nil) -/
def emptyWorkloadObject (g : GVK) : Option GVK :=
  if ¬ isSupportedWorkload g then none
  else if g = gvkOldAdvSts then some gvkAdvSts
  else some g

inductive OwnerOut where
  | obj (inProgress : Bool) (control : Control)     -- the top-level object's annotations
  | nil
  | err
  | loop                                            -- owner references form a cycle: the Go recursion does not return
  deriving Repr, DecidableEq

def storeGet (store : List StoreObj) (g : GVK) (ns name : String) : Option StoreObj :=
  store.find? (fun o => o.gvk == g && o.ns == ns && o.name == name)

/-- `util.GetOwnerWorkload` from an object with the given owner / annotations, at most `fuel` hops -/
def ownerWorkload (store : List StoreObj) (getErr : Bool) (ns : String) :
    Nat → Option OwnerRef → Bool → Control → OwnerOut
  | 0, _, _, _ => .loop
  | fuel + 1, owner, inProgress, control =>
    match owner with
    | none => .obj inProgress control
    | some ow =>
      if inProgress then .obj inProgress control
      else match emptyWorkloadObject (fromAPIVersionAndKind ow.apiVersion ow.kind) with
        | none => .nil
        | some g =>
          if getErr then .err
          else match storeGet store g ns ow.name with
            | none => .obj false .absent                 -- NotFound is ignored: an empty object without owner
            | some o => ownerWorkload store getErr ns fuel o.owner o.inProgress o.control

inductive PodOut where
  | keys (ks : List Key)
  | loop
  deriving Repr, DecidableEq

/-- `podEventHandler.enqueue` -/
def podEnqueue (brs : List Obj) (store : List StoreObj) (listErr getErr : Bool) (p : Pod) : PodOut :=
  match p.owner with
  | none => .keys []
  | some ow =>
    match ownerWorkload store getErr p.ns (store.length + 2) p.owner p.inProgress .absent with
    | .loop => .loop
    | .nil | .err => .keys []
    | .obj _ control =>
      if ¬ control.nonEmpty then .keys []
      else .keys (getBatchRelease brs listErr p.ns ow.name (fromAPIVersionAndKind ow.apiVersion ow.kind) control).keys

/-- `util.IsEqualRevision` -/
def isEqualRevision (a b : Pod) : Bool :=
  (a.depHash != "" && a.depHash == b.depHash) || (a.revHash != "" && a.revHash == b.revHash)

def podReady (p : Pod) : Bool := p.ready == .condTrue

/-- `podEventHandler.Update` -/
def podUpdate (brs : List Obj) (store : List StoreObj) (listErr getErr : Bool) (old new : Pod) : PodOut :=
  if old.rv = new.rv ∨ (isEqualRevision old new ∧ podReady old = podReady new) then .keys []
  else podEnqueue brs store listErr getErr new

/-- `reflect.DeepEqual` of two annotation maps -/
def annosEq (a b : Option (List (String × String))) : Bool :=
  match a, b with
  | none, none => true
  | some x, some y => x == y
  | _, _ => false

def annosLen (a : Option (List (String × String))) : Nat := (a.map List.length).getD 0

/-- the `UpdateFunc` of the BatchRelease watch's predicate -/
def brPredUpdate (old new : BrMeta) : Bool :=
  if old.generation ≠ new.generation ∨ new.deleting then true
  else if annosLen old.annos ≠ annosLen new.annos ∨ ¬ annosEq old.annos new.annos then true
  else false

inductive BrEvent where
  | brCreate (b : BrMeta) | brUpdate (old new : BrMeta) | brDelete (b : BrMeta)
  | podCreate (p : Pod) | podUpdate (old new : Pod) | podDelete (p : Pod)
  | wlCreate (o : Wl) | wlUpdate (old new : Wl) | wlDelete (o : Wl)
  deriving Repr

inductive EnqOut where
  | keys (ks : List Key)
  | panic
  | loop
  deriving Repr, DecidableEq

def PodOut.toEnq : PodOut → EnqOut
  | .keys ks => .keys ks
  | .loop => .loop

def UpdOut.toEnq : UpdOut → EnqOut
  | .keys ks => .keys ks
  | .panic => .panic

/-- the requests the BatchRelease controller's watches add for one event -/
def brEnqueue (e : BrEvent) (brs : List Obj) (store : List StoreObj := []) (listErr getErr : Bool := false) : EnqOut :=
  match e with
  -- BatchRelease: EnqueueRequestForObject behind predicate.Funcs{UpdateFunc} (Create/Delete/Generic default to true)
  | .brCreate b | .brDelete b => .keys [⟨b.ns, b.name⟩]
  | .brUpdate old new => .keys (if brPredUpdate old new then [⟨new.ns, new.name⟩] else [])
  | .podCreate p => (podEnqueue brs store listErr getErr p).toEnq
  | .podUpdate old new => (podUpdate brs store listErr getErr old new).toEnq
  | .podDelete _ => .keys []
  | .wlCreate o | .wlDelete o => .keys (brHandleWorkload brs listErr o)
  | .wlUpdate old new => (brWorkloadUpdate brs listErr old new).toEnq

/-- TrafficRouting controller: one watch, `EnqueueRequestForObject`, no predicate -/
def trEnqueue (ns name : String) : List Key := [⟨ns, name⟩]

/-! ### which events a step produces, and whom it wakes

The one-step models keep the objects abstract; an *abstract event* says which object changed how.  `deleteBR`
is taken in its least waking form (an object without finalizer: a Delete event), a status write of the executor
as an Update event whose generation, deletion mark and annotations are unchanged. -/

inductive AEvent where
  | roUpdated                 -- the Rollout object changed (spec, status or finalizers)
  | roDeleted
  | brCreated
  | brSpecUpdated             -- spec or annotations written: metadata.generation / annotations differ
  | brStatusUpdated (deleting : Bool)   -- status only
  | brMetaUpdated (deleting : Bool)     -- finalizers only: generation and annotations unchanged
  | brDeleteRequested         -- `Delete`: deletionTimestamp set (Update) or, without finalizer, gone (Delete)
  | brGone                    -- the finalizer was removed from an object in deletion
  | wlMetaUpdated             -- annotations / labels of the workload only: generation and status unchanged
  | wlSpecUpdated             -- spec written: generation changes
  | wlStatusUpdated           -- the workload controller reported progress: parsed status changes
  deriving Repr, DecidableEq

/-- does the event reach the Rollout reconciler of the rollout that owns the BatchRelease / names the workload -/
def AEvent.wakesRo : AEvent → Bool
  | .roUpdated | .roDeleted => true
  | .brSpecUpdated | .brStatusUpdated _ | .brMetaUpdated _ => true
  | .brCreated | .brDeleteRequested | .brGone => false
  | .wlMetaUpdated | .wlSpecUpdated | .wlStatusUpdated => true

/-- does the event reach the BatchRelease reconciler (workload events: given the control annotation or the workloadRef) -/
def AEvent.wakesBr : AEvent → Bool
  | .roUpdated | .roDeleted => false
  | .brCreated | .brSpecUpdated | .brGone => true
  | .brDeleteRequested => true                   -- deletionTimestamp set, or the object is gone
  | .brStatusUpdated deleting | .brMetaUpdated deleting => deleting   -- the predicate: only for an object in deletion
  | .wlMetaUpdated => false
  | .wlSpecUpdated | .wlStatusUpdated => true

open RV.RolloutSM in
/-- `util.CheckNextBatchIndexWithCorrect` corrects an illegal next-step index in memory, in the old *and* the new status:
    the correction alone is never written (`reflect.DeepEqual(rollout.Status, newStatus)`), so it is no event -/
def normSub (n : Int) (s : Sub) : Sub :=
  if s.nextIdx ≤ 0 ∨ s.nextIdx > n then { s with nextIdx := nextBatchIndex n s.curIdx } else s

open RV.RolloutSM in
def normRo (r : Rollout) : Rollout := { r with sub := r.sub.map (normSub r.steps.length) }

open RV.RolloutSM in
/-- the events of one Rollout reconcile: from the states before / after and the write log -/
def roStepEvents (w : World) (r : StepResult) : List AEvent :=
  (if r.roGone then [.roDeleted] else if normRo r.w.ro ≠ normRo w.ro then [.roUpdated] else []) ++
  (if r.writes.contains "createBR" then [.brCreated] else []) ++
  (if r.writes.contains "updateBR" ∨ r.writes.contains "patchBR" ∨ r.writes.contains "patchBRRolloutID" then [.brSpecUpdated] else []) ++
  (if r.writes.contains "deleteBR" then [.brDeleteRequested] else []) ++
  (if r.writes.contains "removeInProgressAnno" then [.wlMetaUpdated] else [])

open RV.Executor in
/-- the events of one BatchRelease reconcile -/
def brStepEvents (br : BR) (wl : Option Workload) (o : StepOut) : List AEvent :=
  (match o.br with
   | none => [.brGone]
   | some b' =>
     (if b'.hasFinalizer ≠ br.hasFinalizer then [AEvent.brMetaUpdated br.deleting] else []) ++
     (if b'.status ≠ br.status then [.brStatusUpdated br.deleting] else [])) ++
  (match wl, o.wl with
   | some w, some w' =>
     (if w'.partition ≠ w.partition ∨ w'.paused ≠ w.paused then [AEvent.wlSpecUpdated] else []) ++
     (if w'.owner ≠ w.owner then [.wlMetaUpdated] else [])
   | _, _ => [])

structure Wakes where
  ro : Bool
  br : Bool
  deriving Repr, DecidableEq

def wakesOf (self : Bool) (isRo : Bool) (evs : List AEvent) : Wakes :=
  { ro := (isRo && self) || evs.any (·.wakesRo), br := (!isRo && self) || evs.any (·.wakesBr) }

open RV.RolloutSM in
/-- whom one Rollout reconcile wakes: its own requeue / error (rate-limited retry) and its events -/
def roWakes (w : World) (r : StepResult) : Wakes := wakesOf (r.requeue || r.err) true (roStepEvents w r)

open RV.Executor in
/-- whom one BatchRelease reconcile wakes -/
def brWakes (br : BR) (wl : Option Workload) (o : StepOut) : Wakes := wakesOf (o.requeue || o.err) false (brStepEvents br wl o)

/-- environment / user steps -/
inductive EnvStep where
  | workloadProgress          -- the workload controller moved pods / observed the generation: status change
  | userApprove               -- `kubectl-kruise rollout approve`: Rollout status update
  | userUnpause | userEnable  -- Rollout spec update
  | userRelease               -- new revision through the webhook: workload spec + annotation
  | podReady                  -- a pod of the workload became ready
  deriving Repr, DecidableEq

def envEvents : EnvStep → List AEvent
  | .workloadProgress => [.wlStatusUpdated]
  | .userApprove | .userUnpause | .userEnable => [.roUpdated]
  | .userRelease => [.wlSpecUpdated]
  | .podReady => []           -- pod events are not abstract events of the workload object; see `podUpdate`

def envWakes (e : EnvStep) : Wakes := wakesOf false true (envEvents e)

end RV.Wakeup
