/-
  Workload admission webhook (mutating).

  Source:
    pkg/webhook/workload/mutating/workload_update_handler.go
        WorkloadHandler.Handle, checkWorkloadRules, handleDeployment, handleCloneSet,
        handleDaemonSet, fetchMatchedRollout, isEffectiveDeploymentRevisionChange,
        setDeploymentStrategyAnnotation
    pkg/webhook/workload/mutating/unified_update_handler.go
        UnifiedWorkloadHandler.Handle, handleStatefulSetLikeWorkload, fetchMatchedRollout
    pkg/util/workloads_utils.go     EqualIgnoreHash, GetDeploymentStrategy, IsWorkloadType,
                                    FindCanaryAndStableReplicaSet
    pkg/util/controller_finder.go   GetReplicaSetsForDeployment
    pkg/util/parse_utils.go         GetReplicas, GetTemplate, GetMetadata,
                                    IsStatefulSetRollingUpdate, SetStatefulSetPartition
    api/v1alpha1/deployment_types.go SetDefaultDeploymentStrategy
    api/v1beta1/rollout_types.go    IsEmptyRelease, HasTrafficRoutings

  The objects are abstractions: every field is there because the handlers read or
  write it; everything else of the submitted object is the opaque `rest`.
-/
import RV.Model.Arith
namespace RV.Webhook
open RV.Arith

/-- Pod template: `body` identifies the template *with the pod-template-hash label
    removed* (0 = the empty template `{}`), `hash` is the value of that label. -/
structure Tmpl where
  body : Nat
  hash : String
  deriving DecidableEq, Repr, Inhabited

/-- `apps.RollingUpdateDeployment` -/
structure RU where
  maxUnavailable : Option IntOrPct
  maxSurge : Option IntOrPct
  deriving DecidableEq, Repr, Inhabited

/-- `v1alpha1.DeploymentStrategy` (value of the annotation `rollouts.kruise.io/deployment-strategy`). -/
structure DepStrategy where
  rollingStyle : String
  ru : Option RU
  paused : Bool
  partition : IntOrPct
  deriving DecidableEq, Repr, Inhabited

/-- The strategy annotation as `GetDeploymentStrategy` sees it. -/
inductive StratAnno where
  | absent                      -- no annotation / empty string
  | invalid                     -- not JSON: `json.Unmarshal` fails, the zero strategy is used
  | valid (s : DepStrategy)
  deriving DecidableEq, Repr, Inhabited

/-- Annotation `rollouts.kruise.io/in-progressing`. -/
inductive InProg where
  | absent                      -- absent / empty
  | rollout (name : String)     -- exactly `{"rolloutName":"<name>"}`
  | other (raw : String)        -- any other non-empty string
  deriving DecidableEq, Repr, Inhabited

/-- `spec.updateStrategy.rollingUpdate` of a DaemonSet / StatefulSet-like object. -/
inductive RUBlock where
  | absent
  | malformed                   -- present but not a JSON object (unstructured only)
  | present (partition : Option Int)
  deriving DecidableEq, Repr, Inhabited

/-- `spec.updateStrategy` of a DaemonSet / StatefulSet-like object. -/
inductive UpdStrat where
  | absent
  | malformed                   -- present but not a JSON object
  | present (type : String) (ru : RUBlock)
  deriving DecidableEq, Repr, Inhabited

/-- The abstract workload object (one structure for all kinds; fields of other
    kinds are carried along untouched). -/
structure Obj where
  group : String
  kind : String
  name : String
  /-- label `rollouts.kruise.io/workload-type` ("" = absent) -/
  workloadType : String
  /-- `spec.replicas` -/
  replicas : Option Int
  /-- annotation `rollouts.kruise.io/rollout-id` ("" = absent) -/
  rolloutId : String
  /-- `spec.template`; `tmplPresent = false` only matters on the unstructured path -/
  tmplPresent : Bool
  tmpl : Tmpl
  inProgress : InProg
  -- Deployment
  paused : Bool
  stratType : String
  stratRU : Option RU
  stratAnno : StratAnno
  /-- `len(annotations[original-deployment-strategy]) > 0` -/
  hasOrigStrategy : Bool
  /-- label `rollouts.kruise.io/stable-revision` ("" = absent) -/
  stableRev : String
  -- CloneSet
  csPartition : Option IntOrPct
  statusReplicas : Int
  statusUpdated : Int
  -- DaemonSet / StatefulSet-like
  us : UpdStrat
  /-- everything else of the object (0 on input; the harness reports 1 when any
      unmodelled path of the patched object differs from the submitted one) -/
  rest : Nat
  deriving DecidableEq, Repr, Inhabited

structure Rollout where
  name : String
  deleting : Bool
  /-- `status.phase == Disabled` -/
  phaseDisabled : Bool
  refApiVersion : String
  refKind : String
  refName : String
  /-- `spec.strategy.IsEmptyRelease()` (neither canary nor blueGreen) -/
  emptyRelease : Bool
  /-- `len(GetTrafficRouting()) > 0` — only defined when not `emptyRelease` -/
  hasTraffic : Bool
  deriving DecidableEq, Repr, Inhabited

inductive Ctrl where
  | none | same | other         -- controller owner reference: absent / UID of the Deployment / another UID
  deriving DecidableEq, Repr, Inhabited

/-- A ReplicaSet in the namespace (list order = name order = API list order). -/
structure RS where
  deleting : Bool
  replicas : Option Int
  ctrl : Ctrl
  /-- labels match the Deployment's selector -/
  selected : Bool
  tmplBody : Nat
  /-- the ReplicaSet's own label `pod-template-hash` ("" = absent) -/
  hashLabel : String
  /-- `strconv.Atoi(annotations[deployment.kubernetes.io/revision])`, `none` = error -/
  revision : Option Int
  /-- creationTimestamp (seconds) -/
  created : Int
  deriving DecidableEq, Repr, Inhabited

/-- `objectSelector` of one webhook of the MutatingWebhookConfiguration. -/
inductive Sel where
  | nil                         -- absent: `LabelSelectorAsSelector(nil)` = Nothing
  | everything                  -- `{}`
  | invalid                     -- conversion error
  | existsWorkloadType          -- `rollouts.kruise.io/workload-type Exists` (the shipped selector)
  deriving DecidableEq, Repr, Inhabited

structure WH where
  /-- per rule: does `Matcher{rule, attr}.Matches()` hold for this request -/
  rules : List Bool
  sel : Sel
  deriving DecidableEq, Repr, Inhabited

structure Req where
  /-- false: `WorkloadHandler`, true: `UnifiedWorkloadHandler` -/
  unified : Bool
  op : String
  subResource : String
  /-- `req.DryRun != nil` (the API server always sets it) -/
  dryRunSet : Bool
  /-- webhooks of the MutatingWebhookConfiguration; `none` = object not found -/
  cfg : Option (List WH)
  old : Obj
  new : Obj
  /-- the old object has a `metadata` block (always true from an API server) -/
  oldMetaPresent : Bool
  rollouts : List Rollout
  rss : List RS
  deriving Repr, Inhabited

/-- `admission.Response` of `Handle`, or a panic. -/
inductive Res where
  | allowed                     -- `admission.Allowed("")`: no patch
  | patched (o : Obj)           -- `PatchResponseFromRaw(original, mutated)`
  | errored                     -- `admission.Errored(..)`: request rejected
  | panic                       -- handler panics; failurePolicy=Fail ⇒ request rejected
  deriving DecidableEq, Repr, Inhabited

/-- Result of a `handleXxx` function: `(changed, newObj)`, or a panic. -/
inductive HRes where
  | ok (changed : Bool) (o : Obj)
  | panic
  deriving DecidableEq, Repr, Inhabited

/-! ### util -/

/-- `util.EqualIgnoreHash`: deep-copy both, delete the hash label, compare. -/
def equalIgnoreHash (a b : Tmpl) : Bool :=
  let a' := { a with hash := "" }
  let b' := { b with hash := "" }
  a' == b'

/-- `schema.ParseGroupVersion`, group only; `none` = error.
    (`strings.Count(gv, "/")` and `gv[:strings.Index(gv, "/")]` on the character list.) -/
def parseGroupVersion (gv : String) : Option String :=
  if gv == "" || gv == "/" then some ""
  else
    let cs := gv.toList
    match cs.count '/' with
    | 0 => some ""
    | 1 => some (String.ofList (cs.takeWhile (· != '/')))
    | _ => none

/-- `fetchMatchedRollout` (identical in both handlers): first Rollout of the list
    that is not deleting, not in phase Disabled, and whose workloadRef names the object. -/
def fetchMatchedRollout (o : Obj) : List Rollout → Option Rollout
  | [] => none
  | r :: rs =>
    if r.deleting then fetchMatchedRollout o rs            -- continue
    else if r.phaseDisabled then fetchMatchedRollout o rs  -- continue
    else match parseGroupVersion r.refApiVersion with
      | none => fetchMatchedRollout o rs                   -- continue
      | some g =>
        if o.group == g && o.kind == r.refKind && o.name == r.refName then some r
        else fetchMatchedRollout o rs

/-- `rollout.Spec.Strategy.HasTrafficRoutings()`; dereferences `Canary` when
    `BlueGreen == nil`, so it panics (`none`) on an empty release. -/
def hasTrafficRoutings (r : Rollout) : Option Bool :=
  if r.emptyRelease then none else some r.hasTraffic

/-- The rollout-id / template comparison shared by all four handlers
    (`isEffectiveDeploymentRevisionChange` for Deployments). -/
def isEffectiveRevisionChange (old new : Obj) : Bool :=
  if new.rolloutId != "" && old.rolloutId == new.rolloutId then false
  else if new.rolloutId == "" && equalIgnoreHash old.tmpl new.tmpl then false
  else true

/-! ### Deployment -/

/-- zero value of `v1alpha1.DeploymentStrategy` -/
def DepStrategy.zero : DepStrategy :=
  { rollingStyle := "", ru := none, paused := false, partition := .int 0 }

/-- `util.GetDeploymentStrategy` -/
def getDeploymentStrategy (o : Obj) : DepStrategy :=
  match o.stratAnno with
  | .valid s => s
  | _ => DepStrategy.zero

/-- `intstr.GetScaledValueFromIntOrPercent(v, 100, true)` with the error ignored (nil ⇒ 0). -/
def scaled100 : Option IntOrPct → Int
  | none => 0
  | some v => scaledV v 100 true

/-- `v1alpha1.SetDefaultDeploymentStrategy` — transcribed as it is, including the
    assignment of the *maxSurge* default to `MaxUnavailable`. -/
def setDefaultDeploymentStrategy (s : DepStrategy) : DepStrategy :=
  if s.rollingStyle != "Partition" then s
  else
    let ru : RU := match s.ru with
      | none => { maxUnavailable := none, maxSurge := none }
      | some r => r
    let ru := if ru.maxUnavailable.isNone then { ru with maxUnavailable := some (.pct 25) } else ru
    let ru := if ru.maxSurge.isNone then { ru with maxUnavailable := some (.pct 25) } else ru
    let maxSurge := scaled100 ru.maxSurge
    let maxUnavailable := scaled100 ru.maxUnavailable
    if maxSurge == 0 && maxUnavailable == 0 then
      { s with ru := some { maxSurge := some (.int 0), maxUnavailable := some (.int 1) } }
    else { s with ru := some ru }

/-- `strings.EqualFold(style, "Partition")` (ASCII) -/
def isPartitionStyle (s : DepStrategy) : Bool := s.rollingStyle.toLower == "partition"

/-- `handleDeployment`, branch `annotations[in-progressing] != ""`. -/
def handleDeploymentInProgress (new old : Obj) : HRes :=
  let strategy := getDeploymentStrategy new
  if isPartitionStyle strategy then
    -- partition style
    let m1 := !new.paused
    let o := { new with paused := true }
    let m2 := o.stratType == "RollingUpdate"
    let o := if m2 then { o with stratType := "Recreate" } else o
    let m3 := o.stratRU.isSome
    let strategy := if m3 then { strategy with ru := o.stratRU } else strategy
    let o := { o with stratRU := none }
    let m4 := isEffectiveRevisionChange old o
    let strategy := if m4 then { strategy with paused := true } else strategy
    let o := { o with stratAnno := .valid (setDefaultDeploymentStrategy strategy) }
    .ok (m1 || m2 || m3 || m4) o
  else if new.hasOrigStrategy then
    -- blue-green style
    let m1 := isEffectiveRevisionChange old new
    let o := if m1 then { new with paused := true } else new
    let m2 := o.stratType != "RollingUpdate"
    let o := if m2 then { o with stratType := old.stratType } else o
    .ok (m1 || m2) o
  else
    -- default (canary style)
    let m1 := !new.paused
    let o := { new with paused := true }
    let m2 := o.stratType == "Recreate"
    let o := if m2 then { o with stratType := old.stratType, stratRU := old.stratRU } else o
    .ok (m1 || m2) o

/-- `ControllerFinder.GetReplicaSetsForDeployment` (the List call with the
    Deployment's selector is the `selected` flag). -/
def getReplicaSetsForDeployment (rss : List RS) : List RS :=
  rss.filter fun rs =>
    rs.selected && !(rs.deleting || rs.replicas == some 0) && rs.ctrl == .same

/-- comparator of the `sort.Slice` in `FindCanaryAndStableReplicaSet` -/
def rsLess (a b : RS) : Bool :=
  match a.revision, b.revision with
  | some r1, some r2 => if r1 == r2 then decide (a.created < b.created) else decide (r1 < r2)
  | _, _ => decide (a.created < b.created)

/-- one inner loop of Go's `insertionSort_func` on the reversed prefix:
    move `x` left while `less(x, previous)`. -/
def insRev (x : RS) : List RS → List RS
  | [] => [x]
  | y :: ys => if rsLess x y then y :: insRev x ys else x :: y :: ys

/-- `sort.Slice` for at most 12 elements (= `insertionSort_func`). -/
def sortRS (rss : List RS) : List RS :=
  (rss.foldl (fun accRev x => insRev x accRev) []).reverse

/-- the loop of `FindCanaryAndStableReplicaSet` after sorting; `none` = nil dereference
    of `rs.Spec.Replicas`. Returns (newRS, oldRS). -/
def findLoop (dBody : Nat) : List RS → Option RS → Option RS → Option (Option RS × Option RS)
  | [], n, o => some (n, o)
  | rs :: rest, n, o =>
    if rs.tmplBody == dBody then findLoop dBody rest (some rs) o
    else if o.isNone then
      match rs.replicas with
      | none => none
      | some r => if r > 0 then findLoop dBody rest n (some rs) else findLoop dBody rest n o
    else findLoop dBody rest n o

def findCanaryAndStableReplicaSet (rss : List RS) (d : Obj) : Option (Option RS × Option RS) :=
  findLoop d.tmpl.body (sortRS rss) none none

/-- `WorkloadHandler.handleDeployment` -/
def handleDeployment (new old : Obj) (rollouts : List Rollout) (rssAll : List RS) : HRes :=
  if new.inProgress != .absent then handleDeploymentInProgress new old
  else if new.replicas == some 0 then .ok false new
  else if !isEffectiveRevisionChange old new then .ok false new
  else match fetchMatchedRollout new rollouts with
    | none => .ok false new
    | some rollout =>
      if rollout.emptyRelease then .ok false new
      else
        let rss := getReplicaSetsForDeployment rssAll
        if rss.length == 0 then .ok false new
        else match hasTrafficRoutings rollout with
          | none => .panic
          | some ht =>
            if ht && rss.length != 1 then .ok false new
            else match findCanaryAndStableReplicaSet rss new with
              | none => .panic
              | some (_, stableRS) =>
                let o := match stableRS with
                  | none => new
                  | some s => { new with stableRev := s.hashLabel }
                .ok true { o with paused := true, inProgress := .rollout rollout.name }

/-! ### CloneSet -/

/-- `WorkloadHandler.handleCloneSet` -/
def handleCloneSet (new old : Obj) (rollouts : List Rollout) : HRes :=
  if new.replicas == some 0 then .ok false new
  else if !isEffectiveRevisionChange old new then .ok false new
  else match fetchMatchedRollout new rollouts with
    | none => .ok false new
    | some rollout =>
      if rollout.emptyRelease then .ok false new
      else match hasTrafficRoutings rollout with
        | none => .panic
        | some ht =>
          if ht && new.statusReplicas != new.statusUpdated then .ok false new
          else .ok true { new with csPartition := some (.pct 100), inProgress := .rollout rollout.name }

/-! ### DaemonSet -/

/-- what decoding into the typed `kruiseappsv1alpha1.DaemonSet` makes of
    `spec.updateStrategy`; `none` = decode error. -/
def decodeTypedUS : UpdStrat → Option UpdStrat
  | .absent => some (.present "" .absent)
  | .malformed => none
  | .present _ .malformed => none
  | .present t ru => some (.present t ru)

/-- `math.MaxInt16` -/
def maxInt16 : Int := 32767

/-- `WorkloadHandler.handleDaemonSet` (on the decoded object). -/
def handleDaemonSet (new old : Obj) (rollouts : List Rollout) : HRes :=
  if !isEffectiveRevisionChange old new then .ok false new
  else match fetchMatchedRollout new rollouts with
    | none => .ok false new
    | some rollout =>
      if rollout.emptyRelease then .ok false new
      else match new.us with
        | .present t (.present _) =>
          .ok true { new with us := .present t (.present (some maxInt16)), inProgress := .rollout rollout.name }
        | _ => .panic   -- newObj.Spec.UpdateStrategy.RollingUpdate == nil

/-! ### StatefulSet-like (unstructured) -/

/-- `util.GetReplicas` on unstructured: `spec.replicas`, 1 when absent. -/
def getReplicasUnstructured (o : Obj) : Int :=
  match o.replicas with
  | none => 1
  | some r => r

/-- `util.IsStatefulSetRollingUpdate` on unstructured -/
def isStatefulSetRollingUpdate (o : Obj) : Bool :=
  match o.us with
  | .absent => true                      -- NestedString: not found ⇒ ""
  | .malformed => false                  -- NestedString: error
  | .present t _ => t == "" || t == "RollingUpdate"

/-- `util.SetStatefulSetPartition` on unstructured -/
def setStatefulSetPartition (us : UpdStrat) (p : Int) : UpdStrat :=
  match us with
  | .present t _ => .present t (.present (some p))
  | _ => .present "RollingUpdate" (.present (some p))

/-- `UnifiedWorkloadHandler.handleStatefulSetLikeWorkload` -/
def handleStatefulSetLike (new old : Obj) (oldMetaPresent : Bool) (rollouts : List Rollout) : HRes :=
  if getReplicasUnstructured new == 0 || !isStatefulSetRollingUpdate new then .ok false new
  else if !old.tmplPresent || !new.tmplPresent then .ok false new
  else
    -- `oldMetadata.Annotations` is dereferenced only when the new rollout-id is non-empty
    if new.rolloutId != "" && !oldMetaPresent then .panic
    else if !isEffectiveRevisionChange old new then .ok false new
    else match fetchMatchedRollout new rollouts with
      | none => .ok false new
      | some rollout =>
        if rollout.emptyRelease then .ok false new
        else .ok true { new with us := setStatefulSetPartition new.us maxInt16,
                                 inProgress := .rollout rollout.name }

/-! ### Handle -/

/-- selector.Matches(labels) -/
def Sel.mts (s : Sel) (o : Obj) : Bool :=
  match s with
  | .nil => false
  | .everything => true
  | .invalid => false
  | .existsWorkloadType => o.workloadType != ""

/-- inner loop over the rules of one webhook: `some b` = `return b`, `none` = fall through. -/
def matchRulesOfWebhook (sel : Sel) (o : Obj) : List Bool → Option Bool
  | [] => none
  | m :: rest =>
    if m then
      if sel == .invalid then some false          -- LabelSelectorAsSelector error ⇒ return false, nil
      else if sel.mts o then some true
      else matchRulesOfWebhook sel o rest
    else matchRulesOfWebhook sel o rest

/-- the two nested loops of `checkWorkloadRules` -/
def matchWebhooks (o : Obj) : List WH → Bool
  | [] => false
  | wh :: rest =>
    match matchRulesOfWebhook wh.sel o wh.rules with
    | some b => b
    | none => matchWebhooks o rest

inductive Rules where
  | ok (meeting : Bool) | err | panic
  deriving DecidableEq, Repr

/-- `checkWorkloadRules` (identical in both handlers) -/
def checkWorkloadRules (rq : Req) : Rules :=
  match rq.cfg with
  | none => .err                          -- Client.Get fails
  | some whs =>
    if !rq.dryRunSet then .panic          -- constructAttr: *req.DryRun
    else .ok (matchWebhooks rq.new whs)

/-- `if !changed { Allowed } else { PatchResponseFromRaw(original, marshalled) }` -/
def finish : HRes → Res
  | .panic => .panic
  | .ok false _ => .allowed
  | .ok true o => .patched o

/-- the DaemonSet case of `WorkloadHandler.Handle`: decode new and old, then `handleDaemonSet` -/
def dispatchDaemonSet (rq : Req) : Res :=
  match decodeTypedUS rq.new.us, decodeTypedUS rq.old.us with
  | some us, some _ => finish (handleDaemonSet { rq.new with us := us } rq.old rq.rollouts)
  | _, _ => .errored               -- Decoder.Decode fails

/-- the `switch req.Kind.Group { … switch req.Kind.Kind { … } }` of `WorkloadHandler.Handle` -/
def dispatchWorkload (rq : Req) : Res :=
  if rq.new.group == "apps.kruise.io" then
    if rq.new.kind == "CloneSet" then
      finish (handleCloneSet rq.new rq.old rq.rollouts)
    else if rq.new.kind == "DaemonSet" then dispatchDaemonSet rq
    else .allowed
  else if rq.new.group == "apps" then
    if rq.new.kind == "Deployment" then
      finish (handleDeployment rq.new rq.old rq.rollouts rq.rss)
    else .allowed
  else .allowed

/-- `WorkloadHandler.Handle` -/
def handleWorkload (rq : Req) : Res :=
  if rq.op != "UPDATE" || rq.subResource != "" then .allowed
  else match checkWorkloadRules rq with
    | .err => .errored
    | .panic => .panic
    | .ok false => .allowed
    | .ok true => dispatchWorkload rq

/-- `util.IsWorkloadType(obj, StatefulSetType)` -/
def isStatefulSetType (o : Obj) : Bool := o.workloadType.toLower == "statefulset"

/-- the part of `UnifiedWorkloadHandler.Handle` after `checkWorkloadRules` -/
def dispatchUnified (rq : Req) : Res :=
  if rq.new.group == "apps.kruise.io" && (rq.new.kind == "CloneSet" || rq.new.kind == "DaemonSet") then .allowed
  else if rq.new.group == "apps" && rq.new.kind == "Deployment" then .allowed
  else if !isStatefulSetType rq.new && rq.new.kind != "StatefulSet" then .allowed
  else finish (handleStatefulSetLike rq.new rq.old rq.oldMetaPresent rq.rollouts)

/-- `UnifiedWorkloadHandler.Handle` -/
def handleUnified (rq : Req) : Res :=
  if rq.op != "UPDATE" || rq.subResource != "" then .allowed
  else match checkWorkloadRules rq with
    | .err => .errored
    | .panic => .panic
    | .ok false => .allowed
    | .ok true => dispatchUnified rq

/-- the handler the request is routed to -/
def handle (rq : Req) : Res :=
  if rq.unified then handleUnified rq else handleWorkload rq

/-! ### what the API server does with the response -/

/-- The request's fate: the object that is admitted, or a rejection. With
    `failurePolicy: Fail` (config/webhook/manifests.yaml, all five webhooks) both an
    `Errored` response and a handler panic reject the request. -/
inductive Outcome where
  | admitted (o : Obj)
  | rejected
  | panic
  deriving DecidableEq, Repr, Inhabited

def outcome (rq : Req) : Res → Outcome
  | .allowed => .admitted rq.new
  | .patched o => .admitted o
  | .errored => .rejected
  | .panic => .panic

end RV.Webhook
