/-
  What the Rollout controller sees of a workload: the ControllerFinder.
  Source: pkg/util/controller_finder.go   GetWorkloadForRef, getKruiseCloneSet, getKruiseDaemonSet,
            getAdvancedDeployment, getDeployment, getStatefulSetLikeWorkload, getLatestCanaryDeployment,
            GetReplicaSetsForDeployment, GetDeploymentStableRs, verifyGroupKind
          pkg/util/workloads_utils.go     GetEmptyWorkloadObject, IsSupportedWorkload, FindCanaryAndStableReplicaSet,
            EqualIgnoreHash (equality of abstract template ids), ComputeHash (abstract: the hash is a field)
          pkg/util/parse_utils.go         ParseWorkload, GetMetadata, GetTypeMeta, GetReplicas, ParseWorkloadStatus,
            parseReplicasFromUnstructured, parseStatusIntFromUnstructured, parseStatusStringFromUnstructured
          api/v1beta1/rollout_types.go    RolloutStrategy.GetRollingStyle
          k8s.io/apimachinery/pkg/runtime/schema   ParseGroupVersion, FromAPIVersionAndKind

  Every slice expression, pointer dereference and type assertion of the Go code is partial here and ends in
  the explicit outcome `.panic` — never in a defaulted value.

  Nil pointers: `*Spec.Replicas` is dereferenced without a check by getKruiseCloneSet, getAdvancedDeployment,
  getDeployment and (through GetReplicas) by getStatefulSetLikeWorkload for Deployment / CloneSet / StatefulSet /
  Advanced StatefulSet, and `*rs.Spec.Replicas` by FindCanaryAndStableReplicaSet.  The API server defaults
  `spec.replicas` of apps/v1 Deployment, ReplicaSet and StatefulSet to 1; for the Kruise kinds the default 1 comes
  from Kruise's mutating webhook (environment).  `admissible` in RV.Oracle.Finder records exactly this.
-/
namespace RV.Finder

/-! ### strings -/

/-- `strings.LastIndex(s, "-")`: index of the last `-`, −1 when there is none.  (Go indexes bytes, the model
    characters: `-` is ASCII and never part of a multi-byte sequence, so the cut is the same.) -/
def lastIndexDash : List Char → Int
  | [] => -1
  | c :: cs =>
    let r := lastIndexDash cs
    if 0 ≤ r then r + 1 else if c = '-' then 0 else -1

/-- Go's `s[i:]`; out of range is a run-time panic (`none`) -/
def sliceFrom (cs : List Char) (i : Int) : Option (List Char) :=
  if 0 ≤ i ∧ i ≤ cs.length then some (cs.drop i.toNat) else none

/-- `s[strings.LastIndex(s, "-")+1:]` -/
def revSuffix? (s : String) : Option String :=
  (sliceFrom s.toList (lastIndexDash s.toList + 1)).map String.ofList

/-- pieces of a string between `/` (`strings.Count(gv, "/")` = number of pieces − 1) -/
def splitSlash : List Char → List (List Char)
  | [] => [[]]
  | c :: cs =>
    match splitSlash cs with
    | [] => [[]]                      -- unreachable: `splitSlash` never returns `[]`
    | h :: t => if c = '/' then [] :: h :: t else (c :: h) :: t

structure GV where
  group : String
  version : String
  deriving Repr, DecidableEq, Inhabited

/-- `schema.ParseGroupVersion`; `none` = error (more than one `/`) -/
def parseGroupVersion (s : String) : Option GV :=
  if s = "" ∨ s = "/" then some ⟨"", ""⟩
  else match splitSlash s.toList with
    | [v] => some ⟨"", String.ofList v⟩
    | [g, v] => some ⟨String.ofList g, String.ofList v⟩
    | _ => none

structure GVK where
  group : String
  version : String
  kind : String
  deriving Repr, DecidableEq, Inhabited

/-- `schema.FromAPIVersionAndKind`: a malformed apiVersion yields the bare kind -/
def fromAPIVersionAndKind (apiVersion kind : String) : GVK :=
  match parseGroupVersion apiVersion with
  | some gv => ⟨gv.group, gv.version, kind⟩
  | none => ⟨"", "", kind⟩

/-! ### objects -/

/-- what the finder reads of `metav1.ObjectMeta` -/
structure Meta where
  ns : String
  name : String
  uid : String
  generation : Int
  /-- the annotation key `rollouts.kruise.io/in-progressing` is present (its value is never read) -/
  inProgress : Bool
  /-- `deletionTimestamp` is set -/
  deleting : Bool
  /-- `creationTimestamp` (seconds) -/
  created : Int
  deriving Repr, DecidableEq, Inhabited

structure CloneSet where
  m : Meta
  observedGeneration : Int
  replicas : Option Int            -- `*int32`
  currentRevision : String
  updateRevision : String
  updatedReplicas : Int
  statusReplicas : Int
  deriving Repr, DecidableEq, Inhabited

structure DaemonSet where
  m : Meta
  observedGeneration : Int
  daemonSetHash : String
  desired : Int                    -- status.desiredNumberScheduled
  updated : Int                    -- status.updatedNumberScheduled
  deriving Repr, DecidableEq, Inhabited

/-- `spec.selector` of a Deployment as `metav1.LabelSelectorAsSelector` sees it -/
inductive Sel where
  | nil                            -- no selector: matches nothing
  | invalid                        -- conversion error (unknown operator)
  | everything                     -- `{}`
  | app (v : String)               -- matchLabels {app: v}
  deriving Repr, DecidableEq, Inhabited

def Sel.mts : Sel → Option String → Bool
  | .nil, _ => false
  | .invalid, _ => false
  | .everything, _ => true
  | .app v, l => l == some v

structure Deployment where
  m : Meta
  observedGeneration : Int
  replicas : Option Int
  selector : Sel
  /-- identity of `spec.template` with the `pod-template-hash` label removed (`EqualIgnoreHash` = equality of ids) -/
  template : Nat
  /-- `ComputeHash(&spec.template, nil)` — abstract: any function of the template -/
  templateHash : String
  /-- label `rollouts.kruise.io/stable-revision` ("" when absent) -/
  stableLabel : String
  /-- label `rollouts.kruise.io/canary-deployment` -/
  canaryOf : Option String
  statusReplicas : Int
  updatedReplicas : Int
  deriving Repr, DecidableEq, Inhabited

structure ReplicaSet where
  m : Meta
  /-- label `app` -/
  app : Option String
  /-- label `pod-template-hash` ("" when absent) -/
  hashLabel : String
  /-- UID of the owner reference with `controller: true` -/
  owner : Option String
  replicas : Option Int
  template : Nat
  /-- `strconv.Atoi` of the annotation `deployment.kubernetes.io/revision` (`none` = error) -/
  revision : Option Int
  deriving Repr, DecidableEq, Inhabited

/-- apps/v1 StatefulSet and apps.kruise.io/v1beta1 StatefulSet (same fields read) -/
structure Sts where
  m : Meta
  observedGeneration : Int
  replicas : Option Int
  currentRevision : String
  updateRevision : String
  updatedReplicas : Int
  statusReplicas : Int
  deriving Repr, DecidableEq, Inhabited

/-- a field of an unstructured object: absent, present with another JSON type, present -/
inductive UF (α : Type) where
  | absent | wrongType | val (a : α)
  deriving Repr, DecidableEq, Inhabited

structure Unstr where
  gvk : GVK
  m : Meta
  specReplicas : UF Int
  observedGeneration : UF Int
  statusReplicas : UF Int
  updatedReplicas : UF Int
  updateRevision : UF String
  currentRevision : UF String
  deriving Repr, DecidableEq, Inhabited

structure Cluster where
  cloneSets : List CloneSet
  daemonSets : List DaemonSet
  deployments : List Deployment
  replicaSets : List ReplicaSet
  nativeSts : List Sts
  kruiseSts : List Sts
  unstructured : List Unstr
  /-- kinds whose `Get` fails with an error other than NotFound -/
  failGet : List String
  /-- `some k`: the k-th (from 0) and every later `List` of ReplicaSets in this call fails -/
  failListRS : Option Nat
  failListDeploy : Bool
  /-- `feature.NeedFilterWorkloadType()` (flag `filter-workload-type`, default true) -/
  filter : Bool
  deriving Repr, DecidableEq, Inhabited

structure Ref where
  apiVersion : String
  kind : String
  name : String
  deriving Repr, DecidableEq, Inhabited

/-- `spec.strategy`: which of the two blocks are present, and `canary.enableExtraWorkloadForCanary` -/
structure Strategy where
  blueGreen : Bool
  canary : Option Bool
  deriving Repr, DecidableEq, Inhabited

inductive Style where
  | canary | blueGreen | partition
  deriving Repr, DecidableEq, Inhabited

/-- `RolloutStrategy.GetRollingStyle`; `none` = nil dereference of `r.Canary` -/
def getRollingStyle (s : Strategy) : Option Style :=
  if s.blueGreen then some .blueGreen
  else match s.canary with
    | none => none
    | some true => some .canary
    | some false => some .partition

/-! ### the result -/

/-- `util.Workload` (of the copied ObjectMeta / TypeMeta: name, generation, kind) -/
structure W where
  name : String
  kind : String
  generation : Int
  replicas : Int
  stableRevision : String
  canaryRevision : String
  podTemplateHash : String
  revisionLabelKey : String
  isInRollback : Bool
  inRolloutProgressing : Bool
  isStatusConsistent : Bool
  deriving Repr, DecidableEq, Inhabited

/-- `&Workload{IsStatusConsistent: false}` -/
def W.opaque : W :=
  { name := "", kind := "", generation := 0, replicas := 0, stableRevision := "", canaryRevision := "",
    podTemplateHash := "", revisionLabelKey := "", isInRollback := false, inRolloutProgressing := false,
    isStatusConsistent := false }

/-- `(*Workload, error)` or a run-time panic -/
inductive Out where
  | nothing                 -- nil, nil
  | err                     -- nil, err
  | wl (w : W)              -- w, nil
  | wlErr (w : W)           -- w, err
  | panic
  deriving Repr, DecidableEq, Inhabited

def podTemplateHashKey : String := "pod-template-hash"                -- apps.DefaultDeploymentUniqueLabelKey
def controllerRevisionHashKey : String := "controller-revision-hash"  -- apps.ControllerRevisionHashLabelKey

/-! ### the API client -/

inductive GetR (α : Type) where
  | found (a : α) | notFound | err
  deriving Repr

def lookup {α : Type} (key : α → Meta) (l : List α) (ns name : String) : Option α :=
  l.find? fun o => (key o).ns == ns && (key o).name == name

/-- `r.Get(ctx, key, obj)` for the typed store `l` of kind `kind` -/
def Cluster.get {α : Type} (c : Cluster) (kind : String) (key : α → Meta) (l : List α) (ns name : String) : GetR α :=
  if c.failGet.contains kind then .err
  else match lookup key l ns name with
    | some o => .found o
    | none => .notFound

def Cluster.getCloneSet (c : Cluster) := c.get "CloneSet" CloneSet.m c.cloneSets
def Cluster.getDaemonSet (c : Cluster) := c.get "DaemonSet" DaemonSet.m c.daemonSets
def Cluster.getDeployment (c : Cluster) := c.get "Deployment" Deployment.m c.deployments
def Cluster.getReplicaSet (c : Cluster) := c.get "ReplicaSet" ReplicaSet.m c.replicaSets
def Cluster.getNativeSts (c : Cluster) := c.get "StatefulSet" Sts.m c.nativeSts
def Cluster.getKruiseSts (c : Cluster) := c.get "KruiseStatefulSet" Sts.m c.kruiseSts

/-- `Get` into an `unstructured.Unstructured` carrying `gvk`: the client refuses an object without a version or a kind -/
def Cluster.getUnstr (c : Cluster) (gvk : GVK) (ns name : String) : GetR Unstr :=
  if c.failGet.contains "Unstructured" then .err
  else if gvk.version = "" ∨ gvk.kind = "" then .err
  else match c.unstructured.find? (fun u => u.gvk == gvk && u.m.ns == ns && u.m.name == name) with
    | some u => .found u
    | none => .notFound

/-! ### verifyGroupKind -/

structure VGK where
  ok : Bool
  err : Bool
  deriving Repr, DecidableEq, Inhabited

/-- `verifyGroupKind`: group and kind decide, the version is ignored; a malformed apiVersion is an error
    (which every caller drops) -/
def verifyGroupKind (ref : Ref) (expectedKind : String) (expectedGroups : List String) : VGK :=
  match parseGroupVersion ref.apiVersion with
  | none => ⟨false, true⟩
  | some gv =>
    if ref.kind ≠ expectedKind then ⟨false, false⟩
    else if expectedGroups.contains gv.group then ⟨true, false⟩
    else ⟨false, false⟩

/-! ### sorting (`sort.Slice` on keys that are pairwise distinct under a strict order) -/

def insertBy {α : Type} (lt : α → α → Bool) (x : α) : List α → List α
  | [] => [x]
  | y :: ys => if lt x y then x :: y :: ys else y :: insertBy lt x ys

def sortBy {α : Type} (lt : α → α → Bool) : List α → List α
  | [] => []
  | x :: xs => insertBy lt x (sortBy lt xs)

/-! ### ReplicaSets of a Deployment -/

/-- the ReplicaSets `GetReplicaSetsForDeployment` keeps: in the namespace, selected, not in deletion, not scaled to an
    explicit 0, controlled by this Deployment's UID -/
def activeOwned (c : Cluster) (d : Deployment) : List ReplicaSet :=
  c.replicaSets.filter fun rs =>
    rs.m.ns == d.m.ns && d.selector.mts rs.app && !rs.m.deleting && !(rs.replicas == some 0) && rs.owner == some d.m.uid

/-- `GetReplicaSetsForDeployment`; `nth` = how many ReplicaSet lists this call of the finder issued before -/
def getReplicaSetsForDeployment (c : Cluster) (d : Deployment) (nth : Nat) : Except Unit (List ReplicaSet) :=
  match d.selector with
  | .invalid => .ok []                       -- `return nil, nil` on a selector error
  | _ =>
    match c.failListRS with
    | some k => if k ≤ nth then .error () else .ok (activeOwned c d)
    | none => .ok (activeOwned c d)

def createdBefore (a b : ReplicaSet) : Bool := a.m.created < b.m.created

/-- `GetDeploymentStableRs`: the first after sorting by creation time -/
def getDeploymentStableRs (c : Cluster) (d : Deployment) (nth : Nat) : Except Unit (Option ReplicaSet) :=
  match getReplicaSetsForDeployment c d nth with
  | .error e => .error e
  | .ok rss =>
    if rss.length = 0 then .ok none
    else .ok ((sortBy createdBefore rss)[0]?)        -- `rss[0]` (length > 0 was checked)

/-- the comparator of `FindCanaryAndStableReplicaSet` -/
def revLess (a b : ReplicaSet) : Bool :=
  match a.revision, b.revision with
  | some r1, some r2 => if r1 = r2 then a.m.created < b.m.created else r1 < r2
  | _, _ => a.m.created < b.m.created

/-- the loop of `FindCanaryAndStableReplicaSet`; `none` = nil dereference of `rs.Spec.Replicas` -/
def findLoop (d : Deployment) : List ReplicaSet → Option ReplicaSet × Option ReplicaSet → Option (Option ReplicaSet × Option ReplicaSet)
  | [], acc => some acc
  | rs :: rest, (newRS, oldRS) =>
    if rs.template = d.template then findLoop d rest (some rs, oldRS)
    else if oldRS.isNone then
      match rs.replicas with
      | none => none
      | some r => if r > 0 then findLoop d rest (newRS, some rs) else findLoop d rest (newRS, oldRS)
    else findLoop d rest (newRS, oldRS)

/-- `FindCanaryAndStableReplicaSet` → (newRS, oldRS) -/
def findCanaryAndStableReplicaSet (rss : List ReplicaSet) (d : Deployment) : Option (Option ReplicaSet × Option ReplicaSet) :=
  findLoop d (sortBy revLess rss) (none, none)

/-! ### canary Deployments -/

/-- Deployments labelled `rollouts.kruise.io/canary-deployment = <stable name>` in the stable's namespace -/
def canariesOf (c : Cluster) (stable : Deployment) : List Deployment :=
  c.deployments.filter fun d => d.m.ns == stable.m.ns && d.canaryOf == some stable.m.name

def createdAfter (a b : Deployment) : Bool := b.m.created < a.m.created

/-- `getLatestCanaryDeployment`: newest first, the first one not in deletion -/
def getLatestCanaryDeployment (c : Cluster) (stable : Deployment) : Except Unit (Option Deployment) :=
  if c.failListDeploy then .error ()
  else
    let items := canariesOf c stable
    if items.length = 0 then .ok none
    else .ok ((sortBy createdAfter items).find? fun d => !d.m.deleting)

/-! ### the five finders -/

/-- `getKruiseCloneSet` -/
def getKruiseCloneSet (c : Cluster) (ns : String) (ref : Ref) : Out :=
  if !(verifyGroupKind ref "CloneSet" ["apps.kruise.io"]).ok then .nothing
  else match c.getCloneSet ns ref.name with
    | .notFound => .nothing
    | .err => .err
    | .found cs =>
      if cs.m.generation ≠ cs.observedGeneration then .wl W.opaque
      else
        match revSuffix? cs.currentRevision, revSuffix? cs.updateRevision, cs.replicas with
        | some stable, some update, some replicas =>
          let w : W := { name := cs.m.name, kind := "CloneSet", generation := cs.m.generation, replicas := replicas,
                         stableRevision := stable, canaryRevision := update, podTemplateHash := update,
                         revisionLabelKey := podTemplateHashKey, isInRollback := false, inRolloutProgressing := false,
                         isStatusConsistent := true }
          if !cs.m.inProgress then .wl w
          else
            let w := { w with inRolloutProgressing := true }
            if cs.currentRevision = cs.updateRevision ∧ cs.updatedReplicas ≠ cs.statusReplicas then
              .wl { w with isInRollback := true }
            else .wl w
        | _, _, _ => .panic

/-- `getKruiseDaemonSet` (no stable revision, never a rollback) -/
def getKruiseDaemonSet (c : Cluster) (ns : String) (ref : Ref) : Out :=
  if !(verifyGroupKind ref "DaemonSet" ["apps.kruise.io"]).ok then .nothing
  else match c.getDaemonSet ns ref.name with
    | .notFound => .nothing
    | .err => .err
    | .found ds =>
      if ds.m.generation ≠ ds.observedGeneration then .wl W.opaque
      else
        match revSuffix? ds.daemonSetHash with
        | some h =>
          let w : W := { name := ds.m.name, kind := "DaemonSet", generation := ds.m.generation, replicas := ds.desired,
                         stableRevision := "", canaryRevision := h, podTemplateHash := h,
                         revisionLabelKey := podTemplateHashKey, isInRollback := false, inRolloutProgressing := false,
                         isStatusConsistent := true }
          if !ds.m.inProgress then .wl w
          else .wl { w with inRolloutProgressing := true }
        | none => .panic

/-- `getAdvancedDeployment` (partition / blue-green style) -/
def getAdvancedDeployment (c : Cluster) (ns : String) (ref : Ref) : Out :=
  if !(verifyGroupKind ref "Deployment" ["apps"]).ok then .nothing
  else match c.getDeployment ns ref.name with
    | .notFound => .nothing
    | .err => .err
    | .found d =>
      if d.m.generation ≠ d.observedGeneration then .wl W.opaque
      else
        match d.replicas with
        | none => .panic
        | some replicas =>
          let w : W := { name := d.m.name, kind := "Deployment", generation := d.m.generation, replicas := replicas,
                         stableRevision := d.stableLabel, canaryRevision := d.templateHash, podTemplateHash := "",
                         revisionLabelKey := podTemplateHashKey, isInRollback := false, inRolloutProgressing := false,
                         isStatusConsistent := true }
          if !d.m.inProgress then .wl w
          else
            match getReplicaSetsForDeployment c d 0 with
            | .error _ => .wlErr W.opaque
            | .ok rss =>
              match findCanaryAndStableReplicaSet rss d with
              | none => .panic
              | some (newRS, _) =>
                let w := match newRS with
                  | some rs => { w with podTemplateHash := rs.hashLabel }
                  | none => w
                let w := if w.stableRevision ≠ "" ∧ w.stableRevision = w.podTemplateHash then { w with isInRollback := true } else w
                .wl { w with inRolloutProgressing := true }

/-- `getDeployment` (canary style: stable Deployment, its ReplicaSets, the canary Deployments) -/
def getDeployment (c : Cluster) (ns : String) (ref : Ref) : Out :=
  if !(verifyGroupKind ref "Deployment" ["apps"]).ok then .nothing
  else match c.getDeployment ns ref.name with
    | .notFound => .nothing
    | .err => .err
    | .found stable =>
      if stable.m.generation ≠ stable.observedGeneration then .wl W.opaque
      else
        match getDeploymentStableRs c stable 0 with
        | .error _ => .wlErr W.opaque
        | .ok none => .wl W.opaque
        | .ok (some stableRs) =>
          match stable.replicas with
          | none => .panic
          | some replicas =>
            let w : W := { name := stable.m.name, kind := "Deployment", generation := stable.m.generation, replicas := replicas,
                           stableRevision := stableRs.hashLabel, canaryRevision := stable.templateHash, podTemplateHash := "",
                           revisionLabelKey := podTemplateHashKey, isInRollback := false, inRolloutProgressing := false,
                           isStatusConsistent := true }
            if !stable.m.inProgress then .wl w
            else
              let w := { w with inRolloutProgressing := true }
              if stableRs.template = stable.template then .wl { w with isInRollback := true }
              else
                match getLatestCanaryDeployment c stable with
                | .error _ => .wlErr w
                | .ok none => .wl w
                | .ok (some canary) =>
                  match getDeploymentStableRs c canary 1 with
                  | .error _ => .wlErr w
                  | .ok none => .wl w
                  | .ok (some canaryRs) => .wl { w with podTemplateHash := canaryRs.hashLabel }

/-! ### the StatefulSet-like finder -/

/-- `knownWorkloadGVKs` (group, kind; the loop of `IsSupportedWorkload` ignores the version) -/
def knownWorkloadGVKs : List (String × String) :=
  [("apps", "ReplicaSet"), ("apps", "Deployment"), ("apps", "StatefulSet"), ("apps.kruise.io", "CloneSet"),
   ("apps.kruise.io", "StatefulSet"), ("apps.kruise.io", "StatefulSet"), ("apps.kruise.io", "DaemonSet")]

/-- `IsSupportedWorkload`: group and kind of the known workloads, unless the filter is off -/
def isSupportedWorkload (filter : Bool) (gvk : GVK) : Bool :=
  !filter || knownWorkloadGVKs.any fun known => gvk.group == known.1 && gvk.kind == known.2

/-- the empty object `GetEmptyWorkloadObject` hands to `Get` -/
inductive Empty where
  | replicaSet | daemonSet | deployment | cloneSet | statefulSet | kruiseSts
  | unstructured (gvk : GVK)
  deriving Repr, DecidableEq, Inhabited

/-- `GetEmptyWorkloadObject`: here the *version* matters (exact GVK); anything else is unstructured -/
def getEmptyWorkloadObject (filter : Bool) (gvk : GVK) : Option Empty :=
  if !isSupportedWorkload filter gvk then none
  else if gvk = ⟨"apps", "v1", "ReplicaSet"⟩ then some .replicaSet
  else if gvk = ⟨"apps.kruise.io", "v1alpha1", "DaemonSet"⟩ then some .daemonSet
  else if gvk = ⟨"apps", "v1", "Deployment"⟩ then some .deployment
  else if gvk = ⟨"apps.kruise.io", "v1alpha1", "CloneSet"⟩ then some .cloneSet
  else if gvk = ⟨"apps", "v1", "StatefulSet"⟩ then some .statefulSet
  else if gvk = ⟨"apps.kruise.io", "v1beta1", "StatefulSet"⟩ ∨ gvk = ⟨"apps.kruise.io", "v1alpha1", "StatefulSet"⟩ then some .kruiseSts
  else some (.unstructured gvk)

/-- `WorkloadInfo` as far as the finder reads it -/
structure Info where
  name : String
  kind : String
  generation : Int
  observedGeneration : Int
  replicas : Int
  inProgress : Bool
  updateRevision : String
  stableRevision : String
  updatedReplicas : Int
  statusReplicas : Int
  deriving Repr, DecidableEq, Inhabited

def UF.intOr (d : Int) : UF Int → Int
  | .val v => v
  | _ => d

/-- `parseStatusStringFromUnstructured`: a present field of another JSON type (number, bool, object — a custom resource
    whose CRD does not pin the type) is treated as absent: `if s, ok := value.(string); ok { return s }; return ""` -/
def UF.strOr : UF String → String
  | .absent => ""
  | .val s => s
  | .wrongType => ""

def stsInfo (kind : String) (s : Sts) : Option Info :=
  match s.replicas with
  | none => none                                  -- GetReplicas: `*o.Spec.Replicas`
  | some r => some { name := s.m.name, kind := kind, generation := s.m.generation, observedGeneration := s.observedGeneration,
                     replicas := r, inProgress := s.m.inProgress, updateRevision := s.updateRevision,
                     stableRevision := s.currentRevision, updatedReplicas := s.updatedReplicas, statusReplicas := s.statusReplicas }

/-- `ParseWorkload` by dynamic type; `none` = panic (nil replicas) -/
def parseCloneSet (cs : CloneSet) : Option Info :=
  match cs.replicas with
  | none => none
  | some r => some { name := cs.m.name, kind := "CloneSet", generation := cs.m.generation, observedGeneration := cs.observedGeneration,
                     replicas := r, inProgress := cs.m.inProgress, updateRevision := cs.updateRevision,
                     stableRevision := cs.currentRevision, updatedReplicas := cs.updatedReplicas, statusReplicas := cs.statusReplicas }

def parseDeployment (d : Deployment) : Option Info :=
  match d.replicas with
  | none => none
  | some r => some { name := d.m.name, kind := "Deployment", generation := d.m.generation, observedGeneration := d.observedGeneration,
                     replicas := r, inProgress := d.m.inProgress, updateRevision := d.templateHash,
                     stableRevision := "", updatedReplicas := d.updatedReplicas, statusReplicas := d.statusReplicas }

def parseDaemonSet (ds : DaemonSet) : Option Info :=
  some { name := ds.m.name, kind := "DaemonSet", generation := ds.m.generation, observedGeneration := ds.observedGeneration,
         replicas := ds.desired, inProgress := ds.m.inProgress, updateRevision := ds.daemonSetHash,
         stableRevision := "", updatedReplicas := ds.updated, statusReplicas := ds.desired }

/-- `ParseWorkload` of an unstructured object never panics: every field has a default -/
def parseUnstr (u : Unstr) : Option Info :=
  some { name := u.m.name, kind := u.gvk.kind, generation := u.m.generation, observedGeneration := u.observedGeneration.intOr 0,
         replicas := u.specReplicas.intOr 1, inProgress := u.m.inProgress, updateRevision := u.updateRevision.strOr,
         stableRevision := u.currentRevision.strOr, updatedReplicas := u.updatedReplicas.intOr 0,
         statusReplicas := u.statusReplicas.intOr 0 }

/-- the part of `getStatefulSetLikeWorkload` after `ParseWorkload` -/
def stsLikeOf (i : Info) : Out :=
  if i.generation ≠ i.observedGeneration then .wl W.opaque
  else
    let w : W := { name := i.name, kind := i.kind, generation := i.generation, replicas := i.replicas,
                   stableRevision := i.stableRevision, canaryRevision := i.updateRevision, podTemplateHash := i.updateRevision,
                   revisionLabelKey := controllerRevisionHashKey, isInRollback := false, inRolloutProgressing := false,
                   isStatusConsistent := true }
    if !i.inProgress then .wl w
    else
      let w := { w with inRolloutProgressing := true }
      if i.updateRevision = i.stableRevision ∧ i.updatedReplicas ≠ i.statusReplicas then .wl { w with isInRollback := true }
      else .wl w

def afterGet {α : Type} (g : GetR α) (parse : α → Option Info) : Out :=
  match g with
  | .notFound => .nothing
  | .err => .err
  | .found o =>
    match parse o with
    | none => .panic
    | some i => stsLikeOf i

/-- `getStatefulSetLikeWorkload` -/
def getStatefulSetLikeWorkload (c : Cluster) (ns : String) (ref : Ref) : Out :=
  match getEmptyWorkloadObject c.filter (fromAPIVersionAndKind ref.apiVersion ref.kind) with
  | none => .nothing
  | some .replicaSet => .nothing     -- a ReplicaSet is a known GVK only for owner chains, not a workload (no Get)
  | some .daemonSet => afterGet (c.getDaemonSet ns ref.name) parseDaemonSet
  | some .deployment => afterGet (c.getDeployment ns ref.name) parseDeployment
  | some .cloneSet => afterGet (c.getCloneSet ns ref.name) parseCloneSet
  | some .statefulSet => afterGet (c.getNativeSts ns ref.name) (stsInfo "StatefulSet")
  | some .kruiseSts => afterGet (c.getKruiseSts ns ref.name) (stsInfo "StatefulSet")
  | some (.unstructured gvk) => afterGet (c.getUnstr gvk ns ref.name) parseUnstr

/-! ### GetWorkloadForRef -/

inductive FinderId where
  | deployment | cloneSet | advancedDeployment | stsLike | daemonSet
  deriving Repr, DecidableEq, Inhabited

def runFinder (c : Cluster) (ns : String) (ref : Ref) : FinderId → Out
  | .deployment => getDeployment c ns ref
  | .cloneSet => getKruiseCloneSet c ns ref
  | .advancedDeployment => getAdvancedDeployment c ns ref
  | .stsLike => getStatefulSetLikeWorkload c ns ref
  | .daemonSet => getKruiseDaemonSet c ns ref

/-- `canaryStyleFinders`, `partitionStyleFinders`, `bluegreenStyleFinders` -/
def partitionStyleFinders : List FinderId := [.cloneSet, .advancedDeployment, .stsLike, .daemonSet]
def finders : Style → List FinderId
  | .canary => [.deployment] ++ partitionStyleFinders
  | .blueGreen => [.cloneSet, .advancedDeployment]
  | .partition => partitionStyleFinders

/-- the loop `if workload != nil || err != nil { return }` -/
def firstHit : List Out → Out
  | [] => .nothing
  | .nothing :: rest => firstHit rest
  | o :: _ => o

/-- `GetWorkloadForRef` -/
def getWorkloadForRef (c : Cluster) (s : Strategy) (ns : String) (ref : Ref) : Out :=
  match getRollingStyle s with
  | none => .panic
  | some st => firstHit ((finders st).map (runFinder c ns ref))

end RV.Finder
