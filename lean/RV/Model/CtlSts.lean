/-
  The partition-style **StatefulSet-like** and **Advanced DaemonSet** control planes of the
  BatchRelease controller, together with the branches of the workload webhook they round-trip through.

  Source:
    pkg/controller/batchrelease/control/partitionstyle/control_plane.go
        realBatchControlPlane.Initialize, UpgradeBatch, Finalize, markNoNeedUpdatePodsIfNeeds
    pkg/controller/batchrelease/control/partitionstyle/statefulset/control.go
        realController.BuildController, Initialize, UpgradeBatch, Finalize, CalculateBatchContext
    pkg/controller/batchrelease/control/partitionstyle/daemonset/control.go
        realController.BuildController, Initialize, UpgradeBatch, Finalize, CalculateBatchContext
    pkg/controller/batchrelease/control/util.go     IsControlledByBatchRelease, CalculateBatchReplicas (RV.Arith)
    pkg/util/parse_utils.go                         ParseWorkload / GetReplicas, GetStatefulSetPartition,
                                                    SetStatefulSetPartition, IsStatefulSetUnorderedUpdate
                                                    (typed native / typed advanced / unstructured branches)
    pkg/util/workloads_utils.go                     GetEmptyWorkloadObject (typed vs. unstructured), IsOwnedBy
    pkg/util/pod_utils.go                           ListOwnedPods, IsCompletedPod, WrappedPodCount,
                                                    IsConsistentWithRevision, IsPodReady
    pkg/controller/batchrelease/control/partitionstyle/control_plane.go
        realBatchControlPlane.EnsureBatchPodsReadyAndLabeled        (section "the pods behind updatedReadyReplicas")
    pkg/webhook/workload/mutating/unified_update_handler.go   handleStatefulSetLikeWorkload   (RV.Webhook)
    pkg/webhook/workload/mutating/workload_update_handler.go  handleDaemonSet                 (RV.Webhook)

  `CalculateBatchContext` of both controls is `RV.BatchCtx.desKnob` for the kinds
  `stsOrdered` / `stsUnordered` / `daemonSet` (validated by suite `batchctx`); it is reused here.

  Scope of the model: rollout-id empty (no pod label patching; that is C12's subject), one API fault per
  call (the Get of the workload fails, the List of its pods fails, or the write fails).  The effect of a
  patch is the JSON-merge-patch semantics (RFC 7386) on the modelled fields, followed — for the typed
  kinds — by decoding into the Go type (unknown fields dropped, `omitempty` booleans).
-/
import RV.Model.Arith
import RV.Model.Webhook
import RV.Model.BatchCtx
namespace RV.CtlSts
open RV.Arith IntOrPct RV.Webhook

/-- which Go representation `util.GetEmptyWorkloadObject` picks for the workload -/
inductive Kind where
  | native        -- apps/v1 StatefulSet (typed)
  | advanced      -- apps.kruise.io/v1beta1 StatefulSet (typed)
  | unstructured  -- any other StatefulSet-like workload (`unstructured.Unstructured`)
  | daemonSet     -- apps.kruise.io/v1alpha1 DaemonSet (typed)
  deriving Repr, DecidableEq, Inhabited

/-- annotation `batchrelease.rollouts.kruise.io/control-info`: absent / names this BatchRelease /
    any other non-empty value -/
inductive Owner where
  | none | this | other
  deriving Repr, DecidableEq, Inhabited

/-- `spec.updateStrategy.rollingUpdate.partition` -/
inductive PartV where
  | absent
  | int (n : Int)
  | malformed          -- present but not an integer (null, string, float): unstructured only
  deriving Repr, DecidableEq, Inhabited

/-- `spec.updateStrategy.rollingUpdate` -/
inductive RUB where
  | absent
  | malformed          -- present but not a JSON object (e.g. null): unstructured only
  | present (partition : PartV) (paused : Option Bool) (unordered : Bool)
  deriving Repr, DecidableEq, Inhabited

/-- `spec.updateStrategy` -/
inductive US where
  | absent             -- unstructured only (typed structs always marshal the block)
  | malformed          -- present but not a JSON object: unstructured only
  | present (type : String) (ru : RUB)
  deriving Repr, DecidableEq, Inhabited

/-- the workload as the control plane and the webhook see it -/
structure Wl where
  kind : Kind
  /-- `spec.replicas` (`none`: nil pointer / absent); for a DaemonSet `status.desiredNumberScheduled` -/
  replicas : Option Int
  us : US
  control : Owner
  /-- annotation `rollouts.kruise.io/in-progressing` present -/
  inProgress : Bool
  /-- pod template identity -/
  tmpl : Nat
  /-- `spec.template` present (unstructured only; typed structs always carry one) -/
  tmplPresent : Bool
  /-- `status.updatedReadyReplicas` (unstructured only: decides whether the pods are listed) -/
  updatedReady : Int
  /-- everything else of the object (0 on input; the harness reports 1 when anything unmodelled changed) -/
  rest : Nat
  deriving Repr, DecidableEq, Inhabited

/-- the BatchRelease fields the three calls read (rollout-id is empty) -/
structure Rel where
  batches : List IntOrPct
  /-- annotation `rollouts.kruise.io/rollback-in-batch` non-empty -/
  rollbackAnno : Bool
  /-- `status.canaryStatus.updatedReplicas` -/
  updated : Int
  /-- `status.canaryStatus.noNeedUpdateReplicas` -/
  noNeedUpdate : Option Int
  /-- `spec.releasePlan.failureThreshold` (read by the readiness verdict only) -/
  failureThreshold : Option IntOrPct := none
  deriving Repr, DecidableEq, Inhabited

inductive Fault where
  | none | get | list | write
  deriving Repr, DecidableEq, Inhabited

inductive Res where
  | ok
  | err
  /-- the admission handler panicked: with `failurePolicy: Fail` the update is rejected -/
  | rejected
  deriving Repr, DecidableEq, Inhabited

inductive Out (α : Type) where
  | val (a : α)
  | panic
  deriving Repr, DecidableEq

/-- what `Initialize` records into the new status -/
structure InitObs where
  observedReplicas : Int
  noNeedUpdate : Option Int
  deriving Repr, DecidableEq, Inhabited

/-- outcome of one call: result, the workload afterwards, number of mutating API calls issued -/
structure StepOut where
  res : Res
  wl : Option Wl
  writes : Nat
  obs : Option InitObs
  deriving Repr, DecidableEq, Inhabited

/-! ### reading the object -/

/-- `util.GetReplicas`: typed `*o.Spec.Replicas` (`none` = nil dereference), unstructured
    `parseReplicasFromUnstructured` (1 when absent), DaemonSet `Status.DesiredNumberScheduled` -/
def replicasOf (w : Wl) : Option Int :=
  match w.kind, w.replicas with
  | .unstructured, none => some 1
  | _, r => r

/-- `util.GetStatefulSetPartition` (all three branches) and the DaemonSet control's
    `currentPartition`: the integer partition of a present block, else 0 -/
def currentPartition : US → Int
  | .present _ (.present (.int n) _ _) => n
  | _ => 0

/-- `util.IsStatefulSetUnorderedUpdate` -/
def isUnordered (k : Kind) (us : US) : Bool :=
  match k with
  | .native => false
  | .daemonSet => false
  | _ =>
    match us with
    | .present _ (.present _ _ un) => un
    | _ => false

/-- `spec.updateStrategy.rollingUpdate` is a block (`RollingUpdate != nil` of the typed DaemonSet) -/
def hasRU : US → Bool
  | .present _ (.present _ _ _) => true
  | _ => false

/-- the kind `CalculateBatchContext` computes for -/
def bkind (w : Wl) : RV.BatchCtx.Kind :=
  match w.kind with
  | .daemonSet => .daemonSet
  | _ => if isUnordered w.kind w.us then .stsUnordered else .stsOrdered

/-- `rc.WorkloadInfo.Status.UpdatedReadyReplicas <= 0`: only the unstructured form carries the counter -/
def needsList (w : Wl) : Bool :=
  match w.kind with
  | .unstructured => decide (w.updatedReady ≤ 0)
  | _ => true

/-- `realController.BuildController` (+ `util.ParseWorkload`, `ListOwnedPods`) -/
inductive Build where
  | ok (w : Wl) (replicas : Int)
  | notFound
  | err
  | panic
  deriving Repr

def build (d : Option Wl) (f : Fault) : Build :=
  if f = .get then .err else
  match d with
  | none => .notFound
  | some w =>
    match replicasOf w with
    | none => .panic          -- `*o.Spec.Replicas`
    | some r => if needsList w ∧ f = .list then .err else .ok w r

/-! ### writing the object -/

/-- JSON merge patch `{"spec":{"updateStrategy":{"rollingUpdate":{"partition":p[,"paused":b]}}}}`
    (`p = .absent` is `"partition":null`): a block that is absent, null or not an object is replaced by
    the patch's (nulls pruned); otherwise the keys of the patch win -/
def mergeRU (us : US) (p : PartV) (paused : Option Bool) : US :=
  match us with
  | .present t (.present _ pa un) =>
    .present t (.present p (match paused with
                            | some b => some b
                            | none => pa) un)
  | .present t _ => .present t (.present p paused false)
  | _ => .present "" (.present p paused false)

/-- decoding the patched JSON into the Go type: apps/v1 has neither `paused` nor `unorderedUpdate`;
    kruise v1beta1 `Paused bool` is `omitempty`; the DaemonSet's `Paused *bool` and the unstructured
    form keep what was written -/
def normUS (k : Kind) (us : US) : US :=
  match k, us with
  | .native, .present t (.present p _ _) => .present t (.present p none false)
  | .advanced, .present t (.present p pa un) => .present t (.present p (if pa = some true then some true else none) un)
  | _, us => us

/-- `math.MaxInt16` is `RV.Webhook.maxInt16` -/
def initPartition (w : Wl) (r : Int) : Int :=
  match w.kind with
  | .daemonSet => r
  | _ => maxInt16

/-- `realController.Initialize` (both controls): `none` = returns without a write -/
def ctrlInitialize (w : Wl) (r : Int) : Option Wl :=
  if w.control = .this then none   -- control.IsControlledByBatchRelease
  else some { w with control := .this,
                     us := normUS w.kind (mergeRU w.us (.int (initPartition w r)) (some false)) }

/-- `markNoNeedUpdatePodsIfNeeds` with an empty rollout-id; without the rollback annotation the new status keeps
    what the old one recorded -/
def noNeedUpdate (rel : Rel) : Option Int :=
  if rel.rollbackAnno then some rel.updated else rel.noNeedUpdate

/-- a call that issues at most one write: `w' = none` → ok without write -/
def commit (w : Wl) (w' : Option Wl) (f : Fault) (obs : Option InitObs) : StepOut :=
  match w' with
  | none => { res := .ok, wl := some w, writes := 0, obs := obs }
  | some w' =>
    if f = .write then { res := .err, wl := some w, writes := 1, obs := none }
    else { res := .ok, wl := some w', writes := 1, obs := obs }

/-- `realBatchControlPlane.Initialize` -/
def planeInitialize (rel : Rel) (d : Option Wl) (f : Fault) : Out StepOut :=
  match build d f with
  | .panic => .panic
  | .err | .notFound => .val { res := .err, wl := d, writes := 0, obs := none }
  | .ok w r =>
    .val (commit w (ctrlInitialize w r) f (some { observedReplicas := r, noNeedUpdate := noNeedUpdate rel }))

/-- `DesiredPartition.IntVal` of `CalculateBatchContext` -/
def desiredPartition (w : Wl) (r : Int) (e : IntOrPct) (nn : Option Int) : Int :=
  RV.BatchCtx.intVal (RV.BatchCtx.desKnob (bkind w) r e nn)

/-- `realController.UpgradeBatch` (both controls) on the context of plan entry `e` -/
def ctrlUpgradeBatch (w : Wl) (r : Int) (e : IntOrPct) (nn : Option Int) : Option Wl :=
  let desired := desiredPartition w r e nn
  let current := currentPartition w.us
  if current ≤ desired then none
  else some { w with us := normUS w.kind (mergeRU w.us (.int desired) none) }

/-- `realBatchControlPlane.UpgradeBatch`; `batch` = `status.canaryStatus.currentBatch` -/
def planeUpgradeBatch (rel : Rel) (batch : Int) (d : Option Wl) (f : Fault) : Out StepOut :=
  match build d f with
  | .panic => .panic
  | .err | .notFound => .val { res := .err, wl := d, writes := 0, obs := none }
  | .ok w r =>
    if r = 0 then .val { res := .ok, wl := some w, writes := 0, obs := none } else
    -- CalculateBatchContext: `Batches[currentBatch]`
    if batch < 0 then .panic else
    match rel.batches[batch.toNat]? with
    | none => .panic
    | some e =>
      -- daemonset (fixed code): `RollingUpdate != nil && RollingUpdate.Partition != nil`, else the current
      -- partition is 0 — which is `currentPartition` of a strategy without the block
      .val (commit w (ctrlUpgradeBatch w r e rel.noNeedUpdate) f none)

/-- the `paused` key of a complete `Finalize`: the DaemonSet control writes `"paused":false`, the StatefulSet one none -/
def finPaused (k : Kind) : Option Bool :=
  match k with
  | .daemonSet => some false
  | _ => none

/-- `realController.Finalize` (both controls): the patch is issued unconditionally;
    `bpNil` = `release.Spec.ReleasePlan.BatchPartition == nil` -/
def ctrlFinalize (w : Wl) (bpNil : Bool) : Wl :=
  let w1 :=
    if bpNil then { w with us := normUS w.kind (mergeRU w.us .absent (finPaused w.kind)) }
    else w
  { w1 with control := .none }

/-- `realBatchControlPlane.Finalize` -/
def planeFinalize (bpNil : Bool) (d : Option Wl) (f : Fault) : Out StepOut :=
  match build d f with
  | .panic => .panic
  | .notFound => .val { res := .ok, wl := d, writes := 0, obs := none }   -- client.IgnoreNotFound
  | .err => .val { res := .err, wl := d, writes := 0, obs := none }
  | .ok w _ => .val (commit w (some (ctrlFinalize w bpNil)) f none)

/-! ### the webhook step -/

/-- a user's update of the workload -/
structure Edit where
  tmpl : Option Nat
  /-- `spec.replicas` (ignored for a DaemonSet: its size is a status field) -/
  replicas : Option Int
  /-- the user (re-)submits `spec.updateStrategy` -/
  us : Option US
  deriving Repr, DecidableEq, Inhabited

def Edit.none : Edit := { tmpl := .none, replicas := .none, us := .none }

/-- what else is in the cluster when the webhook runs -/
structure World where
  /-- a Rollout (canary strategy) references the workload -/
  matched : Bool
  deriving Repr, DecidableEq, Inhabited

def applyEdit (d : Wl) (e : Edit) : Wl :=
  let d := match e.tmpl with
    | some t => { d with tmpl := t, tmplPresent := true }
    | none => d
  let d := match e.replicas with
    | some r => if d.kind = .daemonSet then d else { d with replicas := some r }
    | none => d
  match e.us with
  | some u => { d with us := normUS d.kind u }
  | none => d

def groupOf : Kind → String
  | .native => "apps"
  | .advanced | .daemonSet => "apps.kruise.io"
  | .unstructured => "apps.example.io"

def kindName : Kind → String
  | .daemonSet => "DaemonSet"
  | .unstructured => "GameStatefulSet"
  | _ => "StatefulSet"

def apiVersionOf : Kind → String
  | .native => "apps/v1"
  | .advanced => "apps.kruise.io/v1beta1"
  | .daemonSet => "apps.kruise.io/v1alpha1"
  | .unstructured => "apps.example.io/v1"

/-- the webhook model's view of `spec.updateStrategy` -/
def toUS : US → UpdStrat
  | .absent => .absent
  | .malformed => .malformed
  | .present t .absent => .present t .absent
  | .present t .malformed => .present t .malformed
  | .present t (.present (.int n) _ _) => .present t (.present (some n))
  | .present t (.present _ _ _) => .present t (.present none)

def toObj (w : Wl) : Obj :=
  { group := groupOf w.kind, kind := kindName w.kind, name := "wl", workloadType := "", replicas := w.replicas,
    rolloutId := "", tmplPresent := w.tmplPresent, tmpl := { body := w.tmpl, hash := "" },
    inProgress := if w.inProgress then .rollout "ro" else .absent,
    paused := false, stratType := "", stratRU := none, stratAnno := .absent,
    hasOrigStrategy := false, stableRev := "", csPartition := none, statusReplicas := 0,
    statusUpdated := 0, us := toUS w.us, rest := 0 }

def worldRollouts (w : World) (k : Kind) : List Rollout :=
  if w.matched then
    [{ name := "ro", deleting := false, phaseDisabled := false, refApiVersion := apiVersionOf k,
       refKind := kindName k, refName := "wl", emptyRelease := false, hasTraffic := false }]
  else []

/-- `util.SetStatefulSetPartition` (typed and unstructured branches) and the DaemonSet handler's
    `RollingUpdate.Partition = &p`, on the full block: the other keys of a present block stay -/
def setPartition (us : US) (p : Int) : US :=
  match us with
  | .present t (.present _ pa un) => .present t (.present (.int p) pa un)
  | .present t _ => .present t (.present (.int p) none false)
  | _ => .present "RollingUpdate" (.present (.int p) none false)

/-- the decision of the admission handler for the kind (`RV.Webhook`) -/
def webhookDecision (w : World) (d new : Wl) : HRes :=
  match d.kind with
  | .daemonSet => handleDaemonSet (toObj new) (toObj d) (worldRollouts w d.kind)
  | _ => handleStatefulSetLike (toObj new) (toObj d) true (worldRollouts w d.kind)

/-- a user's update passing `UnifiedWorkloadHandler.handleStatefulSetLikeWorkload` resp.
    `WorkloadHandler.handleDaemonSet` (old = the stored object); `none` = the handler panics -/
def submit (w : World) (d : Wl) (e : Edit) : Option Wl :=
  let new := applyEdit d e
  match webhookDecision w d new with
  | .panic => none
  | .ok false _ => some new
  | .ok true _ => some { new with us := setPartition new.us maxInt16, inProgress := true }

/-! ### walks -/

inductive Call where
  | initialize | upgradeBatch | finalize | submit
  deriving Repr, DecidableEq, Inhabited

structure Step where
  call : Call
  fault : Fault
  batch : Int
  bpNil : Bool
  edit : Edit
  deriving Repr, DecidableEq, Inhabited

structure Cfg where
  rel : Rel
  world : World
  deriving Repr, Inhabited

/-- one step of a walk -/
def step (c : Cfg) (d : Option Wl) (s : Step) : Out StepOut :=
  match s.call with
  | .initialize => planeInitialize c.rel d s.fault
  | .upgradeBatch => planeUpgradeBatch c.rel s.batch d s.fault
  | .finalize => planeFinalize s.bpNil d s.fault
  | .submit =>
    match d with
    | none => .val { res := .err, wl := none, writes := 0, obs := none }
    | some d =>
      match submit c.world d s.edit with
      | none => .val { res := .rejected, wl := some d, writes := 0, obs := none }
      | some d' => .val { res := .ok, wl := some d', writes := 0, obs := none }

/-- the per-step outcomes of a walk; a panic of the controller ends it -/
def run (c : Cfg) (d : Option Wl) : List Step → List (Out StepOut)
  | [] => []
  | s :: ss =>
    match step c d s with
    | .panic => [.panic]
    | .val o => .val o :: run c o.wl ss

/-- the outcomes of a list of step results up to the first panic -/
def valsOf : List (Out StepOut) → List StepOut
  | .val o :: os => o :: valsOf os
  | _ => []

/-- the outcomes of a walk up to the first panic of the controller -/
def runV (c : Cfg) (d : Option Wl) : List Step → List StepOut
  | [] => []
  | s :: ss =>
    match step c d s with
    | .panic => []
    | .val o => o :: runV c o.wl ss

/-! ### the pods behind `updatedReadyReplicas`

  Neither the StatefulSets nor the Advanced DaemonSet report `status.updatedReadyReplicas`; an unstructured
  StatefulSet-like workload may.  `realController.BuildController` (both controls) therefore **lists the
  workload's pods and counts** whenever the status counter is `≤ 0`; the count feeds
  `CalculateBatchContext` → `BatchContext.IsBatchReady` → the BatchRelease's `Ready` state. -/

/-- `metav1.GetControllerOf(pod)` and what `util.IsOwnedBy` finds behind it -/
inductive PodOwner where
  /-- no owner reference with `controller: true` (none at all, or a plain reference) -/
  | none
  /-- the controller reference carries the workload's UID -/
  | this
  /-- another UID: `IsOwnedBy` fetches the named owner and asks again; `viaOwned` = that object exists and its
      own controller reference carries the workload's UID (an object that is missing, of a stale UID, or owned
      by somebody else is `false`) -/
  | other (viaOwned : Bool)
  deriving Repr, DecidableEq, Inhabited

/-- a pod of the cluster, as `ListOwnedPods` and the counting filter read it -/
structure Pod where
  /-- in the workload's namespace (`ListOptions.Namespace`) -/
  inNamespace : Bool
  /-- its labels match the workload's `spec.selector` (`ListOptions.LabelSelector`) -/
  selMatch : Bool
  /-- `status.phase` -/
  phase : String
  owner : PodOwner
  /-- `metadata.deletionTimestamp` is set (`!DeletionTimestamp.IsZero()`) -/
  terminating : Bool
  /-- label `pod-template-hash` (`""`: absent) -/
  hashLabel : String
  /-- label `controller-revision-hash` (`""`: absent) -/
  revLabel : String
  /-- `status.conditions` as (type, status) -/
  conds : List (String × String)
  deriving Repr, DecidableEq, Inhabited

/-- the status fields of the workload read on the way to the verdict -/
structure WlStatus where
  /-- `status.updateRevision` (DaemonSet: `status.daemonSetHash`) -/
  updateRevision : String
  /-- `status.updatedReplicas` (DaemonSet: `status.updatedNumberScheduled`) -/
  updated : Int
  /-- `status.readyReplicas` (DaemonSet: `status.numberReady`) — parsed, but read by nothing modelled here -/
  ready : Int
  deriving Repr, DecidableEq, Inhabited

/-- what the cluster holds besides the workload's spec -/
structure Cluster where
  status : WlStatus
  pods : List Pod
  deriving Repr, DecidableEq, Inhabited

/-- `util.IsCompletedPod` -/
def isCompleted (p : Pod) : Bool := p.phase == "Failed" || p.phase == "Succeeded"

/-- `util.IsOwnedBy(c, pod, workload)` -/
def isOwned : PodOwner → Bool
  | .none => false
  | .this => true
  | .other viaOwned => viaOwned

/-- `util.ListOwnedPods`: the List (namespace + label selector), then the loop dropping completed pods and pods
    the workload does not own; terminating pods stay -/
def listOwned (pods : List Pod) : List Pod :=
  (pods.filter fun p => p.inNamespace && p.selMatch).filter fun p =>
    if isCompleted p then false
    else if !isOwned p.owner then false
    else true

/-- `util.WrappedPodCount` -/
def wrappedPodCount (filter : Pod → Bool) (pods : List Pod) : Int :=
  pods.foldl (fun count p => if filter p then count + 1 else count) 0

/-- `strings.HasSuffix(s, suffix)` -/
def hasSuffix (s suffix : String) : Bool := suffix.toList.isSuffixOf s.toList

/-- `util.IsConsistentWithRevision(pod.GetLabels(), revision)` -/
def isConsistent (p : Pod) (revision : String) : Bool :=
  if p.hashLabel != "" && hasSuffix revision p.hashLabel then true
  else if p.revLabel != "" && hasSuffix revision p.revLabel then true
  else false

/-- `util.IsPodReady`: the first condition of type `Ready` exists and has status `True` -/
def isPodReady (p : Pod) : Bool :=
  match p.conds.find? (fun c => c.1 == "Ready") with
  | some c => c.2 == "True"
  | none => false

/-- the filter `BuildController` hands to `WrappedPodCount` (both controls) -/
def countsFilter (revision : String) (p : Pod) : Bool :=
  if p.terminating then false            -- `!pod.DeletionTimestamp.IsZero()`
  else if !isConsistent p revision then false
  else isPodReady p

/-- the counter `BuildController` computes from the pods of the cluster -/
def updatedReadyOf (revision : String) (pods : List Pod) : Int :=
  wrappedPodCount (countsFilter revision) (listOwned pods)

/-- the counters of `rc.WorkloadInfo` after `BuildController` -/
structure Counters where
  replicas : Int
  /-- `Status.UpdatedReplicas`: the workload controller's own counter -/
  updated : Int
  /-- `Status.UpdatedReadyReplicas`: counted from the pods when the status does not carry it (`needsList`) -/
  updatedReady : Int
  deriving Repr, DecidableEq, Inhabited

def countersOf (w : Wl) (r : Int) (cl : Cluster) : Counters :=
  { replicas := r, updated := cl.status.updated,
    updatedReady := if needsList w then updatedReadyOf cl.status.updateRevision cl.pods else w.updatedReady }

/-- `realController.CalculateBatchContext` (both controls) for plan entry `e`: the fields `IsBatchReady` reads,
    through `RV.BatchCtx` (kinds `stsOrdered` / `stsUnordered` / `daemonSet`) -/
def batchCtxOf (rel : Rel) (w : Wl) (c : Counters) (e : IntOrPct) : RV.BatchCtx.Ctx :=
  { replicas := c.replicas, updated := c.updated, updatedReady := c.updatedReady,
    planned := RV.BatchCtx.plannedOf (bkind w) c.replicas e rel.noNeedUpdate,
    desired := RV.BatchCtx.desiredOf (bkind w) c.replicas e rel.noNeedUpdate,
    knobCur := int (currentPartition w.us),
    knobDes := RV.BatchCtx.desKnob (bkind w) c.replicas e rel.noNeedUpdate,
    failureThreshold := rel.failureThreshold }

/-- what `EnsureBatchPodsReadyAndLabeled` returns: `IsBatchReady`'s answer, or an error on the way to it -/
inductive Verdict where
  | is (r : RV.BatchCtx.Ready)
  | err
  deriving Repr, DecidableEq

/-- everything observable of one readiness check: the counters after `BuildController` (`none`: it failed), the
    context (`none`: not computed — failure or empty workload), the verdict -/
structure VerdictOut where
  counters : Option Counters
  ctx : Option RV.BatchCtx.Ctx
  verdict : Verdict
  /-- mutating API calls issued: the check only reads -/
  writes : Nat := 0
  deriving Repr, DecidableEq

/-- `realBatchControlPlane.EnsureBatchPodsReadyAndLabeled` with an empty rollout-id (`batchLabelSatisfied` is
    vacuous); `batch` = `status.canaryStatus.currentBatch` -/
def planeVerdict (rel : Rel) (batch : Int) (d : Option Wl) (cl : Cluster) (f : Fault) : Out VerdictOut :=
  match build d f with
  | .panic => .panic
  | .err | .notFound => .val { counters := none, ctx := none, verdict := .err }
  | .ok w r =>
    let c := countersOf w r cl
    if r = 0 then .val { counters := some c, ctx := none, verdict := .is .ok } else
    -- CalculateBatchContext: `Batches[currentBatch]`
    if batch < 0 then .panic else
    match rel.batches[batch.toNat]? with
    | none => .panic
    | some e =>
      let bc := batchCtxOf rel w c e
      .val { counters := some c, ctx := some bc, verdict := .is (RV.BatchCtx.isBatchReady bc none) }

/-- how a pod of the cluster degrades between two readiness checks -/
inductive Degrade where
  | notReady | terminating | otherRevision | deleted | failed | disowned
  deriving Repr, DecidableEq, Inhabited

def degradePod (h : Degrade) (p : Pod) : Option Pod :=
  match h with
  | .notReady => some { p with conds := [("Ready", "False")] }
  | .terminating => some { p with terminating := true }
  | .otherRevision => some { p with hashLabel := "", revLabel := "" }
  | .deleted => none
  | .failed => some { p with phase := "Failed" }
  | .disowned => some { p with owner := .none }

/-- the pods after pod number `i` degraded -/
def degradeAt (h : Degrade) : Nat → List Pod → List Pod
  | _, [] => []
  | 0, p :: ps => (degradePod h p).toList ++ ps
  | i + 1, p :: ps => p :: degradeAt h i ps

end RV.CtlSts
