/-
  Per-kind batch context and upgrade decision of the BatchRelease controls.

  Source (pkg/controller/batchrelease/control/…):
    partitionstyle/cloneset/control.go      CalculateBatchContext, UpgradeBatch
    partitionstyle/statefulset/control.go   CalculateBatchContext, UpgradeBatch
    partitionstyle/daemonset/control.go     CalculateBatchContext, UpgradeBatch
    partitionstyle/deployment/control.go    CalculateBatchContext, UpgradeBatch
    canarystyle/deployment/control.go       CalculateBatchContext; canary.go UpgradeBatch
    bluegreenstyle/deployment/control.go    CalculateBatchContext, UpgradeBatch
    bluegreenstyle/cloneset/control.go      CalculateBatchContext, UpgradeBatch
    context/context.go                      IsBatchReady, batchLabelSatisfied, allowedUnavailable
-/
import RV.Model.Arith
namespace RV.BatchCtx
open RV.Arith IntOrPct

inductive Kind where
  | cloneSet | stsOrdered | stsUnordered | daemonSet | depPartition | depCanary | depBlueGreen | csBlueGreen
  deriving Repr, DecidableEq, Inhabited

/-- `batchcontext.BatchContext`, the fields the decisions read. `knobCur`/`knobDes`
    are CurrentPartition/DesiredPartition (partition kinds), CurrentSurge/DesiredSurge
    (blue-green kinds) or the canary Deployment's replicas (canary kind). -/
structure Ctx where
  replicas : Int
  updated : Int
  updatedReady : Int
  planned : Int
  desired : Int
  knobCur : IntOrPct
  knobDes : IntOrPct
  failureThreshold : Option IntOrPct
  deriving Repr, DecidableEq

/-- What `CalculateBatchContext` reads from the cluster. -/
structure Obs where
  kind : Kind
  replicas : Int
  /-- `release.Spec.ReleasePlan.Batches[currentBatch].CanaryReplicas`; `none` = index out of range -/
  entry : Option IntOrPct
  noNeedUpdate : Option Int
  /-- the workload's current knob: partition (absent = 0), maxSurge (absent = 0) or canary replicas -/
  knobCur : IntOrPct
  updated : Int
  updatedReady : Int
  failureThreshold : Option IntOrPct
  deriving Repr

inductive Outcome (α : Type) where
  | ok (a : α)
  | panic
  deriving Repr

/-- the shared first half of the partition-style calculations:
    (plannedUpdate, desiredUpdate, desiredStable) -/
def plannedDesired (R : Int) (e : IntOrPct) (nn : Option Int) : Int × Int × Int :=
  let planned := calcBatchReplicas R e
  match nn with
  | some k =>
    if k > 0 then
      let dn := calcBatchReplicas (R - k) e
      let desiredStable := R - k - dn
      (planned, R - desiredStable, desiredStable)
    else (planned, planned, R - planned)
  | none => (planned, planned, R - planned)

/-- BlueGreen kinds: a current maxSurge of exactly `1` is the initial value and counts as `0`. -/
def normSurge (s : IntOrPct) : IntOrPct := if s = int 1 then int 0 else s

/-- desired stable count of the partition kinds (third component of `plannedDesired`) -/
def desiredStable (R : Int) (e : IntOrPct) (nn : Option Int) : Int := (plannedDesired R e nn).2.2

/-- The knob value `CalculateBatchContext` asks for: DesiredPartition (partition kinds),
    DesiredSurge (blue-green kinds), canary replicas (canary kind). -/
def desKnob (kind : Kind) (R : Int) (e : IntOrPct) (nn : Option Int) : IntOrPct :=
  match kind with
  | .cloneSet =>
    match e with
    | int _ => int (desiredStable R e nn)
    | _ => parsePct (desiredStable R e nn) R e
  | .stsOrdered =>
    match nn with
    | some k => int (desiredStable R e nn + k)
    | none => int (desiredStable R e nn)
  | .stsUnordered => int (desiredStable R e nn)
  | .daemonSet => int (if desiredStable R e nn ≤ 0 then 0 else desiredStable R e nn)
  | .depPartition | .depBlueGreen | .csBlueGreen => e
  | .depCanary => int (calcBatchReplicas R e)

/-- `DesiredUpdatedReplicas` -/
def desiredOf (kind : Kind) (R : Int) (e : IntOrPct) (nn : Option Int) : Int :=
  match kind with
  | .cloneSet | .stsUnordered | .daemonSet => (plannedDesired R e nn).2.1
  | .stsOrdered =>
    match nn with
    | some k => R - (desiredStable R e nn + k) + k
    | none => (plannedDesired R e nn).2.1
  | .depPartition | .depBlueGreen => newRSReplicasLimit e R
  | .depCanary => calcBatchReplicas R e
  | .csBlueGreen => let d := scaledV e R true; if d > R then R else d

/-- `PlannedUpdatedReplicas` (not set by the canary-style context) -/
def plannedOf (kind : Kind) (R : Int) (e : IntOrPct) (nn : Option Int) : Int :=
  match kind with
  | .cloneSet | .stsOrdered | .stsUnordered | .daemonSet => (plannedDesired R e nn).1
  | .depCanary => 0
  | k => desiredOf k R e nn

/-- the current knob as the context reports it -/
def curKnob (kind : Kind) (k : IntOrPct) : IntOrPct :=
  match kind with
  | .depBlueGreen | .csBlueGreen => normSurge k
  | _ => k

/-- `CalculateBatchContext` per kind. -/
def calcCtx (o : Obs) : Outcome Ctx :=
  match o.entry with
  | none => .panic
  | some e =>
    .ok { replicas := o.replicas, updated := o.updated, updatedReady := o.updatedReady,
          planned := plannedOf o.kind o.replicas e o.noNeedUpdate,
          desired := desiredOf o.kind o.replicas e o.noNeedUpdate,
          knobCur := curKnob o.kind o.knobCur,
          knobDes := desKnob o.kind o.replicas e o.noNeedUpdate,
          failureThreshold := o.failureThreshold }

/-- `IntOrString.IntVal` (0 for string-typed values). -/
def intVal : IntOrPct → Int
  | int n => n
  | _ => 0

/-- `UpgradeBatch` per kind: `none` = no write, `some k` = the knob value written. -/
def upgrade (kind : Kind) (c : Ctx) : Option IntOrPct :=
  match kind with
  | .cloneSet =>
    -- int: `partition.IntVal`; string: `GetScaledValueFromIntOrPercent` (0 on error) — both are `scaledV`
    if scaledV c.knobCur c.replicas true ≤ scaledV c.knobDes c.replicas true then none else some c.knobDes
  | .stsOrdered | .stsUnordered | .daemonSet =>
    if intVal c.knobCur ≤ intVal c.knobDes then none else some (int (intVal c.knobDes))
  | .depPartition =>
    if newRSReplicasLimit c.knobCur c.replicas ≥ newRSReplicasLimit c.knobDes c.replicas then none
    else some c.knobDes
  | .depCanary =>
    if intVal c.knobCur ≥ c.desired then none else some (int c.desired)
  | .depBlueGreen | .csBlueGreen =>
    if scaledV c.knobCur c.replicas true ≥ scaledV c.knobDes c.replicas true then none else some c.knobDes

/-- Number of new-revision pods a knob value lets the workload controller run
    (environment model; see DESIGN Part I §5):
    partition kinds keep `⌈partition⌉` pods old; the partition-style Deployment and the
    blue-green Deployment run at most `NewRSReplicasLimit` resp. `min(R, ⌈surge⌉)`;
    the canary Deployment runs exactly its replicas; the blue-green CloneSet surges
    `min(R, ⌈maxSurge⌉)` (Kruise bounds the surge by the number of pods still to update). -/
def exposureOf (kind : Kind) (knob : IntOrPct) (R : Int) : Int :=
  match kind with
  | .cloneSet | .stsOrdered | .stsUnordered | .daemonSet => exposure knob R
  | .depPartition => newRSReplicasLimit knob R
  | .depCanary => intVal knob
  | .depBlueGreen => max 0 (min R (scaledV knob R true))
  | .csBlueGreen => max 0 (min R (scaledV knob R true))

inductive Ready where
  | ok | notUpdated | notReady | noneReady | notLabelled
  deriving Repr, DecidableEq

/-- `BatchContext.IsBatchReady` (`labelled` = `none` when rollout-id is empty or no pods were listed). -/
def isBatchReady (c : Ctx) (labelled : Option Int) : Ready :=
  if c.updated < c.desired then .notUpdated
  else if allowedUnavailable c.failureThreshold c.updated + c.updatedReady < c.desired then .notReady
  else if c.desired > 0 ∧ c.updatedReady = 0 then .noneReady
  else match labelled with
    | some n => if n ≥ c.planned then .ok else .notLabelled
    | none => .ok

end RV.BatchCtx
