/-
  One reconcile of the Rollout controller (canary strategy in partition style and blue-green
  strategy on a CloneSet workload; canary strategy in canary style — `enableExtraWorkloadForCanary` —
  on an apps/v1 Deployment), composed with the traffic Manager model.

  Source:
    pkg/controller/rollout/rollout_controller.go      Reconcile
    pkg/controller/rollout/rollout_status.go          calculateRolloutStatus, handleFinalizer,
                                                      reconcileRolloutTerminating/Disabling
    pkg/controller/rollout/rollout_progressing.go     reconcileRolloutProgressing, doProgressingInRolling and
                                                      its five special cases, doProgressingReset, doFinalising
    pkg/controller/rollout/rollout_canary.go          runCanary, doCanaryUpgrade, doCanaryPaused, doCanaryJump,
                                                      doCanaryFinalising, nextCanaryTask
    pkg/controller/rollout/rollout_bluegreen.go       the blue-green variants, nextBlueGreenTask
    pkg/controller/rollout/rollout_releaseManager.go  runBatchRelease, removeBatchRelease, finalizingBatchRelease
    pkg/util/rollout_utils.go                         NextBatchIndex, CheckNextBatchIndexWithCorrect
    api/v1beta1/rollout_types.go                      IsRealPartition, GetRollingStyle
    pkg/util/controller_finder.go                     getKruiseCloneSet, getDeployment (what `WL` abstracts)

  Scope of the model: no rollout-id label on the workload, no TrafficRouting CR annotation,
  steps carry a traffic weight or nothing (header/query matches are C13–C15), one traffic
  routing ref (Ingress).  Wall-clock time is abstracted to "fresh / elapsed" ages.
-/
import RV.Model.Arith
import RV.Model.Traffic
namespace RV.RolloutSM
open RV.Arith RV.Traffic

inductive Style where
  | canary | blueGreen
  deriving Repr, DecidableEq, Inhabited

inductive Phase where
  | empty | initial | healthy | progressing | terminating | disabled | disabling
  deriving Repr, DecidableEq, Inhabited

/-- reason of the Progressing condition (`none` = no such condition) -/
inductive PReason where
  | none | initializing | inRolling | finalising | paused | cancelling | completed | other
  deriving Repr, DecidableEq, Inhabited

inductive StepState where
  | init | upgrade | trafficRouting | metricsAnalysis | paused | ready | completed | other
  deriving Repr, DecidableEq, Inhabited

inductive FinStep where
  | empty | resumeWorkload | releaseWorkloadControl | routeTrafficToStable | restoreStableService
  | removeCanaryService | routeTrafficToNew | end_ | other
  deriving Repr, DecidableEq, Inhabited

inductive Pause where
  | manual | short | long      -- no duration / a duration that has elapsed once lastUpdate is old / one that has not
  deriving Repr, DecidableEq, Inhabited

inductive HashRel where
  | empty | same | differs
  deriving Repr, DecidableEq, Inhabited

structure Step where
  replicas : IntOrPct
  weight : Option Nat
  pause : Pause
  deriving Repr, DecidableEq, Inhabited

structure Sub where
  curIdx : Int
  nextIdx : Int
  state : StepState
  finStep : FinStep
  canaryRev : String
  stableRev : String
  podHash : String
  hash : HashRel
  observedRolloutID : String
  observedGen : Int
  lastUpdate : Age
  deriving Repr, DecidableEq, Inhabited

inductive TermReason where
  | none | inTerminating | completed
  deriving Repr, DecidableEq, Inhabited

structure Rollout where
  style : Style
  steps : List Step
  paused : Bool
  disabled : Bool
  deleting : Bool
  hasFinalizer : Bool
  hasTraffic : Bool
  disableGen : Bool
  rollbackInBatch : Bool         -- annotation rollouts.kruise.io/rollback-in-batch = "true"
  grace : Nat
  phase : Phase
  reason : PReason
  condAge : Age                  -- age of the Progressing condition's lastUpdateTime
  succeeded : Option Bool
  term : TermReason
  sub : Option Sub
  /-- which of the two modelled workloads the rollout refers to: `true` = CloneSet (partition-style canary, blue-green),
      `false` = apps/v1 Deployment with `canary.enableExtraWorkloadForCanary: true` (canary style; canary strategy only).
      For a canary strategy this is exactly `v1beta1.IsRealPartition(rollout)`, which only the canary release manager
      reads; `util.IsRollbackInBatchPolicy` reads the workload kind. -/
  realPartition : Bool := true
  deriving Repr, DecidableEq, Inhabited

/-- the workload as `ControllerFinder.getKruiseCloneSet` (partition style, blue-green) or
    `ControllerFinder.getDeployment` (canary style) reports it -/
structure WL where
  consistent : Bool
  inProgressAnno : Bool
  canaryRev : String
  stableRev : String
  inRollback : Bool
  replicas : Int
  generation : Int
  /-- `Workload.PodTemplateHash`: for a CloneSet the update revision; for a canary-style Deployment the
      `pod-template-hash` of the canary Deployment's ReplicaSet — empty while the workload is not in progress,
      is rolled back, or has no canary Deployment / ReplicaSet yet -/
  podTemplateHash : String := canaryRev
  deriving Repr, DecidableEq, Inhabited

inductive BRPhase where
  | other | completed
  deriving Repr, DecidableEq, Inhabited

structure BR where
  batches : List IntOrPct
  partition : Option Int
  rolloutID : String
  policy : String               -- "", "Immediate", "WaitResume"
  rollbackAnno : Bool
  specOther : Bool              -- the remaining spec fields (workloadRef, rollingStyle, enableExtraWorkloadForCanary, failureThreshold,
                                -- patchPodTemplateMetadata) equal what createBatchRelease writes for this rollout
  deleting : Bool
  phaseCompleted : Bool
  currentBatch : Int
  batchReady : Bool
  hashSame : Bool               -- status.observedReleasePlanHash == hash(spec.releasePlan)
  genObserved : Bool            -- generation == status.observedGeneration
  deriving Repr, DecidableEq, Inhabited

structure World where
  ro : Rollout
  wl : Option WL
  br : Option BR
  net : Net
  mem : Mem
  deriving Repr, DecidableEq, Inhabited

structure StepResult where
  w : World
  roGone : Bool          -- the Rollout object disappeared (finalizer removed while deleting)
  requeue : Bool
  err : Bool
  writes : List String
  deriving Repr, DecidableEq

inductive Out where
  | val (r : StepResult)
  | panic
  deriving Repr

/-- `util.NextBatchIndex` -/
def nextBatchIndex (nSteps : Int) (cur : Int) : Int := if cur ≥ nSteps then -1 else cur + 1

def getRolloutID (wl : WL) : String := if wl.inRollback then "rollback-" ++ wl.canaryRev else wl.canaryRev

/-- `newTrafficRoutingContext` -/
def trCtx (ro : Rollout) (s : Sub) : Option TCtx :=
  match ro.steps with
  | [] => none     -- GetSteps()[0] on an empty plan
  | s0 :: _ =>
    let idx := s.curIdx - 1
    let step := if idx < 0 ∨ idx ≥ ro.steps.length then s0 else (ro.steps[idx.toNat]?).getD s0
    some { hasRef := ro.hasTraffic, grace := ro.grace, weight := step.weight, disableGen := ro.disableGen,
           stableRev := s.stableRev, canaryRev := s.podHash, lastUpdate := s.lastUpdate }

/-- `nextCanaryTask` -/
def canaryTasks (rollback : Bool) : List FinStep :=
  if rollback then [.routeTrafficToStable, .resumeWorkload, .releaseWorkloadControl, .restoreStableService, .removeCanaryService]
  else [.restoreStableService, .routeTrafficToStable, .removeCanaryService, .resumeWorkload, .releaseWorkloadControl]

inductive Reason where
  | success | rollback | other     -- other = disabled / delete
  deriving Repr, DecidableEq

/-- `nextBlueGreenTask` -/
def blueGreenTasks (r : Reason) : List FinStep :=
  match r with
  | .success => [.routeTrafficToNew, .restoreStableService, .resumeWorkload, .routeTrafficToStable, .removeCanaryService, .releaseWorkloadControl]
  | .rollback => [.routeTrafficToStable, .resumeWorkload, .restoreStableService, .removeCanaryService, .releaseWorkloadControl]
  | .other => [.restoreStableService, .routeTrafficToStable, .removeCanaryService, .resumeWorkload, .releaseWorkloadControl]

def taskList (style : Style) (r : Reason) : List FinStep :=
  match style with
  | .canary => canaryTasks (r = .rollback)
  | .blueGreen => blueGreenTasks r

/-- the `next*Task` lookup: first task for an empty cursor, successor in the list, `end_` otherwise -/
def nextTask (tasks : List FinStep) (cur : FinStep) : FinStep :=
  if cur = .empty then tasks.headD .end_
  else
    let rec go : List FinStep → FinStep
      | a :: b :: rest => if a = cur then b else go (b :: rest)
      | _ => .end_
    go tasks

/-- what `createBatchRelease` would write for this rollout (the compared part of the spec) -/
def desiredBR (ro : Rollout) (rolloutID : String) (batch : Int) (isRollback : Bool) : BR :=
  { batches := ro.steps.map (·.replicas), partition := some batch, rolloutID := rolloutID, policy := "",
    rollbackAnno := isRollback && ro.rollbackInBatch, specOther := true, deleting := false, phaseCompleted := false,
    currentBatch := 0, batchReady := false, hashSame := false, genObserved := true }

def brSpecEq (a b : BR) : Bool :=
  a.batches == b.batches && a.partition == b.partition && a.rolloutID == b.rolloutID && a.policy == b.policy &&
  a.rollbackAnno == b.rollbackAnno && a.specOther == b.specOther

/-- `runBatchRelease`: (done, BatchRelease afterwards, writes) -/
def runBatchRelease (ro : Rollout) (br : Option BR) (rolloutID : String) (stepIdx : Int) (isRollback : Bool) :
    Bool × Option BR × List String :=
  let want := desiredBR ro rolloutID (stepIdx - 1) isRollback
  match br with
  | none => (false, some want, ["createBR"])
  | some b =>
    if brSpecEq b want then (true, some b, [])
    else (false, some { b with batches := want.batches, partition := want.partition, rolloutID := want.rolloutID,
                               policy := want.policy, rollbackAnno := want.rollbackAnno, specOther := true,
                               hashSame := false }, ["updateBR"])

/-- `doCanaryUpgrade`: (done, BatchRelease afterwards, writes) -/
def doCanaryUpgrade (ro : Rollout) (s : Sub) (wl : WL) (br : Option BR) : Bool × Option BR × List String :=
  let (done, br', ws) := runBatchRelease ro br (getRolloutID wl) s.curIdx wl.inRollback
  if ¬ done then (false, br', ws)
  else match br' with
    | none => (false, br', ws)
    | some b =>
      if ¬ b.hashSame ∨ ¬ b.genObserved then (false, br', ws)
      else if ¬ b.batchReady ∨ b.currentBatch + 1 < s.curIdx then (false, br', ws)
      else (true, br', ws)

/-- `removeBatchRelease`: (retry, BatchRelease afterwards, writes) -/
def removeBatchRelease (br : Option BR) : Bool × Option BR × List String :=
  match br with
  | none => (false, none, [])
  | some b => if b.deleting then (true, some b, []) else (true, some { b with deleting := true }, ["deleteBR"])

/-- `finalizingBatchRelease`: (retry, BatchRelease afterwards, writes) -/
def finalizingBatchRelease (br : Option BR) (waitReady : Bool) : Bool × Option BR × List String :=
  match br with
  | none => (false, none, [])
  | some b =>
    if b.partition.isNone ∧ b.phaseCompleted then (false, some b, [])
    else if b.partition.isNone ∧ ((b.policy == "WaitResume") == waitReady) then (true, some b, [])
    else (true, some { b with partition := none, policy := if waitReady then "WaitResume" else "Immediate", hashSame := false }, ["patchBR"])

structure Ctx where
  ro : Rollout
  sub : Sub
  wl : WL
  br : Option BR
  net : Net
  mem : Mem
  requeue : Bool := false
  writes : List String := []
  /-- the controller could read the workload (non-nil, status consistent): only then is the revision label key known -/
  wlSeen : Bool := true
  deriving Repr

/-- apply a Manager call to the context; `retry`/`done` flag and error are returned -/
def callTM (f : TCtx → Net → Mem → TOut) (c : Ctx) (copyBack : Bool := false) : Option (Ctx × Bool × Bool) :=
  match trCtx c.ro c.sub with
  | none => none
  | some t =>
    let o := f { t with hasRevKey := c.wlSeen } c.net c.mem
    -- only some call sites copy the context's LastUpdateTime back into the status
    some ({ c with net := o.net, mem := o.mem, writes := c.writes ++ o.writes,
                   sub := if o.touched ∧ copyBack then { c.sub with lastUpdate := .fresh } else c.sub }, o.done, o.err)

/-- `doCanaryJump` -/
def doCanaryJump (ro : Rollout) (s : Sub) : Option (Sub × Bool) :=
  let n : Int := ro.steps.length
  if s.curIdx < 1 ∨ s.curIdx > n then none else
  let cur := ro.steps[(s.curIdx - 1).toNat]?
  if s.nextIdx ≠ nextBatchIndex n s.curIdx ∧ s.nextIdx > 0 then
    if s.nextIdx > n then none else
    let nxt := ro.steps[(s.nextIdx - 1).toNat]?
    -- `isStepUpgraded`: the shortcut to traffic routing needs the current step's pods to be ready already
    let upgraded := s.state = .trafficRouting ∨ s.state = .metricsAnalysis ∨ s.state = .paused ∨ s.state = .ready ∨ s.state = .completed
    let st := if (nxt.map (·.replicas)) = (cur.map (·.replicas)) ∧ upgraded then StepState.trafficRouting else StepState.init
    some ({ s with curIdx := s.nextIdx, nextIdx := nextBatchIndex n s.nextIdx, state := st, lastUpdate := .fresh }, true)
  else some (s, false)

/-- `doCanaryPaused`: `none` = nil dereference of LastUpdateTime -/
def doCanaryPaused (ro : Rollout) (s : Sub) (step : Step) : Option (Bool × Bool) :=   -- (done, requeue)
  if ro.style = .canary ∧ (ro.steps.length : Int) = s.curIdx ∧ step.replicas = .pct 100 then some (true, false)
  else match step.pause with
    | .manual => some (false, false)
    | .short => match s.lastUpdate with
      | .none => none
      | .elapsed => some (true, false)
      | .fresh => some (false, true)
    | .long => match s.lastUpdate with
      | .none => none
      | _ => some (false, true)

inductive RunOut where
  | ok (c : Ctx) (err : Bool)
  | panic
  deriving Repr

def stepHasTraffic (st : Step) : Bool := st.weight.isSome

/-- `StepUpgrade`: run `doCanaryUpgrade`; when done move on (with the partition-style full-replica bypass) -/
def upgradeStep (ro : Rollout) (step : Step) (c : Ctx) : RunOut :=
  let r := doCanaryUpgrade ro c.sub c.wl c.br
  let c := { c with br := r.2.1, writes := c.writes ++ r.2.2 }
  if r.1 then
    let expected := scaledV step.replicas c.wl.replicas true
    let st := if ro.style = .canary ∧ expected ≥ c.wl.replicas ∧ ro.realPartition then StepState.metricsAnalysis else StepState.trafficRouting
    .ok { c with sub := { c.sub with state := st, podHash := c.wl.podTemplateHash, lastUpdate := .fresh } } false
  else .ok c false

/-- result of a retry-style Manager call inside `BeforeStepUpgrade` -/
def afterRetryCall (r : Option (Ctx × Bool × Bool)) (k : Ctx → RunOut) : RunOut :=
  match r with
  | none => .panic
  | some (c, retry, err) =>
    if err then .ok c true
    else if retry then .ok { c with requeue := true } false
    else k c

/-- `BeforeStepUpgrade` -/
def initStep (ro : Rollout) (step : Step) (c3 : Ctx) : RunOut :=
  let enterUpgrade (c : Ctx) : RunOut :=
    upgradeStep ro step { c with sub := { c.sub with state := .upgrade, lastUpdate := .fresh } }
  if ro.style = .canary then
    if ¬ stepHasTraffic step then .ok { c3 with sub := { c3.sub with state := .upgrade } } false
    else
      let expected := scaledV step.replicas c3.wl.replicas true
      -- `releaseAllStablePods := expectedReplicas >= replicas && IsRealPartition(rollout)`
      afterRetryCall (if expected ≥ c3.wl.replicas ∧ ro.realPartition then callTM restoreStableService c3 else some (c3, false, false)) fun c4 =>
        -- (a first step that releases all stable pods keeps the Service restored)
        afterRetryCall (if c4.sub.curIdx = 1 ∧ ¬ (expected ≥ c3.wl.replicas ∧ ro.realPartition) ∧ ¬ ro.disableGen then callTM patchStableService c4 else some (c4, false, false)) enterUpgrade
  else
    afterRetryCall (if stepHasTraffic step ∧ c3.sub.curIdx = 1 then callTM patchStableService c3 else some (c3, false, false)) enterUpgrade

/-- the per-sub-state switch of `runCanary` -/
def stateStep (ro : Rollout) (step : Step) (c3 : Ctx) : RunOut :=
  match c3.sub.state with
  | .init => initStep ro step c3
  | .upgrade => upgradeStep ro step c3
  | .trafficRouting =>
    match callTM doTrafficRouting c3 true with
    | none => .panic
    | some (c4, done, err) =>
      if err then .ok c4 true
      else if done then .ok { c4 with sub := { c4.sub with state := .metricsAnalysis, lastUpdate := .fresh }, requeue := true } false
      else .ok { c4 with requeue := true } false
  | .metricsAnalysis => .ok { c3 with sub := { c3.sub with state := .paused } } false
  | .paused =>
    match doCanaryPaused ro c3.sub step with
    | none => .panic
    | some (true, _) => .ok { c3 with sub := { c3.sub with state := .ready, lastUpdate := .fresh } } false
    | some (false, rq) => .ok { c3 with requeue := c3.requeue || rq } false
  | .ready =>
    let n : Int := ro.steps.length
    if n > c3.sub.curIdx then
      .ok { c3 with sub := { c3.sub with curIdx := c3.sub.curIdx + 1, nextIdx := nextBatchIndex n (c3.sub.curIdx + 1),
                                         state := .init, lastUpdate := .fresh } } false
    else .ok { c3 with sub := { c3.sub with state := .completed, lastUpdate := .fresh } } false
  | _ => .ok c3 false

/-- a step without traffic first finalises the traffic routing of earlier steps -/
def preStep (step : Step) (c2 : Ctx) : Option (Ctx × Bool × Bool) :=
  if ¬ stepHasTraffic step then callTM finalisingTrafficRouting c2 true else some (c2, true, false)

/-- syncBatchRelease: patch the rollout-id of an existing BatchRelease when it differs; fill the pod template hash -/
def syncStep (c0 : Ctx) : Ctx :=
  let c1 : Ctx := match c0.br with
    | some b =>
      if c0.sub.observedRolloutID ≠ b.rolloutID then
        { c0 with br := some { b with rolloutID := c0.sub.observedRolloutID, hashSame := false }, writes := c0.writes ++ ["patchBRRolloutID"] }
      else c0
    | none => c0
  { c1 with sub := if c1.sub.podHash = "" then { c1.sub with podHash := c1.wl.podTemplateHash } else c1.sub }

/-- `runCanary` (both managers) -/
def runCanary (c0 : Ctx) : RunOut :=
  let ro := c0.ro
  let c1 := syncStep c0
  match doCanaryJump ro c1.sub with
  | none => .panic
  | some (s2, true) => .ok { c1 with sub := s2 } false
  | some (s2, false) =>
    let c2 := { c1 with sub := s2 }
    match ro.steps[(s2.curIdx - 1).toNat]? with
    | none => .panic
    | some step =>
      match preStep step c2 with
      | none => .panic
      | some (c3, done, err) =>
        if err then .ok c3 true
        else if ¬ done then .ok { c3 with requeue := true } false
        else stateStep ro step c3

/-- `removeRolloutProgressingAnnotation` -/
def stripAnno (c : Ctx) : Ctx :=
  if c.wl.inProgressAnno then
    { c with wl := { c.wl with inProgressAnno := false }, writes := c.writes ++ ["removeInProgressAnno"] } else c

/-- an empty cursor is set to the first task -/
def startCursor (c : Ctx) (next : FinStep) : Ctx :=
  if c.sub.finStep = .empty then { c with sub := { c.sub with finStep := next, lastUpdate := .fresh } } else c

/-- the tasks the managers' switch knows -/
def finKnown (style : Style) (f : FinStep) : Bool :=
  match f with
  | .resumeWorkload | .releaseWorkloadControl | .routeTrafficToStable | .restoreStableService | .removeCanaryService => true
  | .routeTrafficToNew => style = .blueGreen
  | _ => false

/-- run the task at the cursor: (context, retry, error) -/
def finTask (c : Ctx) (waitReady : Bool) : Option (Ctx × Bool × Bool) :=
  match c.sub.finStep with
  | .resumeWorkload =>
    let r := finalizingBatchRelease c.br waitReady
    some ({ c with br := r.2.1, writes := c.writes ++ r.2.2 }, r.1, false)
  | .releaseWorkloadControl =>
    let r := removeBatchRelease c.br
    some ({ c with br := r.2.1, writes := c.writes ++ r.2.2 }, r.1, false)
  | .routeTrafficToStable => callTM restoreGateway c
  | .restoreStableService => callTM restoreStableService c
  | .removeCanaryService => callTM removeCanaryService c
  | .routeTrafficToNew => callTM routeAllToNew c
  | _ => some (c, true, false)

/-- `doCanaryFinalising` (both managers): (done, error); `none` = panic -/
def doFinalising (c0 : Ctx) (reason : Reason) (waitReady : Bool) : Option (Ctx × Bool × Bool) :=
  let c := stripAnno c0
  -- newTrafficRoutingContext is built before anything else (indexes steps[0])
  if c.ro.steps.isEmpty then none else
  let tasks := taskList c.ro.style reason
  -- nextStep is computed from the cursor as it was read
  let next := nextTask tasks c.sub.finStep
  if c.sub.finStep = .end_ then some (c, true, false) else
  let c1 := startCursor c next
  if ¬ finKnown c1.ro.style c1.sub.finStep then
    -- unexpected cursor: start from the first task
    some ({ c1 with sub := { c1.sub with finStep := nextTask tasks .empty } }, false, false)
  else
    match finTask c1 waitReady with
    | none => none
    | some (c', retry, err) =>
      if err ∨ retry then some (c', false, err)
      else some ({ c' with sub := { c'.sub with finStep := next, lastUpdate := .fresh } }, next = .end_, false)

/-- `doProgressingReset`, stage 3: remove the canary Service -/
def prStage3 (c : Ctx) : Option (Ctx × Bool × Bool) :=
  match callTM removeCanaryService c with
  | none => none
  | some (c', _, err) => if err then some (c', false, true) else some (c', true, false)

/-- `doProgressingReset`, stage 2: delete the BatchRelease, then stage 3 -/
def prStage2 (c : Ctx) : Option (Ctx × Bool × Bool) :=
  let r := removeBatchRelease c.br
  let c := { c with br := r.2.1, writes := c.writes ++ r.2.2 }
  if r.1 then some (c, false, false)
  else prStage3 { c with sub := { c.sub with finStep := .removeCanaryService, lastUpdate := .fresh } }

/-- `doProgressingReset`, cursor normalisation: anything but the three known stages starts at stage 1 -/
def prCursor (c : Ctx) : Ctx :=
  match c.sub.finStep with
  | .routeTrafficToStable | .releaseWorkloadControl | .removeCanaryService => c
  | _ => { c with sub := { c.sub with finStep := .routeTrafficToStable } }

/-- `doProgressingReset` (continuous release, canary): (done, error); `none` = panic -/
def doProgressingReset (c : Ctx) : Option (Ctx × Bool × Bool) :=
  if ¬ c.ro.hasTraffic then
    let r := removeBatchRelease c.br
    some ({ c with br := r.2.1, writes := c.writes ++ r.2.2 }, !r.1, false)
  else if c.ro.steps.isEmpty then none
  else
    let c1 := prCursor c
    match c1.sub.finStep with
    | .routeTrafficToStable =>
      -- stage 1: restore the gateway
      match callTM restoreGateway c1 true with
      | none => none
      | some (c2, retry, err) =>
        if err ∨ retry then some (c2, false, err)
        else prStage2 { c2 with sub := { c2.sub with finStep := .releaseWorkloadControl, lastUpdate := .fresh } }
    | .releaseWorkloadControl => prStage2 c1
    | _ => prStage3 c1

/-- `recalculateCanaryStep`; `none` = panic (nil partition / index out of range) -/
def recalculateCanaryStep (ro : Rollout) (s : Sub) (wl : WL) (br : Option BR) : Option Int :=
  match br with
  | none => some 1
  | some b =>
    match b.partition with
    | none => none
    | some p =>
      if p < 0 then none else
      match b.batches[p.toNat]? with
      | none => none
      | some e =>
        let currentReplicas := scaledV e wl.replicas true
        let currentIndex := s.curIdx - 1
        let n := ro.steps.length
        let first : List Nat := if currentIndex ≥ 0 ∧ currentIndex < n then [currentIndex.toNat] else []
        let rest : List Nat := (List.range n).filter (fun i => (i : Int) ≠ currentIndex)
        let order := first ++ rest
        -- the loop leaves stepIndex at the first step whose replicas suffice, or at the last visited one
        let rec go : List Nat → Int → Int
          | [], acc => acc
          | i :: is, _ =>
            match ro.steps[i]? with
            | none => (i : Int) + 1
            | some st => if currentReplicas ≤ scaledV st.replicas wl.replicas true then (i : Int) + 1 else go is ((i : Int) + 1)
        some (go order 0)

def toCtx (w : World) (s : Sub) (wl : WL) : Ctx :=
  { ro := w.ro, sub := s, wl := wl, br := w.br, net := w.net, mem := w.mem }

def ofCtx (w : World) (c : Ctx) (ro : Rollout) : World :=
  { ro := { ro with sub := some c.sub }, wl := some c.wl, br := c.br, net := c.net, mem := c.mem }

/-- `doProgressingInRolling` on the new status; returns the world, requeue, error, writes -/
def inRolling (w : World) (old : Rollout) (ns : Rollout) (s : Sub) (wl : WL) : Out :=
  let mk (w' : World) (rq err : Bool) (ws : List String) : Out :=
    .val { w := w', roGone := false, requeue := rq, err := err, writes := ws }
  let keep (ro : Rollout) : World := { w with ro := ro }
  match old.sub with
  | none =>
    -- rollout.Status.GetCanaryRevision() dereferences an empty sub-status; the rollback tests short-circuit on
    -- IsInRollback, the continuous-release test does not
    if wl.inRollback then .panic
    else if ns.paused then mk (keep { ns with reason := .paused }) false false []
    else .panic
  | some os =>
  -- `util.IsRollbackInBatchPolicy`: no traffic routing, workloadRef kind CloneSet (or StatefulSet), annotation "true";
  -- of the two modelled workloads the canary-style Deployment does not support it
  let inBatch := ¬ ns.hasTraffic ∧ ns.realPartition ∧ ns.rollbackInBatch
  if wl.inRollback ∧ wl.canaryRev ≠ os.canaryRev ∧ ¬ inBatch then
    mk (keep { ns with reason := .cancelling, sub := some { s with canaryRev := wl.canaryRev } }) false false []
  else if ns.paused then mk (keep { ns with reason := .paused }) false false []
  else if wl.inRollback ∧ wl.canaryRev ≠ os.canaryRev ∧ inBatch then
    let n : Int := ns.steps.length
    mk (keep { ns with sub := some { s with curIdx := 1, nextIdx := nextBatchIndex n 1, canaryRev := wl.canaryRev,
                                            state := .init, lastUpdate := .fresh, hash := .same } }) false false []
  else if os.canaryRev ≠ "" ∧ wl.canaryRev ≠ os.canaryRev ∧ ¬ wl.inRollback then
    -- continuous release
    if ns.style = .blueGreen then mk (keep ns) false false []
    else
      match doProgressingReset (toCtx { w with ro := ns } s wl) with
      | none => .panic
      | some (c, done, err) =>
        if err then mk (ofCtx w c ns) false true c.writes
        else if done then
          let w' := ofCtx w c ns
          mk { w' with ro := { w'.ro with sub := none, reason := .initializing } } false false c.writes
        else mk (ofCtx w c ns) true false c.writes
  else if os.hash ≠ .empty ∧ os.hash ≠ .same then
    -- plan changed
    match recalculateCanaryStep ns s wl w.br with
    | none => .panic
    | some newIdx =>
      if s.nextIdx = newIdx then
        mk (keep { ns with sub := some { s with state := .ready, lastUpdate := .fresh, hash := .same } }) false false []
      else
        let s1 := { s with nextIdx := newIdx, lastUpdate := .fresh, hash := .same }
        match doCanaryJump ns s1 with
        | none => .panic
        | some (s2, _) => mk (keep { ns with sub := some s2 }) false false []
  else
    -- normal rolling
    if s.state = .completed then mk (keep { ns with reason := .finalising }) false false []
    else
      -- CheckNextBatchIndexWithCorrect (applied to the status the release manager works on)
      let n : Int := ns.steps.length
      let s := if s.nextIdx ≤ 0 ∨ s.nextIdx > n then { s with nextIdx := nextBatchIndex n s.curIdx } else s
      match runCanary (toCtx { w with ro := ns } s wl) with
      | .panic => .panic
      | .ok c err => mk (ofCtx w c ns) c.requeue err c.writes

/-- the finalising reasons of `reconcileRolloutProgressing/Terminating/Disabling` -/
def finalise (w : World) (ns : Rollout) (wl : Option WL) (reason : Reason) (waitReady : Bool) :
    Option (World × Bool × Bool × List String) :=       -- world, done, err, writes
  match ns.sub with
  | none => some ({ w with ro := ns }, true, false, [])
  | some s =>
    match wl with
    | none =>
      -- no workload: the annotation removal is skipped, the rest runs
      let wl0 : WL := default
      match doFinalising { (toCtx { w with ro := ns } s { wl0 with inProgressAnno := false }) with wlSeen := false } reason waitReady with
      | none => none
      | some (c, done, err) => some ({ (ofCtx w c ns) with wl := none }, done, err, c.writes)
    | some wl =>
      if ¬ wl.consistent then
        -- the finder reports an empty Workload for an inconsistent status: no annotation is seen
        match doFinalising { (toCtx { w with ro := ns } s { wl with inProgressAnno := false }) with wlSeen := false } reason waitReady with
        | none => none
        | some (c, done, err) => some ({ (ofCtx w c ns) with wl := some wl }, done, err, c.writes)
      else
      match doFinalising (toCtx { w with ro := ns } s wl) reason waitReady with
      | none => none
      | some (c, done, err) => some (ofCtx w c ns, done, err, c.writes)

/-- `calculateRolloutStatus`, disabled rollouts: Progressing → Disabling, others → Disabled -/
def csDisable (ro : Rollout) : Rollout :=
  if ro.disabled ∧ ro.phase ≠ .disabled ∧ ro.phase ≠ .disabling then
    (if ro.phase = .progressing then { ro with phase := .disabling } else { ro with phase := .disabled }) else ro

def csInitial (ns : Rollout) : Rollout := if ns.phase = .empty then { ns with phase := .initial } else ns

/-- the observed rollout-id / generation are refreshed while the workload still is at the revision being released -/
def csObserve (ns : Rollout) (w : WL) : Rollout :=
  match ns.sub with
  | some s => if s.canaryRev ≠ "" ∧ s.canaryRev = w.canaryRev then
      { ns with sub := some { s with observedRolloutID := getRolloutID w, observedGen := w.generation } } else ns
  | none => ns

/-- the per-phase switch of `calculateRolloutStatus` -/
def csPhase (ro ns : Rollout) (w : WL) : Rollout :=
  match ns.phase with
  | .initial => { ns with phase := .healthy }
  | .healthy =>
    if w.inProgressAnno then { ns with phase := .progressing, reason := .initializing, condAge := .fresh, succeeded := none }
    else if ns.sub.isNone then
      let n : Int := ns.steps.length
      { ns with sub := some { curIdx := n, nextIdx := nextBatchIndex n n, state := .completed, finStep := .empty,
                              canaryRev := w.canaryRev, stableRev := w.stableRev, podHash := w.podTemplateHash, hash := .same,
                              observedRolloutID := getRolloutID w, observedGen := w.generation, lastUpdate := .none } }
    else ns
  | .disabled => if ¬ ro.disabled then { ns with phase := .healthy } else ns
  | _ => ns

/-- `calculateRolloutStatus`: `none` = wait (workload status inconsistent) -/
def calculateStatus (ro : Rollout) (wl : Option WL) : Option Rollout :=
  if ro.deleting then
    some (if ro.phase ≠ .terminating then { ro with phase := .terminating, term := .inTerminating } else ro)
  else
    let ns := csInitial (csDisable ro)
    match wl with
    | none =>
      if ¬ ro.disabled then
        some { ns with phase := .initial, reason := .none, succeeded := none, term := .none, sub := none }
      else some ns
    | some w =>
      if ¬ w.consistent then none else some (csPhase ro (csObserve ns w) w)

/-- `handleFinalizer`: the rollout after it, whether the object disappears, and the write issued -/
def handleFinalizer (ro : Rollout) : Rollout × Bool × List String :=
  if ro.deleting then
    if ro.term = .completed ∧ ro.hasFinalizer then ({ ro with hasFinalizer := false }, true, ["removeFinalizer"])
    else (ro, false, [])
  else if ¬ ro.hasFinalizer then ({ ro with hasFinalizer := true }, false, ["addFinalizer"])
  else (ro, false, [])

/-- `RolloutReconciler.Reconcile` for an existing Rollout, up to (and excluding) the cursor reset that precedes
    `updateRolloutStatusInternal`: finalizer, `calculateRolloutStatus`, the switch on the OLD phase.
    The rollout of the result is `newStatus` as the branch left it — or the unchanged status where the code returns
    before the status is written (retry, error). -/
def reconcileCore (w : World) : Out :=
  let ro := w.ro
  let mk (w' : World) (gone rq err : Bool) (ws : List String) : Out :=
    .val { w := w', roGone := gone, requeue := rq, err := err, writes := ws }
  let hf := handleFinalizer ro
  let ro1 := hf.1
  let gone := hf.2.1
  let ws0 := hf.2.2
  match calculateStatus ro1 w.wl with
  | none => mk { w with ro := ro1 } gone true false ws0
  | some ns =>
    match ro.phase with
    | .progressing =>
      match w.wl with
      | none => mk { w with ro := ns } gone false false ws0
      | some wl =>
        -- the workload checks come before the Progressing condition is dereferenced
        if ¬ wl.consistent then mk { w with ro := ns } gone false false ws0 else
        match ro.reason with
        | .none => .panic
        | .initializing =>
          let n : Int := ns.steps.length
          let s : Sub := { curIdx := 1, nextIdx := nextBatchIndex n 1, state := .init, finStep := .empty,
                           canaryRev := wl.canaryRev, stableRev := wl.stableRev, podHash := "", hash := .same,
                           observedRolloutID := getRolloutID wl, observedGen := wl.generation, lastUpdate := .fresh }
          let ns := { ns with sub := some s }
          -- InitializeTrafficRouting
          if ns.hasTraffic ∧ ns.steps.isEmpty then .panic
          else if ns.hasTraffic ∧ (¬ w.net.stableExists ∨ ¬ w.net.stableIngress) then mk { w with ro := ro1 } gone false true ws0
          else if ns.condAge = .fresh then mk { w with ro := ns } gone true false ws0
          else mk { w with ro := { ns with reason := .inRolling } } gone false false ws0
        | .inRolling =>
          match ns.sub with
          | none =>
            -- rollout.Status.GetCanaryRevision() dereferences the empty sub-status unless the test short-circuits
            if wl.inRollback then .panic
            else if ns.paused then mk { w with ro := { ns with reason := .paused } } gone false false ws0
            else .panic
          | some s =>
            match inRolling w ro ns s wl with
            | .panic => .panic
            | .val r =>
              -- on an error the status is not written
              if r.err then mk { r.w with ro := ro1 } gone false true (ws0 ++ r.writes)
              else mk r.w gone r.requeue false (ws0 ++ r.writes)
        | .finalising =>
          match finalise w ns (some wl) .success true with
          | none => .panic
          | some (w', done, err, ws) =>
            if err then mk { w' with ro := ro1 } gone false true (ws0 ++ ws)
            else if done then mk { w' with ro := { w'.ro with reason := .completed, succeeded := some true } } gone false false (ws0 ++ ws)
            else mk w' gone true false (ws0 ++ ws)
        | .paused =>
          if ¬ ns.paused then mk { w with ro := { ns with reason := .inRolling } } gone false false ws0
          else mk { w with ro := ns } gone false false ws0
        | .cancelling =>
          match finalise w ns (some wl) .rollback false with
          | none => .panic
          | some (w', done, err, ws) =>
            if err then mk { w' with ro := ro1 } gone false true (ws0 ++ ws)
            else if done then mk { w' with ro := { w'.ro with reason := .completed, succeeded := some false } } gone false false (ws0 ++ ws)
            else mk w' gone true false (ws0 ++ ws)
        | .completed => mk { w with ro := { ns with phase := .healthy } } gone false false ws0
        | .other => mk { w with ro := ns } gone false false ws0
    | .terminating =>
      match ro.term with
      | .none => .panic
      | .completed => mk { w with ro := ns } gone false false ws0
      | .inTerminating =>
        match finalise w ns w.wl .other false with
        | none => .panic
        | some (w', done, err, ws) =>
          if err then mk { w' with ro := ro1 } gone false true (ws0 ++ ws)
          else if done then mk { w' with ro := { w'.ro with term := .completed } } gone false false (ws0 ++ ws)
          else mk w' gone true false (ws0 ++ ws)
    | .disabling =>
      match finalise w ns w.wl .other false with
      | none => .panic
      | some (w', done, err, ws) =>
        if err then mk { w' with ro := ro1 } gone false true (ws0 ++ ws)
        else if done then mk { w' with ro := { w'.ro with phase := .disabled } } gone false false (ws0 ++ ws)
        else mk w' gone true false (ws0 ++ ws)
    | _ => mk { w with ro := ns } gone false false ws0

/-- `sub.FinalisingStep = ""` on the sub-status (if any) -/
def clearCursor (ro : Rollout) : Rollout :=
  { ro with sub := ro.sub.map fun s => { s with finStep := .empty } }

/-- the tail of `Reconcile` between the switch on the old phase and `updateRolloutStatusInternal` (fix "cursor reset"):
    a rollout that was Progressing and whose new status says Terminating or Disabling changes its finalize reason and
    with it the order of the clean-up tasks; the cursor left by the success / rollback sequence (or by the
    continuous-release reset) is cleared, the new clean-up starts from its first task.
    `r.w.ro` is `newStatus` on every path that reaches this point; on the paths that return earlier (retry, error) the
    rollout of the result still carries the old phase Progressing, so the test is false there. -/
def resetOnExit (w : World) (r : StepResult) : StepResult :=
  if w.ro.phase = .progressing ∧ (r.w.ro.phase = .terminating ∨ r.w.ro.phase = .disabling) then
    { r with w := { r.w with ro := clearCursor r.w.ro } }
  else r

/-- the reset fires (as a `Bool`, for the oracles): the rollout was Progressing and its new status says Terminating or Disabling -/
def exitsProgressing (w : World) (r : StepResult) : Bool :=
  w.ro.phase = .progressing && (r.w.ro.phase = .terminating || r.w.ro.phase = .disabling)

def Out.map (f : StepResult → StepResult) : Out → Out
  | .val r => .val (f r)
  | .panic => .panic

/-- `RolloutReconciler.Reconcile` for an existing Rollout -/
def reconcile (w : World) : Out := (reconcileCore w).map (resetOnExit w)

end RV.RolloutSM
