/-
  The closed loop as ONE transition system: a joint state (Rollout, CloneSet, BatchRelease, network
  objects, the controllers' in-memory grace map) from which the views of the two controllers are
  *projections*, and one transition per label.

  The two reconcilers are NOT re-modelled here: `step s .ro` runs `RV.RolloutSM.reconcile` on the
  projection `roWorld s`, `step s .br` runs `RV.Executor.reconcile` on `exView s`, and the results
  are written back into the joint state the way the API server stores them.

  Source of the transitions other than the two reconcilers: `harness/suite_cluster.go`
  (`env`, `release`, `approve`, `tick`, `deleteRollout`, `restart`) and `harness/suite_closedloop.go`
  (`cllApiServer`: metadata.generation is bumped when a spec was written, a created BatchRelease gets
  generation 1 and a fresh UID).
-/
import RV.Model.RolloutSM
import RV.Model.Executor
namespace RV.ClosedLoop
open RV.Arith RV.Traffic

/-- the CloneSet -/
structure CWl where
  replicas : Int
  generation : Int
  observedGeneration : Int
  statusReplicas : Int
  updated : Int
  updatedReady : Int
  /-- short revision names ("v2"); the CloneSet status reports "wl-v2" -/
  updateRevision : String
  currentRevision : String
  partition : Option IntOrPct
  paused : Bool
  /-- the BatchRelease control annotation: absent, naming the current (or most recent) BatchRelease, naming another -/
  owner : Executor.Owner
  inProgressAnno : Bool
  deriving Repr, DecidableEq, Inhabited

/-- the BatchRelease: spec as the Rollout controller writes it, status as the executor writes it -/
structure CBr where
  batches : List IntOrPct
  partition : Option Int
  rolloutID : String
  policy : String
  rollbackAnno : Bool
  /-- workloadRef, rollingStyle, enableExtraWorkloadForCanary, patchPodTemplateMetadata equal what `createBatchRelease` writes -/
  specOther : Bool
  failureThreshold : Option IntOrPct
  deleting : Bool
  hasFinalizer : Bool
  generation : Int
  observedGeneration : Int
  observedRolloutID : String
  /-- `rolloutIDSame` of this record is not read: the view recomputes it from `observedRolloutID` -/
  st : Executor.Status
  deriving Repr, DecidableEq, Inhabited

/-- the joint state -/
structure CS where
  /-- the Rollout object no longer exists (then `ro` is not read) -/
  gone : Bool
  ro : RolloutSM.Rollout
  wl : Option CWl
  br : Option CBr
  net : Net
  mem : Mem
  deriving Repr, DecidableEq, Inhabited

inductive Label where
  | ro | br | env | release (rev : String) | approve | tick | crash | delete
  deriving Repr, DecidableEq, Inhabited

/-! ### projections -/

/-- what `ControllerFinder.getKruiseCloneSet` reports -/
def roWl (w : CWl) : RolloutSM.WL :=
  { consistent := decide (w.generation = w.observedGeneration), inProgressAnno := w.inProgressAnno,
    canaryRev := w.updateRevision, stableRev := w.currentRevision,
    inRollback := w.inProgressAnno && decide (w.currentRevision = w.updateRevision) && decide (w.updated ≠ w.statusReplicas),
    replicas := w.replicas, generation := w.generation, podTemplateHash := w.updateRevision }

/-- the executor's status record of a BatchRelease -/
def stOf (b : CBr) : Executor.Status := { b.st with rolloutIDSame := decide (b.observedRolloutID = b.rolloutID) }

/-- what the Rollout controller reads from the BatchRelease -/
def roBr (b : CBr) : RolloutSM.BR :=
  { batches := b.batches, partition := b.partition, rolloutID := b.rolloutID, policy := b.policy, rollbackAnno := b.rollbackAnno,
    specOther := b.specOther && b.failureThreshold.isNone, deleting := b.deleting,
    phaseCompleted := decide (b.st.phase = .completed), currentBatch := b.st.currentBatch,
    batchReady := decide (b.st.batchState = .ready), hashSame := decide (b.st.hash = .same),
    genObserved := decide (b.generation = b.observedGeneration) }

/-- the world of one Rollout reconcile -/
def roWorld (s : CS) : RolloutSM.World :=
  { ro := s.ro, wl := s.wl.map roWl, br := s.br.map roBr, net := s.net, mem := s.mem }

def exBr (b : CBr) : Executor.BR :=
  { batches := b.batches, partition := b.partition, failureThreshold := b.failureThreshold, deleting := b.deleting,
    hasFinalizer := b.hasFinalizer, rollbackAnno := b.rollbackAnno, status := stOf b }

def exWl (w : CWl) : Executor.Workload :=
  { replicas := w.replicas, generation := w.generation, observedGeneration := w.observedGeneration,
    statusReplicas := w.statusReplicas, updated := w.updated, updatedReady := w.updatedReady,
    updateRevision := "wl-" ++ w.updateRevision, currentRevision := "wl-" ++ w.currentRevision,
    partition := w.partition, paused := w.paused, owner := w.owner }

/-- the input of one BatchRelease reconcile (`none`: there is no BatchRelease, nothing is reconciled) -/
def exView (s : CS) : Option (Executor.BR × Option Executor.Workload) :=
  s.br.map fun b => (exBr b, s.wl.map exWl)

/-! ### how the writes of a Rollout reconcile land in the joint state -/

/-- status of an object the API server has just created -/
def emptyStatus : Executor.Status :=
  { phase := .empty, currentBatch := 0, batchState := .empty, hasReadyTime := false, hash := .empty, rolloutIDSame := false,
    observedReplicas := 0, updateRevision := "", stableRevision := "", noNeedUpdate := none, updated := 0, updatedReady := 0 }

/-- `createBatchRelease` landed: generation 1, nothing observed, no finalizer yet -/
def createdBr (b : RolloutSM.BR) : CBr :=
  { batches := b.batches, partition := b.partition, rolloutID := b.rolloutID, policy := b.policy, rollbackAnno := b.rollbackAnno,
    specOther := b.specOther, failureThreshold := none, deleting := false, hasFinalizer := false,
    generation := 1, observedGeneration := 0, observedRolloutID := "", st := emptyStatus }

/-- the spec part the release-plan hash and metadata.generation depend on -/
def specChanged (c : CBr) (b : RolloutSM.BR) : Bool :=
  !(c.batches == b.batches && c.partition == b.partition && c.rolloutID == b.rolloutID && c.policy == b.policy &&
    (c.specOther && c.failureThreshold.isNone) == b.specOther)

/-- an update / patch / delete of an existing BatchRelease landed -/
def updatedBr (c : CBr) (b : RolloutSM.BR) : Option CBr :=
  let ch := specChanged c b
  let c1 : CBr :=
    if ch then
      { c with batches := b.batches, partition := b.partition, rolloutID := b.rolloutID, policy := b.policy,
               specOther := b.specOther, failureThreshold := if b.specOther then none else c.failureThreshold,
               generation := c.generation + 1,
               st := { c.st with hash := if c.st.hash = .same then .differs else c.st.hash } }
    else c
  let c2 := { c1 with rollbackAnno := b.rollbackAnno }
  -- Delete: an object without finalizer disappears at once, otherwise it is marked
  if b.deleting ∧ ¬ c.deleting then (if c.hasFinalizer then some { c2 with deleting := true } else none)
  else some c2

/-- BatchRelease and workload after the Rollout reconcile's writes; a newly created BatchRelease makes a
    control annotation left by an earlier one foreign -/
def landBR (old : Option CBr) (new : Option RolloutSM.BR) (wl : Option CWl) : Option CBr × Option CWl :=
  match old, new with
  | _, none => (none, wl)
  | none, some b => (some (createdBr b), wl.map fun w => if w.owner = .this then { w with owner := .other } else w)
  | some c, some b => (updatedBr c b, wl)

/-- the only workload write of the Rollout controller: the in-progress annotation is removed (metadata: no generation bump) -/
def annoLand (wl : Option CWl) (v : Option RolloutSM.WL) : Option CWl :=
  match wl, v with
  | some w, some v => some { w with inProgressAnno := v.inProgressAnno }
  | w, _ => w

/-- how the result of one Rollout reconcile lands in the joint state -/
def landRo (s : CS) (r : RolloutSM.StepResult) : CS :=
  { gone := r.roGone, ro := r.w.ro, wl := (landBR s.br r.w.br (annoLand s.wl r.w.wl)).2,
    br := (landBR s.br r.w.br (annoLand s.wl r.w.wl)).1, net := r.w.net, mem := r.w.mem }

/-- `.ro`: one Rollout reconcile -/
def stepRo (s : CS) : Option CS :=
  if s.gone then some s else
  match RolloutSM.reconcile (roWorld s) with
  | .panic => none
  | .val r => some (landRo s r)

/-- the status the executor wrote; `observedGeneration` follows `metadata.generation` -/
def stLand (b : CBr) (eb : Executor.BR) : CBr :=
  { b with hasFinalizer := eb.hasFinalizer, st := eb.status, observedGeneration := b.generation,
           observedRolloutID := if eb.status.rolloutIDSame then b.rolloutID else b.observedRolloutID }

/-- the CloneSet after the executor's patch: `metadata.generation` is bumped when the spec changed -/
def wlLand (wl : Option CWl) (ew : Option Executor.Workload) : Option CWl :=
  match wl, ew with
  | some w, some ew =>
    some { w with partition := ew.partition, paused := ew.paused, owner := ew.owner,
                  generation := if ew.partition ≠ w.partition ∨ ew.paused ≠ w.paused then w.generation + 1 else w.generation }
  | w, _ => w

/-- how the result of one BatchRelease reconcile lands in the joint state -/
def landBr (s : CS) (b : CBr) (o : Executor.StepOut) : CS :=
  { s with br := o.br.map (stLand b), wl := wlLand s.wl o.wl }

/-- `.br`: one BatchRelease reconcile -/
def stepBr (s : CS) : Option CS :=
  match s.br with
  | none => some s
  | some b =>
    match Executor.reconcile (exBr b) (s.wl.map exWl) with
    | .panic => none
    | .val o => some (landBr s b o)

/-! ### environment and user -/

/-- one round of the simulated CloneSet controller (`clSim.env`) -/
def envWl (w : CWl) : CWl :=
  let R := w.replicas
  let w1 := { w with observedGeneration := w.generation, statusReplicas := R }
  if w1.updateRevision ≠ w1.currentRevision then
    let allowed : Int :=
      if w1.paused then w1.updated
      else match w1.partition with
        | some p => let kept := scaledV p R true; R - (if kept > R then R else kept)
        | none => R
    let upd := if w1.updated < allowed then allowed else w1.updated
    { w1 with updated := upd, updatedReady := upd, currentRevision := if upd ≥ R then w1.updateRevision else w1.currentRevision }
  else { w1 with updated := R, updatedReady := R }

/-- a new revision admitted by the workload webhook (`clSim.release`): held back at partition 100 %, marked in progress -/
def releaseWl (rev : String) (w : CWl) : CWl :=
  let w1 := { w with generation := w.generation + 1, inProgressAnno := true, partition := some (.pct 100), paused := false,
                     updateRevision := rev, updated := 0, updatedReady := 0 }
  if rev = w.currentRevision then
    let u : Int := if w.replicas - 1 < 0 then 0 else w.replicas - 1
    { w1 with updated := u, updatedReady := u }
  else w1

/-- the user confirms a manual pause (`clSim.approve`) -/
def approve (s : CS) : CS :=
  if s.gone then s else
  match s.ro.sub with
  | some sub => if sub.state = .paused then { s with ro := { s.ro with sub := some { sub with state := .ready } } } else s
  | none => s

def ageExp : Exp → Exp
  | .fresh => .elapsed
  | e => e

def ageAge : Age → Age
  | .fresh => .elapsed
  | a => a

/-- the grace periods elapse (`clSim.tick`) -/
def tick (s : CS) : CS :=
  let ro := if s.gone then s.ro else
    { s.ro with sub := s.ro.sub.map (fun sub => { sub with lastUpdate := ageAge sub.lastUpdate }), condAge := ageAge s.ro.condAge }
  { s with ro := ro,
           mem := { patchService := ageExp s.mem.patchService, restoreService := ageExp s.mem.restoreService,
                    restoreGateway := ageExp s.mem.restoreGateway, removeCanaryService := ageExp s.mem.removeCanaryService,
                    updateRoute := ageExp s.mem.updateRoute } }

/-- the user deletes the Rollout: kept while it carries the finalizer -/
def delete (s : CS) : CS :=
  if s.gone then s
  else if s.ro.hasFinalizer then { s with ro := { s.ro with deleting := true } }
  else { s with gone := true }

/-- a controller restart loses exactly the in-memory grace expectations -/
def crash (s : CS) : CS := { s with mem := Mem.empty }

/-- the transition function; `none` = a reconciler panics -/
def step (s : CS) : Label → Option CS
  | .ro => stepRo s
  | .br => stepBr s
  | .env => some { s with wl := s.wl.map envWl }
  | .release rev => some { s with wl := s.wl.map (releaseWl rev) }
  | .approve => some (approve s)
  | .tick => some (tick s)
  | .crash => some (crash s)
  | .delete => some (delete s)

/-- run a history; `none` as soon as a reconciler panics -/
def run (s : CS) : List Label → Option CS
  | [] => some s
  | l :: ls => match step s l with
    | none => none
    | some s' => run s' ls

end RV.ClosedLoop
