/-
  Model of `pkg/trafficrouting/network/gateway/gateway.go` (Gateway API provider).
  Core Lean only.  Every function names the Go function it transcribes.
  The model follows /repo's working tree *with* fixes/C13-1..4.patch applied (defects
  #4, #5, #6 and the match-less stable rule); the as-is transcription that reproduced the
  defects is commit 457c0f2 of this branch.

  Abstraction:  an HTTPRoute is its list of rules.  A rule is
  (matches, filters, backendRefs); `filters` and the parts of a backendRef the
  code never reads (group, namespace, port, per-backend filters) are opaque
  strings that are only copied.  Go `nil` and empty slices are identified.
-/
namespace RV.Gateway

/-- `HTTPHeaderMatch` / `HTTPQueryParamMatch`: (type?, name, value). -/
structure Atom where
  ty : Option String
  name : String
  value : String
  deriving DecidableEq, Repr

/-- `HTTPPathMatch`: (type?, value?). -/
structure PathM where
  ty : Option String
  value : Option String
  deriving DecidableEq, Repr

/-- `gatewayv1beta1.HTTPRouteMatch` (a match of a rule of the route). -/
structure Match where
  path : Option PathM
  headers : List Atom
  queryParams : List Atom
  method : Option String
  deriving DecidableEq, Repr

/-- `v1beta1.HttpRouteMatch` (a match the user wrote in the rollout step; no method). -/
structure UMatch where
  path : Option PathM
  headers : List Atom
  queryParams : List Atom
  deriving DecidableEq, Repr

/-- `HTTPBackendRef`; `rest` = group/namespace/port/filters, never read by the code. -/
structure Ref where
  kind : Option String
  name : String
  weight : Option Int
  rest : String
  deriving DecidableEq, Repr

/-- `HTTPRouteRule`; `mts` = `Matches` (`matches` is a Lean keyword). -/
structure Rule where
  mts : List Match
  filters : String
  refs : List Ref
  deriving DecidableEq, Repr

/-- the two Service names of `Config` the builder reads -/
structure Conf where
  stable : String
  canary : String
  deriving DecidableEq, Repr

/-- `NewGatewayTrafficRouting`: `true` = the constructor returns an error — the canary Service name equals the
    stable Service name.  The builders below tell the canary backendRef from the stable one by the Service name;
    without a canary Service of its own (`disableGenerateCanaryService`, TrafficRouting CR) the user's own
    backendRef would be taken for the canary ref and dropped by `Finalise`. -/
def Conf.refused (c : Conf) : Bool := c.canary == c.stable

/-- result of the builder: the desired rules, or a Go panic (nil-pointer / index) -/
inductive Out where
  | ok (rules : List Rule)
  | panic
  deriving DecidableEq, Repr

/-- `ref.Kind != nil && *ref.Kind == "Service" && string(ref.Name) == serviceName` -/
def isSvc (r : Ref) (name : String) : Bool :=
  r.kind == some "Service" && r.name == name

/-- `getServiceBackendRef`: index and copy of the first Service ref with that name. -/
def getRef : List Ref → String → Option (Nat × Ref)
  | [], _ => none
  | r :: rs, n =>
    if isSvc r n then some (0, r)
    else match getRef rs n with
      | none => none
      | some (i, x) => some (i + 1, x)

/-- `setServiceBackendRef`: no-op for a non-Service ref; append when no ref of that
    name exists; otherwise rebuild the slice with position `index` replaced. -/
def setRef (refs : List Ref) (ref : Ref) : List Ref :=
  if ref.kind != some "Service" then refs
  else match getRef refs ref.name with
    | none => refs ++ [ref]
    | some (idx, _) => refs.set idx ref

/-- `filterOutServiceBackendRef`: rebuild the slice without position `index`. -/
def filterOut (refs : List Ref) (name : String) : List Ref :=
  match getRef refs name with
  | none => refs
  | some (idx, _) => refs.eraseIdx idx

/-- `if stableRef != nil { stableRef.Weight = 1; setServiceBackendRef(&rule, *stableRef) }` -/
def resetStable (c : Conf) (refs : List Ref) : List Ref :=
  match getRef refs c.stable with
  | some (_, s) => setRef refs { s with weight := some 1 }
  | none => refs

/-- body of the `weight == -1` loop of `buildDesiredHTTPRoute`; `none` = rule dropped
    (only a rule whose single backend was the canary Service, i.e. a generated rule). -/
def finaliseRule (c : Conf) (rule : Rule) : Option Rule :=
  let hadCanary := (getRef rule.refs c.canary).isSome
  let refs2 := resetStable c (filterOut rule.refs c.canary)
  if hadCanary && refs2.length == 0 then none else some { rule with refs := refs2 }

def finaliseRules (c : Conf) (rules : List Rule) : List Rule :=
  rules.filterMap (finaliseRule c)

/-- body of the loop of `buildCanaryWeightHttpRoutes` (`generateCanaryWeight` inlined). -/
def weightRule (c : Conf) (w : Int) (rule : Rule) : Rule :=
  match getRef rule.refs c.stable with
  | none => rule
  | some (_, stableRef) =>
    let canaryRef := match getRef rule.refs c.canary with
      | some (_, k) => k
      | none => { stableRef with name := c.canary }
    let stableRef := { stableRef with weight := some (100 - w) }
    let canaryRef := { canaryRef with weight := some w }
    { rule with refs := setRef (setRef rule.refs stableRef) canaryRef }

/-- `buildCanaryWeightHttpRoutes`.  `*weight` is dereferenced inside the loop, only for
    a rule that has a stable ref: with a nil weight the first such rule panics. -/
def buildWeight (c : Conf) (rules : List Rule) : Option Int → Out
  | some w => .ok (rules.map (weightRule c w))
  | none =>
    if rules.any (fun r => (getRef r.refs c.stable).isSome) then .panic else .ok rules

/-- `HTTPRouteMatch{Path, Headers, QueryParams}` built from a user match with a path. -/
def ofU (u : UMatch) : Match :=
  { path := u.path, headers := u.headers, queryParams := u.queryParams, method := none }

/-- `canaryRuleMatchBase` with the headers / query params of user match `u` appended. -/
def extend (m : Match) (u : UMatch) : Match :=
  { m with headers := m.headers ++ u.headers, queryParams := m.queryParams ++ u.queryParams }

/-- the zero value `HTTPRouteMatch{}` -/
def emptyMatch : Match := { path := none, headers := [], queryParams := [], method := none }

/-- inner double loop of `buildCanaryHeaderHttpRoutes`:
    `for j := range baseMatches { for k := range nonPathMatches { … nonPathMatches[k] … } }`
    where `baseMatches` is the rule's matches, or one empty match if it has none.
    (`k` ranges over the indices of the slice it indexes: no out-of-range access.) -/
def combine (base : List Match) (nonPath : List UMatch) : List Match :=
  let base := if base.isEmpty then [emptyMatch] else base
  base.flatMap fun m => nonPath.map (extend m)

/-- head of the loop body of `buildCanaryHeaderHttpRoutes`: a rule with a canary ref is
    a generated rule (no stable ref: dropped, `none`) or a user rule still carrying the
    canary ref of a weight step (restored: canary ref removed, stable weight 1). -/
def matchKeep (c : Conf) (rule : Rule) : Option Rule :=
  match getRef rule.refs c.canary with
  | none => some rule
  | some _ =>
    match getRef rule.refs c.stable with
    | none => none
    | some (_, stableRef) =>
      some { rule with
        refs := setRef (filterOut rule.refs c.canary) { stableRef with weight := some 1 } }

/-- rest of the loop body for a kept rule that has a stable ref: the generated canary
    rule, if any (`pm` = the not yet consumed `pathMatches`). -/
def canaryRuleFor (c : Conf) (nonPath pm : List UMatch) (rule : Rule) (stableRef : Ref) :
    Option Rule :=
  let canaryRef := { stableRef with name := c.canary }
  let newM0 := pm.map ofU
  if nonPath.isEmpty && newM0.isEmpty then none
  else some { rule with refs := [canaryRef], mts := newM0 ++ combine rule.mts nonPath }

/-- loop of `buildCanaryHeaderHttpRoutes` over the rules; state = the not yet consumed
    `pathMatches` (reset to nil after the first rule with a stable ref);
    result = (`desired`, `canaries`). -/
def headerLoop (c : Conf) (nonPath : List UMatch) :
    List UMatch → List Rule → List Rule × List Rule
  | _, [] => ([], [])
  | pm, rule0 :: rest =>
    match matchKeep c rule0 with
    | none => headerLoop c nonPath pm rest                  -- `continue`: rule dropped
    | some rule =>
      match getRef rule.refs c.stable with
      | none =>
        let tl := headerLoop c nonPath pm rest
        (rule :: tl.1, tl.2)
      | some (_, stableRef) =>
        let tl := headerLoop c nonPath [] rest              -- pathMatches = nil
        match canaryRuleFor c nonPath pm rule stableRef with
        | none => (rule :: tl.1, tl.2)
        | some k => (rule :: tl.1, k :: tl.2)

/-- `buildCanaryHeaderHttpRoutes` -/
def buildHeader (c : Conf) (rules : List Rule) (ms : List UMatch) : List Rule :=
  let pathMs := ms.filter (fun u => u.path.isSome)
  let nonPath := ms.filter (fun u => u.path.isNone)
  let res := headerLoop c nonPath pathMs rules
  res.1 ++ res.2

/-- `buildDesiredHTTPRoute` -/
def buildDesired (c : Conf) (rules : List Rule) (w : Option Int) (ms : List UMatch) : Out :=
  if w == some (-1) then .ok (finaliseRules c rules)
  else if !ms.isEmpty then .ok (buildHeader c rules ms)
  else buildWeight c rules w

/-! ### `EnsureRoutes` / `Finalise` on the stored route -/

/-- `strategy.Traffic` as canonicalised by the harness: a string of the form `"<n>%"`
    or any other string.  `intstr.GetScaledValueFromIntOrPercent(&is, 100, true)` with
    the error dropped: `n` for `"<n>%"` (⌈n·100/100⌉ = n), `0` for anything else. -/
inductive Traffic where
  | pct (n : Int)
  | bad
  deriving DecidableEq, Repr

def Traffic.weight : Traffic → Int
  | .pct n => n
  | .bad => 0

structure Step where
  traffic : Option Traffic
  ms : List UMatch
  deriving DecidableEq, Repr

def Step.weight (s : Step) : Option Int := s.traffic.map Traffic.weight

/-- outcome of one provider call: what it returned and the rules stored afterwards
    (`none` = the HTTPRoute does not exist). -/
structure CallRes where
  ret : Bool
  err : String          -- "ok" | "notFound" | "panic"
  store : Option (List Rule)
  deriving DecidableEq, Repr

/-- `EnsureRoutes`: get, build, `reflect.DeepEqual` → verified, otherwise update. -/
def ensureRoutes (c : Conf) (store : Option (List Rule)) (s : Step) : CallRes :=
  match store with
  | none => { ret := false, err := "notFound", store := none }
  | some rules =>
    match buildDesired c rules s.weight s.ms with
    | .panic => { ret := false, err := "panic", store := some rules }
    | .ok desired =>
      if rules == desired then { ret := true, err := "ok", store := some rules }
      else { ret := false, err := "ok", store := some desired }

/-- `Finalise`: not found → (false, nil); unchanged → false; updated → true. -/
def finalise (c : Conf) (store : Option (List Rule)) : CallRes :=
  match store with
  | none => { ret := false, err := "ok", store := none }
  | some rules =>
    match buildDesired c rules (some (-1)) [] with
    | .panic => { ret := false, err := "panic", store := some rules }
    | .ok desired =>
      if rules == desired then { ret := false, err := "ok", store := some rules }
      else { ret := true, err := "ok", store := some desired }

/-- the stored route after `EnsureRoutes` has been called for each step in turn
    (a call that panics or does not find the route leaves the store as it is) -/
def runSteps (c : Conf) (store : Option (List Rule)) (steps : List Step) : Option (List Rule) :=
  steps.foldl (fun st s => (ensureRoutes c st s).store) store

end RV.Gateway
