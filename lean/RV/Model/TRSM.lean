/-
  One reconcile of the TrafficRouting controller.
  Source: pkg/controller/trafficrouting/trafficrouting_controller.go  Reconcile, handleFinalizer
  (the Manager calls are `RV.Traffic` with OnlyTrafficRouting = true, which behaves like
  DisableGenerateCanaryService in every Manager function).
-/
import RV.Model.Traffic
namespace RV.TRSM
open RV.Traffic

inductive Phase where
  | empty | initial | healthy | progressing | finalizing | terminating | other
  deriving Repr, DecidableEq, Inhabited

structure TR where
  deleting : Bool
  hasFinalizer : Bool          -- rollouts.kruise.io/trafficrouting
  progressing : Nat            -- number of progressing.rollouts.kruise.io/<rollout> finalizers
  phase : Phase
  weight : Option Nat
  grace : Nat
  deriving Repr, DecidableEq, Inhabited

structure World where
  tr : TR
  net : Net
  mem : Mem
  deriving Repr, DecidableEq, Inhabited

structure Result where
  w : World
  gone : Bool            -- the object disappeared (no finalizer left while deleting)
  requeue : Bool
  err : Bool
  /-- `FinalisingTrafficRouting` returned *done* in this reconcile -/
  finalised : Bool
  deriving Repr, DecidableEq

def tctx (t : TR) : TCtx :=
  { hasRef := true, grace := t.grace, weight := t.weight, disableGen := true, stableRev := "", canaryRev := "",
    lastUpdate := .none, hasRevKey := false }   -- the TrafficRouting context carries no revision label key

/-- the object goes away when it is in deletion and carries no finalizer at all -/
def isGone (t : TR) : Bool := t.deleting && !t.hasFinalizer && t.progressing == 0

/-- `Reconcile` -/
def reconcile (w : World) : Result :=
  let t := w.tr
  -- handleFinalizer at the top only registers the finalizer of a live object
  let t1 := if ¬ t.deleting ∧ ¬ t.hasFinalizer then { t with hasFinalizer := true } else t
  let phase := if t1.deleting then Phase.terminating else if t1.phase = .empty then .initial else t1.phase
  let keep (t' : TR) (n : Net) (m : Mem) (rq err fin : Bool) : Result :=
    { w := { tr := t', net := n, mem := m }, gone := isGone t', requeue := rq, err := err, finalised := fin }
  match phase with
  | .initial =>
    if ¬ w.net.stableExists ∨ ¬ w.net.stableIngress then keep t1 w.net w.mem false true false
    else keep { t1 with phase := .healthy } w.net w.mem false false false
  | .healthy =>
    keep { t1 with phase := if t1.progressing > 0 then .progressing else .healthy } w.net w.mem false false false
  | .progressing =>
    if t1.progressing = 0 then keep { t1 with phase := .finalizing } w.net w.mem false false false
    else
      let o := doTrafficRouting (tctx t1) w.net w.mem
      if o.err then keep t1 o.net o.mem false true false
      else if ¬ o.done then keep t1 o.net o.mem true false false
      else keep { t1 with phase := .progressing } o.net o.mem false false false
  | .finalizing =>
    let o := finalisingTrafficRouting (tctx t1) w.net w.mem
    if o.err then keep t1 o.net o.mem false true false
    else if ¬ o.done then keep t1 o.net o.mem true false false
    else keep { t1 with phase := .healthy } o.net o.mem false false true
  | .terminating =>
    let o := finalisingTrafficRouting (tctx t1) w.net w.mem
    if o.err then keep t1 o.net o.mem false true false
    else if ¬ o.done then keep t1 o.net o.mem true false false
    else
      -- handleFinalizer again: remove the own finalizer of an object in deletion (register it otherwise);
      -- the status update then finds the object or not
      let t2 := if t1.deleting then { t1 with hasFinalizer := false } else { t1 with hasFinalizer := true }
      if isGone t2 then keep t2 o.net o.mem false (decide (t1.phase ≠ .terminating)) true
      else keep { t2 with phase := .terminating } o.net o.mem false false true
  | _ => keep { t1 with phase := phase } w.net w.mem false false false

end RV.TRSM
