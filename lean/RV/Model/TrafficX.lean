/-
  The traffic-routing Manager over an *arbitrary* network provider, the composite provider, and the
  three real providers as instances.

  Source:
    pkg/trafficrouting/manager.go             InitializeTrafficRouting, DoTrafficRouting, FinalisingTrafficRouting,
                                              RouteAllTrafficToNewVersion, RestoreGateway, RemoveCanaryService,
                                              PatchStableService, RestoreStableService, newNetworkProvider,
                                              getCanaryServiceName, GetGraceSeconds, UpdateRecheckDuration
    pkg/trafficrouting/network/interface.go   NetworkProvider
    pkg/trafficrouting/network/composite.go   CompositeController
    pkg/util/grace/grace_wrapper.go           runWithGraceSeconds   (`RV.Traffic.runGrace`)

  `RV/Model/Traffic.lean` models the same Manager with the provider hard-wired to "nginx canary Ingress
  with a weight".  Here a provider is a record of functions over its own state type; the Manager
  functions are parametric in it.  `RV.Props.TrafficX.traffic_is_instance` proves that the old model
  is the instance `nginxW` of this one.

  API faults: every function runs against an `Api` value: a *write budget* (`LogClient.FailAt`) and a
  *read fault* (`LogClient.FailGetN`).

  Core Lean only (linked into the driver).
-/
import RV.Model.Traffic
import RV.Model.Gateway
import RV.Model.Ingress
import RV.Model.Custom
import RV.Model.CustomHist

namespace RV.TrafficX
open RV.Traffic (Exp Age Mem runGrace selOf)

/-! ## API faults -/

abbrev Budget := Option Nat

/-- health of the API server during one Manager call.
    * `w`: write budget — `none` = every write succeeds; `some k` = the next `k` writes succeed, every later one
      returns an error (`LogClient.FailAt = k`: the process / the API server dies after the k-th write);
    * `r`: read fault — `some k` (k ≥ 1) = the k-th `Get` from now fails with an internal error (NOT NotFound),
      the others succeed (`LogClient.FailGetN = k`); `none` = no `Get` fails.  Reads of ConfigMaps (Lua
      scripts) are not counted. -/
structure Api where
  w : Budget := none
  r : Budget := none
  deriving DecidableEq, Repr

/-- the healthy API server -/
def Api.ok : Api := ⟨none, none⟩

/-- one write: `none` = the call returns an error (and writes nothing) -/
def Api.spend (a : Api) : Option Api :=
  match a.w with
  | none => some a
  | some 0 => none
  | some (k + 1) => some { a with w := some k }

/-- one `Get`: (it fails with an internal error, the API afterwards) -/
def Api.read (a : Api) : Bool × Api :=
  match a.r with
  | some 1 => (true, { a with r := none })
  | some (k + 2) => (false, { a with r := some (k + 1) })
  | _ => (false, a)

/-- a read fault is armed (`some k`, k ≥ 1) -/
def Api.armed (a : Api) : Bool :=
  match a.r with
  | some (_ + 1) => true
  | _ => false

/-- a read fault was armed before the call and is spent afterwards: some `Get` of the call failed -/
def readFailed (before after : Api) : Bool := before.armed && !after.armed

/-! ## providers -/

/-- result of one provider call -/
structure PRes (G : Type) where
  g : G                    -- provider state afterwards
  flag : Bool              -- EnsureRoutes: verified;  Finalise: modified
  err : Bool
  a : Api                  -- API health afterwards
  writes : List String     -- successful API writes, in order
  panic : Bool := false    -- the Go code dereferences nil / indexes out of range

/-- `network.NetworkProvider` over a state type `G`, for strategies of type `S` -/
structure Provider (S G : Type) where
  /-- `Initialize`: `true` = an error is returned -/
  initz : G → Bool
  /-- `EnsureRoutes` -/
  ensure : Api → G → S → PRes G
  /-- `Finalise` -/
  finalise : Api → G → PRes G

variable {S G G₁ G₂ : Type}

/-- the empty `CompositeController{}`: the bodies of the three loops never run -/
def idle : Provider S G where
  initz _ := false
  ensure a g _ := ⟨g, true, false, a, [], false⟩
  finalise a g := ⟨g, false, false, a, [], false⟩

/-- one iteration of each loop of `CompositeController` (`p`), followed by the remaining iterations (`q`).
    * `Initialize`: the first error is returned;
    * `EnsureRoutes`: an error stops the loop (`return false, innerErr`); a member that is not verified
      only clears `done`, the remaining members are still called;
    * `Finalise`: an error is collected and the loop goes on; `modified` is set by the members that did
      not fail. -/
def seq (p q : Provider S G) : Provider S G where
  initz g := p.initz g || q.initz g
  ensure a g s :=
    let r1 := p.ensure a g s
    if r1.panic then r1
    else if r1.err then { r1 with flag := false }
    else
      let r2 := q.ensure r1.a r1.g s
      if r2.panic then { r2 with writes := r1.writes ++ r2.writes }
      else if r2.err then ⟨r2.g, false, true, r2.a, r1.writes ++ r2.writes, false⟩
      else ⟨r2.g, r1.flag && r2.flag, false, r2.a, r1.writes ++ r2.writes, false⟩
  finalise a g :=
    let r1 := p.finalise a g
    if r1.panic then r1
    else
      let r2 := q.finalise r1.a r1.g
      if r2.panic then { r2 with writes := r1.writes ++ r2.writes }
      else ⟨r2.g, (!r1.err && r1.flag) || r2.flag, r1.err || r2.err, r2.a, r1.writes ++ r2.writes, false⟩

/-- `network.CompositeController` -/
def composite : List (Provider S G) → Provider S G
  | [] => idle
  | p :: ps => seq p (composite ps)

/-- a provider over one component of a product acts on the product and leaves the other component alone
    (the three real providers manage disjoint sets of objects of the same API server) -/
def onFst (P : Provider S G₁) : Provider S (G₁ × G₂) where
  initz g := P.initz g.1
  ensure a g s := let r := P.ensure a g.1 s; ⟨(r.g, g.2), r.flag, r.err, r.a, r.writes, r.panic⟩
  finalise a g := let r := P.finalise a g.1; ⟨(r.g, g.2), r.flag, r.err, r.a, r.writes, r.panic⟩

def onSnd (P : Provider S G₂) : Provider S (G₁ × G₂) where
  initz g := P.initz g.2
  ensure a g s := let r := P.ensure a g.2 s; ⟨(g.1, r.g), r.flag, r.err, r.a, r.writes, r.panic⟩
  finalise a g := let r := P.finalise a g.2; ⟨(g.1, r.g), r.flag, r.err, r.a, r.writes, r.panic⟩

/-! ## the Manager -/

/-- what the Manager itself reads of / does to `c.Strategy` -/
structure StratOps (S : Type) where
  /-- `c.Strategy.Traffic == nil` -/
  noTraffic : S → Bool
  /-- `len(c.Strategy.Matches) == 0` -/
  noMatches : S → Bool
  /-- `c.Strategy.Matches = nil; c.Strategy.Traffic = "100%"` -/
  routeAll : S → S

/-- `TrafficRoutingContext` -/
structure XCtx (S : Type) where
  hasRef : Bool                -- len(c.ObjectRef) ≠ 0
  grace : Int                  -- c.ObjectRef[0].GracePeriodSeconds
  extraGrace : List Int := []  -- GracePeriodSeconds of c.ObjectRef[1..]
  defGrace : Int := 3          -- package variable defaultGracePeriodSeconds
  strategy : S
  disableGen : Bool            -- DisableGenerateCanaryService
  onlyTR : Bool := false       -- OnlyTrafficRouting
  stableRev : String
  canaryRev : String
  /-- age of `LastUpdateTime` relative to the grace period `DoTrafficRouting` waits for -/
  lastUpdate : Age
  /-- `RevisionLabelKey` is known (it is empty when the controller could not read the workload) -/
  hasRevKey : Bool := true

/-- the part of the API server one rollout's traffic routing touches -/
structure XNet (G : Type) where
  stableExists : Bool
  stableSel : Option String    -- stable Service selector[revisionLabelKey]; none = not pinned
  canarySvc : Option String    -- Service `<stable>-canary`: none = absent, some r = selects revision r
  g : G                        -- the objects of the network provider(s)

/-- outcome of a Manager call -/
structure XOut (G : Type) where
  done : Bool          -- "done" for DoTrafficRouting/FinalisingTrafficRouting, "retry" for the others
  err : Bool
  net : XNet G
  mem : Mem
  touched : Bool       -- c.LastUpdateTime was set to now
  recheck : Bool       -- c.RecheckDuration was raised (> 0)
  writes : List String -- successful API writes, in order
  a : Api              -- API health afterwards
  panic : Bool := false

/-- `GetGraceSeconds(refs, defaultSeconds)` on the list of `GracePeriodSeconds` of the refs -/
def getGraceSeconds (refs : List Int) (dflt : Int) : Int :=
  if refs.isEmpty then dflt
  else
    let g := refs.foldl (fun acc x => if acc < x then x else acc) 0      -- integer.Int32Max from 0
    if g < 0 then dflt else g

/-- the grace period of the `RunWithGraceSeconds` calls of this context -/
def XCtx.graceSec (c : XCtx S) : Nat := (getGraceSeconds (c.grace :: c.extraGrace) c.defGrace).toNat

/-- the seconds `DoTrafficRouting` waits after `LastUpdateTime`:
    `if trafficRouting.GracePeriodSeconds <= 0 { … = defaultGracePeriodSeconds }` -/
def XCtx.doGrace (c : XCtx S) : Int := if c.grace ≤ 0 then c.defGrace else c.grace

/-- `c.OnlyTrafficRouting || c.DisableGenerateCanaryService`: no canary Service of its own -/
def XCtx.noGen (c : XCtx S) : Bool := c.onlyTR || c.disableGen

/-- `getCanaryServiceName` -/
def canaryServiceName (stable : String) (onlyTR disableGen : Bool) : String :=
  if onlyTR || disableGen then stable else stable ++ "-canary"

def XOut.same (done err : Bool) (n : XNet G) (m : Mem) (a : Api) : XOut G :=
  ⟨done, err, n, m, false, false, [], a, false⟩

def XOut.panicked (n : XNet G) (m : Mem) (a : Api) : XOut G :=
  ⟨false, false, n, m, false, false, [], a, true⟩

/-- `Manager.PatchStableService` (`done` = retry) -/
def patchStableServiceX (c : XCtx S) (a : Api) (n : XNet G) (m : Mem) : XOut G :=
  if ¬ c.hasRef then .same false false n m a
  else if c.noGen then .same false false n m a
  else
    let (rf, a) := a.read                                  -- Get stable Service
    if rf then .same false true n m a
    else if ¬ n.stableExists then .same false true n m a
    else
      let modified := decide (n.stableSel.getD "" ≠ c.stableRev)
      if modified then
        match a.spend with
        | none => .same true true n m a                    -- the patch fails: `return false, err` ↦ (true, 0, err)
        | some a1 =>
          let (e, retry) := runGrace c.graceSec m.patchService true
          ⟨retry, false, { n with stableSel := selOf c.stableRev }, { m with patchService := e }, true, retry,
            ["patchStable"], a1, false⟩
      else
        let (e, retry) := runGrace c.graceSec m.patchService false
        ⟨retry, false, n, { m with patchService := e }, false, retry, [], a, false⟩

/-- `Manager.RestoreStableService` (`done` = retry) -/
def restoreStableServiceX (c : XCtx S) (a : Api) (n : XNet G) (m : Mem) : XOut G :=
  if ¬ c.hasRef then .same false false n m a
  else
    let (rf, a) := a.read                                  -- Get stable Service
    if rf then .same true true n m a                       -- `return true, err`
    else if ¬ n.stableExists then .same false false n m a
    else
      -- with an empty revision-label key the selector lookup finds nothing: the Service is left as it is
      let modified := c.hasRevKey && decide (n.stableSel.getD "" ≠ "")
      if modified then
        match a.spend with
        | none => .same true true n m a
        | some a1 =>
          let (e, retry) := runGrace c.graceSec m.restoreService true
          ⟨retry, false, { n with stableSel := none }, { m with restoreService := e }, true, retry,
            ["unpinStable"], a1, false⟩
      else
        let (e, retry) := runGrace c.graceSec m.restoreService false
        ⟨retry, false, n, { m with restoreService := e }, false, retry, [], a, false⟩

/-- `Manager.RestoreGateway` (`done` = retry); `P = none`: `newNetworkProvider` fails -/
def restoreGatewayX (P : Option (Provider S G)) (c : XCtx S) (a : Api) (n : XNet G) (m : Mem) : XOut G :=
  if ¬ c.hasRef then .same false false n m a
  else
    match P with
    | none => .same false true n m a
    | some P =>
      let r := P.finalise a n.g
      if r.panic then .panicked n m a
      else if r.err then
        ⟨true, true, { n with g := r.g }, m, r.flag, false, r.writes, r.a, false⟩
      else
        let (e, retry) := runGrace c.graceSec m.restoreGateway r.flag
        ⟨retry, false, { n with g := r.g }, { m with restoreGateway := e }, r.flag, retry, r.writes, r.a, false⟩

/-- `Manager.RemoveCanaryService` (`done` = retry) -/
def removeCanaryServiceX (c : XCtx S) (a : Api) (n : XNet G) (m : Mem) : XOut G :=
  if ¬ c.hasRef then .same false false n m a
  else if c.noGen then .same false false n m a
  else
    match n.canarySvc with
    | none =>
      -- the Delete is issued all the same (it counts against the budget); NotFound ↦ `return false, nil`
      match a.spend with
      | none => .same true true n m a
      | some a1 =>
        let (e, retry) := runGrace c.graceSec m.removeCanaryService false
        ⟨retry, false, n, { m with removeCanaryService := e }, false, retry, [], a1, false⟩
    | some _ =>
      match a.spend with
      | none => .same true true n m a
      | some a1 =>
        let (e, retry) := runGrace c.graceSec m.removeCanaryService true
        ⟨retry, false, { n with canarySvc := none }, { m with removeCanaryService := e }, false, retry,
          ["deleteCanarySvc"], a1, false⟩

/-- `Manager.RouteAllTrafficToNewVersion` (`done` = retry) -/
def routeAllToNewX (ops : StratOps S) (P : Option (Provider S G)) (c : XCtx S) (a : Api) (n : XNet G) (m : Mem) :
    XOut G :=
  if ¬ c.hasRef then .same false false n m a
  else
    match P with
    | none => .same false true n m a
    | some P =>
      let r := P.ensure a n.g (ops.routeAll c.strategy)
      if r.panic then .panicked n m a
      else if r.err then
        ⟨true, true, { n with g := r.g }, m, !r.flag, false, r.writes, r.a, false⟩
      else
        let (e, retry) := runGrace c.graceSec m.updateRoute (!r.flag)
        ⟨retry, false, { n with g := r.g }, { m with updateRoute := e }, !r.flag, retry, r.writes, r.a, false⟩

/-- `Manager.FinalisingTrafficRouting` (`done` = done): stable Service, then provider, then canary Service -/
def finalisingTrafficRoutingX (P : Option (Provider S G)) (c : XCtx S) (a : Api) (n : XNet G) (m : Mem) : XOut G :=
  if ¬ c.hasRef then ⟨true, false, n, m, false, false, [], a, false⟩
  else
    let r1 := restoreStableServiceX c a n m
    if r1.err ∨ r1.done then { r1 with done := false } else
    let r2 := restoreGatewayX P c r1.a r1.net r1.mem
    if r2.panic then r2 else
    if r2.err ∨ r2.done then
      ⟨false, r2.err, r2.net, r2.mem, r1.touched || r2.touched, r1.recheck || r2.recheck, r1.writes ++ r2.writes, r2.a, false⟩
    else
    let r3 := removeCanaryServiceX c r2.a r2.net r2.mem
    if r3.err ∨ r3.done then
      ⟨false, r3.err, r3.net, r3.mem, r1.touched || r2.touched, r1.recheck || r2.recheck || r3.recheck,
        r1.writes ++ r2.writes ++ r3.writes, r3.a, false⟩
    else
      ⟨true, false, r3.net, r3.mem, r1.touched || r2.touched, r1.recheck || r2.recheck || r3.recheck,
        r1.writes ++ r2.writes ++ r3.writes, r3.a, false⟩

/-- result of the Service part of `DoTrafficRouting` -/
inductive SvcRes (G : Type) where
  | wait                                                   -- revisions unknown
  | fail (n : XNet G) (ws : List String) (a : Api)         -- a Service read or write failed
  | ok (n : XNet G) (ws : List String) (a : Api)

/-- the Service part of `DoTrafficRouting`: create / re-select the canary Service, pin the stable one -/
def svcStepX (c : XCtx S) (a : Api) (n : XNet G) : SvcRes G :=
  if c.noGen then .ok n [] a
  else if c.stableRev = "" ∨ c.canaryRev = "" then .wait
  else
    let (rf, a) := a.read                                  -- Get canary Service
    if rf then .fail n [] a
    else
    -- NotFound ↦ createCanaryService; selector differs ↦ Patch
    let r1 : Option (XNet G × List String × Api) :=
      match n.canarySvc with
      | none =>
        match a.spend with
        | none => none
        | some a1 => some ({ n with canarySvc := some c.canaryRev }, ["createCanarySvc"], a1)
      | some r =>
        if r ≠ c.canaryRev then
          match a.spend with
          | none => none
          | some a1 => some ({ n with canarySvc := some c.canaryRev }, ["patchCanarySvc"], a1)
        else some (n, [], a)
    match r1 with
    | none => .fail n [] a
    | some (n1, ws1, a1) =>
      if n1.stableSel.getD "" ≠ c.stableRev then
        match a1.spend with
        | none => .fail n1 ws1 a1
        | some a2 => .ok { n1 with stableSel := some c.stableRev } (ws1 ++ ["patchStable"]) a2
      else .ok n1 ws1 a1

/-- the provider part of `DoTrafficRouting` -/
def routeStepX (P : Option (Provider S G)) (s : S) (a : Api) (n : XNet G) (m : Mem) : XOut G :=
  match P with
  | none => .same false true n m a
  | some P =>
    let r := P.ensure a n.g s
    if r.panic then .panicked n m a
    else if r.err then ⟨false, true, { n with g := r.g }, m, false, false, r.writes, r.a, false⟩
    else ⟨r.flag, false, { n with g := r.g }, m, false, false, r.writes, r.a, false⟩

/-- `Manager.DoTrafficRouting` (`done` = done) -/
def doTrafficRoutingX (ops : StratOps S) (P : Option (Provider S G)) (c : XCtx S) (a : Api) (n : XNet G) (m : Mem) :
    XOut G :=
  if ¬ c.hasRef then .same true false n m a
  -- a step with neither traffic nor matches: nothing to route
  else if ops.noTraffic c.strategy && ops.noMatches c.strategy then .same true false n m a
  else
    let (rf, a) := a.read                                  -- Get stable Service
    if rf then .same false true n m a
    else if ¬ n.stableExists then .same false false n m a             -- NotFound: wait a moment, retry
    else if c.lastUpdate = .fresh ∧ c.doGrace > 0 then .same false false n m a
    else
      match svcStepX c a n with
      | .wait => .same false false n m a
      | .fail n2 ws a2 => ⟨false, true, n2, m, false, false, ws, a2, false⟩
      | .ok n2 ws a2 =>
        -- a modified Service starts a new grace period; the provider is only touched when the Services are in place
        if ws ≠ [] then ⟨false, false, n2, m, true, false, ws, a2, false⟩
        else routeStepX P c.strategy a2 n2 m

/-! ## a stable Service without `spec.selector` -/

/-- the stable Service carries no selector at all (`bare`; legal for the API server: a Service with manually
    managed Endpoints, an ExternalName Service) and this call of `DoTrafficRouting` gets as far as creating the
    canary Service (a ref, something to route, both `Get`s answered, stable Service found and not pinned, no grace
    period running, a canary Service is generated, the revisions are known, no canary Service yet):
    `createCanaryService` finds `spec.Selector == nil` and **returns an error** before anything is written
    (`stable service of canary service(%s) has no selector, cannot generate the canary service`) — a Service
    without selector cannot be narrowed to a revision.  (A stable Service whose only selector entry is the
    revision label is not nil: the canary Service is created from it.)
    Before the repair (rollouts commit bc46e20) the function assigned the revision label into the
    nil map: `panic: assignment to entry in nil map` (fixed finding `selectorlessStable`). -/
def refusesBare (ops : StratOps S) (c : XCtx S) (a : Api) (n : XNet G) (bare : Bool) : Bool :=
  bare && c.hasRef && !(ops.noTraffic c.strategy && ops.noMatches c.strategy) &&
  !a.read.1 && n.stableExists && !(c.lastUpdate == .fresh && decide (c.doGrace > 0)) &&
  !c.noGen && c.stableRev != "" && c.canaryRev != "" && !a.read.2.read.1 &&
  n.canarySvc.isNone && n.stableSel.isNone

/-- `Manager.DoTrafficRouting` over a stable Service that may be selector-less (`bare`).  The selector as a whole
    (rather than its revision entry) is read in one place only, `createCanaryService`; there the call returns
    `false, err` after its two `Get`s (stable Service: found; canary Service: NotFound), with nothing written,
    `LastUpdateTime` and the expectations untouched. -/
def doTrafficRoutingB (ops : StratOps S) (P : Option (Provider S G)) (c : XCtx S) (a : Api) (n : XNet G) (m : Mem)
    (bare : Bool) : XOut G :=
  if refusesBare ops c a n bare then .same false true n m a.read.2.read.2 else doTrafficRoutingX ops P c a n m

/-- `Manager.InitializeTrafficRouting`: `true` = an error is returned (no API faults modelled) -/
def initializeX (P : Option (Provider S G)) (c : XCtx S) (n : XNet G) : Bool :=
  if ¬ c.hasRef then false
  else if ¬ n.stableExists then true
  else
    match P with
    | none => true
    | some P => P.initz n.g

/-! ## the weight-only nginx abstraction of `RV.Traffic` as a provider -/

/-- state: (stable Ingress exists, canary Ingress weight) -/
def nginxW : Provider (Option Nat) (Bool × Option Nat) where
  initz g := !g.1
  ensure a g s :=
    match s with
    | none => ⟨g, true, false, a, [], false⟩                -- never called by the Manager (step without traffic)
    | some w =>
      let r := RV.Traffic.ensureRoutes ⟨true, none, none, g.1, g.2⟩ w
      if r.2.2 then ⟨g, false, true, a, [], false⟩
      else if r.1 = g.2 then ⟨g, r.2.1, false, a, [], false⟩
      else
        match a.spend with
        | none => ⟨g, false, true, a, [], false⟩
        | some a1 => ⟨(g.1, r.1), r.2.1, false, a1,
                       [if g.2.isNone then "createCanaryIngress" else "patchCanaryIngress"], false⟩
  finalise a g :=
    match g.2 with
    | none => ⟨g, false, false, a, [], false⟩
    | some _ =>
      match a.spend with
      | none => ⟨g, false, true, a, [], false⟩
      | some a1 => ⟨(g.1, none), true, false, a1, ["deleteCanaryIngress"], false⟩

def nginxOps : StratOps (Option Nat) where
  noTraffic s := s.isNone
  noMatches _ := true
  routeAll _ := some 100

/-! ## the real strategy and the three real providers -/

/-- `v1beta1.TrafficRoutingStrategy` -/
structure Strat where
  traffic : Option String
  mts : List RV.Gateway.UMatch
  rhm : Option RV.Custom.HeaderMod

def stratOps : StratOps Strat where
  noTraffic s := s.traffic.isNone
  noMatches s := s.mts.isEmpty
  routeAll s := { s with mts := [], traffic := some "100%" }

/-- the weight every provider computes from `strategy.Traffic`
    (`intstr.GetScaledValueFromIntOrPercent(&is, 100, true)`, error dropped) -/
def Strat.weight (s : Strat) : Option Int := s.traffic.map RV.Ingress.weightOf

/-- the step as the Gateway model takes it -/
def gwStep (s : Strat) : RV.Gateway.Step :=
  { traffic := s.traffic.map fun t => .pct (RV.Ingress.weightOf t), ms := s.mts }

def igHeader (a : RV.Gateway.Atom) : RV.Ingress.HeaderMatch := ⟨a.name, a.value, a.ty⟩

/-- the step as the Ingress model takes it (`Matches` is nil when empty) -/
def igStrategy (s : Strat) : RV.Ingress.Strategy :=
  { traffic := s.traffic
    mts := if s.mts.isEmpty then none
           else some (s.mts.map fun u => ⟨u.headers.map igHeader, u.queryParams.map igHeader⟩)
    rhm := s.rhm.map fun h => h.set.map fun p => ⟨p.1, p.2⟩ }

def cuKV (a : RV.Gateway.Atom) : RV.Custom.KVMatch := ⟨a.ty, a.name, a.value⟩

/-- the step as the custom-provider model takes it -/
def cuStrategy (s : Strat) : RV.Custom.Strategy :=
  { traffic := match s.traffic with
      | none => .none
      | some t => .pct (RV.Ingress.weightOf t)
    mts := s.mts.map fun u => ⟨u.path.map fun p => ⟨p.ty, p.value⟩, u.headers.map cuKV, u.queryParams.map cuKV⟩
    hdrMod := s.rhm }

/-- Gateway API provider over the stored HTTPRoute (`none` = the route does not exist).
    Reads: `r.Get(route)`; when an update is needed, `r.Client.Get` once more inside `RetryOnConflict`. -/
def gwProvider (c : RV.Gateway.Conf) : Provider Strat (Option (List RV.Gateway.Rule)) where
  initz st := st.isNone
  ensure a st s :=
    let (rf, a) := a.read
    if rf then ⟨st, false, true, a, [], false⟩ else
    let r := RV.Gateway.ensureRoutes c st (gwStep s)
    if r.err = "panic" then ⟨st, false, false, a, [], true⟩
    else if r.err ≠ "ok" then ⟨st, false, true, a, [], false⟩
    else if r.ret then ⟨st, true, false, a, [], false⟩
    else
      let (rf2, a) := a.read
      if rf2 then ⟨st, false, true, a, [], false⟩ else
      match a.spend with                                  -- `r.Client.Update(routeClone)`
      | none => ⟨st, false, true, a, [], false⟩
      | some a1 => ⟨r.store, false, false, a1, ["updateRoute"], false⟩
  finalise a st :=
    let (rf, a) := a.read
    if rf then ⟨st, false, true, a, [], false⟩ else
    let r := RV.Gateway.finalise c st
    if r.err = "panic" then ⟨st, false, false, a, [], true⟩
    else if r.err ≠ "ok" then ⟨st, false, true, a, [], false⟩
    else if !r.ret then ⟨st, false, false, a, [], false⟩
    else
      let (rf2, a) := a.read
      if rf2 then ⟨st, false, true, a, [], false⟩ else
      match a.spend with
      | none => ⟨st, false, true, a, [], false⟩
      | some a1 => ⟨r.store, true, false, a1, ["updateRoute"], false⟩

def igWriteName : RV.Ingress.Write → String
  | .create _ => "createCanaryIngress"
  | .patch _ => "patchCanaryIngress"
  | .delete _ => "deleteCanaryIngress"

/-- one Ingress provider call under the write budget (every call issues at most one write) -/
def igRun (a : Api) (w : RV.Ingress.World) (o : RV.Ingress.Outcome) : PRes RV.Ingress.World :=
  match o with
  | .panic => ⟨w, false, false, a, [], true⟩
  | .ret w' done e ws =>
    if ws.isEmpty then ⟨w', done, e != .ok, a, [], false⟩
    else
      match a.spend with
      | none => ⟨w, false, true, a, [], false⟩
      | some a1 => ⟨w', done, e != .ok, a1, ws.map igWriteName, false⟩

/-- canary-Ingress provider over the stable and the canary Ingress.
    Reads: `EnsureRoutes` gets the canary Ingress and, when it is absent and the weight is not 0, the stable
    Ingress; `Finalise` gets the canary Ingress. -/
def igProvider (cfg : RV.Ingress.Cfg) : Provider Strat RV.Ingress.World where
  initz w := w.stable.isNone
  ensure a w s :=
    let (rf, a) := a.read
    if rf then ⟨w, false, true, a, [], false⟩ else
    let needStable := w.canary.isNone && s.weight != some 0
    let (rf2, a) := if needStable then a.read else (false, a)
    if rf2 then ⟨w, false, true, a, [], false⟩ else
    igRun a w (RV.Ingress.ensureRoutes cfg w (igStrategy s))
  finalise a w :=
    let (rf, a) := a.read
    if rf then ⟨w, false, true, a, [], false⟩ else
    igRun a w (RV.Ingress.finalise cfg w)

/-! ### the custom provider: `EnsureRoutes` / `Finalise` with the API health and the write log
    (`RV.Custom.ensureRoutesF` / `finaliseF` give the objects and the result under a write budget;
    `RV.Props.TrafficX.cuEnsure_eq` / `cuFinalise_eq` prove that, without a read fault, these are the same
    functions) -/

open RV.Custom in
/-- EnsureRoutes, first loop: `Get` every referenced object; `none` = a `Get` failed (read fault, or NotFound) -/
def cuGetLoop : Api → List Ref → Option (List (Option Script × Obj)) × Api
  | a, [] => (some [], a)
  | a, r :: rs =>
    let (rf, a1) := a.read
    if rf then (none, a1)
    else
      match r.obj with
      | none => (none, a1)
      | some o =>
        let t := cuGetLoop a1 rs
        (t.1.map fun l => (r.script, o) :: l, t.2)

open RV.Custom in
/-- EnsureRoutes, second loop (`storeObject` per ref without the annotation) -/
def cuStoreLoop (c : Codec) : Api → List (Option Script × Obj) →
    List (Option Script × Obj) × Option Api × List String
  | a, [] => ([], some a, [])
  | a, p :: r =>
    if (storeIfAbsentW c p.2).2 then
      match a.spend with
      | none => (p :: r, none, [])
      | some a1 =>
        let t := cuStoreLoop c a1 r
        ((p.1, (storeIfAbsentW c p.2).1) :: t.1, t.2.1, "updateCustom" :: t.2.2)
    else
      let t := cuStoreLoop c a r
      ((p.1, (storeIfAbsentW c p.2).1) :: t.1, t.2.1, t.2.2)

open RV.Custom in
/-- EnsureRoutes, fourth loop (`compareAndUpdateObject` per ref); result: refs, `some (done, api)` or
    `none` when an `Update` failed, writes -/
def cuApplyLoop : Api → List Data → List (Option Script × Obj) → List Ref × Option (Bool × Api) × List String
  | a, d :: ds, p :: r =>
    if (compareAndUpdate d p.2).2 then
      match a.spend with
      | none => ((p :: r).map refOf, none, [])
      | some a1 =>
        let t := cuApplyLoop a1 ds r
        (⟨p.1, some (compareAndUpdate d p.2).1⟩ :: t.1, t.2.1.map (fun x => (false, x.2)), "updateCustom" :: t.2.2)
    else
      let t := cuApplyLoop a ds r
      (⟨p.1, some (compareAndUpdate d p.2).1⟩ :: t.1, t.2.1, t.2.2)
  | a, _, _ => ([], some (true, a), [])

open RV.Custom in
/-- `customController.EnsureRoutes` -/
def cuEnsure (c : Codec) (a : Api) (st : List Ref) (s : Strategy) : PRes (List Ref) :=
  let g := cuGetLoop a st
  match g.1 with
  | none => ⟨st, false, true, g.2, [], false⟩
  | some objs =>
    let t := cuStoreLoop c g.2 objs
    match t.2.1 with
    | none => ⟨t.1.map refOf, false, true, { g.2 with w := some 0 }, t.2.2, false⟩
    | some a1 =>
      match planAll c s t.1 with
      | none => ⟨t.1.map refOf, false, true, a1, t.2.2, false⟩
      | some ds =>
        let u := cuApplyLoop a1 ds t.1
        match u.2.1 with
        | none => ⟨u.1, false, true, { a1 with w := some 0 }, t.2.2 ++ u.2.2, false⟩
        | some (done, a2) => ⟨u.1, done, false, a2, t.2.2 ++ u.2.2, false⟩

open RV.Custom in
/-- the loop of `customController.Finalise`: refs, modified, "some Get / Update failed", api, writes.
    A failed `Get` (not NotFound) and a failed restore are recorded in `errList`; the loop goes on. -/
def cuFinaliseLoop (c : Codec) : Api → List Ref → List Ref × Bool × Bool × Api × List String
  | a, [] => ([], false, false, a, [])
  | a, r :: rs =>
    let (rf, a0) := a.read
    if rf then let t := cuFinaliseLoop c a0 rs; (r :: t.1, t.2.1, true, t.2.2.2)
    else
    match r.obj with
    | none => let t := cuFinaliseLoop c a0 rs; (r :: t.1, t.2)
    | some o =>
      if (restoreObject c o).2 then
        match a0.spend with
        | none => let t := cuFinaliseLoop c a0 rs; (r :: t.1, t.2.1, true, t.2.2.2)
        | some a1 =>
          let t := cuFinaliseLoop c a1 rs
          ({ r with obj := some (restoreObject c o).1 } :: t.1, true, t.2.2.1, t.2.2.2.1, "updateCustom" :: t.2.2.2.2)
      else let t := cuFinaliseLoop c a0 rs; ({ r with obj := some (restoreObject c o).1 } :: t.1, t.2)

open RV.Custom in
/-- `customController.Finalise` -/
def cuFinalise (c : Codec) (a : Api) (st : List Ref) : PRes (List Ref) :=
  let t := cuFinaliseLoop c a st
  ⟨t.1, t.2.1, t.2.2.1, t.2.2.2.1, t.2.2.2.2, false⟩

/-- custom (Lua) provider over the referenced objects (each with its script) -/
def cuProvider (c : RV.Custom.Codec) : Provider Strat (List RV.Custom.Ref) where
  -- `Initialize`: every object exists and has a script
  initz st := st.any fun r => r.obj.isNone || r.script.isNone
  ensure a st s := cuEnsure c a st (cuStrategy s)
  finalise a st := cuFinalise c a st

/-! ## `newNetworkProvider` over the three real providers -/

/-- the provider objects of one rollout: custom refs, (stable Ingress, canary Ingress), HTTPRoute -/
abbrev CNet := List RV.Custom.Ref × (RV.Ingress.World × Option (List RV.Gateway.Rule))

/-- `trafficRouting` (`c.ObjectRef[0]`) as far as `newNetworkProvider` reads it, with the Service names -/
structure PCfg where
  /-- `CustomNetworkRefs != nil` (the refs themselves are the list in the state) -/
  custom : Bool
  /-- `Ingress`: `none` = nil; `some none` = a class type without Lua script (the constructor fails) -/
  ingress : Option (Option RV.Ingress.Class)
  /-- `Gateway != nil` -/
  gateway : Bool
  stable : String
  canary : String
  ingName : String
  codec : RV.Custom.Codec

/-- the list `networkProviders` of `newNetworkProvider` (custom, then ingress, then gateway) -/
def providerList (p : PCfg) : List (Provider Strat CNet) :=
  (if p.custom then [onFst (cuProvider p.codec)] else []) ++
  (match p.ingress with
    | some (some cls) => [onSnd (onFst (igProvider ⟨cls, p.ingName, p.stable, p.canary⟩))]
    | _ => []) ++
  (if p.gateway then [onSnd (onSnd (gwProvider ⟨p.stable, p.canary⟩))] else [])

/-- `gateway.NewGatewayTrafficRouting` returns an error: the canary Service name equals the stable Service name.
    The route builders tell the canary backendRef from the stable one by the Service name; without a canary
    Service of its own (`DisableGenerateCanaryService`, `OnlyTrafficRouting`: `getCanaryServiceName` = the stable
    name) the user's own backendRef would be taken for the canary ref — rewritten by a weight step, dropped by
    `Finalise` (fixed finding `sameServiceGateway`, rollouts commit 978d35f). -/
def gatewayRefused (p : PCfg) : Bool := p.gateway && RV.Gateway.Conf.refused ⟨p.stable, p.canary⟩

/-- `newNetworkProvider`: `none` = an error is returned (a constructor failed — the Ingress class has no Lua
    script, the Gateway provider is handed the same Service name twice — or no provider is configured).  The
    constructors neither read (ConfigMaps aside) nor write: a Manager call whose provider cannot be built returns
    the error with the provider's objects untouched (`restoreGatewayX`, `routeAllToNewX`, `routeStepX`, `initializeX`). -/
def mkProvider (p : PCfg) : Option (Provider Strat CNet) :=
  if p.ingress = some none then none
  else if gatewayRefused p then none
  else
    match providerList p with
    | [] => none
    | [q] => some q
    | qs => some (composite qs)

end RV.TrafficX
