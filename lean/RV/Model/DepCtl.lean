/-
  The advanced Deployment controller *around* `syncDeployment`: one `ReconcileDeployment.Reconcile`.

  Source (openkruise/rollouts):
    pkg/controller/deployment/controller.go              Reconcile, mutatingProtectionInvalid,
        controllerFactory.NewController, the watch wiring of `add` (update predicate)
    pkg/controller/deployment/deployment_controller.go   syncDeployment (pre-checks), patchExtraStatus
    pkg/controller/deployment/deployment_event_handler.go MutatingWebhookEventHandler
    pkg/controller/deployment/rolling.go                 error handling of rolloutRolling /
        reconcileOldReplicaSets (which API errors are returned, which are dropped)
    pkg/controller/deployment/util/deployment_util.go    IsUnderRolloutControl, DeploymentRolloutSatisfied,
        NewRSReplicasLimit, FindNewReplicaSet
    sigs.k8s.io/controller-runtime handler.EnqueueRequestForOwner{IsController: true, OwnerType: Deployment}

  The body of `syncDeployment` is `RV.DepSync.sync` (imported, not repeated).  What is added here: who is
  "ours" (gating), the admission-protection fallback, the extra-status annotation, the requeue decision,
  the aggregation of errors, and API write faults: `scaleAt = some k` makes the k-th size-changing ReplicaSet
  write (creation included) and every later one fail; `protect` / `extra` / `getD` / `getW` fail the
  respective call.  Every API write the model predicts is logged in order (`Call`).
-/
import RV.Model.DepSync
namespace RV.DepCtl
open RV.Arith RV.DepSync

/-- `spec.strategy.type` -/
inductive SType where
  | recreate | rollingUpdate | other
  deriving Repr, DecidableEq, Inhabited

/-- annotation `rollouts.kruise.io/deployment-strategy`: absent, present but `json.Unmarshal` fails, parsed -/
inductive Anno where
  | absent | unparsable | ok
  deriving Repr, DecidableEq, Inhabited

/-- `strategy.rollingStyle` -/
inductive Style where
  | partition | canary | blueGreen | none | other
  deriving Repr, DecidableEq, Inhabited

/-- `spec.selector`: an ordinary selector, the empty selector `{}` (selects everything), one that
    `LabelSelectorAsSelector` rejects -/
inductive Sel where
  | normal | all | bad
  deriving Repr, DecidableEq, Inhabited

/-- the MutatingWebhookConfiguration `kruise-rollout-mutating-webhook-configuration` -/
inductive Hook where
  | present | absent | terminating
  deriving Repr, DecidableEq, Inhabited

/-- annotation `rollouts.kruise.io/deployment-extra-status`: absent (or ""), exactly the text
    `json.Marshal(DeploymentExtraStatus{r, e})`, any other text -/
inductive Extra where
  | absent
  | canon (r e : Int)
  | other
  deriving Repr, DecidableEq, Inhabited

/-- injected API faults -/
structure Fault where
  getD : Bool := false
  getW : Bool := false
  protect : Bool := false
  scaleAt : Option Nat := none
  extra : Bool := false
  deriving Repr, DecidableEq, Inhabited

/-- `spec.strategy.rollingUpdate` (maxSurge, maxUnavailable) -/
abbrev RU := Option (Option IntOrPct × Option IntOrPct)

/-- what one Reconcile reads -/
structure World where
  /-- the Deployment exists -/
  present : Bool
  /-- annotation `batchrelease.rollouts.kruise.io/control-info` is non-empty -/
  ctrl : Bool
  stype : SType
  /-- `spec.strategy.rollingUpdate` (the API rejects it next to type Recreate) -/
  ru : RU
  /-- `spec.paused` -/
  specPaused : Bool
  anno : Anno
  style : Style
  sel : Sel
  hook : Hook
  /-- `metadata.generation`, `status.observedGeneration`, `status.updatedReplicas` as read -/
  gen : Int
  obsGen : Int
  statusUpdated : Int
  /-- `status.readyReplicas` of the new ReplicaSet -/
  newReady : Int
  extra : Extra
  fault : Fault
  /-- replicas, the parsed strategy annotation (partition, rollingUpdate, paused), deletion, ReplicaSets -/
  s : State
  deriving Repr, DecidableEq, Inhabited

/-- one API write -/
inductive Call where
  /-- `r.Patch`: strategy back to RollingUpdate -/
  | protect (ok : Bool)
  /-- ReplicaSet create / update changing `spec.replicas` (`idx` as in `DepSync.Write`) -/
  | scale (idx to : Int) (ok : Bool)
  /-- merge patch of the extra-status annotation -/
  | extra (v : Extra) (ok : Bool)
  deriving Repr, DecidableEq, Inhabited

def Call.isScale : Call → Bool
  | .scale .. => true
  | _ => false
def Call.isExtra : Call → Bool
  | .extra .. => true
  | _ => false
def Call.isProtect : Call → Bool
  | .protect .. => true
  | _ => false
def Call.failed : Call → Bool
  | .protect ok => !ok
  | .scale _ _ ok => !ok
  | .extra _ ok => !ok

/-! ### gating -/

/-- `deploymentutil.IsUnderRolloutControl` -/
def underControl (w : World) : Bool :=
  if !w.ctrl then false
  else if w.stype != .recreate then false
  else w.specPaused

/-- `controllerFactory.NewController` returns a controller -/
def newController (w : World) : Bool :=
  if !underControl w then false
  else if w.anno != .ok then false
  else if w.style == .canary then false
  else true

/-- the strategy saved in the annotation (`util.GetDeploymentStrategy(d).RollingUpdate`) -/
def savedRU (w : World) : RU :=
  if w.s.rolling then some (w.s.maxSurge, w.s.maxUnavailable) else none

/-- strategic merge of the patched `rollingUpdate` block into the present one -/
def mergeRU (cur saved : RU) : RU :=
  match saved, cur with
  | none, _ => cur
  | some x, none => some x
  | some (a, b), some (c, d) => some (a.orElse fun _ => c, b.orElse fun _ => d)

/-! ### `syncDeployment` under write faults -/

/-- the record a size write leaves (`scaleReplicaSet`) -/
def setSpec (s : State) (to : Int) (r : RS) : RS :=
  { r with spec := to, desired := some s.replicas, maxAnno := some (s.replicas + maxSurgeV s) }

def applyWrite (s : State) (wr : Write) (st : Option RS × List RS) : Option RS × List RS :=
  if wr.idx == -1 then (st.1.map (setSpec s wr.to), st.2)
  else (st.1, st.2.map fun r => if r.idx == wr.idx then setSpec s wr.to r else r)

def applyWrites (s : State) : List Write → Option RS × List RS → Option RS × List RS
  | [], st => st
  | wr :: rest, st => applyWrites s rest (applyWrite s wr st)

/-- which dispatch branch of `syncDeployment` -/
def pathOf (s : State) : DepSync.Path :=
  if s.deleting then .statusOnly else if s.paused then .scale else if isScalingEvent s then .scale else .rolling

/-- in the rolling path: the failing write is one of `cleanupUnhealthyReplicas` /
    `scaleDownOldReplicaSetsForRollingUpdate`, whose errors `reconcileOldReplicaSets` drops
    (`if err != nil { return false, nil }`) -/
def dropsError (s : State) (k : Nat) : Bool :=
  match getNewRS s true with
  | (none, _) => false
  | (some nw, w0) =>
    if k < w0.length then false                      -- creating the new RS failed: returned
    else if (reconcileNew s s.olds nw).1 then false  -- scaling the new RS failed: returned
    else
      -- `scaleUpOldReplicaSets` returns its error; the two scale-down helpers do not
      !decide (scaleDownLimitForOld s (active s.olds) nw.spec ≤ 0)

/-- outcome of one `syncDeployment` -/
structure SyncOut where
  /-- the error `syncDeployment` returns -/
  err : Bool
  /-- float division by zero inside `getReplicaSetFraction` (implementation-defined) -/
  undef : Bool
  calls : List Call
  /-- an injected fault was hit -/
  fired : Bool
  /-- … and the error was dropped -/
  swallowed : Bool
  new : Option RS
  olds : List RS
  /-- the closing status sync was reached -/
  synced : Bool
  statusReplicas : Int
  deriving Repr, Inhabited

/-- `syncDeployment` where the `k`-th size write and all later ones fail -/
def syncF (s : State) (k : Option Nat) : SyncOut :=
  let r := sync s
  let clean : SyncOut :=
    { err := r.err, undef := r.undef, calls := r.writes.map fun wr => .scale wr.idx wr.to true, fired := false,
      swallowed := false, new := r.new, olds := r.olds, synced := !r.err, statusReplicas := r.statusReplicas }
  match k with
  | none => clean
  | some k =>
    match r.writes.drop k with
    | [] => clean
    | f :: _ =>
      -- the first `k` writes took effect, the next one is attempted and fails, the code returns
      let base : Option RS × List RS :=
        match pathOf s with
        | .rolling => (if s.new.isNone && k == 0 then none else (getNewRS s true).1, s.olds)
        | _ => ((getNewRS s false).1, s.olds)
      let st := applyWrites s (r.writes.take k) base
      let dropped := pathOf s == .rolling && dropsError s k
      { err := !dropped, undef := r.undef,
        calls := (r.writes.take k).map (fun wr => .scale wr.idx wr.to true) ++ [.scale f.idx f.to false],
        fired := true, swallowed := dropped, new := st.1, olds := st.2, synced := dropped,
        statusReplicas := if dropped then r.statusReplicas else s.statusReplicas }

/-! ### `patchExtraStatus` -/

/-- `newRS.Status.ReadyReplicas`, 0 without a new ReplicaSet (the lister is read before the sync: a
    ReplicaSet created by this very sync is not seen, and has no ready pod anyway) -/
def readyOf (w : World) : Int :=
  match w.s.new with
  | none => 0
  | some _ => w.newReady

/-- the annotation value `patchExtraStatus` wants -/
def wantExtra (w : World) : Extra := .canon (readyOf w) (limit w.s)

/-! ### `DeploymentRolloutSatisfied` (on the Deployment *as read at the start of the Reconcile*) -/

def satisfied (w : World) : Bool :=
  if w.obsGen < w.gen then false
  else if w.s.statusReplicas != w.s.replicas then false
  else if w.statusUpdated < limit w.s then false
  else true

/-! ### Reconcile -/

inductive Path where
  | getErr | notFound | ignored | hookErr | protectNoop | protect | normal
  deriving Repr, DecidableEq, Inhabited

inductive Res where
  | ok | requeue | err
  deriving Repr, DecidableEq, Inhabited

/-- which step failed (`errList`, or the error returned directly) -/
inductive ErrKind where
  | get | hook | protect | sync | extra
  deriving Repr, DecidableEq, Inhabited

structure Out where
  path : Path
  res : Res
  errs : List ErrKind
  calls : List Call
  fired : Bool
  swallowed : Bool
  undef : Bool
  /-- nothing at all was written (no API write call of any kind) -/
  untouched : Bool
  -- the state afterwards
  stype : SType
  ru : RU
  extra : Extra
  new : Option RS
  olds : List RS
  statusReplicas : Int
  statusUpdated : Int
  obsGen : Int
  deriving Repr, Inhabited

/-- an outcome that writes nothing -/
def quiet (w : World) (p : Path) (res : Res) (errs : List ErrKind) (fired : Bool) : Out :=
  { path := p, res := res, errs := errs, calls := [], fired := fired, swallowed := false, undef := false,
    untouched := true, stype := w.stype, ru := w.ru, extra := w.extra, new := w.s.new, olds := w.s.olds,
    statusReplicas := w.s.statusReplicas, statusUpdated := w.statusUpdated, obsGen := w.obsGen }

/-- `syncDeployment` including its pre-checks (selector) -/
def syncPart (w : World) : SyncOut :=
  match w.sel with
  | .bad =>
    -- getReplicaSetsForDeployment: invalid label selector
    { err := true, undef := false, calls := [], fired := false, swallowed := false, new := w.s.new, olds := w.s.olds,
      synced := false, statusReplicas := w.s.statusReplicas }
  | .all =>
    -- "This deployment is selecting all pods": observedGeneration only, error of the status write ignored
    { err := false, undef := false, calls := [], fired := false, swallowed := false, new := w.s.new, olds := w.s.olds,
      synced := false, statusReplicas := w.s.statusReplicas }
  | .normal => syncF w.s w.fault.scaleAt

/-- `mutatingProtectionInvalid` when the webhook configuration is absent or terminating -/
def protectOut (w : World) : Out :=
  if w.stype == .rollingUpdate then quiet w .protectNoop .ok [] false
  else if w.fault.protect then
    let q := quiet w .protect .err [.protect] true
    { q with calls := [.protect false], untouched := false }
  else
    let q := quiet w .protect .ok [] false
    { q with calls := [.protect true], untouched := false, stype := .rollingUpdate, ru := mergeRU w.ru (savedRU w) }

/-- `patchExtraStatus` has something to write -/
def needPatch (w : World) : Bool := w.sel != .bad && w.extra != wantExtra w

/-- `syncDeployment`, then `patchExtraStatus` (whatever the former returned), errors aggregated, then the
    requeue decision -/
def normalOut (w : World) : Out :=
  let so := syncPart w
  let want := wantExtra w
  let extraErr := w.sel == .bad || (needPatch w && w.fault.extra)
  let extraCalls : List Call := if needPatch w then [.extra want (!w.fault.extra)] else []
  let errs : List ErrKind := (if so.err then [.sync] else []) ++ (if extraErr then [.extra] else [])
  let res : Res := if !errs.isEmpty then .err else if satisfied w then .ok else .requeue
  let sel0 := w.sel == .all && decide (w.obsGen < w.gen)
  { path := .normal, res := res, errs := errs, calls := so.calls ++ extraCalls,
    fired := so.fired || (needPatch w && w.fault.extra), swallowed := so.swallowed, undef := so.undef,
    untouched := false,
    stype := w.stype, ru := w.ru,
    extra := if needPatch w && !w.fault.extra then want else w.extra,
    new := so.new, olds := so.olds,
    statusReplicas := if so.synced then so.statusReplicas else w.s.statusReplicas,
    statusUpdated := if so.synced then optPods so.new else w.statusUpdated,
    obsGen := if so.synced || sel0 then w.gen else w.obsGen }

/-- `ReconcileDeployment.Reconcile` -/
def reconcile (w : World) : Out :=
  -- r.Get(deployment)
  if w.fault.getD then quiet w .getErr .err [.get] true
  else if !w.present then quiet w .notFound .ok [] false
  -- controllerFactory.NewController
  else if !newController w then quiet w .ignored .ok [] false
  -- mutatingProtectionInvalid
  else if w.fault.getW then quiet w .hookErr .err [.hook] true
  else if w.hook != .present then protectOut w
  -- syncDeployment + patchExtraStatus + DeploymentRolloutSatisfied
  else normalOut w

/-- the world the next Reconcile reads when nothing else moves (faults cleared) -/
def post (w : World) : World :=
  let o := reconcile w
  { w with stype := o.stype, ru := o.ru, extra := o.extra, fault := {},
           newReady := if w.s.new.isNone then 0 else w.newReady,
           statusUpdated := o.statusUpdated, obsGen := o.obsGen,
           s := { w.s with new := o.new, olds := o.olds, statusReplicas := o.statusReplicas,
                           now := if w.s.new.isNone && o.new.isSome then w.s.now + 1 else w.s.now } }

/-! ### watches (`add`) -/

inductive Evt where
  | create | update | delete | generic
  deriving Repr, DecidableEq, Inhabited

/-- a Deployment event as the update predicate reads it -/
structure DepEvt where
  evt : Evt
  /-- the *new* object is under rollout control -/
  newCtrl : Bool
  newStype : SType
  newPaused : Bool
  oldGen : Int
  newGen : Int
  newDeleting : Bool
  /-- `len(old.Annotations) == len(new.Annotations) && reflect.DeepEqual(...)` -/
  annoSame : Bool
  deriving Repr, DecidableEq, Inhabited

/-- `predicate.Funcs{UpdateFunc: updateHandler}`: create / delete / generic always pass -/
def depPredicate (e : DepEvt) : Bool :=
  match e.evt with
  | .update =>
    if !(e.newCtrl && e.newStype == .recreate && e.newPaused) then false
    else if e.oldGen != e.newGen || e.newDeleting then true
    else if !e.annoSame then true
    else false
  | _ => true

/-- an owner reference of a ReplicaSet -/
structure Owner where
  /-- kind is `Deployment` -/
  isDeployment : Bool
  /-- group of the apiVersion is `apps` -/
  isApps : Bool
  name : String
  /-- `controller: true` -/
  controller : Bool
  deriving Repr, DecidableEq, Inhabited

/-- `metav1.GetControllerOf` + kind/group filter of `EnqueueRequestForOwner{IsController: true}` -/
def ownerRequests (owners : List Owner) : List String :=
  match owners.find? (·.controller) with
  | none => []
  | some o => if o.isDeployment && o.isApps then [o.name] else []

/-- a Deployment as `MutatingWebhookEventHandler.enqueue` reads it -/
structure HookDep where
  name : String
  /-- label `rollouts.kruise.io/controlled-by-advanced-deployment-controller: "true"` -/
  labelled : Bool
  stype : SType
  deriving Repr, DecidableEq, Inhabited

/-- `MutatingWebhookEventHandler`: names enqueued for one event on a MutatingWebhookConfiguration -/
def hookRequests (evt : Evt) (ours deleting listFails : Bool) (deps : List HookDep) : List String :=
  if !ours then []
  else if evt != .delete && !deleting then []
  else if listFails then []
  else (deps.filter fun d => d.labelled && d.stype != .rollingUpdate).map (·.name)

end RV.DepCtl
