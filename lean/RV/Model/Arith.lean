/-
  Arithmetic core shared by the BatchRelease controls and the advanced
  deployment controller.

  Source:
    pkg/controller/batchrelease/control/util.go
        CalculateBatchReplicas, ParseIntegerAsPercentageIfPossible,
        IsCurrentMoreThanOrEqualToDesired
    pkg/controller/batchrelease/context/context.go   allowedUnavailable
    pkg/controller/deployment/util/deployment_util.go
        NewRSReplicasLimit, ResolveFenceposts
    k8s.io/apimachinery/pkg/util/intstr  GetScaledValueFromIntOrPercent (modelled)

  Numbers are unbounded `Int` (the code uses int / int32; wrap-around is outside
  the model, see DESIGN §5).
-/
namespace RV.Arith

/-- `intstr.IntOrString` as the code reads it: an integer, a string of the form
    `"<n>%"`, or any other string (for which `GetScaledValueFromIntOrPercent`
    returns `0` and an error). -/
inductive IntOrPct where
  | int (n : Int)
  | pct (p : Int)
  | bad
  deriving Repr, DecidableEq, Inhabited

open IntOrPct

/-- ⌈a / 100⌉ for any integer `a`. -/
def ceilDiv100 (a : Int) : Int := -((-a) / 100)
/-- ⌊a / 100⌋ for any integer `a` (Lean's `/` on `Int` rounds toward −∞ for a positive divisor). -/
def floorDiv100 (a : Int) : Int := a / 100

/-- `intstr.GetScaledValueFromIntOrPercent`: value and "error" flag. -/
def scaled (v : IntOrPct) (total : Int) (roundUp : Bool) : Int × Bool :=
  match v with
  | int n => (n, false)
  | pct p => (if roundUp then ceilDiv100 (p * total) else floorDiv100 (p * total), false)
  | bad => (0, true)

/-- value only (the code mostly ignores the error) -/
def scaledV (v : IntOrPct) (total : Int) (roundUp : Bool) : Int := (scaled v total roundUp).1

/-- `control.CalculateBatchReplicas` for one plan entry. -/
def calcBatchReplicas (replicas : Int) (entry : IntOrPct) : Int :=
  let b := scaledV entry replicas true
  if b > replicas then replicas else if b < 0 then 0 else b

/-- `control.ParseIntegerAsPercentageIfPossible` -/
def parsePct (stable all : Int) (canary : IntOrPct) : IntOrPct :=
  if stable ≥ all then pct 100
  else if stable ≤ 0 then pct 0
  else
    let pValue := (stable * 100).tdiv all
    let restored := scaledV (pct pValue) all true
    if restored ≤ 0 ∧ canary ≠ pct 100 then pct 1 else pct pValue

/-- `deploymentutil.NewRSReplicasLimit` -/
def newRSReplicasLimit (partition : IntOrPct) (replicas : Int) : Int :=
  let l := scaledV partition replicas true
  let l := max (min l replicas) 0
  match partition with
  | int _ => l
  | pct 100 => l
  | _ => if replicas > 1 then min l (replicas - 1) else l

/-- `deploymentutil.ResolveFenceposts`; `none` = error. -/
def resolveFenceposts (maxSurge maxUnavailable : Option IntOrPct) (desired : Int) : Option (Int × Int) :=
  let (s, es) := scaled (maxSurge.getD (int 0)) desired true
  if es then none else
  let (u, eu) := scaled (maxUnavailable.getD (int 0)) desired false
  if eu then none else
  if s == 0 && u == 0 then some (s, 1) else some (s, u)

/-- `control.IsCurrentMoreThanOrEqualToDesired` -/
def moreOrEqual (current desired : IntOrPct) : Bool :=
  decide (scaledV current 10000000 true ≥ scaledV desired 10000000 true)

/-- `context.allowedUnavailable` -/
def allowedUnavailable (threshold : Option IntOrPct) (replicas : Int) : Int :=
  match threshold with
  | none => 0
  | some t => scaledV t replicas true

/-- Pods the CloneSet / StatefulSet-like controllers keep on the *old* revision
    for a partition (Kruise rounds a percent partition up). -/
def keptStable (partition : IntOrPct) (replicas : Int) : Int :=
  max 0 (min replicas (scaledV partition replicas true))

/-- Number of pods a partition allows on the new revision. -/
def exposure (partition : IntOrPct) (replicas : Int) : Int :=
  replicas - keptStable partition replicas

end RV.Arith
