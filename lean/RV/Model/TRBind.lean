/-
  Rollouts bound to a TrafficRouting custom resource: the two-party protocol between the Rollout
  controller and the TrafficRouting controller, and their closed loop.

  A Rollout annotated `rollouts.kruise.io/trafficrouting: <tr>` (v1beta1 `canary.trafficRoutingRef`, mirrored by the
  v1alpha1 conversion) does not route traffic itself.  It *holds* the TrafficRouting `<tr>` by a finalizer
  `progressing.rollouts.kruise.io/<rollout>` on it; the TrafficRouting controller routes while at least one such
  finalizer is present and restores the gateway when the last one is gone.

  Source:
    pkg/controller/rollout/rollout_progressing.go     doProgressingInitializing (where handleTrafficRouting sits: after
                                                      InitializeTrafficRouting and the 3 s verify wait, before InRolling),
                                                      handleTrafficRouting, doFinalising (finalizeTrafficRouting is its
                                                      first action, before the release manager's clean-up tasks),
                                                      finalizeTrafficRouting
    pkg/controller/rollout/rollout_status.go          reconcileRolloutTerminating / reconcileRolloutDisabling (call doFinalising)
    pkg/controller/trafficrouting/trafficrouting_controller.go   Reconcile, handleFinalizer, rolloutProgressingFinalizer,
                                                      newTrafficRoutingContext (OnlyTrafficRouting = true)
    pkg/util/workloads_utils.go                       UpdateFinalizer (Get, then Update of the fetched object)

  Nothing is re-modelled: the Rollout reconcile is `RV.RolloutSM.reconcile`, the Manager is `RV.Traffic`; the
  TrafficRouting reconcile `trReconcile` is `RV.TRSM.reconcile` generalised to an empty `spec.objectRef`
  (`RV.Props.TRBind.trReconcile_eq_TRSM` states the agreement) and to *named* progressing finalizers.

  Environment (API server) rules used here:
    * an object in deletion disappears with its last finalizer (controller-runtime fake client, real API server);
    * no finalizer can be added to an object in deletion (real API server, `ValidateObjectMetaUpdate`; the harness
      client enforces it for the TrafficRouting) — the Update fails.
-/
import RV.Model.TRSM
import RV.Model.RolloutSM
namespace RV.TRBind
open RV.Traffic

/-! ### the TrafficRouting object -/

/-- the TrafficRouting object.  `holders`: the rollouts `i` whose finalizer `progressing.rollouts.kruise.io/r<i>` is
    present (a set; the harness reports it sorted). -/
structure TRO where
  deleting : Bool
  hasFinalizer : Bool          -- rollouts.kruise.io/trafficrouting (the controller's own)
  holders : List Nat
  phase : TRSM.Phase
  weight : Option Nat          -- spec.strategy.weight; none = no strategy
  grace : Nat
  hasRef : Bool                -- spec.objectRef is not empty
  deriving Repr, DecidableEq, Inhabited

/-- `newTrafficRoutingContext` of the TrafficRouting controller -/
def tctx (t : TRO) : TCtx :=
  { hasRef := t.hasRef, grace := t.grace, weight := t.weight, disableGen := true, stableRev := "", canaryRev := "",
    lastUpdate := .none, hasRevKey := false }

/-- the object goes away when it is in deletion and carries no finalizer at all -/
def isGone (t : TRO) : Bool := t.deleting && !t.hasFinalizer && t.holders.isEmpty

/-- what the API server keeps of an object after a write -/
def stored (t : TRO) : Option TRO := if isGone t then none else some t

structure TRes where
  tr : Option TRO            -- none: the object disappeared
  net : Net
  mem : Mem
  requeue : Bool
  err : Bool
  /-- `FinalisingTrafficRouting` returned *done* in this reconcile -/
  finalised : Bool
  /-- the Manager's API writes, in order -/
  writes : List String
  deriving Repr, DecidableEq

/-- one TrafficRouting reconcile before the API server decides whether the object is still there -/
structure TCore where
  t : TRO
  net : Net
  mem : Mem
  requeue : Bool
  err : Bool
  finalised : Bool
  writes : List String
  deriving Repr, DecidableEq

/-- `TrafficRoutingReconciler.Reconcile` for an existing object -/
def trCore (t : TRO) (n : Net) (m : Mem) : TCore :=
  -- handleFinalizer at the top only registers the finalizer of a live object
  let t1 := if ¬ t.deleting ∧ ¬ t.hasFinalizer then { t with hasFinalizer := true } else t
  let phase := if t1.deleting then TRSM.Phase.terminating else if t1.phase = .empty then .initial else t1.phase
  match phase with
  | .initial =>
    -- InitializeTrafficRouting: nothing to check without a ref; otherwise the Service and the Ingress must exist
    if t1.hasRef ∧ (¬ n.stableExists ∨ ¬ n.stableIngress) then ⟨t1, n, m, false, true, false, []⟩
    else ⟨{ t1 with phase := .healthy }, n, m, false, false, false, []⟩
  | .healthy =>
    ⟨{ t1 with phase := if t1.holders.length > 0 then .progressing else .healthy }, n, m, false, false, false, []⟩
  | .progressing =>
    if t1.holders.length = 0 then ⟨{ t1 with phase := .finalizing }, n, m, false, false, false, []⟩
    else
      let o := doTrafficRouting (tctx t1) n m
      if o.err then ⟨t1, o.net, o.mem, false, true, false, o.writes⟩
      else if ¬ o.done then ⟨t1, o.net, o.mem, true, false, false, o.writes⟩
      else ⟨{ t1 with phase := .progressing }, o.net, o.mem, false, false, false, o.writes⟩
  | .finalizing =>
    let o := finalisingTrafficRouting (tctx t1) n m
    if o.err then ⟨t1, o.net, o.mem, false, true, false, o.writes⟩
    else if ¬ o.done then ⟨t1, o.net, o.mem, true, false, false, o.writes⟩
    else ⟨{ t1 with phase := .healthy }, o.net, o.mem, false, false, true, o.writes⟩
  | .terminating =>
    let o := finalisingTrafficRouting (tctx t1) n m
    if o.err then ⟨t1, o.net, o.mem, false, true, false, o.writes⟩
    else if ¬ o.done then ⟨t1, o.net, o.mem, true, false, false, o.writes⟩
    else
      -- handleFinalizer again: remove the own finalizer of an object in deletion (register it otherwise); whatever
      -- progressing finalizers are left.  The status update then finds the object or not
      let t2 := if t1.deleting then { t1 with hasFinalizer := false } else { t1 with hasFinalizer := true }
      if isGone t2 then ⟨t2, o.net, o.mem, false, decide (t1.phase ≠ .terminating), true, o.writes⟩
      else ⟨{ t2 with phase := .terminating }, o.net, o.mem, false, false, true, o.writes⟩
  | _ => ⟨{ t1 with phase := phase }, n, m, false, false, false, []⟩

/-- … and what the API server keeps of it -/
def trReconcile (t : TRO) (n : Net) (m : Mem) : TRes :=
  let c := trCore t n m
  { tr := stored c.t, net := c.net, mem := c.mem, requeue := c.requeue, err := c.err, finalised := c.finalised, writes := c.writes }

/-! ### the Rollout side of the protocol -/

/-- an API fault on the Rollout controller's calls to the TrafficRouting object: none, the first `Get` fails, or the
    finalizer update (`UpdateFinalizer`: its Get or its Update) fails -/
inductive TFault where
  | none | get | update
  deriving Repr, DecidableEq, Inhabited

inductive HOut where
  | done | wait | err
  deriving Repr, DecidableEq, Inhabited

/-- set insertion into the (sorted) finalizer list -/
def insertSorted (i : Nat) : List Nat → List Nat
  | [] => [i]
  | x :: xs => if i < x then i :: x :: xs else if i = x then x :: xs else x :: insertSorted i xs

/-- `handleTrafficRouting` for rollout `i`: *done* only when its finalizer is on the TrafficRouting; the finalizer is
    never added to a TrafficRouting whose phase is Finalizing / Terminating; after adding it the caller waits -/
def handleTrafficRouting (i : Nat) (tr : Option TRO) (f : TFault) : HOut × Option TRO :=
  if f = .get then (.err, tr) else
  match tr with
  | none => (.wait, none)                                  -- NotFound: wait a moment
  | some t =>
    if i ∈ t.holders then (.done, tr)
    else if t.phase = .finalizing ∨ t.phase = .terminating then (.wait, tr)
    else if f = .update then (.err, tr)
    else if t.deleting then (.err, tr)                     -- the API server refuses a new finalizer on an object in deletion
    else (.wait, some { t with holders := insertSorted i t.holders })

/-- `finalizeTrafficRouting` for rollout `i`: (error, TrafficRouting afterwards).  Removes the rollout's finalizer;
    it does **not** wait for the TrafficRouting to report Healthy. -/
def finalizeTrafficRouting (i : Nat) (tr : Option TRO) (f : TFault) : Bool × Option TRO :=
  if f = .get then (true, tr) else
  match tr with
  | none => (false, none)
  | some t =>
    if i ∈ t.holders then
      if f = .update then (true, tr)
      else (false, stored { t with holders := t.holders.filter (· ≠ i) })
    else (false, tr)

/-- where one reconcile of the Rollout passes: through `doProgressingInitializing`, through `doFinalising`, or neither -/
inductive Pos where
  | init | fin | other
  deriving Repr, DecidableEq, Inhabited

open RV.RolloutSM in
/-- the dispatch of `Reconcile` / `reconcileRolloutProgressing` / `reconcileRolloutTerminating` / `…Disabling`
    (the same tests, in the same order, as `RolloutSM.reconcile`) -/
def position (w : World) : Pos :=
  match calculateStatus (handleFinalizer w.ro).1 w.wl with
  | none => .other
  | some _ =>
    match w.ro.phase with
    | .progressing =>
      match w.wl with
      | none => .other
      | some wl =>
        if ¬ wl.consistent then .other else
        match w.ro.reason with
        | .initializing => .init
        | .finalising | .cancelling => .fin
        | _ => .other
    | .terminating => if w.ro.term = .inTerminating then .fin else .other
    | .disabling => .fin
    | _ => .other

inductive BRes where
  | val (r : RolloutSM.StepResult) (tr : Option TRO)
  | panic
  deriving Repr

open RV.RolloutSM in
/-- `RolloutReconciler.Reconcile` of rollout `i`; `bound` = it carries the TrafficRouting annotation -/
def roReconcile (i : Nat) (bound : Bool) (w : World) (tr : Option TRO) (f : TFault) : BRes :=
  if ¬ bound then
    match reconcile w with
    | .panic => .panic
    | .val r => .val r tr
  else
  match position w with
  | .init =>
    match reconcile w with
    | .panic => .panic
    | .val r =>
      -- `doProgressingInitializing` got past InitializeTrafficRouting and the verify wait: the binding decides
      if r.w.ro.reason = .inRolling then
        match handleTrafficRouting i tr f with
        | (.done, tr') => .val r tr'
        | (.wait, tr') => .val { r with w := { r.w with ro := { r.w.ro with reason := .initializing } }, requeue := true } tr'
        | (.err, tr') => .val { r with w := { w with ro := (handleFinalizer w.ro).1 }, requeue := false, err := true } tr'
      else .val r tr
  | .fin =>
    -- `doFinalising`: the finalizer is taken off the TrafficRouting first; on an error nothing else happens
    match finalizeTrafficRouting i tr f with
    | (true, tr') =>
      .val { w := { w with ro := (handleFinalizer w.ro).1 }, roGone := (handleFinalizer w.ro).2.1, requeue := false, err := true,
             writes := (handleFinalizer w.ro).2.2 } tr'
    | (false, tr') =>
      match reconcile w with
      | .panic => .panic
      | .val r => .val r tr'
  | .other =>
    match reconcile w with
    | .panic => .panic
    | .val r => .val r tr

/-! ### the closed loop -/

/-- one Rollout with its workload and BatchRelease (the `net` / `mem` fields of `w` are not read: the joint state's are;
    once the object is gone the record keeps the last state it was seen in and is never read again) -/
structure Entry where
  bound : Bool
  gone : Bool
  w : RolloutSM.World
  deriving Repr, DecidableEq, Inhabited

/-- the joint state: one TrafficRouting (or none), the network it manages, the controllers' grace memory, any number of
    Rollouts in the same namespace -/
structure JS where
  tr : Option TRO
  net : Net
  mem : Mem
  ros : List Entry
  deriving Repr, DecidableEq, Inhabited

inductive Label where
  /-- one reconcile of rollout `i` (with an API fault on its TrafficRouting calls) -/
  | ro (i : Nat) (f : TFault)
  /-- one reconcile of the TrafficRouting -/
  | tr
  | tick | crash
  /-- the user deletes / creates the TrafficRouting, edits its strategy -/
  | deleteTR
  | createTR (weight : Option Nat) (grace : Nat) (hasRef : Bool)
  | editStrategy (weight : Option Nat)
  /-- the user deletes rollout `i` -/
  | deleteRo (i : Nat)
  /-- anybody else (user, webhook, workload controller, BatchRelease controller) changes rollout `i`'s workload,
      BatchRelease, spec or sub-status — everything but phase / condition reasons / finalizer / deletion -/
  | perturb (i : Nat) (w' : RolloutSM.World)
  /-- anybody else changes the network objects -/
  | envNet (n : Net)
  deriving Repr, Inhabited

def roWorld (s : JS) (e : Entry) : RolloutSM.World := { e.w with net := s.net, mem := s.mem }

/-- the workload as the finder reports it next time: a rollback is reported only while the in-progress annotation is
    there (`ControllerFinder.getKruiseCloneSet` returns before `IsInRollback` is computed otherwise) -/
def landWl (w : RolloutSM.World) : RolloutSM.World :=
  { w with wl := w.wl.map fun x => { x with inRollback := x.inRollback && x.inProgressAnno } }

def ageExp : Exp → Exp
  | .fresh => .elapsed
  | e => e

def ageAge : Age → Age
  | .fresh => .elapsed
  | a => a

def tickMem (m : Mem) : Mem :=
  { patchService := ageExp m.patchService, restoreService := ageExp m.restoreService, restoreGateway := ageExp m.restoreGateway,
    removeCanaryService := ageExp m.removeCanaryService, updateRoute := ageExp m.updateRoute }

def tickRo (ro : RolloutSM.Rollout) : RolloutSM.Rollout :=
  { ro with sub := ro.sub.map (fun sub => { sub with lastUpdate := ageAge sub.lastUpdate }), condAge := ageAge ro.condAge }

/-- the status fields only the Rollout controller writes, and the deletion mark -/
def sameControl (a b : RolloutSM.Rollout) : Bool :=
  a.phase == b.phase && a.reason == b.reason && a.term == b.term && a.hasFinalizer == b.hasFinalizer && a.deleting == b.deleting

def setEntry (s : JS) (i : Nat) (e : Entry) : JS := { s with ros := s.ros.set i e }

/-- the transition function; `none` = a reconciler panics -/
def step (s : JS) : Label → Option JS
  | .ro i f =>
    match s.ros[i]? with
    | none => some s
    | some e =>
      if e.gone then some s else
      match roReconcile i e.bound (roWorld s e) s.tr f with
      | .panic => none
      | .val r tr' => some { tr := tr', net := r.w.net, mem := r.w.mem, ros := s.ros.set i { e with w := if r.roGone then e.w else landWl r.w, gone := r.roGone } }
  | .tr =>
    match s.tr with
    | none => some s
    | some t => let r := trReconcile t s.net s.mem; some { s with tr := r.tr, net := r.net, mem := r.mem }
  | .tick => some { s with mem := tickMem s.mem, ros := s.ros.map fun e => { e with w := { e.w with ro := tickRo e.w.ro } } }
  | .crash => some { s with mem := Mem.empty }
  | .deleteTR => some { s with tr := s.tr.bind fun t => stored { t with deleting := true } }
  | .createTR w g hr =>
    match s.tr with
    | none => some { s with tr := some { deleting := false, hasFinalizer := false, holders := [], phase := .empty, weight := w, grace := g, hasRef := hr } }
    | some _ => some s
  | .editStrategy w => some { s with tr := s.tr.map fun t => { t with weight := w } }
  | .deleteRo i =>
    match s.ros[i]? with
    | none => some s
    | some e =>
      if e.gone then some s
      else if e.w.ro.deleting then some s      -- already in deletion (kept by whatever finalizer keeps it): Delete changes nothing
      else if e.w.ro.hasFinalizer then some (setEntry s i { e with w := { e.w with ro := { e.w.ro with deleting := true } } })
      else some (setEntry s i { e with gone := true })
  | .perturb i w' =>
    match s.ros[i]? with
    | none => some s
    | some e => if ¬ e.gone ∧ sameControl e.w.ro w'.ro then some (setEntry s i { e with w := w' }) else some s
  | .envNet n => some { s with net := n }

/-- run a history; `none` as soon as a reconciler panics -/
def run (s : JS) : List Label → Option JS
  | [] => some s
  | l :: ls => match step s l with
    | none => none
    | some s' => run s' ls

end RV.TRBind
