/-
  Model of the value conversion between Go/JSON values and Lua values in
  `/repo/pkg/util/luamanager` (core Lean only; linked into `rvdrv`).

    decodeValue   lua.go   : Go value (what `encoding/json` / `unstructured` produce) → Lua value
    Encode / jsonValue.MarshalJSON   json.go : Lua value → JSON bytes (or an error)

  Scope of the model (everything else is outside and is said so in props/C16.json):
  * numbers are integers (`|n| < 2^53`, exactly representable in the `float64` that
    `lua.LNumber` is, and printed by `encoding/json` without exponent up to 1e21);
  * strings are valid Unicode (`encoding/json` replaces invalid UTF-8 by U+FFFD);
  * JSON bytes are identified with the JSON value they denote (printing and parsing by
    `encoding/json` is trusted), objects are association lists whose order is the
    order in which `encoding/json` prints a `map[string]…`: ascending by key;
  * a Lua table is the sequence of `(key, value)` pairs in the order in which
    gopher-lua's `LTable.Next` enumerates it, plus an identity (`id`, the pointer the
    encoder's `visited` map is keyed by).  A cyclic table is represented by its
    unrolling cut at the first repetition of an ancestor's `id` (the encoder cannot
    look past that point: it fails on the repeated pointer first).
-/
namespace RV.LuaJson

/-- JSON-like value: what `decodeValue` accepts and what `Encode` produces. -/
inductive J where
  | null
  | bool (b : Bool)
  | num (n : Int)
  | str (s : String)
  | arr (xs : List J)
  | obj (kvs : List (String × J))
  deriving Repr, Inhabited

/-- A Lua table key.  `other` stands for every key that is neither a string nor a
    number (booleans, tables, functions …). -/
inductive Key where
  | str (s : String)
  | int (n : Int)
  | other
  deriving Repr, DecidableEq, Inhabited

/-- A Lua value as the encoder sees it.  `func` stands for every type the encoder
    has no case for (function, userdata, thread, channel). -/
inductive LVal where
  | nil
  | bool (b : Bool)
  | num (n : Int)
  | str (s : String)
  | func
  | tbl (id : Nat) (kvs : List (Key × LVal))
  deriving Repr, Inhabited

/-- The four errors of json.go (`errNested`, `errSparseArray`, `errInvalidKeys`,
    `invalidTypeError`). -/
inductive EncErr where
  | nested | sparse | keys | type
  deriving Repr, DecidableEq, Inhabited

def J.isNull : J → Bool
  | .null => true
  | _ => false

def LVal.isNil : LVal → Bool
  | .nil => true
  | _ => false

/-! ## Equality tests (the nested inductives have no derived `DecidableEq`) -/

mutual
def J.beq : J → J → Bool
  | .null, .null => true
  | .bool a, .bool b => a == b
  | .num a, .num b => a == b
  | .str a, .str b => a == b
  | .arr a, .arr b => J.beqList a b
  | .obj a, .obj b => J.beqFields a b
  | _, _ => false
def J.beqList : List J → List J → Bool
  | [], [] => true
  | x :: xs, y :: ys => J.beq x y && J.beqList xs ys
  | _, _ => false
def J.beqFields : List (String × J) → List (String × J) → Bool
  | [], [] => true
  | (k, x) :: xs, (l, y) :: ys => k == l && J.beq x y && J.beqFields xs ys
  | _, _ => false
end

/-! ## Ordering of object members

`encoding/json` prints the members of a Go map in ascending key order.  The model
uses one insertion sort, generic in the element type so that the same function
orders Lua table entries (in the encoder) and JSON members (in `canon`). -/

def insertBy {α} (key : α → String) (a : α) : List α → List α
  | [] => [a]
  | b :: l => if key a < key b then a :: b :: l else b :: insertBy key a l

def isort {α} (key : α → String) : List α → List α
  | [] => []
  | a :: l => insertBy key a (isort key l)

def Key.name : Key → String
  | .str s => s
  | _ => ""

def Key.isStr : Key → Bool
  | .str _ => true
  | _ => false

def entryName (e : Key × LVal) : String := e.1.name

def allStrKeys : List (Key × LVal) → Bool
  | [] => true
  | (k, _) :: r => k.isStr && allStrKeys r

/-! ## JSON/Go value → Lua value : `decodeValue` (lua.go)

`n` is the allocation counter: every `L.CreateTable` yields a fresh identity.
`arr.Append(v)` drops `v == LNil`; `tbl.RawSetH(key, LNil)` stores nothing. Go's
iteration order over the map is unspecified; the model takes the list order (the
encoder's result does not depend on it, see `norm`). -/

mutual
def decode (n : Nat) : J → LVal × Nat
  | .null => (.nil, n)
  | .bool b => (.bool b, n)
  | .num i => (.num i, n)
  | .str s => (.str s, n)
  | .arr xs =>                              -- arr := L.CreateTable(len, 0); for … arr.Append(decodeValue(item))
    let r := decodeArr (n + 1) 1 xs
    (.tbl n r.1, r.2)
  | .obj kvs =>                             -- tbl := L.CreateTable(0, len); for … tbl.RawSetH(LString(key), decodeValue(item))
    let r := decodeObj (n + 1) kvs
    (.tbl n r.1, r.2)
def decodeArr (n : Nat) (idx : Int) : List J → List (Key × LVal) × Nat
  | [] => ([], n)
  | x :: xs =>
    let r := decode n x
    if r.1.isNil then decodeArr r.2 idx xs  -- LTable.Append: `if value == LNil { return }`
    else
      let r2 := decodeArr r.2 (idx + 1) xs
      ((.int idx, r.1) :: r2.1, r2.2)
def decodeObj (n : Nat) : List (String × J) → List (Key × LVal) × Nat
  | [] => ([], n)
  | (k, x) :: rest =>
    let r := decode n x
    if r.1.isNil then decodeObj r.2 rest    -- RawSetString: `if value == LNil { delete(...) }`
    else
      let r2 := decodeObj r.2 rest
      ((.str k, r.1) :: r2.1, r2.2)
end

/-! ## Lua value → JSON : `Encode` / `jsonValue.MarshalJSON` (json.go)

Two passes.  `norm` is the effect of `obj[key.String()] = …; json.Marshal(obj)`:
the entries of a table all of whose keys are strings are visited in ascending key
order.  `encVal` is `MarshalJSON` itself, threading the `visited` map (which is
shared by the whole traversal and never unmarked). -/

mutual
def norm : LVal → LVal
  | .tbl id kvs =>
    let kvs' := normKvs kvs
    .tbl id (if allStrKeys kvs' then isort entryName kvs' else kvs')
  | .nil => .nil
  | .bool b => .bool b
  | .num n => .num n
  | .str s => .str s
  | .func => .func
def normKvs : List (Key × LVal) → List (Key × LVal)
  | [] => []
  | (k, v) :: r => (k, norm v) :: normKvs r
end

/-- The key loop of the array branch: every key must be a number (`errInvalidKeys`
    otherwise) and equal to the expected index 1, 2, 3 … (`errSparseArray`). -/
def checkArrKeys (expected : Int) : List (Key × LVal) → Option EncErr
  | [] => none
  | (.int n, _) :: r => if n = expected then checkArrKeys (expected + 1) r else some .sparse
  | (_, _) :: _ => some .keys

mutual
def encVal (vis : List Nat) : LVal → Except EncErr (J × List Nat)
  | .nil => .ok (.null, vis)
  | .bool b => .ok (.bool b, vis)
  | .num n => .ok (.num n, vis)
  | .str s => .ok (.str s, vis)
  | .func => .error .type                            -- default: invalidTypeError
  | .tbl id kvs =>
    if vis.contains id then .error .nested           -- if j.visited[converted] { return nil, errNested }
    else
      match kvs with                                 -- key, value := converted.Next(lua.LNil); switch key.Type()
      | [] => .ok (.null, id :: vis)                 -- case lua.LTNil: data = []byte(`null`)
      | (.int _, _) :: _ =>                          -- case lua.LTNumber
        match checkArrKeys 1 kvs with
        | some e => .error e
        | none =>
          match encArr (id :: vis) kvs with          -- json.Marshal(arr)
          | .ok (js, vis') => .ok (.arr js, vis')
          | .error e => .error e
      | (.str _, _) :: _ =>                          -- case lua.LTString
        if allStrKeys kvs then
          match encObj (id :: vis) kvs with          -- json.Marshal(obj)
          | .ok (ms, vis') => .ok (.obj ms, vis')
          | .error e => .error e
        else .error .keys
      | (.other, _) :: _ => .error .keys             -- default: errInvalidKeys
def encArr (vis : List Nat) : List (Key × LVal) → Except EncErr (List J × List Nat)
  | [] => .ok ([], vis)
  | (_, v) :: r =>
    match encVal vis v with
    | .error e => .error e
    | .ok (j, vis1) =>
      match encArr vis1 r with
      | .error e => .error e
      | .ok (js, vis2) => .ok (j :: js, vis2)
def encObj (vis : List Nat) : List (Key × LVal) → Except EncErr (List (String × J) × List Nat)
  | [] => .ok ([], vis)
  | (k, v) :: r =>
    match encVal vis v with
    | .error e => .error e
    | .ok (j, vis1) =>
      match encObj vis1 r with
      | .error e => .error e
      | .ok (ms, vis2) => .ok ((k.name, j) :: ms, vis2)
end

/-! ### Specification-level companion: the encoder with the `visited` map erased

`encPure` is `encVal` with every mention of `vis` deleted: what the encoder would answer
if it never compared table identities.  It is not a model of any Go function; the theorems
`encode_ok_iff` / `encode_eq_pure_of_distinct` (RV/Props/C16.lean) use it to say exactly what
the identity check adds: nothing, unless some table is reachable twice. -/


mutual
def encPure : LVal → Except EncErr J
  | .nil => .ok .null
  | .bool b => .ok (.bool b)
  | .num n => .ok (.num n)
  | .str s => .ok (.str s)
  | .func => .error .type
  | .tbl _ kvs =>
    match kvs with
    | [] => .ok .null
    | (.int _, _) :: _ =>
      match checkArrKeys 1 kvs with
      | some e => .error e
      | none =>
        match encArrPure kvs with
        | .ok js => .ok (.arr js)
        | .error e => .error e
    | (.str _, _) :: _ =>
      if allStrKeys kvs then
        match encObjPure kvs with
        | .ok ms => .ok (.obj ms)
        | .error e => .error e
      else .error .keys
    | (.other, _) :: _ => .error .keys
def encArrPure : List (Key × LVal) → Except EncErr (List J)
  | [] => .ok []
  | (_, v) :: r =>
    match encPure v with
    | .error e => .error e
    | .ok j =>
      match encArrPure r with
      | .error e => .error e
      | .ok js => .ok (j :: js)
def encObjPure : List (Key × LVal) → Except EncErr (List (String × J))
  | [] => .ok []
  | (k, v) :: r =>
    match encPure v with
    | .error e => .error e
    | .ok j =>
      match encObjPure r with
      | .error e => .error e
      | .ok ms => .ok ((k.name, j) :: ms)
end

/-- `luamanager.Encode(value)`: a fresh `visited` map per call. -/
def encode (l : LVal) : Except EncErr J :=
  match encVal [] (norm l) with
  | .ok (j, _) => .ok j
  | .error e => .error e

/-- What the callers (`ingress.go`, `custom_network_provider.go`) do with the value a
    script returned: only a table is encoded, anything else is an error for that rollout. -/
inductive CallResult where
  | json (j : J)
  | encodeError (e : EncErr)
  | notTable
  deriving Repr, Inhabited

def callerResult : LVal → CallResult
  | .tbl id kvs =>
    match encode (.tbl id kvs) with
    | .ok j => .json j
    | .error e => .encodeError e
  | _ => .notTable

/-! ## The round trip, stated explicitly

`canon v` is what `Encode (decodeValue v)` yields: `null` members of arrays and
objects disappear (Lua tables cannot hold `nil`), an array or object that is (or
becomes) empty is `null` (the encoder cannot tell `{}` from `[]`), object members
are in ascending key order.  Everything else is the identity. -/

mutual
def canon : J → J
  | .null => .null
  | .bool b => .bool b
  | .num n => .num n
  | .str s => .str s
  | .arr xs =>
    match canonList xs with
    | [] => .null
    | y :: ys => .arr (y :: ys)
  | .obj kvs =>
    match isort Prod.fst (canonFields kvs) with
    | [] => .null
    | m :: ms => .obj (m :: ms)
def canonList : List J → List J
  | [] => []
  | x :: xs => if x.isNull then canonList xs else canon x :: canonList xs
def canonFields : List (String × J) → List (String × J)
  | [] => []
  | (k, x) :: r => if x.isNull then canonFields r else (k, canon x) :: canonFields r
end

/-- Values on which the round trip is the identity: no `null` inside a container, no
    empty container, object keys strictly ascending (the representation of a Go map). -/
def ascendingFrom (prev : Option String) : List (String × J) → Bool
  | [] => true
  | (k, _) :: r =>
    (match prev with
     | none => true
     | some p => decide (p < k)) && ascendingFrom (some k) r

mutual
def clean : J → Bool
  | .null => true
  | .bool _ => true
  | .num _ => true
  | .str _ => true
  | .arr xs => !xs.isEmpty && cleanList xs
  | .obj kvs => !kvs.isEmpty && ascendingFrom none kvs && cleanFields kvs
def cleanList : List J → Bool
  | [] => true
  | x :: xs => !x.isNull && clean x && cleanList xs
def cleanFields : List (String × J) → Bool
  | [] => true
  | (_, x) :: r => !x.isNull && clean x && cleanFields r
end

/-! ## Measures used for the input-distribution tags -/

mutual
def J.size : J → Nat
  | .arr xs => 1 + J.sizeList xs
  | .obj kvs => 1 + J.sizeFields kvs
  | _ => 1
def J.sizeList : List J → Nat
  | [] => 0
  | x :: xs => J.size x + J.sizeList xs
def J.sizeFields : List (String × J) → Nat
  | [] => 0
  | (_, x) :: r => J.size x + J.sizeFields r
end

mutual
def J.depth : J → Nat
  | .arr xs => 1 + J.depthList xs
  | .obj kvs => 1 + J.depthFields kvs
  | _ => 0
def J.depthList : List J → Nat
  | [] => 0
  | x :: xs => max (J.depth x) (J.depthList xs)
def J.depthFields : List (String × J) → Nat
  | [] => 0
  | (_, x) :: r => max (J.depth x) (J.depthFields r)
end

mutual
def LVal.size : LVal → Nat
  | .tbl _ kvs => 1 + LVal.sizeKvs kvs
  | _ => 1
def LVal.sizeKvs : List (Key × LVal) → Nat
  | [] => 0
  | (_, v) :: r => LVal.size v + LVal.sizeKvs r
end

/- Identities of all tables of a Lua value, in traversal order. -/
mutual
def ids : LVal → List Nat
  | .tbl id kvs => id :: idsKvs kvs
  | _ => []
def idsKvs : List (Key × LVal) → List Nat
  | [] => []
  | (_, v) :: r => ids v ++ idsKvs r
end

end RV.LuaJson
