/-
  A second closed loop: the **blue-green** strategy end to end — and, for that, the closed loop written ONCE,
  parametric in the workload world and in the control plane that serves it.

  `RV.ClosedLoop` is one instance of the closed loop (canary strategy, partition style, CloneSet).  Here the same
  transition system is written over a record `Loop W P`:

      W  the workload part of the joint state (what the ControllerFinder, the BatchRelease control plane, the workload
         controller and the user act on),
      P  the world of the control plane that serves it (`RV.ExecutorX.Plane P`),

  and instantiated twice:

      csLoop   W = Option ClosedLoop.CWl,  plane = ExecutorX.csPlane        — `RV.ClosedLoop.step` IS this instance
                                                                              (`RV.Props.ClosedLoopBG.closedloop_is_instance`)
      bgLoop   W = BW (blue-green CloneSet + HPAs),  plane = ExecutorX.bgPlane .cloneSet

  Nothing of a reconciler or of a plane is re-modelled: `.ro` = `RV.RolloutSM.reconcile` on the projection `roWorld`,
  `.br` = `RV.ExecutorX.reconcileX L.plane` on the projection `L.proj`, the BatchRelease record, its landing functions
  (`createdBr`, `updatedBr`, `stLand`), `approve`, `tick`, `Label` are those of `RV.ClosedLoop`.

  Source of the transitions other than the two reconcilers: `harness/suite_closedloopbg.go` (`bgcEnv` — the CloneSet
  controller under blue-green settings —, `bgcRelease` — the workload webhook admitting a new revision —, `approve`,
  `tick`, `deleteRollout`, `restart`, `bgcRollback` = `release` of the stable revision) and `cllApiServer`
  (metadata.generation is bumped when a spec was written, a created BatchRelease gets generation 1 and a fresh UID).
-/
import RV.Model.ClosedLoop
import RV.Model.ExecutorXPlanes
namespace RV.ClosedLoopBG
open RV.Arith IntOrPct RV.Traffic
open RV.ClosedLoop (CBr Label createdBr updatedBr stLand exBr roBr ageExp ageAge)

/-! ## the closed loop over any workload world -/

/-- what the closed loop needs to know about a workload world `W` served by the control plane `plane` over `P` -/
structure Loop (W P : Type) where
  /-- `ControllerFinder.GetWorkloadForRef`: `none` = the finder crashes, `some none` = no workload -/
  view : W → Option (Option RolloutSM.WL)
  /-- the only workload write of the Rollout controller landed: the in-progress annotation is set / removed -/
  setAnno : Bool → W → W
  /-- a newly created BatchRelease has a fresh UID: a control annotation left by an earlier one is foreign now -/
  disown : W → W
  /-- the control plane `getReleaseController` builds for this workload -/
  plane : ExecutorX.Plane P
  /-- what that control plane reads -/
  proj : W → P
  /-- the workload world after the executor's writes as the API server stores it (`metadata.generation`) -/
  land : W → P → W
  /-- one round of the workload controller -/
  env : W → W
  /-- a new revision admitted by the workload webhook -/
  release : String → W → W

/-- the joint state -/
structure GS (W : Type) where
  /-- the Rollout object no longer exists (then `ro` is not read) -/
  gone : Bool
  ro : RolloutSM.Rollout
  world : W
  br : Option CBr
  net : Net
  mem : Mem
  deriving Repr, DecidableEq, Inhabited

variable {W P : Type}

/-- the world of one Rollout reconcile; `none` = the finder crashes -/
def roWorld (L : Loop W P) (s : GS W) : Option RolloutSM.World :=
  match L.view s.world with
  | none => none
  | some v => some { ro := s.ro, wl := v, br := s.br.map roBr, net := s.net, mem := s.mem }

/-- BatchRelease and workload world after the Rollout reconcile's writes -/
def landBR (L : Loop W P) (old : Option CBr) (new : Option RolloutSM.BR) (w : W) : Option CBr × W :=
  match old, new with
  | _, none => (none, w)
  | none, some b => (some (createdBr b), L.disown w)
  | some c, some b => (updatedBr c b, w)

def annoLand (L : Loop W P) (w : W) (v : Option RolloutSM.WL) : W :=
  match v with
  | some v => L.setAnno v.inProgressAnno w
  | none => w

/-- how the result of one Rollout reconcile lands in the joint state -/
def landRo (L : Loop W P) (s : GS W) (r : RolloutSM.StepResult) : GS W :=
  { gone := r.roGone, ro := r.w.ro, world := (landBR L s.br r.w.br (annoLand L s.world r.w.wl)).2,
    br := (landBR L s.br r.w.br (annoLand L s.world r.w.wl)).1, net := r.w.net, mem := r.w.mem }

/-- `.ro`: one Rollout reconcile -/
def stepRo (L : Loop W P) (s : GS W) : Option (GS W) :=
  if s.gone then some s else
  match roWorld L s with
  | none => none
  | some w =>
    match RolloutSM.reconcile w with
    | .panic => none
    | .val r => some (landRo L s r)

/-- `.br`: one BatchRelease reconcile over the plane -/
def stepBr (L : Loop W P) (s : GS W) : Option (GS W) :=
  match s.br with
  | none => some s
  | some b =>
    match ExecutorX.reconcileX L.plane (exBr b) (L.proj s.world) with
    | .panic => none
    | .val o => some { s with br := o.br.map (stLand b), world := L.land s.world o.wl }

/-- the user confirms a manual pause -/
def approve (s : GS W) : GS W :=
  if s.gone then s else
  match s.ro.sub with
  | some sub => if sub.state = .paused then { s with ro := { s.ro with sub := some { sub with state := .ready } } } else s
  | none => s

/-- the grace periods elapse -/
def tick (s : GS W) : GS W :=
  let ro := if s.gone then s.ro else
    { s.ro with sub := s.ro.sub.map (fun sub => { sub with lastUpdate := ageAge sub.lastUpdate }), condAge := ageAge s.ro.condAge }
  { s with ro := ro,
           mem := { patchService := ageExp s.mem.patchService, restoreService := ageExp s.mem.restoreService,
                    restoreGateway := ageExp s.mem.restoreGateway, removeCanaryService := ageExp s.mem.removeCanaryService,
                    updateRoute := ageExp s.mem.updateRoute } }

/-- the user deletes the Rollout: kept while it carries the finalizer -/
def delete (s : GS W) : GS W :=
  if s.gone then s
  else if s.ro.hasFinalizer then { s with ro := { s.ro with deleting := true } }
  else { s with gone := true }

/-- a controller restart loses exactly the in-memory grace expectations -/
def crash (s : GS W) : GS W := { s with mem := Mem.empty }

/-- the transition function; `none` = a reconciler panics.  `rollback` is not a label of its own: it is
    `release r` with `r` the stable revision (`bgRollback`). -/
def step (L : Loop W P) (s : GS W) : Label → Option (GS W)
  | .ro => stepRo L s
  | .br => stepBr L s
  | .env => some { s with world := L.env s.world }
  | .release rev => some { s with world := L.release rev s.world }
  | .approve => some (approve s)
  | .tick => some (tick s)
  | .crash => some (crash s)
  | .delete => some (delete s)

/-- run a history; `none` as soon as a reconciler panics -/
def run (L : Loop W P) (s : GS W) : List Label → Option (GS W)
  | [] => some s
  | l :: ls => match step L s l with
    | none => none
    | some s' => run L s' ls

/-! ## instance 1: the canary / partition-style CloneSet loop of `RV.ClosedLoop` -/

open RV.ClosedLoop (CWl CS) in
def csLoop : Loop (Option CWl) (Option Executor.Workload) where
  view := fun w => some (w.map RV.ClosedLoop.roWl)
  setAnno := fun b w => w.map fun x => { x with inProgressAnno := b }
  disown := fun w => w.map fun x => if x.owner = .this then { x with owner := .other } else x
  plane := ExecutorX.csPlane
  proj := fun w => w.map RV.ClosedLoop.exWl
  land := RV.ClosedLoop.wlLand
  env := fun w => w.map RV.ClosedLoop.envWl
  release := fun rev w => w.map (RV.ClosedLoop.releaseWl rev)

/-- the joint state of `RV.ClosedLoop` as a state of the generic loop -/
def ofCS (s : RV.ClosedLoop.CS) : GS (Option RV.ClosedLoop.CWl) :=
  { gone := s.gone, ro := s.ro, world := s.wl, br := s.br, net := s.net, mem := s.mem }

/-! ## instance 2: blue-green over a CloneSet -/

open RV.CtlBlueGreen (Workload HPA maxReady ruSurge ruUnavailable)

/-- the workload part of the joint state: the CloneSet as the blue-green control plane reads it, the
    HorizontalPodAutoscalers of the namespace, and what only the finder / the executor's event detection read -/
structure BW where
  wl : Option Workload
  hpaV2 : List HPA
  hpaV1 : List HPA
  generation : Int
  observedGeneration : Int
  /-- `status.updateRevision` / `status.currentRevision` (the harness names revisions without a dash: the finder's
      suffix rule returns them unchanged) -/
  updateRevision : String
  currentRevision : String
  inProgressAnno : Bool
  deriving Repr, DecidableEq, Inhabited

/-- what `ControllerFinder.getKruiseCloneSet` reports; it dereferences `spec.replicas` -/
def bgView (b : BW) : Option (Option RolloutSM.WL) :=
  match b.wl with
  | none => some none
  | some wl =>
    match wl.replicas with
    | none => none
    | some R =>
      some (some { consistent := decide (b.generation = b.observedGeneration), inProgressAnno := b.inProgressAnno,
                   canaryRev := b.updateRevision, stableRev := b.currentRevision,
                   inRollback := b.inProgressAnno && decide (b.currentRevision = b.updateRevision) &&
                                 decide (wl.status.updated ≠ wl.status.replicas),
                   replicas := R, generation := b.generation, podTemplateHash := b.updateRevision })

/-- the world of the blue-green control plane (`ExecutorX.BGW`): the status fields its CloneSet adapter does not read are 0 -/
def bgProj (b : BW) : ExecutorX.BGW :=
  { w := { wl := b.wl, rss := [], hpaV2 := b.hpaV2, hpaV1 := b.hpaV1 },
    obs := { generation := b.generation, observedGeneration := b.observedGeneration, statusReplicas := 0, updated := 0,
             updatedReady := 0, updateRevision := b.updateRevision, stableRevision := b.currentRevision } }

/-- the part of the CloneSet whose change bumps `metadata.generation` (annotations do not) -/
def specOf (wl : Workload) : Option Int × Bool × Int × CtlBlueGreen.SType × Option CtlBlueGreen.RU × Option IntOrPct :=
  (wl.replicas, wl.paused, wl.minReadySeconds, wl.stype, wl.ru, wl.partition)

/-- the CloneSet and the HPAs after the executor's patches -/
def bgLand (b : BW) (p : ExecutorX.BGW) : BW :=
  let gen := match b.wl, p.w.wl with
    | some wl, some wl' => if specOf wl' ≠ specOf wl then b.generation + 1 else b.generation
    | _, _ => b.generation
  { b with wl := p.w.wl, hpaV2 := p.w.hpaV2, hpaV1 := p.w.hpaV1, generation := gen }

/-- pods the partition keeps on the old revision (`R` at most) -/
def keptBy (p : Option IntOrPct) (R : Int) : Int :=
  match p with
  | some p => let k := scaledV p R true; if k > R then R else if k < 0 then 0 else k
  | none => 0

def nonneg (x : Int) : Int := if x < 0 then 0 else x

/-- the status of a CloneSet with `old` pods that are not of the update revision and `upd` that are, all of them ready -/
def statusOf (old upd avail : Int) : CtlBlueGreen.Status :=
  { replicas := old + upd, ready := old + upd, updated := upd, available := avail, updatedReady := upd }

/-- one sync while no pod ever becomes available (`minReadySeconds = MaxReadySeconds`): pods of the update revision exist
    only as surge (plus what `maxUnavailable` lets go), old pods go only within `maxUnavailable`: (old, updated) afterwards -/
def heldSync (R want surge unav old upd : Int) : Int × Int :=
  let cap := if surge + unav < want then surge + unav else want
  let gone := if unav < want then unav else want
  (if old > R - gone then R - gone else old, if upd < cap then cap else upd)

/-- one sync with an ordinary `minReadySeconds`: every pod the partition allows is replaced -/
def freeSync (R want upd : Int) : Int × Int :=
  let upd' := if upd < want then want else upd
  (nonneg (R - upd'), upd')

/-- one round of the simulated CloneSet controller (`bgcSim.env`), all pods healthy:
    a new generation is observed first (nothing else in that round); then, while two revisions exist and the CloneSet is not
    paused, pods of the update revision appear as far as the partition allows — at once when `minReadySeconds` is an ordinary
    value (old pods are replaced, and the revision is promoted when all are), but with `minReadySeconds = MaxReadySeconds`
    only as surge (`heldSync`); with one revision the CloneSet has exactly `replicas` pods. -/
def bgEnv (b : BW) : BW :=
  match b.wl with
  | none => b
  | some wl =>
    match wl.replicas with
    | none => b
    | some R =>
      -- the sync that observes a new generation reports the pods it found; what it does to them shows in the next one
      if b.generation ≠ b.observedGeneration then { b with observedGeneration := b.generation } else
      if b.updateRevision ≠ b.currentRevision then
        if wl.paused then b else
        let want := R - keptBy wl.partition R
        let st := wl.status
        if wl.minReadySeconds ≥ maxReady then
          let r := heldSync R want (nonneg (scaledV ((ruSurge wl.ru).getD (int 0)) R true))
                     (nonneg (scaledV ((ruUnavailable wl.ru).getD (int 0)) R false)) (st.ready - st.updatedReady) st.updated
          { b with wl := some { wl with status := statusOf r.1 r.2 0 } }
        else
          let r := freeSync R want st.updated
          { b with wl := some { wl with status := statusOf r.1 r.2 (r.1 + r.2) },
                   currentRevision := if r.2 ≥ R then b.updateRevision else b.currentRevision }
      else
        { b with wl := some { wl with status := { replicas := R, ready := R, updated := R,
                                                   available := if wl.minReadySeconds ≥ maxReady then 0 else R, updatedReady := R } } }

/-- `x`, but at most `spec.replicas` -/
def capAt (r : Option Int) (x : Int) : Int :=
  match r with
  | some R => if x > R then R else x
  | none => x

/-- a new revision admitted by the workload webhook (`handleCloneSet`): held back at partition 100 %, marked in progress.
    Pods of a revision that is no longer the update revision are not "updated" any more; when the new update revision is
    the current one (a rollback) the pods of the current revision are. -/
def bgRelease (rev : String) (b : BW) : BW :=
  -- an unchanged template is not a release: the webhook does not act
  if rev = b.updateRevision then b else
  match b.wl with
  | none => b
  | some wl =>
    let st := wl.status
    let old := st.ready - st.updatedReady
    let cur := capAt wl.replicas old
    let st' : CtlBlueGreen.Status :=
      if rev = b.currentRevision then { st with updated := cur, updatedReady := cur }
      else { st with updated := 0, updatedReady := 0 }
    { b with wl := some { wl with partition := some (pct 100), status := st' }, generation := b.generation + 1,
             inProgressAnno := true, updateRevision := rev }

def bgSetAnno (a : Bool) (b : BW) : BW := if b.wl.isSome then { b with inProgressAnno := a } else b

/-- this BatchRelease is `uid 0`; an earlier one `uid 1` -/
def bgDisown (b : BW) : BW :=
  { b with wl := b.wl.map fun wl => if wl.ctl = .uid 0 then { wl with ctl := .uid 1 } else wl }

def bgLoop : Loop BW ExecutorX.BGW where
  view := bgView
  setAnno := bgSetAnno
  disown := bgDisown
  plane := ExecutorX.bgPlane .cloneSet
  proj := bgProj
  land := bgLand
  env := bgEnv
  release := bgRelease

abbrev BS := GS BW

/-- the blue-green transition function -/
def bgStep (s : BS) (l : Label) : Option BS := step bgLoop s l

def bgRun (s : BS) (ls : List Label) : Option BS := run bgLoop s ls

end RV.ClosedLoopBG
