/-
  Model of the custom (Lua) network provider
    /repo/pkg/trafficrouting/network/customNetworkProvider/custom_network_provider.go
  and hand translations of the two built-in Istio scripts
    /repo/lua_configuration/networking.istio.io/{VirtualService,DestinationRule}/trafficRouting.lua
  Core Lean only (linked into the driver).

  Conventions
  * `J` is a JSON value without floats (Env: integers |n| < 2^53, so that the trip through
    Lua's float64 numbers and `encoding/json` is the identity on numbers).
  * Go's `Data{Spec interface{}, Labels, Annotations map[string]string}` is only ever
    observed through `encoding/json` with `omitempty` or through `== nil` tests, therefore in
    `Data` the list `[]` stands for the nil map and `J.null` for the nil interface.
  * In `Obj` (the unstructured object as the API server holds it) absent and empty are
    different states (`none` / `some []`), and so are an absent `spec` and `spec: null`.
  * The value of the original-configuration annotation is a *string*.  `encoding/json` is not
    modelled: the model is parameterised by a `Codec` (`enc` = `util.DumpJSON`,
    `dec` = `json.Unmarshal` with the error ignored, as the Go code does).
-/
namespace RV.Custom

/-! ## JSON values -/

inductive J where
  | null
  | bool (b : Bool)
  | int (n : Int)
  | str (s : String)
  | arr (xs : List J)
  | obj (kvs : List (String × J))
  deriving Repr, Inhabited

/- `deriving DecidableEq` does not handle nested inductives; written by hand
   (mutual structural recursion). -/
mutual
def J.decEq : (a b : J) → Decidable (a = b)
  | .null, .null => isTrue rfl
  | .bool a, .bool b =>
    if h : a = b then isTrue (by rw [h]) else isFalse (by intro e; cases e; exact h rfl)
  | .int a, .int b =>
    if h : a = b then isTrue (by rw [h]) else isFalse (by intro e; cases e; exact h rfl)
  | .str a, .str b =>
    if h : a = b then isTrue (by rw [h]) else isFalse (by intro e; cases e; exact h rfl)
  | .arr a, .arr b =>
    match J.decEqL a b with
    | isTrue h => isTrue (by rw [h])
    | isFalse h => isFalse (by intro e; cases e; exact h rfl)
  | .obj a, .obj b =>
    match J.decEqKV a b with
    | isTrue h => isTrue (by rw [h])
    | isFalse h => isFalse (by intro e; cases e; exact h rfl)
  | .null, .bool _ | .null, .int _ | .null, .str _ | .null, .arr _ | .null, .obj _
  | .bool _, .null | .bool _, .int _ | .bool _, .str _ | .bool _, .arr _ | .bool _, .obj _
  | .int _, .null | .int _, .bool _ | .int _, .str _ | .int _, .arr _ | .int _, .obj _
  | .str _, .null | .str _, .bool _ | .str _, .int _ | .str _, .arr _ | .str _, .obj _
  | .arr _, .null | .arr _, .bool _ | .arr _, .int _ | .arr _, .str _ | .arr _, .obj _
  | .obj _, .null | .obj _, .bool _ | .obj _, .int _ | .obj _, .str _ | .obj _, .arr _ =>
    isFalse (by intro e; cases e)
def J.decEqL : (a b : List J) → Decidable (a = b)
  | [], [] => isTrue rfl
  | [], _ :: _ | _ :: _, [] => isFalse (by intro e; cases e)
  | x :: xs, y :: ys =>
    match J.decEq x y, J.decEqL xs ys with
    | isTrue h1, isTrue h2 => isTrue (by rw [h1, h2])
    | isFalse h, _ => isFalse (by intro e; cases e; exact h rfl)
    | _, isFalse h => isFalse (by intro e; cases e; exact h rfl)
def J.decEqKV : (a b : List (String × J)) → Decidable (a = b)
  | [], [] => isTrue rfl
  | [], _ :: _ | _ :: _, [] => isFalse (by intro e; cases e)
  | (k, x) :: xs, (l, y) :: ys =>
    if hk : k = l then
      match J.decEq x y, J.decEqKV xs ys with
      | isTrue h1, isTrue h2 => isTrue (by rw [hk, h1, h2])
      | isFalse h, _ => isFalse (by intro e; cases e; exact h rfl)
      | _, isFalse h => isFalse (by intro e; cases e; exact h rfl)
    else isFalse (by intro e; cases e; exact hk rfl)
end
instance : DecidableEq J := J.decEq

/-! ## association lists (Go maps / JSON objects / Lua tables with string keys) -/

abbrev StrMap := List (String × String)

/-- `m[k]` with presence flag (first binding wins). -/
def lookup {α} (k : String) : List (String × α) → Option α
  | [] => none
  | (k', v) :: r => if k' = k then some v else lookup k r

/-- `delete(m, k)`. -/
def eraseKey {α} (k : String) : List (String × α) → List (String × α)
  | [] => []
  | (k', v) :: r => if k' = k then eraseKey k r else (k', v) :: eraseKey k r

/-- `m[k] = v` (replace the binding if the key is bound, add it otherwise). -/
def setKey {α} (k : String) (v : α) : List (String × α) → List (String × α)
  | [] => [(k, v)]
  | (k', v') :: r => if k' = k then (k, v) :: r else (k', v') :: setKey k v r

/-- insert into a key-sorted list; an existing binding of `k` is overridden. -/
def insertSorted {α} (k : String) (v : α) : List (String × α) → List (String × α)
  | [] => [(k, v)]
  | (k', v') :: r =>
    if k < k' then (k, v) :: (k', v') :: r
    else if k = k' then (k, v) :: r
    else (k', v') :: insertSorted k v r

/-- canonical form of a string map: sorted by key, first binding of a key wins. -/
def canonM {α} : List (String × α) → List (String × α)
  | [] => []
  | (k, v) :: r => insertSorted k v (canonM r)

mutual
/-- canonical form of a JSON value = what `json.Marshal` prints (object keys sorted).
    Two values have the same `DumpJSON` text iff their canonical forms are equal. -/
def canonJ : J → J
  | .arr xs => .arr (canonL xs)
  | .obj kvs => .obj (canonKV kvs)
  | j => j
def canonL : List J → List J
  | [] => []
  | x :: xs => canonJ x :: canonL xs
def canonKV : List (String × J) → List (String × J)
  | [] => []
  | (k, v) :: r => insertSorted k (canonJ v) (canonKV r)
end

/-- `reflect.DeepEqual` on two `map[string]string` that may be nil:
    nil ≠ empty-but-allocated, otherwise extensional. -/
def mapsDeepEq : Option StrMap → Option StrMap → Bool
  | none, none => true
  | some a, some b => canonM a == canonM b
  | _, _ => false

/-- nil for an empty list (a `Data` map that went through JSON is never empty-but-allocated). -/
def optOfList {α} : List α → Option (List α)
  | [] => none
  | l => some l

/-! ## objects, data, codec -/

def origKey : String := "rollouts.kruise.io/original-spec-configuration"

/-- the three parts of an unstructured object the provider reads and writes. -/
structure Obj where
  /-- `obj.Object["spec"]`: `none` = key absent, `some .null` = `spec: null` -/
  spec : Option J
  /-- `metadata.labels`: `none` = absent, `some []` = `{}` -/
  labels : Option StrMap
  /-- `metadata.annotations`, *including* the original-configuration annotation -/
  annotations : Option StrMap
  deriving Repr, Inhabited, DecidableEq

/-- Go `Data` (see conventions at the top). -/
structure Data where
  spec : J
  labels : StrMap
  annotations : StrMap
  deriving Repr, Inhabited, DecidableEq

/-- `util.DumpJSON` / `json.Unmarshal` (error ignored) on `Data`. -/
structure Codec where
  enc : Data → String
  dec : String → Data

/-- Env assumption on `encoding/json`: a dumped `Data` parses back to itself and the dump
    is never the empty string (it is at least `{}`). -/
structure Codec.Lawful (c : Codec) : Prop where
  dec_enc : ∀ d, c.dec (c.enc d) = d
  enc_ne : ∀ d, c.enc d ≠ ""

/-- the same assumption at a single value: all the theorems need it only at the `Data` of the
    user's original objects. -/
def Codec.LawfulOn (c : Codec) (d : Data) : Prop := c.dec (c.enc d) = d ∧ c.enc d ≠ ""

theorem Codec.Lawful.on {c : Codec} (h : c.Lawful) (d : Data) : c.LawfulOn d := ⟨h.dec_enc d, h.enc_ne d⟩

/-! ## strategy -/

inductive Traffic where
  | none                -- `strategy.Traffic == nil`
  | pct (p : Int)       -- "<p>%"
  | bad                 -- any other string: `GetScaledValueFromIntOrPercent` fails, value 0
  deriving Repr, Inhabited, DecidableEq

structure KVMatch where
  ty : Option String
  name : String
  value : String
  deriving Repr, Inhabited, DecidableEq

structure PathMatch where
  ty : Option String
  value : Option String
  deriving Repr, Inhabited, DecidableEq

structure HttpMatch where
  path : Option PathMatch
  headers : List KVMatch
  queryParams : List KVMatch
  deriving Repr, Inhabited, DecidableEq

structure HeaderMod where
  set : List (String × String)
  add : List (String × String)
  remove : List String
  deriving Repr, Inhabited, DecidableEq

structure Strategy where
  traffic : Traffic
  mts : List HttpMatch
  hdrMod : Option HeaderMod
  deriving Repr, Inhabited, DecidableEq

/-- `executeLuaForCanary`: the weight handed to the script (`-1` stands for nil). -/
def canaryWeight (s : Strategy) : Int :=
  match s.traffic with
  | .none => -1
  | .pct p => p
  | .bad => 0

/-- the script as the provider sees it: everything between `ToUnstructured(LuaData)` and
    `json.Unmarshal(luamanager.Encode(ret))`; `none` = any error on that path. -/
abbrev Script := Data → Strategy → Option Data

structure Ref where
  /-- `getLuaScript`: `none` = found neither locally nor in the ConfigMap -/
  script : Option Script
  /-- `none` = `Get` returns NotFound -/
  obj : Option Obj

inductive Res where
  | ok (flag : Bool)   -- EnsureRoutes: done;  Finalise: modified
  | err
  deriving Repr, Inhabited, DecidableEq

/-! ## the provider -/

/-- the `Data` literal built in `storeObject`. -/
def dataOf (o : Obj) : Data :=
  { spec := o.spec.getD .null                                   -- map lookup: absent ↦ nil
    labels := o.labels.getD []                                  -- nil map ↦ []
    annotations := eraseKey origKey (o.annotations.getD []) }   -- `delete(annotations, key)`

/-- value of the original-configuration annotation, `""` when unbound (Go map read). -/
def origOf (o : Obj) : String := (lookup origKey (o.annotations.getD [])).getD ""

/-- `storeObject`: returns the object written (`Update`) or `o` itself when nothing is written. -/
def storeObject (c : Codec) (o : Obj) : Obj :=
  let anns := o.annotations.getD []
  let oStr := origOf o
  let cStr := c.enc (dataOf o)
  if oStr = cStr then o
  else { o with annotations := some (setKey origKey cStr (eraseKey origKey anns)) }

/-- EnsureRoutes, second loop: store unless the annotation key is bound. -/
def storeIfAbsent (c : Codec) (o : Obj) : Obj :=
  match lookup origKey (o.annotations.getD []) with
  | some _ => o
  | none => storeObject c o

/-- EnsureRoutes, third loop body: `none` = error return. -/
def plan (c : Codec) (s : Strategy) (script : Option Script) (o : Obj) : Option Data :=
  let specStr := origOf o
  if specStr = "" then none
  else
    match script with
    | none => none
    | some f => f (c.dec specStr) s

/-- `compareAndUpdateObject`: object after the call and whether `Update` was issued. -/
def compareAndUpdate (d : Data) (o : Obj) : Obj × Bool :=
  let anns := setKey origKey (origOf o) d.annotations      -- nil map is made first
  let labels := optOfList d.labels
  if canonJ (o.spec.getD .null) = canonJ d.spec            -- DumpJSON(obj.spec) == DumpJSON(spec)
      ∧ mapsDeepEq o.annotations (some anns) = true
      ∧ mapsDeepEq o.labels labels = true then (o, false)
  else ({ spec := some d.spec, labels := labels, annotations := some anns }, true)

def planAll (c : Codec) (s : Strategy) : List (Option Script × Obj) → Option (List Data)
  | [] => some []
  | (f, o) :: r =>
    match plan c s f o with
    | none => none
    | some d =>
      match planAll c s r with
      | none => none
      | some ds => some (d :: ds)

def applyAll : List Data → List (Option Script × Obj) → List (Ref × Bool)
  | d :: ds, (f, o) :: r =>
    let (o', u) := compareAndUpdate d o
    (⟨f, some o'⟩, u) :: applyAll ds r
  | _, _ => []

/-- first loop of EnsureRoutes: all objects, or `none` when one `Get` fails. -/
def getAll : List Ref → Option (List (Option Script × Obj))
  | [] => some []
  | r :: rs =>
    match r.obj with
    | none => none
    | some o =>
      match getAll rs with
      | none => none
      | some l => some ((r.script, o) :: l)

/-- `EnsureRoutes`: new state of the referenced objects and the result. -/
def ensureRoutes (c : Codec) (s : Strategy) (st : List Ref) : List Ref × Res :=
  match getAll st with
  | none => (st, .err)
  | some objs =>
    let stored := objs.map fun (f, o) => (f, storeIfAbsent c o)
    match planAll c s stored with
    | none => (stored.map fun (f, o) => ⟨f, some o⟩, .err)
    | some ds =>
      let rs := applyAll ds stored
      (rs.map (·.1), .ok (rs.all fun r => !r.2))

/-- `restoreObject`. -/
def restoreObject (c : Codec) (o : Obj) : Obj × Bool :=
  match o.annotations with
  | none => (o, false)
  | some anns =>
    let s := (lookup origKey anns).getD ""
    if s = "" then (o, false)
    else
      let d := c.dec s
      ({ spec := some d.spec                       -- `obj.Object["spec"] = oSpec.Spec` (nil ↦ `spec: null`)
         annotations := optOfList d.annotations    -- SetAnnotations(nil) removes the field
         labels := optOfList d.labels }, true)

/-- `Finalise` (a missing object is skipped). -/
def finalise (c : Codec) (st : List Ref) : List Ref × Res :=
  let rs := st.map fun r =>
    match r.obj with
    | none => (r, false)
    | some o => let (o', m) := restoreObject c o; (({ r with obj := some o' } : Ref), m)
  (rs.map (·.1), .ok (rs.any (·.2)))

/-- a sequence of `EnsureRoutes` calls (results dropped). -/
def ensureSeq (c : Codec) : List Strategy → List Ref → List Ref
  | [], st => st
  | s :: ss, st => ensureSeq c ss (ensureRoutes c s st).1

/-! ## the trip through Lua: `decodeValue` and `luamanager.Encode` -/

mutual
/-- `decodeValue`: nil values are not stored in tables (object fields) and
    `LTable.Append(LNil)` is a no-op (array elements). -/
def decJ : J → J
  | .arr xs => .arr (decL xs)
  | .obj kvs => .obj (decKV kvs)
  | j => j
def decL : List J → List J
  | [] => []
  | .null :: xs => decL xs
  | x :: xs => decJ x :: decL xs
def decKV : List (String × J) → List (String × J)
  | [] => []
  | (_, .null) :: r => decKV r
  | (k, v) :: r => (k, decJ v) :: decKV r
end

mutual
/-- `luamanager.Encode`: the empty table is `null`. (`arr []` and `obj []` both denote it.) -/
def encJ : J → J
  | .arr [] => .null
  | .obj [] => .null
  | .arr (x :: xs) => .arr (encJ x :: encL xs)
  | .obj ((k, v) :: r) => .obj ((k, encJ v) :: encKV r)
  | j => j
def encL : List J → List J
  | [] => []
  | x :: xs => encJ x :: encL xs
def encKV : List (String × J) → List (String × J)
  | [] => []
  | (k, v) :: r => (k, encJ v) :: encKV r
end

/-- the string keys of a Lua value that can be indexed with `v.key` without raising:
    tables, and strings (their metatable indexes the `string` library, so an unknown key is nil). -/
def fields? : J → Option (List (String × J))
  | .obj kvs => some kvs
  | .arr _ => some []
  | .str _ => some []
  | _ => none

/-! ## VirtualService/trafficRouting.lua -/

/-- `GetHost`: the host up to the first dot. -/
def shortHost (host : String) : String := String.ofList (host.toList.takeWhile (· != '.'))

/-- `GetHost(route)`; `none` = the script raises. -/
def routeHost (r : J) : Option String :=
  match fields? r with
  | none => none
  | some kvs =>
    match lookup "destination" kvs with
    | some (.obj d) =>
      match lookup "host" d with
      | some (.str h) => some (shortHost h)
      | _ => none
    | _ => none

/-- number of destinations of the list that name the stable service; `none` = raises. -/
def countStable (stable : String) : List J → Option Nat
  | [] => some 0
  | r :: rs =>
    match routeHost r with
    | none => none
    | some h =>
      match countStable stable rs with
      | none => none
      | some n => some (if h = stable then n + 1 else n)

/-- `GetRulesToPatch` for one rule: how many times it is put on the list
    (once per destination naming the stable service; 0 for rules carrying `match`). -/
def ruleMult (stable : String) (rule : J) : Option Nat :=
  match rule with
  | .obj kvs =>
    match lookup "match" kvs with
    | some _ => some 0
    | none =>
      match lookup "route" kvs with
      | some (.arr rs) => countStable stable rs
      | some (.obj _) => some 0          -- ipairs over a table without array part
      | _ => none                        -- ipairs(nil) / ipairs(non-table)
  | .str _ => some 0                     -- `("rule").match` is the function `string.match`, not nil: skipped
  | _ => none                            -- rule.route is nil (array rule) or indexing raises

/-- `CalculateWeight`. -/
def calcWeight (route : J) (stableWeight : Int) (n : Nat) : Int :=
  match route with
  | .obj kvs =>
    match lookup "weight" kvs with
    | some (.int w) => (w * stableWeight) / 100
    | _ => stableWeight / (n : Int)
  | _ => stableWeight / (n : Int)

def setWeight (route : J) (w : Int) : J :=
  match route with
  | .obj kvs => .obj (setKey "weight" (.int w) kvs)
  | j => j

/-- the canary destination appended by `GenerateRoutes`. -/
def canaryDest (stable canary : String) (cw : Int) : J :=
  if stable ≠ canary then
    .obj [("destination", .obj [("host", .str canary)]), ("weight", .int cw)]
  else
    .obj [("destination", .obj [("host", .str stable), ("subset", .str "canary")]), ("weight", .int cw)]

/-- one pass of the loop body of `GenerateRoutes` over one rule. -/
def patchOnce (stable canary : String) (sw cw : Int) (rule : J) : J :=
  match rule with
  | .obj kvs =>
    match lookup "route" kvs with
    | some (.arr rs) =>
      let rs' := rs.map fun r => setWeight r (calcWeight r sw rs.length)
      .obj (setKey "route" (.arr (rs' ++ [canaryDest stable canary cw])) kvs)
    | _ => rule
  | _ => rule

def patchRule (stable canary : String) (sw cw : Int) (rule : J) : Option J :=
  match ruleMult stable rule with
  | none => none
  | some k => some (Nat.repeat (patchOnce stable canary sw cw) k rule)

def patchRules (stable canary : String) (sw cw : Int) : List J → Option (List J)
  | [] => some []
  | r :: rs =>
    match patchRule stable canary sw cw r with
    | none => none
    | some r' =>
      match patchRules stable canary sw cw rs with
      | none => none
      | some rs' => some (r' :: rs')

/-- `GenerateRoutes(spec, …, protocol)`. -/
def genRoutes (stable canary : String) (sw cw : Int) (proto : String) (spec : J) : Option J :=
  match fields? spec with
  | none => none
  | some kvs =>
    match lookup proto kvs with
    | none => some spec
    | some (.arr rules) =>
      match patchRules stable canary sw cw rules with
      | none => none
      | some rules' => some (.obj (setKey proto (.arr rules') kvs))
    | some (.obj _) => some spec
    | some _ => none

def matchTypeOfPath : Option String → Option String
  | some "RegularExpression" => some "regex"
  | some "Exact" => some "exact"
  | some "PathPrefix" => some "prefix"
  | _ => none

def matchTypeOfKV : Option String → Option String
  | some "RegularExpression" => some "regex"
  | some "Exact" => some "exact"
  | some "Prefix" => some "prefix"
  | _ => none

/-- `vsMatch[key][name] = {}; vsMatch[key][name][matchType] = value` for a list of header /
    query-parameter matches; `none` = outside the supported shapes (unknown match type). -/
def kvMatches : List KVMatch → List (String × J) → Option (List (String × J))
  | [], acc => some acc
  | m :: ms, acc =>
    match matchTypeOfKV m.ty with
    | none => none
    | some t => kvMatches ms (setKey m.name (.obj [(t, .str m.value)]) acc)

def vsMatchOf (m : HttpMatch) : Option J :=
  let uri : Option (List (String × J)) :=
    match m.path with
    | none => some []
    | some p =>
      match matchTypeOfPath p.ty with
      | none => none
      | some t =>
        match p.value with
        | none => some [("uri", .obj [])]
        | some v => some [("uri", .obj [(t, .str v)])]
  match uri with
  | none => none
  | some u =>
    let hs := if m.headers = [] then some [] else (kvMatches m.headers []).map fun h => [("headers", J.obj h)]
    let qs := if m.queryParams = [] then some [] else (kvMatches m.queryParams []).map fun h => [("queryParams", J.obj h)]
    match hs, qs with
    | some h, some q => some (.obj (u ++ h ++ q))
    | _, _ => none

def strPairs (l : List (String × String)) : List (String × J) :=
  l.foldl (fun acc p => setKey p.1 (.str p.2) acc) []

def headersOf (hm : HeaderMod) : J :=
  let set := if hm.set = [] then [] else [("set", J.obj (strPairs hm.set))]
  let add := if hm.add = [] then [] else [("add", J.obj (strPairs hm.add))]
  let rem := if hm.remove = [] then [] else [("remove", J.arr (hm.remove.map .str))]
  .obj [("request", .obj (set ++ add ++ rem))]

def matchRoute (stable canary : String) (hm : Option HeaderMod) (vm : J) : J :=
  let dest : J :=
    if stable = canary then .obj [("host", .str stable), ("subset", .str "canary")]
    else .obj [("host", .str canary)]
  let hdr := match hm with
    | none => []
    | some h => [("headers", headersOf h)]
  .obj ([("match", .arr [vm])] ++ hdr ++ [("route", .arr [.obj [("destination", dest)]])])

/-- `GenerateRoutesWithMatches`; every match is inserted at position 1. -/
def genMatches (stable canary : String) (hm : Option HeaderMod) (mts : List HttpMatch) (spec : J) : Option J :=
  match fields? spec with
  | none => none
  | some kvs =>
    let http? : Option (List J) :=
      match lookup "http" kvs with
      | some (.arr rules) => some rules
      | some (.obj []) => some []
      | _ => none
    match http?, mts.mapM vsMatchOf with
    | some rules, some vms =>
      let routes := vms.map (matchRoute stable canary hm)
      some (.obj (setKey "http" (.arr (routes.reverse ++ rules)) kvs))
    | _, _ => none

/-- the whole VirtualService script. -/
def vsScript (stable canary : String) : Script := fun d s =>
  let cw0 := canaryWeight s
  let cw : Int := if cw0 = -1 then 100 else cw0
  let sw : Int := if cw0 = -1 then 0 else 100 - cw0
  if d.spec = .null then none
  else
    let spec := decJ d.spec
    let r :=
      if s.mts ≠ [] then genMatches stable canary s.hdrMod s.mts spec
      else
        match genRoutes stable canary sw cw "http" spec with
        | none => none
        | some s1 =>
          match genRoutes stable canary sw cw "tcp" s1 with
          | none => none
          | some s2 => genRoutes stable canary sw cw "tls" s2
    match r with
    | none => none
    | some spec' => some { d with spec := encJ spec' }

/-! ## DestinationRule/trafficRouting.lua -/

def canarySubset : J :=
  .obj [("labels", .obj [("istio.service.tag", .str "gray")]), ("name", .str "canary")]

def drScript : Script := fun d _ =>
  match fields? (decJ d.spec) with
  | none => none
  | some kvs =>
    match decJ d.spec, lookup "subsets" kvs with
    | .obj _, some (.arr xs) => some { d with spec := encJ (.obj (setKey "subsets" (.arr (xs ++ [canarySubset])) kvs)) }
    | .obj _, some (.obj []) => some { d with spec := encJ (.obj (setKey "subsets" (.arr [canarySubset]) kvs)) }
    | _, _ => none

/-! ## generated well-behaved scripts (a small statement language rendered to Lua by the harness) -/

inductive Val where
  | weight        -- obj.canaryWeight
  | stableWeight  -- obj.stableWeight
  | weightStr     -- tostring(obj.canaryWeight)
  | canarySvc     -- obj.canaryService
  | stableSvc     -- obj.stableService
  | int (n : Int)
  | str (s : String)
  deriving Repr, Inhabited, DecidableEq

inductive Stmt where
  | ensureSpec                         -- if obj.data.spec == nil then obj.data.spec = {} end
  | setSpec (k : String) (v : Val)     -- obj.data.spec[k] = v
  | delSpec (k : String)               -- obj.data.spec[k] = nil
  | appendSpec (k : String) (v : Val)  -- table.insert(obj.data.spec[k], v)
  | setLabel (k : String) (v : Val)    -- (create labels when nil) obj.data.labels[k] = v
  | delLabel (k : String)              -- if labels ~= nil then labels[k] = nil end
  | clearLabels                        -- obj.data.labels = nil
  | setAnn (k : String) (v : Val)
  | delAnn (k : String)
  | clearAnns
  | failIfWeightGt (n : Int)           -- if obj.canaryWeight > n then error("x") end
  | onlyIfMatches (st : Stmt)          -- if obj.matches and next(obj.matches) ~= nil then st end
  deriving Repr, Inhabited

inductive Ret where
  | data      -- return obj.data
  | number    -- return 5
  | empty     -- return {}
  deriving Repr, Inhabited, DecidableEq

structure GenScript where
  stmts : List Stmt
  ret : Ret
  deriving Repr, Inhabited

/-- interpreter state: `obj.data` as Lua tables (`none` = nil). -/
structure LuaData where
  spec : Option J
  labels : Option (List (String × J))
  annotations : Option (List (String × J))
  /-- keys of `spec` whose value is a table with both string keys and an array part
      (`table.insert` on a non-empty map): harmless until it is encoded, then `Encode` fails -/
  mixed : List String := []

def evalVal (stable canary : String) (s : Strategy) : Val → J
  | .weight => .int (canaryWeight s)
  | .stableWeight => .int (100 - canaryWeight s)
  | .weightStr => .str (toString (canaryWeight s))
  | .canarySvc => .str canary
  | .stableSvc => .str stable
  | .int n => .int n
  | .str v => .str v

/-- one statement; `none` = the script raises. -/
def execStmt (stable canary : String) (s : Strategy) : Stmt → LuaData → Option LuaData
  | .ensureSpec, d => some (match d.spec with | none => { d with spec := some (.obj []) } | some _ => d)
  | .setSpec k v, d =>
    match d.spec with
    | some (.obj kvs) => some { d with spec := some (.obj (setKey k (evalVal stable canary s v) kvs))
                                       mixed := d.mixed.filter (· != k) }
    | some (.arr []) => some { d with spec := some (.obj [(k, evalVal stable canary s v)]) }
    | _ => none
  | .delSpec k, d =>
    match d.spec with
    | some (.obj kvs) => some { d with spec := some (.obj (eraseKey k kvs)), mixed := d.mixed.filter (· != k) }
    | some (.arr _) => some d
    | _ => none
  | .appendSpec k v, d =>
    match d.spec with
    | some (.obj kvs) =>
      match lookup k kvs with
      | some (.arr xs) => some { d with spec := some (.obj (setKey k (.arr (xs ++ [evalVal stable canary s v])) kvs)) }
      | some (.obj []) => some { d with spec := some (.obj (setKey k (.arr [evalVal stable canary s v]) kvs)) }
      | some (.obj _) => some { d with mixed := k :: d.mixed }   -- appended at index 1 of a map: mixed table
      | _ => none
    | _ => none
  | .setLabel k v, d => some { d with labels := some (setKey k (evalVal stable canary s v) (d.labels.getD [])) }
  | .delLabel k, d => some { d with labels := d.labels.map (eraseKey k) }
  | .clearLabels, d => some { d with labels := none }
  | .setAnn k v, d => some { d with annotations := some (setKey k (evalVal stable canary s v) (d.annotations.getD [])) }
  | .delAnn k, d => some { d with annotations := d.annotations.map (eraseKey k) }
  | .clearAnns, d => some { d with annotations := none }
  | .failIfWeightGt n, d => if canaryWeight s > n then none else some d
  | .onlyIfMatches st, d => if s.mts ≠ [] then execStmt stable canary s st d else some d

def execStmts (stable canary : String) (s : Strategy) : List Stmt → LuaData → Option LuaData
  | [], d => some d
  | st :: r, d =>
    match execStmt stable canary s st d with
    | none => none
    | some d' => execStmts stable canary s r d'

/-- `json.Unmarshal` into `map[string]string`: every value must be a string. -/
def strMapOf : List (String × J) → Option StrMap
  | [] => some []
  | (k, .str v) :: r => (strMapOf r).map ((k, v) :: ·)
  | _ => none

def genScript (stable canary : String) (g : GenScript) : Script := fun d s =>
  let d0 : LuaData :=
    { spec := if d.spec = .null then none else some (decJ d.spec)
      labels := (optOfList d.labels).map (·.map fun p => (p.1, J.str p.2))
      annotations := (optOfList d.annotations).map (·.map fun p => (p.1, J.str p.2)) }
  match execStmts stable canary s g.stmts d0 with
  | none => none
  | some d1 =>
    match g.ret with
    | .number => none                     -- "expect table output from Lua script"
    | .empty => some { spec := .null, labels := [], annotations := [] }
    | .data =>
      if d1.mixed ≠ [] then none            -- "cannot encode mixed or invalid key types"
      else
        match strMapOf (d1.labels.getD []), strMapOf (d1.annotations.getD []) with
        | some l, some a => some { spec := (d1.spec.map encJ).getD .null, labels := l, annotations := a }
        | _, _ => none

end RV.Custom
