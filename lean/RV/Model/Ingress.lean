/-
  Model of the canary-Ingress provider (property C14).

  Go sources transcribed here:
    pkg/trafficrouting/network/ingress/ingress.go
        buildCanaryIngress, executeLuaForCanary, EnsureRoutes, Finalise
    lua_configuration/trafficrouting_ingress/{nginx,aliyun-alb,higress,mse}.lua
        hand translations `nginxLua`, `albLua`, `higressLua`, `mseLua`; the
        correspondence suite "ingress" runs the real .lua files through the real
        provider (gopher-lua) on generated inputs and compares with these functions,
        so the translation is checked on every run, not trusted.

  Core Lean only (linked into the driver).
-/
namespace RV.Ingress

/-! ## Annotation maps

A Go `map[string]string` is modelled by an association list read through `lookup`;
two lists denote the same map iff all lookups agree (`Eqv`).  An absent (nil) map and
an empty map are both `[]`: objects read back from the API server never carry an
empty non-nil map, and the harness hands over `nil` for an empty map. -/

abbrev AnnMap := List (String × String)

def lookup (a : AnnMap) (k : String) : Option String :=
  match a with
  | [] => none
  | (k', v) :: rest => if k' == k then some v else lookup rest k

/-- Lua `t[k] = nil` / Go `delete(m, k)` -/
def adel (k : String) (a : AnnMap) : AnnMap := a.filter (fun p => p.1 != k)

/-- Lua `t[k] = v` -/
def aset (k v : String) (a : AnnMap) : AnnMap := (k, v) :: adel k a

def akeys (a : AnnMap) : List String := a.map (·.1)

/-- the two lists denote the same map -/
def Eqv (a b : AnnMap) : Prop := ∀ k, lookup a k = lookup b k

/-- decidable form of `Eqv` (`reflect.DeepEqual` of two non-nil Go maps) -/
def eqvB (a b : AnnMap) : Bool :=
  (akeys a ++ akeys b).all (fun k => lookup a k == lookup b k)

/-! ## Input of an annotation script (`LuaData` in `executeLuaForCanary`) -/

/-- `gatewayv1beta1.HTTPHeaderMatch` / `HTTPQueryParamMatch`; `kind` is the optional `type`. -/
structure HeaderMatch where
  name : String
  value : String
  kind : Option String
  deriving Repr, DecidableEq

/-- `v1beta1.HttpRouteMatch`; `headers`/`queryParams` are `omitempty`: an empty slice is
    absent (`nil`) in the Lua object.  The `path` field is not read by any ingress script. -/
structure HttpMatch where
  headers : List HeaderMatch
  queryParams : List HeaderMatch
  deriving Repr, DecidableEq

structure HeaderKV where
  name : String
  value : String
  deriving Repr, DecidableEq

/-- what a script sees: `obj.weight` (a string), `obj.matches` (nil or a table),
    `obj.requestHeaderModifier` (nil, or a table whose `set` is `nil` when the list is empty) -/
structure LuaStep where
  weight : String
  mts : Option (List HttpMatch)
  rhm : Option (List HeaderKV)
  deriving Repr, DecidableEq

/-! ## The four shipped scripts.  `none` = the script raises a Lua error. -/

/-- nginx.lua, body of the `for _,match in ipairs(obj.matches)` loop -/
def nginxMatch (a : AnnMap) (m : HttpMatch) : AnnMap :=
  match m.headers with
  | [] => a                                   -- `match.headers and next(match.headers) ~= nil` is false
  | header :: _ =>                            -- `local header = match.headers[1]`
    if header.name == "canary-by-cookie" then
      aset "nginx.ingress.kubernetes.io/canary-by-cookie" header.value a
    else
      let a := aset "nginx.ingress.kubernetes.io/canary-by-header" header.name a
      if header.kind == some "RegularExpression" then
        aset "nginx.ingress.kubernetes.io/canary-by-header-pattern" header.value a
      else
        aset "nginx.ingress.kubernetes.io/canary-by-header-value" header.value a

/-- lua_configuration/trafficrouting_ingress/nginx.lua -/
def nginxLua (a : AnnMap) (s : LuaStep) : Option AnnMap :=
  -- annotations = {}; if obj.annotations then annotations = obj.annotations end
  let a := aset "nginx.ingress.kubernetes.io/canary" "true" a
  let a := adel "nginx.ingress.kubernetes.io/canary-by-cookie" a
  let a := adel "nginx.ingress.kubernetes.io/canary-by-header" a
  let a := adel "nginx.ingress.kubernetes.io/canary-by-header-pattern" a
  let a := adel "nginx.ingress.kubernetes.io/canary-by-header-value" a
  let a := adel "nginx.ingress.kubernetes.io/canary-weight" a
  let a := if s.weight != "-1" then aset "nginx.ingress.kubernetes.io/canary-weight" s.weight a else a
  match s.mts with
  | none => some a                            -- `if ( not obj.matches ) then return annotations end`
  | some ms => some (ms.foldl nginxMatch a)

/-- aliyun-alb.lua, loop body: `match.headers[1]` without a nil check -/
def albMatch (a : AnnMap) (m : HttpMatch) : Option AnnMap :=
  match m.headers with
  | [] => none                                -- attempt to index a nil value (`match.headers`)
  | header :: _ =>
    if header.name == "canary-by-cookie" then
      some (aset "alb.ingress.kubernetes.io/canary-by-cookie" header.value a)
    else
      let a := aset "alb.ingress.kubernetes.io/canary-by-header" header.name a
      if header.kind == some "RegularExpression" then
        some (aset "alb.ingress.kubernetes.io/canary-by-header-pattern" header.value a)
      else
        some (aset "alb.ingress.kubernetes.io/canary-by-header-value" header.value a)

/-- lua_configuration/trafficrouting_ingress/aliyun-alb.lua -/
def albLua (a : AnnMap) (s : LuaStep) : Option AnnMap :=
  let a := aset "alb.ingress.kubernetes.io/canary" "true" a
  let a := adel "alb.ingress.kubernetes.io/canary-by-cookie" a
  let a := adel "alb.ingress.kubernetes.io/canary-by-header" a
  let a := adel "alb.ingress.kubernetes.io/canary-by-header-pattern" a
  let a := adel "alb.ingress.kubernetes.io/canary-by-header-value" a
  let a := adel "alb.ingress.kubernetes.io/canary-weight" a
  let a := aset "alb.ingress.kubernetes.io/order" "1" a
  let a := if s.weight != "-1" then aset "alb.ingress.kubernetes.io/canary-weight" s.weight a else a
  match s.mts with
  | none => some a
  | some ms => ms.foldlM albMatch a

/-- higress.lua, loop body: as nginx.lua but `match.headers[1]` without a nil check -/
def higressMatch (a : AnnMap) (m : HttpMatch) : Option AnnMap :=
  match m.headers with
  | [] => none
  | header :: _ =>
    if header.name == "canary-by-cookie" then
      some (aset "nginx.ingress.kubernetes.io/canary-by-cookie" header.value a)
    else
      let a := aset "nginx.ingress.kubernetes.io/canary-by-header" header.name a
      if header.kind == some "RegularExpression" then
        some (aset "nginx.ingress.kubernetes.io/canary-by-header-pattern" header.value a)
      else
        some (aset "nginx.ingress.kubernetes.io/canary-by-header-value" header.value a)

/-- lua_configuration/trafficrouting_ingress/higress.lua -/
def higressLua (a : AnnMap) (s : LuaStep) : Option AnnMap :=
  let a := aset "nginx.ingress.kubernetes.io/canary" "true" a
  let a := adel "nginx.ingress.kubernetes.io/canary-by-cookie" a
  let a := adel "nginx.ingress.kubernetes.io/canary-by-header" a
  let a := adel "nginx.ingress.kubernetes.io/canary-by-header-pattern" a
  let a := adel "nginx.ingress.kubernetes.io/canary-by-header-value" a
  let a := adel "nginx.ingress.kubernetes.io/canary-weight" a
  let a := if s.weight != "-1" then aset "nginx.ingress.kubernetes.io/canary-weight" s.weight a else a
  match s.mts with
  | none => some a
  | some ms => ms.foldlM higressMatch a

/-- mse.lua, header part of the loop body -/
def mseHeaderPart (a : AnnMap) (m : HttpMatch) : AnnMap :=
  match m.headers with
  | [] => a
  | header :: _ =>
    if header.name == "canary-by-cookie" then
      aset "nginx.ingress.kubernetes.io/canary-by-cookie" header.value a
    else
      let a := aset "nginx.ingress.kubernetes.io/canary-by-header" header.name a
      if header.kind == some "RegularExpression" then
        aset "nginx.ingress.kubernetes.io/canary-by-header-pattern" header.value a
      else
        aset "nginx.ingress.kubernetes.io/canary-by-header-value" header.value a

/-- mse.lua, query part of the loop body -/
def mseQueryPart (a : AnnMap) (m : HttpMatch) : AnnMap :=
  match m.queryParams with
  | [] => a
  | queryParam :: _ =>
    let a := aset "nginx.ingress.kubernetes.io/canary-by-query" queryParam.name a
    if queryParam.kind == some "RegularExpression" then
      aset "nginx.ingress.kubernetes.io/canary-by-query-pattern" queryParam.value a
    else
      aset "nginx.ingress.kubernetes.io/canary-by-query-value" queryParam.value a

def mseMatch (a : AnnMap) (m : HttpMatch) : AnnMap := mseQueryPart (mseHeaderPart a m) m

/-- `str = str..string.format("%s %s", header.name, header.value)` over `ipairs(set)` -/
def mseHeaderControl (set : List HeaderKV) : String :=
  set.foldl (fun str header => str ++ (header.name ++ " " ++ header.value)) ""

/-- lua_configuration/trafficrouting_ingress/mse.lua (with fixes/C14-7.patch: the script clears every key it may set) -/
def mseLua (a : AnnMap) (s : LuaStep) : Option AnnMap :=
  -- `annotations = obj.annotations` without the `{}` default of the other scripts:
  -- with no annotations the first assignment indexes nil
  if a.isEmpty then none else
  let a := aset "nginx.ingress.kubernetes.io/canary" "true" a
  let a := adel "nginx.ingress.kubernetes.io/canary-by-cookie" a
  let a := adel "nginx.ingress.kubernetes.io/canary-by-header" a
  let a := adel "nginx.ingress.kubernetes.io/canary-by-header-pattern" a
  let a := adel "nginx.ingress.kubernetes.io/canary-by-header-value" a
  let a := adel "nginx.ingress.kubernetes.io/canary-by-query" a
  let a := adel "nginx.ingress.kubernetes.io/canary-by-query-pattern" a
  let a := adel "nginx.ingress.kubernetes.io/canary-by-query-value" a
  let a := adel "mse.ingress.kubernetes.io/canary-by-query" a
  let a := adel "mse.ingress.kubernetes.io/canary-by-query-pattern" a
  let a := adel "mse.ingress.kubernetes.io/canary-by-query-value" a
  let a := adel "mse.ingress.kubernetes.io/request-header-control-update" a
  let a := adel "nginx.ingress.kubernetes.io/canary-weight" a
  let a := if s.weight != "-1" then aset "nginx.ingress.kubernetes.io/canary-weight" s.weight a else a
  let a := if (lookup a "mse.ingress.kubernetes.io/service-subset").isSome
           then aset "mse.ingress.kubernetes.io/service-subset" "gray" a else a
  let a? : Option AnnMap :=
    match s.rhm with
    | none => some a
    | some [] => none                         -- `ipairs(obj.requestHeaderModifier.set)`: `set` is nil
    | some (h :: hs) =>
      some (aset "mse.ingress.kubernetes.io/request-header-control-update" (mseHeaderControl (h :: hs)) a)
  match a? with
  | none => none
  | some a =>
    match s.mts with
    | none => some a
    | some ms => some (ms.foldl mseMatch a)

/-- the built-in ingress classes (`TrafficConf.ClassType`; `""` selects nginx) -/
inductive Class | nginx | alb | higress | mse
  deriving Repr, DecidableEq

/-- the script `getTrafficRoutingIngressLuaScript` selects for the class -/
def script : Class → AnnMap → LuaStep → Option AnnMap
  | .nginx => nginxLua
  | .alb => albLua
  | .higress => higressLua
  | .mse => mseLua

/-! ### which inputs a script accepts (anything else is a Lua error, `EnsureRoutes` returns it) -/

def hasHeaders (m : HttpMatch) : Bool := !m.headers.isEmpty

/-- aliyun-alb.lua and higress.lua read `match.headers[1]` of every match -/
def allHaveHeaders (s : LuaStep) : Bool :=
  match s.mts with
  | none => true
  | some ms => ms.all hasHeaders

/-- mse.lua iterates `requestHeaderModifier.set`, which is absent when the list is empty -/
def rhmOk (s : LuaStep) : Bool :=
  match s.rhm with
  | some [] => false
  | _ => true

/-- the steps (match kinds) the class's script supports -/
def supported : Class → LuaStep → Bool
  | .nginx, _ => true
  | .alb, s => allHaveHeaders s
  | .higress, s => allHaveHeaders s
  | .mse, s => rhmOk s

/-- mse.lua needs an Ingress that has annotations (`annotations = obj.annotations`) -/
def annOk : Class → AnnMap → Bool
  | .mse, a => !a.isEmpty
  | _, _ => true

/-- `executeLuaForCanary`: `weight == nil` is passed as `"-1"`; `Weight: fmt.Sprintf("%d", *weight)` -/
def executeLua (cls : Class) (a : AnnMap) (weight : Option Int) (mts : Option (List HttpMatch))
    (rhm : Option (List HeaderKV)) : Option AnnMap :=
  let w : Int := match weight with | none => -1 | some w => w
  script cls a { weight := toString w, mts := mts, rhm := rhm }

/-! ## Ingress objects and `buildCanaryIngress` -/

structure SvcBackend where
  name : String
  portName : String
  portNumber : Int
  deriving Repr, DecidableEq

/-- `netv1.IngressBackend`: two optional pointers -/
structure Backend where
  service : Option SvcBackend
  resource : Option String
  deriving Repr, DecidableEq

structure Path where
  path : String
  pathType : Option String
  backend : Backend
  deriving Repr, DecidableEq

/-- `netv1.IngressRule`; `http = none` is a rule without an `http` section (host-only rule) -/
structure Rule where
  host : String
  http : Option (List Path)
  deriving Repr, DecidableEq

structure TLS where
  hosts : List String
  secret : String
  deriving Repr, DecidableEq

structure Ingress where
  ann : AnnMap
  labels : AnnMap
  className : Option String
  tls : List TLS
  defaultBackend : Bool
  rules : List Rule
  deriving Repr, DecidableEq

structure Cfg where
  cls : Class
  name : String
  stableSvc : String
  canarySvc : String
  deriving Repr, DecidableEq

/-- `defaultCanaryIngressName` -/
def Cfg.canaryName (cfg : Cfg) : String := cfg.name ++ "-canary"

/-- result of a Go call that may dereference a nil pointer -/
inductive Res (α : Type) where
  | ok (a : α)
  | panic
  deriving Repr, DecidableEq

/-- `canaryPath := …; canaryPath.Backend.Service.Name = r.conf.CanaryService` -/
def retarget (cfg : Cfg) (p : Path) (svc : SvcBackend) : Path :=
  { p with backend := { p.backend with service := some { svc with name := cfg.canarySvc } } }

/-- inner loop of `buildCanaryIngress` over `stableRule.HTTP.Paths`; the state is
    `(hasStableServiceBackendRule, canaryRule.HTTP.Paths)` -/
def pathLoop (cfg : Cfg) : List Path → Bool × List Path → Res (Bool × List Path)
  | [], acc => .ok acc
  | p :: ps, (has, out) =>
    match p.backend.service with
    | none => pathLoop cfg ps (has, out)      -- `if …Backend.Service == nil { continue }`
    | some svc =>
      if svc.name == cfg.stableSvc then pathLoop cfg ps (true, out ++ [retarget cfg p svc])
      else pathLoop cfg ps (has, out)

/-- outer loop of `buildCanaryIngress` over `stableIngress.Spec.Rules`; the state is
    `desiredCanaryIngress.Spec.Rules` -/
def ruleLoop (cfg : Cfg) : List Rule → List Rule → Res (List Rule)
  | [], out => .ok out
  | r :: rs, out =>
    match r.http with
    | none => ruleLoop cfg rs out             -- `if stableRule.HTTP == nil { continue }`
    | some paths =>
      match pathLoop cfg paths (false, []) with
      | .panic => .panic
      | .ok (has, cps) =>
        if has then ruleLoop cfg rs (out ++ [{ host := r.host, http := some cps }])
        else ruleLoop cfg rs out

/-- `buildCanaryIngress` (name, namespace and owner reference are constants of the config) -/
def buildCanaryIngress (cfg : Cfg) (stable : Ingress) : Res Ingress :=
  match ruleLoop cfg stable.rules [] with
  | .panic => .panic
  | .ok rules =>
    .ok { ann := stable.ann, labels := stable.labels, className := stable.className,
          tls := stable.tls, defaultBackend := false, rules := rules }

/-! ## `EnsureRoutes` / `Finalise` over the two objects of the store -/

/-- `strategy.Traffic`, `strategy.Matches`, `strategy.RequestHeaderModifier` -/
structure Strategy where
  traffic : Option String
  mts : Option (List HttpMatch)
  rhm : Option (List HeaderKV)
  deriving Repr, DecidableEq

def digitsVal : List Char → Nat → Option Nat
  | [], acc => some acc
  | c :: cs, acc => if c.isDigit then digitsVal cs (acc * 10 + (c.toNat - '0'.toNat)) else none

/-- `strconv.Atoi` (base 10, optional sign, no underscores, int64 range) -/
def atoi (s : List Char) : Option Int :=
  match s with
  | [] => none
  | '-' :: ds =>
    if ds.isEmpty then none else
    match digitsVal ds 0 with
    | some n => if n > 9223372036854775808 then none else some (-(n : Int))
    | none => none
  | '+' :: ds =>
    if ds.isEmpty then none else
    match digitsVal ds 0 with
    | some n => if n > 9223372036854775807 then none else some (n : Int)
    | none => none
  | ds =>
    match digitsVal ds 0 with
    | some n => if n > 9223372036854775807 then none else some (n : Int)
    | none => none

/-- `int32(x)` conversion -/
def wrap32 (v : Int) : Int := (v + 2147483648) % 4294967296 - 2147483648

/-- `is := intstr.FromString(t); weightInt, _ := intstr.GetScaledValueFromIntOrPercent(&is, 100, true);
    int32(weightInt)` — the error is dropped, so anything that is not `<int>%` gives 0.
    (`ceil(float64(v)*100/100) = v` exactly below 2^53.) -/
def weightOf (t : String) : Int :=
  match t.toList.reverse with
  | '%' :: rest =>
    match atoi rest.reverse with
    | some v => wrap32 v
    | none => 0
  | _ => 0

/-- the canary Ingress in the store: the object plus deletion bookkeeping -/
structure CanaryObj where
  ing : Ingress
  deleting : Bool
  fin : Bool
  deriving Repr, DecidableEq

structure World where
  stable : Option Ingress
  canary : Option CanaryObj
  deriving Repr, DecidableEq

inductive Write where
  | create (name : String)
  | patch (name : String)
  | delete (name : String)
  deriving Repr, DecidableEq

def Write.target : Write → String
  | .create n => n
  | .patch n => n
  | .delete n => n

inductive Err | ok | err | notFound
  deriving Repr, DecidableEq

inductive Outcome where
  | panic
  | ret (w : World) (done : Bool) (e : Err) (writes : List Write)
  deriving Repr, DecidableEq

/-- `jsonpatch.CreateMergePatch` restricted to `metadata.annotations`:
    changed/new keys with their value, removed keys with `null` -/
def mergePatch (old new : AnnMap) : List (String × Option String) :=
  ((akeys new).filter (fun k => lookup old k != lookup new k)).map (fun k => (k, lookup new k))
  ++ ((akeys old).filter (fun k => (lookup new k).isNone)).map (fun k => (k, none))

/-- applying a JSON merge patch to the stored annotations -/
def applyPatch (a : AnnMap) (p : List (String × Option String)) : AnnMap :=
  p.foldl (fun a kv => match kv.2 with | some v => aset kv.1 v a | none => adel kv.1 a) a

/-- `EnsureRoutes` -/
def ensureRoutes (cfg : Cfg) (w : World) (s : Strategy) : Outcome :=
  let weight : Option Int := s.traffic.map weightOf
  match w.canary with
  | none =>
    -- finalizer scenario, canary ingress maybe not found
    if weight == some 0 then .ret w true .ok [] else
    match w.stable with
    | none => .ret w false .notFound []
    | some stable =>
      match buildCanaryIngress cfg stable with
      | .panic => .panic
      | .ok canary =>
        match executeLua cfg.cls canary.ann (some 0) none none with
        | none => .ret w false .err []
        | some ann =>
          .ret { w with canary := some { ing := { canary with ann := ann }, deleting := false, fin := false } }
            false .ok [.create cfg.canaryName]
  | some c =>
    match executeLua cfg.cls c.ing.ann weight s.mts s.rhm with
    | none => .ret w false .err []
    | some newAnn =>
      if eqvB c.ing.ann newAnn then .ret w true .ok [] else
      let patched := applyPatch c.ing.ann (mergePatch c.ing.ann newAnn)
      .ret { w with canary := some { c with ing := { c.ing with ann := patched } } } false .ok [.patch cfg.canaryName]

/-- `Finalise`; `Delete` of an object that carries a finalizer only sets its deletion timestamp -/
def finalise (cfg : Cfg) (w : World) : Outcome :=
  match w.canary with
  | none => .ret w false .ok []
  | some c =>
    if c.deleting then .ret w false .ok [] else
    .ret { w with canary := if c.fin then some { c with deleting := true } else none } true .ok [.delete cfg.canaryName]

/-- one call of the harness sequences; `addFinalizer` is an environment action -/
inductive Call where
  | ensure (s : Strategy)
  | finalise
  | addFinalizer
  deriving Repr, DecidableEq

def stepCall (cfg : Cfg) (w : World) : Call → Outcome
  | .ensure s => ensureRoutes cfg w s
  | .finalise => finalise cfg w
  | .addFinalizer =>
    .ret { w with canary := w.canary.map (fun c => { c with fin := true }) } false .ok []

/-- the world after a sequence of calls (`none` = some call panicked) -/
def runCalls (cfg : Cfg) : World → List Call → Option World
  | w, [] => some w
  | w, c :: cs =>
    match stepCall cfg w c with
    | .panic => none
    | .ret w' _ _ _ => runCalls cfg w' cs

end RV.Ingress
