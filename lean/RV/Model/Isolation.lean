/-
  The process-wide helpers that all rollouts reconciled by one controller process share, and
  the derivation of the keys under which each call site uses them.

  Source (transcribed branch by branch):
    pkg/util/grace/grace_expectations.go        Expect, Observe, SatisfiedExpectations,
                                                DeleteExpectations, GetExpectations, CleanOutdatedItems
    pkg/util/grace/grace_wrapper.go             runWithGraceSeconds
    pkg/util/expectation/resource_expectations.go   Expect, Observe, SatisfiedExpectations,
                                                DeleteExpectations, GetExpectations
    pkg/trafficrouting/manager.go               RouteAllTrafficToNewVersion, RestoreGateway,
                                                RemoveCanaryService, PatchStableService, RestoreStableService,
                                                FinalisingTrafficRouting, GetGraceSeconds, getCanaryServiceName
    pkg/controller/batchrelease/control/canarystyle/deployment/canary.go   Create / create
    pkg/controller/batchrelease/batchrelease_event_handler.go              expectationObserved, getControllerKey
    pkg/controller/rollout/rollout_controller.go     the `watchedWorkload` part of Reconcile

  Modelling decisions
  * A Go `map[string]T` is an association list (`AMap`); `m[k] = v` replaces in place or appends,
    `delete(m, k)` removes.  Nothing below depends on the order of a Go map iteration, except
    `SatisfiedExpectations` of the resource expectations, whose `rest` result is reported as
    `ambiguous` when more than one action is unsatisfied.
  * Time is a logical clock `now : Nat` (seconds); `time.Since(t)` is `now - t`.  A call does not
    take time; the passing of time is the separate event `tick`.
  * What the closure handed to `RunWithGraceSeconds` does to the API objects is *not* modelled here
    (that is `RV.Traffic`); its result `(modified, err)` is part of the call's input.
  * An object that was fetched from the API server carries the UID the server gave it; an object
    that was built locally carries the empty UID (`Obj.built`).
-/
namespace RV.Isolation

/-! ## Go maps -/

abbrev AMap (β : Type) := List (String × β)

/-- `m[k]` -/
def aget {β : Type} (m : AMap β) (k : String) : Option β :=
  match m with
  | [] => none
  | (k', v) :: r => if k' = k then some v else aget r k

/-- `m[k] = v` -/
def aset {β : Type} (m : AMap β) (k : String) (v : β) : AMap β :=
  match m with
  | [] => [(k, v)]
  | (k', v') :: r => if k' = k then (k, v) :: r else (k', v') :: aset r k v

/-- `delete(m, k)` -/
def adel {β : Type} (m : AMap β) (k : String) : AMap β := m.filter (fun e => e.1 ≠ k)

/-- the part of a map under the keys selected by `p` -/
def restrict {β : Type} (p : String → Bool) (m : AMap β) : AMap β := m.filter (fun e => p e.1)

/-! ## pkg/util/grace -/

/-- `timeCache`: action ↦ record time -/
abbrev TimeCache := AMap Nat
/-- `realGraceExpectations.controllerCache`: controller key ↦ timeCache -/
abbrev Grace := AMap TimeCache

/-- `GetExpectations` (a copy of the inner map; `none` = nil) -/
def Grace.getExpectations (g : Grace) (key : String) : Option TimeCache := aget g key

/-- `Expect` -/
def Grace.expect (g : Grace) (now : Nat) (key action : String) : Grace :=
  match aget g key with
  | none => aset g key (aset [] action now)
  | some e => aset g key (aset e action now)

/-- `Observe` -/
def Grace.observe (g : Grace) (key action : String) : Grace :=
  match aget g key with
  | none => g
  | some e =>
    let e' := adel e action
    if e'.isEmpty then adel g key else aset g key e'

/-- `SatisfiedExpectations`: (satisfied, remaining seconds) -/
def Grace.satisfied (g : Grace) (now : Nat) (key action : String) (graceSeconds : Int) : Bool × Int :=
  match aget g key with
  | none => (true, 0)
  | some e =>
    match aget e action with
    | none => (true, 0)
    | some t =>
      let remaining : Int := graceSeconds - ((now - t : Nat) : Int)
      if remaining ≤ 0 then (true, 0) else (false, remaining)

/-- `DeleteExpectations` -/
def Grace.deleteExpectations (g : Grace) (key : String) : Grace := adel g key

/-- `CleanOutdatedItems` (the process-wide cleaner goroutine) -/
def Grace.cleanOutdated (g : Grace) (now interval : Nat) : Grace :=
  g.filterMap fun e =>
    let tc := e.2.filter (fun a => ¬ (now - a.2 > interval))
    if tc.isEmpty then none else some (e.1, tc)

structure RunOut where
  retry : Bool
  remaining : Int
  err : Bool
  deriving Repr, DecidableEq, Inhabited

/-- `runWithGraceSeconds`, given what the closure `f` returned -/
def runWithGraceSeconds (g : Grace) (now : Nat) (key action : String) (graceSeconds : Int)
    (modified err : Bool) : Grace × RunOut :=
  if err then (g, ⟨true, 0, true⟩)
  else if graceSeconds = 0 then (g.observe key action, ⟨false, 0, false⟩)
  else if modified then (g.expect now key action, ⟨true, graceSeconds, false⟩)
  else
    let s := g.satisfied now key action graceSeconds
    if ¬ s.1 then (g, ⟨true, s.2, false⟩)
    else (g.observe key action, ⟨false, 0, false⟩)

/-- one call on the process-wide grace map -/
inductive GOp where
  | expect (key action : String)
  | observe (key action : String)
  | satisfied (key action : String) (grace : Int)
  | delete (key : String)
  | get (key : String)
  | run (key action : String) (grace : Int) (modified err : Bool)
  deriving Repr, DecidableEq, Inhabited

def GOp.key : GOp → String
  | .expect k _ | .observe k _ | .satisfied k _ _ | .delete k | .get k | .run k _ _ _ _ => k

/-- what the caller sees -/
inductive GObs where
  | unit
  | sat (ok : Bool) (remaining : Int)
  | actions (as : Option (List String))
  | run (o : RunOut)
  deriving Repr, DecidableEq, Inhabited

def Grace.apply (now : Nat) (g : Grace) : GOp → Grace × GObs
  | .expect k a => (g.expect now k a, .unit)
  | .observe k a => (g.observe k a, .unit)
  | .satisfied k a gr => (g, .sat (g.satisfied now k a gr).1 (g.satisfied now k a gr).2)
  | .delete k => (g.deleteExpectations k, .unit)
  | .get k => (g, .actions ((g.getExpectations k).map (fun e => e.map (·.1))))
  | .run k a gr m e => ((runWithGraceSeconds g now k a gr m e).1, .run (runWithGraceSeconds g now k a gr m e).2)

/-! ## pkg/util/expectation -/

/-- `sets.String.Insert`, the set kept as a sorted duplicate-free list (`List()` order) -/
def sinsert (s : List String) (x : String) : List String :=
  match s with
  | [] => [x]
  | y :: r => if x = y then y :: r else if x < y then x :: y :: r else y :: sinsert r x

/-- `realControllerResourceExpectations` -/
structure CtlExp where
  objs : AMap (List String)
  firstUnsat : Option Nat
  deriving Repr, DecidableEq, Inhabited

/-- `realResourceExpectations.controllerCache` -/
abbrev ExpStore := AMap CtlExp

/-- the third result of `SatisfiedExpectations` -/
inductive Rest where
  | none
  | one (action : String) (names : List String)
  | ambiguous
  deriving Repr, DecidableEq, Inhabited

structure SatOut where
  ok : Bool
  since : Nat
  rest : Rest
  deriving Repr, DecidableEq, Inhabited

def ExpStore.getExpectations (st : ExpStore) (ck : String) : Option (AMap (List String)) :=
  (aget st ck).map (·.objs)

/-- `Expect` -/
def ExpStore.expect (st : ExpStore) (ck action name : String) : ExpStore :=
  match aget st ck with
  | none => aset st ck ⟨aset [] action [name], none⟩
  | some e =>
    match aget e.objs action with
    | some s => aset st ck { e with objs := aset e.objs action (sinsert s name) }
    | none => aset st ck { e with objs := aset e.objs action [name] }

/-- `Observe` -/
def ExpStore.observe (st : ExpStore) (ck action name : String) : ExpStore :=
  match aget st ck with
  | none => st
  | some e =>
    match aget e.objs action with
    | none => st
    | some s =>
      let objs := aset e.objs action (s.filter (· ≠ name))
      if objs.any (fun x => x.2.length > 0) then aset st ck { e with objs := objs }
      else adel st ck

/-- `SatisfiedExpectations` (it writes: the first unsatisfied time stamp, or the removal of a satisfied key) -/
def ExpStore.satisfied (st : ExpStore) (now : Nat) (ck : String) : ExpStore × SatOut :=
  match aget st ck with
  | none => (st, ⟨true, 0, .none⟩)
  | some e =>
    match e.objs.filter (fun x => x.2.length > 0) with
    | [] => (adel st ck, ⟨true, 0, .none⟩)
    | x :: more =>
      let fu := match e.firstUnsat with | some t => t | none => now
      (aset st ck { e with firstUnsat := some fu },
        ⟨false, now - fu, if more.isEmpty then .one x.1 x.2 else .ambiguous⟩)

/-- `DeleteExpectations` -/
def ExpStore.deleteExpectations (st : ExpStore) (ck : String) : ExpStore := adel st ck

/-! ### the two call sites of the resource expectations (BatchRelease, canary-style Deployment) -/

/-- `types.NamespacedName.String()` / `client.ObjectKey.String()` -/
def nsName (ns name : String) : String := ns ++ "/" ++ name

inductive CreateOut where
  | alreadyExists | blocked | stableErr | createErr | created
  deriving Repr, DecidableEq, Inhabited

/-- the rest of `realCanaryController.Create` once the expectations allow it: fetch the stable Deployment,
    then `create`: API `Create`, then `Expect(controllerKey, Create, canary.UID)`.
    `stableFound`: the `Get` succeeded; `createOk`: the API `Create` succeeded;
    `newUID`: the UID the API server wrote into the created object -/
def brCreateCont (st : ExpStore) (controllerKey : String) (stableFound createOk : Bool) (newUID : String) :
    ExpStore × CreateOut :=
  if ¬ stableFound then (st, .stableErr)
  else if ¬ createOk then (st, .createErr)
  else (st.expect controllerKey "create" newUID, .created)

/-- `realCanaryController.Create`.  `canaryKnown`: `r.canaryObject != nil` -/
def brCreate (st : ExpStore) (now timeout : Nat) (relNs relName : String)
    (canaryKnown stableFound createOk : Bool) (newUID : String) : ExpStore × CreateOut :=
  if canaryKnown then (st, .alreadyExists) else
  let controllerKey := nsName relNs relName
  let r := st.satisfied now controllerKey
  if ¬ r.2.ok then
    if r.2.since ≥ timeout then
      brCreateCont (r.1.deleteExpectations controllerKey) controllerKey stableFound createOk newUID
    else (r.1, .blocked)
  else brCreateCont r.1 controllerKey stableFound createOk newUID

/-- controller owner reference of an object seen by the event handler -/
structure Owner where
  kind : String
  name : String
  deriving Repr, DecidableEq, Inhabited

/-- `getControllerKey` -/
def getControllerKey (objNs : String) (owner : Option Owner) : Option String :=
  match owner with
  | none => none
  | some o => if o.kind = "BatchRelease" then some (nsName objNs o.name) else none

/-- `expectationObserved` -/
def brObserved (st : ExpStore) (objNs objUID : String) (owner : Option Owner) : ExpStore :=
  match getControllerKey objNs owner with
  | none => st
  | some k => st.observe k "create" objUID

inductive EOp where
  | expect (ck action name : String)
  | observe (ck action name : String)
  | satisfied (ck : String)
  | delete (ck : String)
  | get (ck : String)
  | brCreate (timeout : Nat) (relNs relName : String) (canaryKnown stableFound createOk : Bool) (newUID : String)
  | brObserved (objNs objUID : String) (owner : Option Owner)
  deriving Repr, DecidableEq, Inhabited

/-- the controller keys an operation may touch (none for an operation that returns before using the cache) -/
def EOp.keys : EOp → List String
  | .expect k _ _ | .observe k _ _ | .satisfied k | .delete k | .get k => [k]
  | .brCreate _ ns n known _ _ _ => if known then [] else [nsName ns n]
  | .brObserved ns _ o => (getControllerKey ns o).toList

inductive EObs where
  | unit
  | sat (o : SatOut)
  | objs (m : Option (AMap (List String)))
  | created (o : CreateOut)
  deriving Repr, DecidableEq, Inhabited

def ExpStore.apply (now : Nat) (st : ExpStore) : EOp → ExpStore × EObs
  | .expect k a n => (st.expect k a n, .unit)
  | .observe k a n => (st.observe k a n, .unit)
  | .satisfied k => ((st.satisfied now k).1, .sat (st.satisfied now k).2)
  | .delete k => (st.deleteExpectations k, .unit)
  | .get k => (st, .objs (st.getExpectations k))
  | .brCreate t ns n known sf ok uid => ((brCreate st now t ns n known sf ok uid).1, .created (brCreate st now t ns n known sf ok uid).2)
  | .brObserved ns uid o => (brObserved st ns uid o, .unit)

/-! ## pkg/trafficrouting/manager.go: the calls that use the grace map -/

/-- an API object as a call site holds it -/
structure Obj where
  ns : String
  name : String
  uid : String
  deriving Repr, DecidableEq, Inhabited

/-- `&corev1.Service{ObjectMeta: {Namespace: ns, Name: name}}`: built locally, never sent to or read
    from the API server, so its UID is empty -/
def Obj.built (ns name : String) : Obj := ⟨ns, name, ""⟩

/-- result of `m.Get(..., stableService)` -/
inductive GetRes where
  | ok (o : Obj)
  | notFound
  | err
  deriving Repr, DecidableEq, Inhabited

/-- one `TrafficRoutingRef`: the fields read here -/
structure Ref where
  service : String
  graceSeconds : Int
  deriving Repr, DecidableEq, Inhabited

/-- `TrafficRoutingContext`: the fields read by the grace-using calls -/
structure TRCtx where
  ns : String
  /-- `OwnerRef.UID`: `metav1.NewControllerRef(rollout, …)` of the Rollout / TrafficRouting that `Reconcile` fetched -/
  ownerUID : String
  refs : List Ref
  onlyTrafficRouting : Bool
  disableGen : Bool
  deriving Repr, DecidableEq, Inhabited

/-- `getCanaryServiceName` -/
def getCanaryServiceName (sService : String) (onlyTrafficRouting disableGen : Bool) : String :=
  if onlyTrafficRouting || disableGen then sService else sService ++ "-canary"

/-- `GetGraceSeconds` -/
def getGraceSeconds (refs : List Ref) (defaultSeconds : Int) : Int :=
  if refs.isEmpty then defaultSeconds
  else
    let g := refs.foldl (fun acc r => max acc r.graceSeconds) 0
    if g < 0 then defaultSeconds else g

/-- result of the closure handed to `RunWithGraceSeconds` (what it did to the API objects is `RV.Traffic`'s subject) -/
structure Closure where
  modified : Bool
  err : Bool
  deriving Repr, DecidableEq, Inhabited

structure MOut where
  retry : Bool
  err : Bool
  /-- `c.RecheckDuration` contribution -/
  remaining : Int
  deriving Repr, DecidableEq, Inhabited

inductive Site where
  | updateRoute | restoreGateway | removeCanaryService | patchService | restoreService
  deriving Repr, DecidableEq, Inhabited

def Site.action : Site → String
  | .updateRoute => "updateRoute"
  | .restoreGateway => "restoreGateway"
  | .removeCanaryService => "removeCanaryService"
  | .patchService => "patchService"
  | .restoreService => "restoreService"

/-- everything one Manager call reads besides the grace map -/
structure MCall where
  site : Site
  c : TRCtx
  /-- `defaultGracePeriodSeconds` -/
  defaultGrace : Int
  /-- result of the `Get` of the stable Service (read by `patchService` / `restoreService` only) -/
  stable : GetRes
  /-- `newNetworkProvider` failed (read by `updateRoute` / `restoreGateway` only) -/
  providerErr : Bool
  cl : Closure
  deriving Repr, DecidableEq, Inhabited

def MOut.ofRun (r : RunOut) : MOut := ⟨r.retry, r.err, r.remaining⟩

/-- the `(key, action)` under which the call uses the grace map; `none` when it returns before -/
def MCall.graceKey (x : MCall) : Option (String × String) :=
  match x.c.refs with
  | [] => none
  | ref0 :: _ =>
    match x.site with
    | .updateRoute | .restoreGateway =>
      if x.providerErr then none else some (x.c.ownerUID, x.site.action)
    | .removeCanaryService =>
      if x.c.onlyTrafficRouting || x.c.disableGen then none
      else
        let cServiceName := getCanaryServiceName ref0.service x.c.onlyTrafficRouting x.c.disableGen
        -- `cService` is `Obj.built x.c.ns cServiceName`; the key is `types.NamespacedName{…}.String()`
        some (nsName x.c.ns cServiceName, x.site.action)
    | .patchService =>
      if x.c.onlyTrafficRouting || x.c.disableGen then none
      else match x.stable with
        | .ok stableService => some (stableService.uid, x.site.action)
        | _ => none
    | .restoreService =>
      match x.stable with
      | .ok stableService => some (stableService.uid, x.site.action)
      | _ => none

/-- `RouteAllTrafficToNewVersion`, `RestoreGateway`, `RemoveCanaryService`, `PatchStableService`,
    `RestoreStableService` -/
def managerCall (g : Grace) (now : Nat) (x : MCall) : Grace × MOut :=
  match x.c.refs with
  | [] => (g, ⟨false, false, 0⟩)                        -- len(c.ObjectRef) == 0
  | ref0 :: _ =>
    let graceSeconds := getGraceSeconds x.c.refs x.defaultGrace
    match x.site with
    | .updateRoute =>
      if x.providerErr then (g, ⟨false, true, 0⟩) else
      let r := runWithGraceSeconds g now x.c.ownerUID "updateRoute" graceSeconds x.cl.modified x.cl.err
      (r.1, .ofRun r.2)
    | .restoreGateway =>
      if x.providerErr then (g, ⟨false, true, 0⟩) else
      let r := runWithGraceSeconds g now x.c.ownerUID "restoreGateway" graceSeconds x.cl.modified x.cl.err
      (r.1, .ofRun r.2)
    | .removeCanaryService =>
      if x.c.onlyTrafficRouting || x.c.disableGen then (g, ⟨false, false, 0⟩) else
      let cServiceName := getCanaryServiceName ref0.service x.c.onlyTrafficRouting x.c.disableGen
      -- `cService := Obj.built x.c.ns cServiceName` (for the Delete); the key does not use its UID
      let key := nsName x.c.ns cServiceName
      let r := runWithGraceSeconds g now key "removeCanaryService" graceSeconds x.cl.modified x.cl.err
      (r.1, .ofRun r.2)
    | .patchService =>
      if x.c.onlyTrafficRouting || x.c.disableGen then (g, ⟨false, false, 0⟩) else
      match x.stable with
      | .notFound | .err => (g, ⟨false, true, 0⟩)
      | .ok stableService =>
        let r := runWithGraceSeconds g now stableService.uid "patchService" graceSeconds x.cl.modified x.cl.err
        (r.1, .ofRun r.2)
    | .restoreService =>
      match x.stable with
      | .notFound => (g, ⟨false, false, 0⟩)
      | .err => (g, ⟨true, true, 0⟩)
      | .ok stableService =>
        let r := runWithGraceSeconds g now stableService.uid "restoreService" graceSeconds x.cl.modified x.cl.err
        (r.1, .ofRun r.2)

/-- `UpdateRecheckDuration` -/
def recheck (a b : Int) : Int := if a < b then b else a

structure FinOut where
  done : Bool
  err : Bool
  recheck : Int
  deriving Repr, DecidableEq, Inhabited

/-- `FinalisingTrafficRouting`: the three calls in the code's order, each with its own closure result -/
def finalising (g : Grace) (now : Nat) (restoreSvc restoreGw removeSvc : MCall) : Grace × FinOut :=
  match restoreSvc.c.refs with
  | [] => (g, ⟨true, false, 0⟩)
  | _ :: _ =>
    let r1 := managerCall g now restoreSvc
    if r1.2.err ∨ r1.2.retry then (r1.1, ⟨false, r1.2.err, recheck 0 r1.2.remaining⟩) else
    let r2 := managerCall r1.1 now restoreGw
    if r2.2.err ∨ r2.2.retry then (r2.1, ⟨false, r2.2.err, recheck (recheck 0 r1.2.remaining) r2.2.remaining⟩) else
    let r3 := managerCall r2.1 now removeSvc
    let rc := recheck (recheck (recheck 0 r1.2.remaining) r2.2.remaining) r3.2.remaining
    if r3.2.err ∨ r3.2.retry then (r3.1, ⟨false, r3.2.err, rc⟩) else
    (r3.1, ⟨true, false, rc⟩)

/-- a Manager-level operation on the grace map -/
inductive MOp where
  | call (x : MCall)
  | finalising (restoreSvc restoreGw removeSvc : MCall)
  deriving Repr, DecidableEq, Inhabited

inductive MObs where
  | call (o : MOut)
  | fin (o : FinOut)
  deriving Repr, DecidableEq, Inhabited

def MOp.keys : MOp → List String
  | .call x => (x.graceKey.map (·.1)).toList
  | .finalising a b c => (a.graceKey.map (·.1)).toList ++ (b.graceKey.map (·.1)).toList ++ (c.graceKey.map (·.1)).toList

def MOp.apply (now : Nat) (g : Grace) : MOp → Grace × MObs
  | .call x => ((managerCall g now x).1, .call (managerCall g now x).2)
  | .finalising a b c => ((RV.Isolation.finalising g now a b c).1, .fin (RV.Isolation.finalising g now a b c).2)

/-! ### the API objects a rollout's traffic routing touches -/

/-- (kind, namespace, name) -/
abbrev ObjKey := String × String × String

/-- the objects the Manager reads or writes for a context whose first ref names Service `svc` and Ingress `ing` -/
def footprint (ns svc ing : String) (onlyTrafficRouting disableGen : Bool) : List ObjKey :=
  [("Service", ns, svc), ("Service", ns, getCanaryServiceName svc onlyTrafficRouting disableGen),
   ("Ingress", ns, ing), ("Ingress", ns, ing ++ "-canary")]

/-! ## traces: several owners using one shared store -/

/-- an event of a run of the whole process -/
inductive Ev (Op : Type) where
  /-- rollout `owner` performs `o` -/
  | op (owner : Nat) (o : Op)
  /-- `d` seconds pass -/
  | tick (d : Nat)
  /-- the store's process-wide maintenance (grace: `CleanOutdatedItems(a)`) -/
  | glob (a : Nat)
  deriving Repr, DecidableEq, Inhabited

section Run
variable {ε Op Obs : Type}
variable (apply : Nat → AMap ε → Op → AMap ε × Obs) (glob : Nat → Nat → AMap ε → AMap ε)

/-- state of a run: the clock and the shared store -/
def stepEv (s : Nat × AMap ε) : Ev Op → (Nat × AMap ε) × Option (Nat × Obs)
  | .op r o => ((s.1, (apply s.1 s.2 o).1), some (r, (apply s.1 s.2 o).2))
  | .tick d => ((s.1 + d, s.2), none)
  | .glob a => ((s.1, glob s.1 a s.2), none)

/-- run a trace: final state and every (owner, observation) in order -/
def run (s : Nat × AMap ε) : List (Ev Op) → (Nat × AMap ε) × List (Nat × Obs)
  | [] => (s, [])
  | e :: es =>
    let r := stepEv apply glob s e
    let rest := run r.1 es
    (rest.1, r.2.toList ++ rest.2)
end Run

/-- what rollout `r` sees of a trace when it runs alone: its own operations, the clock, the maintenance -/
def proj {Op : Type} (r : Nat) (tr : List (Ev Op)) : List (Ev Op) :=
  tr.filter fun e => match e with
    | .op r' _ => r' = r
    | _ => true

/-- the observations of rollout `r` -/
def obsOf {Obs : Type} (r : Nat) (obs : List (Nat × Obs)) : List Obs :=
  (obs.filter (fun x => x.1 = r)).map (·.2)

/-- every operation of `r` uses only keys selected by `p`, every operation of another rollout uses none of them -/
def sepFor {Op : Type} (keys : Op → List String) (p : String → Bool) (r : Nat) (tr : List (Ev Op)) : Bool :=
  tr.all fun e => match e with
    | .op r' o => if r' = r then (keys o).all p else (keys o).all (fun k => !p k)
    | _ => true

def Grace.glob (now a : Nat) (g : Grace) : Grace := g.cleanOutdated now a
/-- the resource expectations have no process-wide maintenance -/
def ExpStore.glob (_now _a : Nat) (st : ExpStore) : ExpStore := st

def Grace.run := RV.Isolation.run (Op := GOp) Grace.apply Grace.glob
def Grace.runM := RV.Isolation.run (Op := MOp) MOp.apply Grace.glob
def ExpStore.run := RV.Isolation.run (Op := EOp) ExpStore.apply ExpStore.glob

/-! ## the dynamic watch registry (`watchedWorkload`, a `sync.Map` keyed by the workload GVK)

  `pkg/controller/rollout/rollout_controller.go` and `pkg/controller/batchrelease/batchrelease_controller.go`
  have the same lines at the top of `Reconcile`:

      _, exists := watchedWorkload.Load(gvk)
      if !exists {
          succeeded, err := util.AddWatcherDynamically(runtimeController, workloadHandler, gvk)
          if err != nil { return ctrl.Result{}, err }
          else if succeeded { watchedWorkload.LoadOrStore(gvk, struct{}{}); return ctrl.Result{}, nil }
      }
-/

/-- result of `util.AddWatcherDynamically`: `(false, nil)` the GVK is not served; `(true, err)` `Watch` failed;
    `(true, nil)` the watcher is established -/
inductive AddRes where
  | notServed | err | added
  deriving Repr, DecidableEq, Inhabited

/-- how the watch part of `Reconcile` ends -/
inductive WatchOut where
  /-- falls through to the rest of `Reconcile` -/
  | proceed
  /-- `return ctrl.Result{}, err` -/
  | error
  /-- `return ctrl.Result{}, nil`: wait for the informer cache -/
  | early
  deriving Repr, DecidableEq, Inhabited

/-- first half: `Load`; `true` = the reconcile goes on to call `AddWatcherDynamically` -/
def watchStart (watched : List String) (gvk : String) : Bool := !watched.contains gvk

/-- second half, for a reconcile that called `AddWatcherDynamically` and got `res`: the kind is registered
    only after success; an error returns the error and leaves the registry unchanged -/
def watchFinish (watched : List String) (gvk : String) (res : AddRes) : List String × WatchOut :=
  match res with
  | .err => (watched, .error)
  | .added => (if watched.contains gvk then watched else watched ++ [gvk], .early)     -- LoadOrStore
  | .notServed => (watched, .proceed)

/-- the watch part of one `Reconcile` that nothing interleaves with:
    `(registry', AddWatcherDynamically was called, how it ends)` -/
def reconcileWatch (watched : List String) (gvk : String) (res : AddRes) : List String × Bool × WatchOut :=
  if watchStart watched gvk then
    let r := watchFinish watched gvk res
    (r.1, true, r.2)
  else (watched, false, .proceed)

/-- the workers of one controller, at the granularity at which they interleave: `start r gvk` is rollout `r`'s
    reconcile doing its `Load`, `finish r gvk res` is its `AddWatcherDynamically` returning (no effect if that
    reconcile found the kind registered and never called it) -/
inductive WEv where
  | start (r : Nat) (gvk : String)
  | finish (r : Nat) (gvk : String) (res : AddRes)
  deriving Repr, DecidableEq, Inhabited

structure WState where
  registry : List String
  /-- reconciles that are between their `Load` (kind absent) and the return of `AddWatcherDynamically` -/
  inflight : List Nat
  /-- kinds for which some `Watch` call has succeeded (ghost: what the recording controller saw) -/
  succeeded : List String
  deriving Repr, DecidableEq, Inhabited

def WState.step (s : WState) : WEv → WState
  | .start r gvk => if watchStart s.registry gvk then { s with inflight := r :: s.inflight } else s
  | .finish r gvk res =>
    if s.inflight.contains r then
      { registry := (watchFinish s.registry gvk res).1,
        inflight := s.inflight.filter (· != r),
        succeeded := if res = .added then gvk :: s.succeeded else s.succeeded }
    else s

def WState.run (s : WState) : List WEv → WState
  | [] => s
  | e :: es => (s.step e).run es

/-- what `init()` registers -/
def staticKinds : List String :=
  ["apps/v1, Kind=Deployment", "apps/v1, Kind=StatefulSet", "apps.kruise.io/v1alpha1, Kind=CloneSet",
   "apps.kruise.io/v1beta1, Kind=StatefulSet", "apps.kruise.io/v1alpha1, Kind=StatefulSet",
   "apps.kruise.io/v1alpha1, Kind=DaemonSet"]

end RV.Isolation
