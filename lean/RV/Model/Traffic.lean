/-
  The traffic-routing Manager over an abstract network state, with the
  grace-period wrapper and its in-memory expectation map.

  Source:
    pkg/trafficrouting/manager.go      DoTrafficRouting, FinalisingTrafficRouting, RestoreGateway,
                                       RemoveCanaryService, PatchStableService, RestoreStableService
    pkg/util/grace/grace_wrapper.go    runWithGraceSeconds
    pkg/util/grace/grace_expectations.go
    pkg/trafficrouting/network/ingress/ingress.go   EnsureRoutes / Finalise (weight steps; the
                                       provider's own content is the subject of C13/C14/C15)

  Scope: one traffic routing ref, Ingress provider, weight steps, canary Service
  generation enabled or disabled, `OnlyTrafficRouting = false`.
-/
namespace RV.Traffic

/-- state of one grace expectation (key, action): absent, recorded less than the grace period
    ago, or recorded longer ago -/
inductive Exp where
  | none | fresh | elapsed
  deriving Repr, DecidableEq, Inhabited

/-- relative age of `LastUpdateTime` w.r.t. the grace period -/
inductive Age where
  | none | fresh | elapsed
  deriving Repr, DecidableEq, Inhabited

structure Net where
  stableExists : Bool
  stableSel : Option String      -- stable Service selector[revisionLabelKey]; none = not pinned
  canarySvc : Option String      -- canary Service: none = absent, some r = selects revision r
  stableIngress : Bool
  canaryIng : Option Nat         -- canary Ingress: none = absent, some w = canary weight w
  deriving Repr, DecidableEq, Inhabited

/-- the process-wide grace expectation map, restricted to the keys one rollout uses -/
structure Mem where
  patchService : Exp
  restoreService : Exp
  restoreGateway : Exp
  removeCanaryService : Exp
  updateRoute : Exp
  deriving Repr, DecidableEq, Inhabited

def Mem.empty : Mem := ⟨.none, .none, .none, .none, .none⟩

structure TCtx where
  hasRef : Bool
  grace : Nat                 -- objectRef[0].gracePeriodSeconds (0 = no waiting)
  weight : Option Nat         -- current step's traffic weight; none = step without traffic
  disableGen : Bool           -- DisableGenerateCanaryService
  stableRev : String
  canaryRev : String
  lastUpdate : Age
  /-- `RevisionLabelKey` is known (it is empty when the controller could not read the workload) -/
  hasRevKey : Bool := true
  deriving Repr, DecidableEq, Inhabited

/-- outcome of a Manager call -/
structure TOut where
  done : Bool          -- "done" for DoTrafficRouting/FinalisingTrafficRouting, "retry" for the others
  err : Bool
  net : Net
  mem : Mem
  touched : Bool       -- c.LastUpdateTime was set to now
  writes : List String         -- API writes in order
  deriving Repr, DecidableEq

/-- `runWithGraceSeconds` given what the closure did: (`modified`, new expectation, retry) -/
def runGrace (grace : Nat) (e : Exp) (modified : Bool) : Exp × Bool :=
  if grace = 0 then (.none, false)
  else if modified then (.fresh, true)
  else match e with
    | .none => (.none, false)
    | .fresh => (.fresh, true)
    | .elapsed => (.none, false)

/-- Ingress `EnsureRoutes` for a weight step: new canary Ingress state, verified? , error? -/
def ensureRoutes (n : Net) (w : Nat) : Option Nat × Bool × Bool :=
  match n.canaryIng with
  | none =>
    if w = 0 then (none, true, false)
    else if n.stableIngress then (some 0, false, false)
    else (none, false, true)
  | some x => if x = w then (some x, true, false) else (some w, false, false)

/-- Ingress `Finalise`: new state, modified? -/
def finaliseGw (n : Net) : Option Nat × Bool :=
  match n.canaryIng with
  | none => (none, false)
  | some _ => (none, true)

/-- selector value as the abstraction reads it back: an empty value counts as "not pinned" -/
def selOf (r : String) : Option String := if r = "" then none else some r

/-- `Manager.PatchStableService`: `done` here means *retry* -/
def patchStableService (c : TCtx) (n : Net) (m : Mem) : TOut :=
  if ¬ c.hasRef then ⟨false, false, n, m, false, []⟩
  else if c.disableGen then ⟨false, false, n, m, false, []⟩
  else if ¬ n.stableExists then ⟨false, true, n, m, false, []⟩
  else
    let modified := decide (n.stableSel.getD "" ≠ c.stableRev)
    let n' := if modified then { n with stableSel := selOf c.stableRev } else n
    let (e, retry) := runGrace c.grace m.patchService modified
    ⟨retry, false, n', { m with patchService := e }, modified, if modified then ["patchStable"] else []⟩

/-- `Manager.RestoreStableService` (retry semantics) -/
def restoreStableService (c : TCtx) (n : Net) (m : Mem) : TOut :=
  if ¬ c.hasRef then ⟨false, false, n, m, false, []⟩
  else if ¬ n.stableExists then ⟨false, false, n, m, false, []⟩
  else
    -- with an empty revision-label key the selector lookup finds nothing: the Service is left as it is
    let modified := c.hasRevKey && decide (n.stableSel.getD "" ≠ "")
    let n' := if modified then { n with stableSel := none } else n
    let (e, retry) := runGrace c.grace m.restoreService modified
    ⟨retry, false, n', { m with restoreService := e }, modified, if modified then ["unpinStable"] else []⟩

/-- `Manager.RestoreGateway` (retry semantics) -/
def restoreGateway (c : TCtx) (n : Net) (m : Mem) : TOut :=
  if ¬ c.hasRef then ⟨false, false, n, m, false, []⟩
  else
    let (ci, modified) := finaliseGw n
    let (e, retry) := runGrace c.grace m.restoreGateway modified
    ⟨retry, false, { n with canaryIng := ci }, { m with restoreGateway := e }, modified,
      if modified then ["deleteCanaryIngress"] else []⟩

/-- `Manager.RemoveCanaryService` (retry semantics) -/
def removeCanaryService (c : TCtx) (n : Net) (m : Mem) : TOut :=
  if ¬ c.hasRef then ⟨false, false, n, m, false, []⟩
  else if c.disableGen then ⟨false, false, n, m, false, []⟩
  else
    let modified := n.canarySvc.isSome
    let (e, retry) := runGrace c.grace m.removeCanaryService modified
    ⟨retry, false, { n with canarySvc := none }, { m with removeCanaryService := e }, false,
      if modified then ["deleteCanarySvc"] else []⟩

/-- `Manager.RouteAllTrafficToNewVersion` (retry semantics): canary weight 100 -/
def routeAllToNew (c : TCtx) (n : Net) (m : Mem) : TOut :=
  if ¬ c.hasRef then ⟨false, false, n, m, false, []⟩
  else
    let r := ensureRoutes n 100
    if r.2.2 then ⟨true, true, n, m, true, []⟩
    else
      let modified := !r.2.1
      let (e, retry) := runGrace c.grace m.updateRoute modified
      ⟨retry, false, { n with canaryIng := r.1 }, { m with updateRoute := e }, modified,
        if r.1 = n.canaryIng then [] else if n.canaryIng.isNone then ["createCanaryIngress"] else ["patchCanaryIngress"]⟩

/-- `Manager.FinalisingTrafficRouting` (done semantics): stable Service, then gateway, then canary Service -/
def finalisingTrafficRouting (c : TCtx) (n : Net) (m : Mem) : TOut :=
  if ¬ c.hasRef then ⟨true, false, n, m, false, []⟩
  else
    let r1 := restoreStableService c n m
    if r1.err ∨ r1.done then ⟨false, r1.err, r1.net, r1.mem, r1.touched, r1.writes⟩ else
    let r2 := restoreGateway c r1.net r1.mem
    if r2.err ∨ r2.done then ⟨false, r2.err, r2.net, r2.mem, r1.touched || r2.touched, r1.writes ++ r2.writes⟩ else
    let r3 := removeCanaryService c r2.net r2.mem
    if r3.err ∨ r3.done then ⟨false, r3.err, r3.net, r3.mem, r1.touched || r2.touched, r1.writes ++ r2.writes ++ r3.writes⟩ else
    ⟨true, false, r3.net, r3.mem, r1.touched || r2.touched, r1.writes ++ r2.writes ++ r3.writes⟩

/-- the Service part of `DoTrafficRouting`: `none` = wait (revisions unknown); otherwise the
    net after creating / re-selecting the canary Service and pinning the stable one, with the writes -/
def svcStep (c : TCtx) (n : Net) : Option (Net × List String) :=
  if c.disableGen then some (n, [])
  else if c.stableRev = "" ∨ c.canaryRev = "" then none
  else
    let r1 : Net × List String := match n.canarySvc with
      | none => ({ n with canarySvc := some c.canaryRev }, ["createCanarySvc"])
      | some r => if r ≠ c.canaryRev then ({ n with canarySvc := some c.canaryRev }, ["patchCanarySvc"]) else (n, [])
    let r2 : Net × List String :=
      if r1.1.stableSel.getD "" ≠ c.stableRev then ({ r1.1 with stableSel := some c.stableRev }, ["patchStable"]) else (r1.1, [])
    some (r2.1, r1.2 ++ r2.2)

/-- the provider part of `DoTrafficRouting` -/
def routeStep (n : Net) (m : Mem) (w : Nat) : TOut :=
  let r := ensureRoutes n w
  if r.2.2 then ⟨false, true, n, m, false, []⟩
  else ⟨r.2.1, false, { n with canaryIng := r.1 }, m, false,
         if r.1 = n.canaryIng then [] else if n.canaryIng.isNone then ["createCanaryIngress"] else ["patchCanaryIngress"]⟩

/-- `Manager.DoTrafficRouting` (done semantics) -/
def doTrafficRouting (c : TCtx) (n : Net) (m : Mem) : TOut :=
  if ¬ c.hasRef then ⟨true, false, n, m, false, []⟩ else
  match c.weight with
  | none => ⟨true, false, n, m, false, []⟩
  | some w =>
    if ¬ n.stableExists then ⟨false, false, n, m, false, []⟩
    else if c.lastUpdate = .fresh then ⟨false, false, n, m, false, []⟩
    else
      match svcStep c n with
      | none => ⟨false, false, n, m, false, []⟩
      | some (n2, ws) =>
        -- a modified Service starts a new grace period; the provider is only touched when the Services are in place
        if ws ≠ [] then ⟨false, false, n2, m, true, ws⟩
        else routeStep n m w

end RV.Traffic
