/-
  Advanced (partition-style) Deployment controller — one `syncDeployment`.

  Source (openkruise/rollouts):
    pkg/controller/deployment/deployment_controller.go   syncDeployment (dispatch)
    pkg/controller/deployment/rolling.go                 rolloutRolling, reconcileNewReplicaSet,
        reconcileOldReplicaSets, cleanupUnhealthyReplicas, scaleDownOldReplicaSetsForRollingUpdate,
        scaleUpOldReplicaSets, ScaleDownLimitForOld
    pkg/controller/deployment/sync.go                    sync, scale, scaleReplicaSet(AndRecordEvent),
        getNewReplicaSet (creation of the new RS), isScalingEvent, calculateStatus (status.replicas)
    pkg/controller/deployment/util/deployment_util.go    NewRSNewReplicas, NewRSReplicasLowerBound,
        MaxSurge, MaxUnavailable, FindActiveOrLatest, IsSaturated, GetProportion,
        getReplicaSetFraction, the sort orders ReplicaSetsBy{CreationTimestamp,SmallerRevision,
        SizeOlder,SizeNewer}, FilterActiveReplicaSets

  Every function returns the updated ReplicaSet records *and* the log of spec.replicas
  writes, in the order the code issues them.  Numbers are unbounded `Int` (int32 wrap-around
  is outside the model).  API errors are not modelled here (the fake clientset never fails);
  the only error paths are the code's own ("invalid request to scale down").
-/
import RV.Model.Arith
namespace RV.DepSync
open RV.Arith

/-- One ReplicaSet as the controller reads it. -/
structure RS where
  /-- identity used in the write log: -1 = the new RS, k = k-th old RS of the input -/
  idx : Int
  /-- metadata.name as bytes (last tie-breaker of every sort order) -/
  name : List Nat
  /-- metadata.creationTimestamp (seconds) -/
  created : Int
  /-- annotation deployment.kubernetes.io/revision (absent = 0) -/
  revision : Int
  /-- spec.replicas -/
  spec : Int
  /-- status.replicas -/
  pods : Int
  /-- status.availableReplicas -/
  avail : Int
  /-- annotation deployment.kubernetes.io/desired-replicas -/
  desired : Option Int
  /-- annotation deployment.kubernetes.io/max-replicas -/
  maxAnno : Option Int
  deriving Repr, DecidableEq, Inhabited

/-- The abstract state one sync starts from. -/
structure State where
  /-- deployment.spec.replicas -/
  replicas : Int
  /-- strategy.partition -/
  partition : IntOrPct
  /-- strategy.rollingUpdate != nil -/
  rolling : Bool
  maxSurge : Option IntOrPct
  maxUnavailable : Option IntOrPct
  /-- strategy.paused -/
  paused : Bool
  /-- deployment.deletionTimestamp != nil -/
  deleting : Bool
  /-- deployment.status.replicas (fallback of getReplicaSetFraction) -/
  statusReplicas : Int
  /-- clock: creationTimestamp the API server gives to the next created object -/
  now : Int
  /-- the RS whose template equals the deployment's -/
  new : Option RS
  /-- all other RSs, any order -/
  olds : List RS
  deriving Repr, DecidableEq, Inhabited

/-- one spec.replicas write -/
structure Write where
  idx : Int
  to : Int
  deriving Repr, DecidableEq, Inhabited

/-! ### sums, filters, sort orders -/

def sumBy (f : RS → Int) : List RS → Int
  | [] => 0
  | r :: rs => f r + sumBy f rs

/-- `GetReplicaCountForReplicaSets` -/
def sumSpec (l : List RS) : Int := sumBy (·.spec) l
/-- `GetAvailableReplicaCountForReplicaSets` -/
def sumAvail (l : List RS) : Int := sumBy (·.avail) l
/-- `GetActualReplicaCountForReplicaSets` -/
def sumPods (l : List RS) : Int := sumBy (·.pods) l

def optSpec : Option RS → Int
  | none => 0
  | some r => r.spec
def optAvail : Option RS → Int
  | none => 0
  | some r => r.avail
def optPods : Option RS → Int
  | none => 0
  | some r => r.pods

/-- `FilterActiveReplicaSets` -/
def active (l : List RS) : List RS := l.filter (fun r => decide (0 < r.spec))
def inactive (l : List RS) : List RS := l.filter (fun r => !decide (0 < r.spec))

/-- byte-wise string order (Go's `<` on strings) -/
def lexLt : List Nat → List Nat → Bool
  | [], [] => false
  | [], _ :: _ => true
  | _ :: _, [] => false
  | a :: as, b :: bs => if a < b then true else if b < a then false else lexLt as bs

/-- `ReplicaSetsByCreationTimestamp.Less` -/
def byCreation (a b : RS) : Bool :=
  if a.created == b.created then lexLt a.name b.name else decide (a.created < b.created)
/-- `sort.Reverse(ReplicaSetsByCreationTimestamp)` -/
def byCreationDesc (a b : RS) : Bool := byCreation b a
/-- `ReplicaSetsBySmallerRevision.Less` (revisions always parse in the model) -/
def bySmallerRevision (a b : RS) : Bool :=
  if a.revision == b.revision then byCreation a b else decide (a.revision > b.revision)
/-- `ReplicaSetsBySizeOlder.Less` -/
def bySizeOlder (a b : RS) : Bool :=
  if a.spec == b.spec then byCreation a b else decide (a.spec > b.spec)
/-- `ReplicaSetsBySizeNewer.Less` -/
def bySizeNewer (a b : RS) : Bool :=
  if a.spec == b.spec then byCreation b a else decide (a.spec > b.spec)

def insertBy (lt : RS → RS → Bool) (x : RS) : List RS → List RS
  | [] => [x]
  | y :: ys => if lt y x then y :: insertBy lt x ys else x :: y :: ys

/-- `sort.Sort` with a strict total order (names are unique): the unique sorted permutation. -/
def sortBy (lt : RS → RS → Bool) : List RS → List RS
  | [] => []
  | x :: xs => insertBy lt x (sortBy lt xs)

/-! ### configuration -/

/-- `deploymentutil.MaxSurge` -/
def maxSurgeV (s : State) : Int :=
  if !s.rolling then 0 else
  match resolveFenceposts s.maxSurge s.maxUnavailable s.replicas with
  | none => 0
  | some (a, _) => a

/-- `deploymentutil.MaxUnavailable` -/
def maxUnavailV (s : State) : Int :=
  if !s.rolling || s.replicas == 0 then 0 else
  let u := match resolveFenceposts s.maxSurge s.maxUnavailable s.replicas with
    | none => 0
    | some (_, u) => u
  if u > s.replicas then s.replicas else u

/-- `NewRSReplicasLimit(strategy.Partition, deployment)` -/
def limit (s : State) : Int := newRSReplicasLimit s.partition s.replicas

/-- `deploymentutil.NewRSReplicasLowerBound` -/
def lowerBound (s : State) : Int :=
  if maxSurgeV s > 0 then 0 else min 1 s.replicas

/-! ### scaling one ReplicaSet -/

/-- `ReplicasAnnotationsNeedUpdate(rs, replicas, replicas+MaxSurge)` -/
def annoNeedUpdate (s : State) (r : RS) : Bool :=
  r.desired != some s.replicas || r.maxAnno != some (s.replicas + maxSurgeV s)

/-- `scaleReplicaSet` -/
def scaleReplicaSet (s : State) (r : RS) (newScale : Int) : RS × List Write :=
  let sizeNeedsUpdate := r.spec != newScale
  if sizeNeedsUpdate || annoNeedUpdate s r then
    ({ r with spec := newScale, desired := some s.replicas, maxAnno := some (s.replicas + maxSurgeV s) },
     if sizeNeedsUpdate then [⟨r.idx, newScale⟩] else [])
  else (r, [])

/-- `scaleReplicaSetAndRecordEvent` -/
def scaleAndRecord (s : State) (r : RS) (newScale : Int) : RS × List Write :=
  if r.spec == newScale then (r, []) else scaleReplicaSet s r newScale

/-! ### rolling path -/

/-- `deploymentutil.NewRSNewReplicas`; `currentPodCount` = spec total of all RSs incl. the new one -/
def newRSNewReplicas (s : State) (currentPodCount newSpec : Int) : Int :=
  if currentPodCount > newSpec then
    let scaleUpLimit := limit s
    if newSpec ≥ scaleUpLimit then newSpec else
    let maxTotalPods := s.replicas + maxSurgeV s
    if currentPodCount ≥ maxTotalPods then newSpec else
    let scaleUpCount := maxTotalPods - currentPodCount
    let scaleUpCount := min scaleUpCount (s.replicas - newSpec)
    min (newSpec + scaleUpCount) scaleUpLimit
  else s.replicas

/-- `MaxRevision` -/
def maxRevision : List RS → Int
  | [] => 0
  | r :: rs => max r.revision (maxRevision rs)

/-- name given to a created RS inside the model (`<deployment>-<hash>` in the code; never decisive
    because its creation time is later than every other one) -/
def createdName : List Nat := [64, 110, 101, 119]

/-- `getNewReplicaSet`: the existing new RS with its revision brought up to `maxOld+1`, or
    (if `create`) a freshly created one. -/
def getNewRS (s : State) (create : Bool) : Option RS × List Write :=
  let newRevision := maxRevision s.olds + 1
  match s.new with
  | some r => (some { r with revision := if r.revision < newRevision then newRevision else r.revision }, [])
  | none =>
    if !create then (none, []) else
    let newReplicasCount := newRSNewReplicas s (sumSpec s.olds + 0) 0
    let size := max newReplicasCount (lowerBound s)
    (some { idx := -1, name := createdName, created := s.now, revision := newRevision, spec := size,
            pods := 0, avail := 0, desired := some s.replicas, maxAnno := some (s.replicas + maxSurgeV s) },
     [⟨-1, size⟩])

/-- `reconcileNewReplicaSet`: (scaled, new RS, writes) -/
def reconcileNew (s : State) (olds : List RS) (nw : RS) : Bool × RS × List Write :=
  if nw.spec == s.replicas then (false, nw, [])
  else if nw.spec > s.replicas then
    let sc := scaleAndRecord s nw s.replicas
    (true, sc.1, sc.2)
  else
    let newReplicasCount := newRSNewReplicas s (sumSpec olds + nw.spec) nw.spec
    let sc := scaleAndRecord s nw newReplicasCount
    (nw.spec != newReplicasCount, sc.1, sc.2)

/-- `ScaleDownLimitForOld` -/
def scaleDownLimitForOld (s : State) (olds : List RS) (newSpec : Int) : Int :=
  let newRSUpdateLimit := limit s
  let newRSDesiredCount := max newRSUpdateLimit newSpec
  let oldRSDesiredCount := s.replicas - newRSDesiredCount
  let oldPodsCount := sumSpec olds
  oldPodsCount - oldRSDesiredCount

/-- result of a loop over old RSs -/
structure LoopRes where
  olds : List RS
  count : Int
  writes : List Write
  err : Bool
  deriving Repr, Inhabited

/-- loop of `cleanupUnhealthyReplicas` over the (already sorted) list -/
def cleanupLoop (s : State) (maxCleanupCount : Int) : List RS → Int → LoopRes
  | [], total => ⟨[], total, [], false⟩
  | r :: rest, total =>
    if total ≥ maxCleanupCount then ⟨r :: rest, total, [], false⟩
    else if r.spec == 0 then
      let res := cleanupLoop s maxCleanupCount rest total
      { res with olds := r :: res.olds }
    else if r.spec == r.avail then
      let res := cleanupLoop s maxCleanupCount rest total
      { res with olds := r :: res.olds }
    else
      let scaledDownCount := min (maxCleanupCount - total) (r.spec - r.avail)
      let newReplicasCount := r.spec - scaledDownCount
      if newReplicasCount > r.spec then ⟨r :: rest, 0, [], true⟩
      else
        let sc := scaleAndRecord s r newReplicasCount
        let res := cleanupLoop s maxCleanupCount rest (total + scaledDownCount)
        { res with olds := sc.1 :: res.olds, writes := sc.2 ++ res.writes }

/-- `cleanupUnhealthyReplicas` -/
def cleanup (s : State) (olds : List RS) (maxCleanupCount : Int) : LoopRes :=
  cleanupLoop s maxCleanupCount (sortBy byCreation olds) 0

/-- loop of `scaleDownOldReplicaSetsForRollingUpdate` -/
def scaleDownLoop (s : State) (totalScaleDownCount : Int) : List RS → Int → LoopRes
  | [], total => ⟨[], total, [], false⟩
  | r :: rest, total =>
    if total ≥ totalScaleDownCount then ⟨r :: rest, total, [], false⟩
    else if r.spec == 0 then
      let res := scaleDownLoop s totalScaleDownCount rest total
      { res with olds := r :: res.olds }
    else
      let scaleDownCount := min r.spec (totalScaleDownCount - total)
      let newReplicasCount := r.spec - scaleDownCount
      if newReplicasCount > r.spec then ⟨r :: rest, 0, [], true⟩
      else
        let sc := scaleAndRecord s r newReplicasCount
        let res := scaleDownLoop s totalScaleDownCount rest (total + scaleDownCount)
        { res with olds := sc.1 :: res.olds, writes := sc.2 ++ res.writes }

/-- `scaleDownOldReplicaSetsForRollingUpdate` (old RSs after the clean-up, the new RS) -/
def scaleDownOld (s : State) (olds : List RS) (nw : RS) : LoopRes :=
  let minAvailable := s.replicas - maxUnavailV s
  let availablePodCount := sumAvail olds + nw.avail
  if availablePodCount ≤ minAvailable then ⟨olds, 0, [], false⟩
  else
    let sorted := sortBy bySmallerRevision olds
    let totalScaleDownCount := availablePodCount - minAvailable
    let scaleDownOldLimit := scaleDownLimitForOld s sorted nw.spec
    let totalScaleDownCount := min totalScaleDownCount scaleDownOldLimit
    scaleDownLoop s totalScaleDownCount sorted 0

/-- `scaleUpOldReplicaSets` -/
def scaleUpOld (s : State) (olds : List RS) (scaledUpCount : Int) : Bool × List RS × List Write :=
  if scaledUpCount ≤ 0 || olds.isEmpty then (false, olds, [])
  else
    match sortBy bySizeOlder olds with
    | [] => (false, olds, [])
    | r :: rest =>
      let sc := scaleAndRecord s r (r.spec + scaledUpCount)
      (r.spec != r.spec + scaledUpCount, sc.1 :: rest, sc.2)

/-- `reconcileOldReplicaSets` on all old RSs (the code passes the active ones; the inactive
    ones are carried along unchanged): (scaled, old RSs, writes) -/
def reconcileOld (s : State) (allOlds : List RS) (nw : RS) : Bool × List RS × List Write :=
  let olds := active allOlds
  let rest := inactive allOlds
  let oldPodsCount := sumSpec olds
  if oldPodsCount == 0 then (false, allOlds, [])
  else
    let allPodsCount := sumSpec allOlds + nw.spec
    let maxUnavailable := maxUnavailV s
    let scaleDownOldLimit := scaleDownLimitForOld s olds nw.spec
    if scaleDownOldLimit ≤ 0 then
      let up := scaleUpOld s olds (-scaleDownOldLimit)
      (up.1, up.2.1 ++ rest, up.2.2)
    else
      let minAvailable := s.replicas - maxUnavailable
      let newRSUnavailablePodCount := nw.spec - nw.avail
      let maxScaledDown := allPodsCount - minAvailable - newRSUnavailablePodCount
      let maxScaledDown := min maxScaledDown scaleDownOldLimit
      if maxScaledDown ≤ 0 then (false, allOlds, [])
      else
        let c := cleanup s olds maxScaledDown
        if c.err then (false, c.olds ++ rest, c.writes)
        else
          let d := scaleDownOld s c.olds nw
          if d.err then (false, d.olds ++ rest, c.writes ++ d.writes)
          else (decide (c.count + d.count > 0), d.olds ++ rest, c.writes ++ d.writes)

/-! ### scaling path (`sync` → `scale`) -/

/-- `integer.RoundToInt32(float64(a) / float64(b))` for `b ≠ 0`: round half away from zero -/
def roundDiv (a b : Int) : Int :=
  let m : Int := ((2 * a.natAbs + b.natAbs) / (2 * b.natAbs) : Nat)
  if decide (a < 0) != decide (b < 0) then -m else m

/-- `getReplicaSetFraction`; `none` = division by zero (float → int conversion undefined) -/
def rsFraction (s : State) (r : RS) : Option Int :=
  if s.replicas == 0 then some (-r.spec) else
  let deploymentReplicas := s.replicas + maxSurgeV s
  let annotatedReplicas := match r.maxAnno with
    | some m => m
    | none => s.statusReplicas
  if annotatedReplicas == 0 then none
  else some (roundDiv (r.spec * deploymentReplicas) annotatedReplicas - r.spec)

/-- `GetProportion` -/
def getProportion (s : State) (r : RS) (toAdd added : Int) : Option Int :=
  if r.spec == 0 || toAdd == 0 || toAdd == added then some 0 else
  match rsFraction s r with
  | none => none
  | some f =>
    let allowed := toAdd - added
    if toAdd > 0 then some (min f allowed) else some (max f allowed)

/-- first loop of the proportional part of `scale`: (RS, planned size) list and the total added -/
def proportionLoop (s : State) (toAdd : Int) : List RS → Int → Option (List (RS × Int) × Int)
  | [], added => some ([], added)
  | r :: rest, added =>
    if toAdd != 0 then
      match getProportion s r toAdd added with
      | none => none
      | some p =>
        match proportionLoop s toAdd rest (added + p) with
        | none => none
        | some (l, a) => some ((r, r.spec + p) :: l, a)
    else
      match proportionLoop s toAdd rest added with
      | none => none
      | some (l, a) => some ((r, r.spec) :: l, a)

/-- second loop of `scale`: write every planned size (`scaleReplicaSet`, annotations included) -/
def updateLoop (s : State) : List (RS × Int) → List RS × List Write
  | [] => ([], [])
  | (r, n) :: rest =>
    let (r', w) := scaleReplicaSet s r n
    let (l, ws) := updateLoop s rest
    (r' :: l, w ++ ws)

/-- `FindActiveOrLatest` -/
def findActiveOrLatest (nw : Option RS) (olds : List RS) : Option RS :=
  if nw.isNone && olds.isEmpty then none else
  let oldsDesc := sortBy byCreationDesc olds
  let all := active (oldsDesc ++ nw.toList)
  match all with
  | [] => match nw with
    | some r => some r
    | none => oldsDesc.head?
  | [r] => some r
  | _ => none

/-- `IsSaturated` -/
def isSaturated (s : State) (nw : Option RS) : Bool :=
  match nw with
  | none => false
  | some r => match r.desired with
    | none => false
    | some d => r.spec == s.replicas && d == s.replicas && r.avail == s.replicas

/-- replace the record with the same `idx` -/
def replaceIdx (r' : RS) : List RS → List RS
  | [] => []
  | r :: rs => if r.idx == r'.idx then r' :: rs else r :: replaceIdx r' rs

def scaleAllTo (s : State) (n : Int) : List RS → List RS × List Write
  | [] => ([], [])
  | r :: rest =>
    let (r', w) := scaleAndRecord s r n
    let (l, ws) := scaleAllTo s n rest
    (r' :: l, w ++ ws)

/-- outcome of `scale` -/
structure ScaleRes where
  new : Option RS
  olds : List RS
  writes : List Write
  err : Bool := false
  /-- the code divides by zero in floating point; the result is implementation-defined -/
  undef : Bool := false
  deriving Repr, Inhabited

def splitNew : List RS → Option RS × List RS
  | [] => (none, [])
  | r :: rs =>
    let (n, l) := splitNew rs
    if r.idx == -1 then (some r, l) else (n, r :: l)

/-- the two loops of `scale` distributing `toAdd` over the active RSs `allRSs`
    (`cOlds`/`cWrites`: old RSs and writes after the optional clean-up) -/
def distribute (s : State) (nw : Option RS) (cOlds : List RS) (cWrites : List Write) (toAdd : Int)
    (allRSs : List RS) : ScaleRes :=
  let sorted :=
    if toAdd > 0 then sortBy bySizeNewer allRSs
    else if toAdd < 0 then sortBy bySizeOlder allRSs
    else allRSs
  match proportionLoop s toAdd sorted 0 with
  | none => ⟨nw, cOlds, cWrites, false, true⟩
  | some (plan, added) =>
    -- add/remove any leftovers to the largest replica set
    let plan := match plan with
      | [] => []
      | (r, n) :: rest =>
        if toAdd != 0 then (r, if n + (toAdd - added) < 0 then 0 else n + (toAdd - added)) :: rest
        else (r, n) :: rest
    let up := updateLoop s plan
    let sp := splitNew up.1
    ⟨match sp.1 with
      | some x => some x
      | none => nw,
     sp.2 ++ inactive cOlds, cWrites ++ up.2, false, false⟩

/-- proportional part of `scale` (several active RSs, new RS not saturated) -/
def scaleProportional (s : State) (nw : Option RS) (olds : List RS) : ScaleRes :=
  let allRSs := active (sortBy byCreationDesc olds ++ nw.toList)
  let allRSsReplicas := sumSpec allRSs
  let allowedSize := if s.replicas > 0 then s.replicas else 0
  let toAdd := allowedSize - allRSsReplicas
  if toAdd < 0 then
    -- scale down the unhealthy replicas in old replica sets first
    let c := cleanup s olds (-toAdd)
    if c.err then ⟨nw, c.olds, c.writes, true, false⟩
    else distribute s nw c.olds c.writes (toAdd + c.count) (active (c.olds ++ nw.toList))
  else distribute s nw olds [] toAdd allRSs

/-- `scale` -/
def scale (s : State) (nw : Option RS) (olds : List RS) : ScaleRes :=
  match findActiveOrLatest nw olds with
  | some r =>
    if r.spec == s.replicas then ⟨nw, olds, [], false, false⟩
    else
      let sc := scaleAndRecord s r s.replicas
      if sc.1.idx == -1 then ⟨some sc.1, olds, sc.2, false, false⟩
      else ⟨nw, replaceIdx sc.1 olds, sc.2, false, false⟩
  | none =>
    if isSaturated s nw then
      let sc := scaleAllTo s 0 (active (sortBy byCreationDesc olds))
      ⟨nw, sc.1 ++ inactive olds, sc.2, false, false⟩
    else scaleProportional s nw olds

/-! ### dispatch -/

/-- `isScalingEvent` -/
def isScalingEvent (s : State) : Bool :=
  (active (s.olds ++ s.new.toList)).any fun r =>
    match r.desired with
    | none => false
    | some d => d != s.replicas

inductive Path where
  | statusOnly | scale | rolling
  deriving Repr, DecidableEq, Inhabited

/-- outcome of one `syncDeployment` -/
structure Result where
  path : Path
  err : Bool
  undef : Bool
  writes : List Write
  new : Option RS
  olds : List RS
  statusReplicas : Int
  deriving Repr, Inhabited

/-- `rolloutRolling` -/
def rolloutRolling (s : State) : Result :=
  match getNewRS s true with
  | (none, w) => ⟨.rolling, true, false, w, none, s.olds, s.statusReplicas⟩   -- unreachable: create = true
  | (some nw, w0) =>
    let status := sumPods s.olds + nw.pods
    let rn := reconcileNew s s.olds nw
    if rn.1 then ⟨.rolling, false, false, w0 ++ rn.2.2, some rn.2.1, s.olds, status⟩
    else
      let ro := reconcileOld s s.olds nw
      ⟨.rolling, false, false, w0 ++ ro.2.2, some nw, ro.2.1, status⟩

/-- `sync` (scaling event or paused) -/
def syncScale (s : State) : Result :=
  let (nw, _) := getNewRS s false
  let r := scale s nw s.olds
  ⟨.scale, r.err, r.undef, r.writes, r.new, r.olds,
   if r.err then s.statusReplicas else sumPods s.olds + optPods nw⟩

/-- `syncDeployment` -/
def sync (s : State) : Result :=
  if s.deleting then
    let (nw, _) := getNewRS s false
    ⟨.statusOnly, false, false, [], nw, s.olds, sumPods s.olds + optPods nw⟩
  else if s.paused then syncScale s
  else if isScalingEvent s then syncScale s
  else rolloutRolling s

/-- the state after the sync -/
def post (s : State) : State :=
  let r := sync s
  { s with new := r.new, olds := r.olds, statusReplicas := r.statusReplicas,
           now := if s.new.isNone && r.new.isSome then s.now + 1 else s.now }

/-! ### environment (ReplicaSet controller, kubelet) — modelled, not verified -/

/-- one RS's status moves: pods toward spec (never past it), availability anywhere within pods -/
def envOk (r r' : RS) : Bool :=
  r' == { r with pods := r'.pods, avail := r'.avail } &&
  decide (0 ≤ r'.avail) && decide (r'.avail ≤ r'.pods) &&
  (decide (r.pods ≤ r'.pods ∧ r'.pods ≤ max r.pods r.spec) || decide (r'.pods ≤ r.pods ∧ min r.pods r.spec ≤ r'.pods))

/-- healthy complete environment step: every RS has exactly its pods, all available -/
def settle (r : RS) : RS := { r with pods := r.spec, avail := r.spec }

def envAll (s : State) : State :=
  { s with new := s.new.map settle, olds := s.olds.map settle }

/-- one round of the healthy schedule: a sync, then the environment catches up -/
def round (s : State) : State := envAll (post s)

/-- `n` rounds of the healthy schedule -/
def rounds : Nat → State → State
  | 0, s => s
  | n + 1, s => rounds n (round s)

end RV.DepSync
