/-
  One reconcile of the BatchRelease controller, **parametric in the control plane**.

  `RV.Executor` models `BatchReleaseReconciler.Reconcile` hard-wired to the partition-style CloneSet
  control plane.  Here the same reconciler is written once over a record `Plane W` of the five
  calls `control.Interface` offers (`W` = the plane's own world: the workload objects it reads and
  writes), and `RV.Executor.reconcile` is shown to be the instance for the CloneSet plane
  (`RV.Props.ExecutorX.executor_is_instance`).  Nothing of the executor is re-modelled: the ordered
  special-case chain (`syncDecide`), `refreshStatus`, `moveToNextBatch`, `isPartitioned`, the
  phase / batch-state normalisation and `handleFinalizer` are the definitions of `RV.Executor`.

  Source:
    pkg/controller/batchrelease/batchrelease_controller.go   Reconcile, handleFinalizer, updateStatus
    pkg/controller/batchrelease/batchrelease_executor.go     Do, getReleaseController, executeBatchReleasePlan,
                                                             progressBatches, moveToNextBatch, isPartitioned
    pkg/controller/batchrelease/batchrelease_status.go       syncStatusBeforeExecuting
    pkg/controller/batchrelease/control/interface.go         control.Interface
    pkg/util/workloads_utils.go                              IsSupportedWorkload, GetEmptyWorkloadObject

  Scope: no API fault inside the reconcile (the suite's fault cases are judged on the implementation's
  output alone); rollout-id empty.
-/
import RV.Model.Executor
namespace RV.ExecutorX
open RV.Arith RV.BatchCtx RV.Executor

/-- `util.WorkloadInfo` as `syncStatusBeforeExecuting` / `refreshStatus` read it: `replicas`,
    `updateRevision`, `currentRevision` (= `Status.StableRevision`), `updated`, `updatedReady`.
    It is the record the CloneSet model already uses; the other fields are not read by the executor. -/
abbrev Info := RV.Executor.Workload

/-- `control.Interface` (one freshly built control plane per reconcile) over the plane's own world `W`.
    `Event.normal` also stands for `WorkloadUnknownState`: `syncStatusBeforeExecuting` has no case for either.
    Every call may crash (`Out.panic`): nil dereferences and slice indexing inside the planes. -/
structure Plane (W : Type) where
  /-- `SyncWorkloadInformation`: event, workload info (`none` = nil) -/
  syncInfo   : BR → Status → W → Out (Event × Option Info)
  /-- `Initialize`: world after, new status (what the call recorded into `newStatus`), result -/
  init       : BR → Status → W → Out (W × Status × CallResult)
  /-- `UpgradeBatch` -/
  upgrade    : BR → Status → W → Out (W × CallResult)
  /-- `EnsureBatchPodsReadyAndLabeled` (reads only; rollout-id empty) -/
  ensure     : BR → Status → W → Out CallResult
  /-- `Finalize` -/
  fin        : BR → W → Out (W × CallResult)

variable {W : Type}

/-- `syncStatusBeforeExecuting` over a plane -/
def syncStatusX (P : Plane W) (br : BR) (ns : Status) (w : W) : Out SyncOut :=
  match P.syncInfo br ns w with
  | .panic => .panic
  | .val ei =>
    let d := syncDecide br ns ei.1 ei.2
    let ns3 := refreshStatus d.1 ei.2
    .val { status := ns3, stop := d.2 || decide (ns3 ≠ br.status) }

abbrev ExecOutX (W : Type) := Out (Status × W × Bool × Bool)   -- new status, world after, requeue, error

def execPreparingX (P : Plane W) (br : BR) (ns : Status) (w : W) : ExecOutX W :=
  match P.init br ns w with
  | .panic => .panic
  | .val r =>
    if r.2.2 = .ok then .val ({ r.2.1 with phase := .progressing }, r.1, true, false)
    else .val (r.2.1, r.1, false, true)

/-- `progressBatches` -/
def execProgressingX (P : Plane W) (br : BR) (ns0 : Status) (w : W) : ExecOutX W :=
  let ns := normState ns0
  match ns.batchState with
  | .upgrading =>
    match P.upgrade br ns w with
    | .panic => .panic
    | .val (w', .ok) => .val ({ ns with batchState := .verifying }, w', true, false)
    | .val (w', .err) => .val (ns, w', false, true)
  | .verifying =>
    match P.ensure br ns w with
    | .panic => .panic
    | .val .ok => .val ({ ns with batchState := .ready, hasReadyTime := true }, w, true, false)
    | .val .err => .val ({ ns with batchState := .upgrading }, w, false, true)
  | .ready =>
    match P.ensure br ns w with
    | .panic => .panic
    | .val .err => .val ({ ns with batchState := .upgrading, hasReadyTime := false }, w, false, true)
    | .val .ok =>
      if ¬ isPartitioned br then .val (moveToNextBatch br ns, w, true, false)
      else .val (ns, w, false, false)
  | _ => .val (ns, w, false, false)

def execFinalizingX (P : Plane W) (br : BR) (ns : Status) (w : W) : ExecOutX W :=
  match P.fin br w with
  | .panic => .panic
  | .val r =>
    if r.2 = .ok then .val ({ ns with phase := .completed }, r.1, false, false)
    else .val (ns, r.1, false, true)

/-- `executeBatchReleasePlan` -/
def executeX (P : Plane W) (br : BR) (ns0 : Status) (w : W) : ExecOutX W :=
  let ns := normPhase ns0
  match ns.phase with
  | .preparing => execPreparingX P br ns w
  | .progressing => execProgressingX P br ns w
  | .finalizing => execFinalizingX P br ns w
  | _ => .val (ns, w, false, false)

structure StepOutX (W : Type) where
  br : Option BR          -- `none`: the object is gone (finalizer removed while deleting)
  wl : W
  requeue : Bool
  err : Bool

/-- `Executor.Do` followed by `updateStatus` -/
def reconcileBodyX (P : Plane W) (br : BR) (w : W) : Out (StepOutX W) :=
  match syncStatusX P br (initializedStatus br.status) w with
  | .panic => .panic
  | .val s =>
    if s.stop then
      .val { br := some { br with status := s.status }, wl := w, requeue := decide (s.status ≠ br.status), err := false }
    else
      match executeX P br s.status w with
      | .panic => .panic
      | .val (ns', w', rq, er) => .val { br := some { br with status := ns' }, wl := w', requeue := rq, err := er }

/-- `BatchReleaseReconciler.Reconcile` for an existing BatchRelease over the plane `P`. -/
def reconcileX (P : Plane W) (br : BR) (w : W) : Out (StepOutX W) :=
  if br.deleting ∧ br.status.phase = .completed ∧ br.hasFinalizer then
    .val { br := none, wl := w, requeue := false, err := false }
  else reconcileBodyX P (withFinalizer br) w

/-! ### the CloneSet partition-style plane: the functions of `RV.Executor` -/

def csPlane : Plane (Option Workload) where
  syncInfo := fun br ns wl => .val (RV.Executor.syncInfo br ns wl)
  init := fun br ns wl => .val (initializeWl br ns wl)
  upgrade := upgradeBatch
  ensure := ensureReady
  fin := fun br wl => .val (RV.Executor.finalize br wl)

def StepOutX.toStepOut (o : StepOutX (Option Workload)) : StepOut :=
  { br := o.br, wl := o.wl, requeue := o.requeue, err := o.err }

def mapOut {α β : Type} (f : α → β) : Out α → Out β
  | .val a => .val (f a)
  | .panic => .panic

/-! ### `getReleaseController`: which plane serves which workload reference and rolling style -/

/-- `spec.workloadRef` (apiVersion, kind) as `getReleaseController` / `IsSupportedWorkload` /
    `GetEmptyWorkloadObject` classify it -/
inductive RefKind where
  | cloneSet        -- apps.kruise.io/v1alpha1 CloneSet
  | daemonSet       -- apps.kruise.io/v1alpha1 DaemonSet
  | deployment      -- apps/v1 Deployment
  | nativeSts       -- apps/v1 StatefulSet
  | advancedSts     -- apps.kruise.io/v1beta1 (or v1alpha1) StatefulSet
  | replicaSet      -- apps/v1 ReplicaSet: "supported" by group/kind, but no control plane serves it
  | unsupported     -- a group/kind that is not in `knownWorkloadGVKs` (workload-type filter on)
  deriving Repr, DecidableEq, Inhabited

/-- `spec.releasePlan.rollingStyle` -/
inductive Style where
  | empty | partition | canary | blueGreen | other
  deriving Repr, DecidableEq, Inhabited

inductive PlaneId where
  | csPartition | dsPartition | depPartition | stsLike | depCanary | csBlueGreen | depBlueGreen
  deriving Repr, DecidableEq, Inhabited

/-- `rollingStyle` after `if len(rollingStyle) == 0 && EnableExtraWorkloadForCanary { rollingStyle = Canary }` -/
def effectiveStyle (s : Style) (enableExtra : Bool) : Style :=
  if s = .empty ∧ enableExtra then .canary else s

/-- the default after the switch: the StatefulSet-like control serves StatefulSets (native, Advanced) only; the other known
    kinds that no arm serves under the given style (ReplicaSet, Deployment, CloneSet, DaemonSet) are refused like an unsupported
    workload ("rolling style … is not supported for the workload type …") — its helpers would panic on them -/
def stsArm : RefKind → Option PlaneId
  | .nativeSts | .advancedSts => some .stsLike
  | _ => none

/-- the partition-style arm of the switch (also reached from `Canary` by `fallthrough`) -/
def partitionArm : RefKind → Option PlaneId
  | .cloneSet => some .csPartition
  | .daemonSet => some .dsPartition
  | .deployment => some .depPartition
  | k => stsArm k

/-- `Executor.getReleaseController`: `none` = error "the workload type is not supported" / "rolling style is not supported for
    the workload type" -/
def dispatch (k : RefKind) (s : Style) (enableExtra : Bool) : Option PlaneId :=
  if k = .unsupported then none else
  match effectiveStyle s enableExtra with
  | .blueGreen =>
    match k with
    | .cloneSet => some .csBlueGreen
    | .deployment => some .depBlueGreen
    | _ => stsArm k
  | .canary =>
    match k with
    | .deployment => some .depCanary
    | _ => partitionArm k
  | .partition | .empty => partitionArm k
  | .other => stsArm k

/-- `Executor.Do` + `updateStatus` when `getReleaseController` fails: the initialised status is persisted,
    nothing else happens, no error is returned. -/
def reconcileNoPlane (br : BR) (w : W) : Out (StepOutX W) :=
  if br.deleting ∧ br.status.phase = .completed ∧ br.hasFinalizer then
    .val { br := none, wl := w, requeue := false, err := false }
  else
    .val { br := some { withFinalizer br with status := initializedStatus br.status }, wl := w, requeue := false, err := false }

end RV.ExecutorX
